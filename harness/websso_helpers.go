package harness

// Helpers shared by C07 and C08: the REAL web-SSO pipeline, end to end.
//
//	SP := saml.ServiceProvider{...}
//	sp.Metadata() -> xml.Marshal -> xml.Unmarshal -> registered with the IdP
//	idp.Metadata() -> xml.Marshal -> xml.Unmarshal -> sp.IDPMetadata
//	sp.MakeAuthenticationRequest -> Redirect / Post -> http.Request
//	saml.NewIdpAuthnRequest -> Validate -> DefaultAssertionMaker.MakeAssertion
//	  -> MakeAssertionEl -> MakeResponse -> PostBinding
//	form.SAMLResponse -> http POST to the ACS -> sp.ParseResponse
//
// plus the character-class alphabet of spec/XmlText.tla (concretisation and
// the wire-form renderer used to compare stage observables with the model).

import (
	"bytes"
	"crypto"
	"encoding/base64"
	"encoding/xml"
	"fmt"
	"html"
	"math/rand"
	"net/http"
	"net/http/httptest"
	"net/url"
	"os"
	"regexp"
	"strings"
	"time"

	"github.com/beevik/etree"
	dsig "github.com/russellhaering/goxmldsig"

	"github.com/crewjam/saml"
)

// ---------------------------------------------------------------------------
// configuration of one round trip

type wsCfg struct {
	EntityID string `json:"entityid"` // "set" | "unset"
	SPKey    string `json:"spkey"`    // "rsa" | "ecdsa"
	Binding  string `json:"binding"`  // "redirect" | "post"
	Signed   bool   `json:"signed"`   // SP signs its AuthnRequests
	Enc      string `json:"enc"`      // "on": the SP has a certificate and registers its metadata as published;
	//                                   "off": no certificate (unsigned requests) or, when the certificate is needed for
	//                                   request signing, the use="encryption" descriptor is removed from the published XML
	IdpKey string `json:"idpkey"`          // "rsa-key" (IdentityProvider.Key) | "rsa-signer" | "ecdsa-signer" (IdentityProvider.Signer)
	Hash   string `json:"hash"`            // "default" (field left empty) | "sha1" | "sha256" | "sha384" | "sha512"
	MdAge  string `json:"mdage,omitempty"` // "stale": both metadata documents were published three days ago (validUntil has passed)
	ReqAttrs bool `json:"reqattrs,omitempty"` // the registered SP metadata requests attributes (AttributeConsumingService)
}

// what the SP asks for, and the session field the library documents for each name
var wsRequested = []struct{ Name, Format, Field string }{
	{"user_id", "urn:oasis:names:tc:SAML:2.0:attrname-format:basic", "UserName"},
	{"email", "urn:oasis:names:tc:SAML:2.0:attrname-format:basic", "UserEmail"},
	{"first_name", "urn:oasis:names:tc:SAML:2.0:attrname-format:unspecified", "UserGivenName"},
	{"last_name", "urn:oasis:names:tc:SAML:2.0:attrname-format:basic", "UserSurname"},
	{"full_name", "urn:oasis:names:tc:SAML:2.0:attrname-format:basic", "UserCommonName"},
}

// wsAddRequestedAttributes adds an AttributeConsumingService to published SP metadata XML.
func wsAddRequestedAttributes(b []byte) ([]byte, *saml.EntityDescriptor, error) {
	doc := etree.NewDocument()
	if err := doc.ReadFromBytes(b); err != nil {
		return nil, nil, err
	}
	sd := doc.FindElement("//SPSSODescriptor")
	if sd == nil {
		return nil, nil, fmt.Errorf("no SPSSODescriptor in the published metadata")
	}
	acs := sd.CreateElement("AttributeConsumingService")
	acs.CreateAttr("index", "1")
	acs.CreateAttr("isDefault", "true")
	acs.CreateElement("ServiceName").SetText("the application")
	for _, r := range wsRequested {
		ra := acs.CreateElement("RequestedAttribute")
		ra.CreateAttr("Name", r.Name)
		ra.CreateAttr("NameFormat", r.Format)
	}
	nb, err := doc.WriteToBytes()
	if err != nil {
		return nil, nil, err
	}
	out := &saml.EntityDescriptor{}
	if err := xml.Unmarshal(nb, out); err != nil {
		return nil, nil, err
	}
	return nb, out, nil
}

func (c wsCfg) String() string {
	s := fmt.Sprintf("entityid=%s,spkey=%s,binding=%s,signed=%v,enc=%s,idpkey=%s,hash=%s", c.EntityID, c.SPKey, c.Binding, c.Signed, c.Enc, c.IdpKey, c.Hash)
	if c.MdAge == "stale" {
		s += ",mdage=stale"
	}
	if c.ReqAttrs {
		s += ",reqattrs"
	}
	return s
}

var reValidUntil = regexp.MustCompile(`validUntil="[^"]*"`)

// wsAgeMetadata turns a metadata document into the one the same party published three days earlier:
// its validUntil (two days after publication) lies in the past.
func wsAgeMetadata(b []byte) ([]byte, *saml.EntityDescriptor, error) {
	past := saml.TimeNow().Add(-24 * time.Hour).UTC().Format("2006-01-02T15:04:05.000Z")
	if !reValidUntil.Match(b) {
		return nil, nil, fmt.Errorf("published metadata carries no validUntil")
	}
	b = reValidUntil.ReplaceAll(b, []byte(`validUntil="`+past+`"`))
	out := &saml.EntityDescriptor{}
	if err := xml.Unmarshal(b, out); err != nil {
		return nil, nil, err
	}
	return b, out, nil
}

var wsNow = time.Date(2024, 5, 20, 9, 30, 0, 0, time.UTC)

func wsSigMethod(keyKind, hash string) string {
	ec := strings.HasPrefix(keyKind, "ecdsa")
	switch hash {
	case "sha1":
		if ec {
			return dsig.ECDSASHA1SignatureMethod
		}
		return dsig.RSASHA1SignatureMethod
	case "sha256":
		if ec {
			return dsig.ECDSASHA256SignatureMethod
		}
		return dsig.RSASHA256SignatureMethod
	case "sha384":
		if ec {
			return dsig.ECDSASHA384SignatureMethod
		}
		return dsig.RSASHA384SignatureMethod
	case "sha512":
		if ec {
			return dsig.ECDSASHA512SignatureMethod
		}
		return dsig.RSASHA512SignatureMethod
	}
	return "" // library default
}

type wsSPP struct {
	m map[string]*saml.EntityDescriptor
}

func (p wsSPP) GetServiceProvider(_ *http.Request, id string) (*saml.EntityDescriptor, error) {
	if md, ok := p.m[id]; ok {
		return md, nil
	}
	return nil, os.ErrNotExist
}

// wsNewIdP builds the identity provider of the configuration.
func wsNewIdP(c wsCfg, reg wsSPP) *saml.IdentityProvider {
	idp := &saml.IdentityProvider{
		MetadataURL:             mustURL(idpEntityID),
		SSOURL:                  mustURL(idpSSOURL),
		LogoutURL:               mustURL(idpSLOURL),
		ServiceProviderProvider: reg,
		Logger:                  quietLogger,
	}
	switch c.IdpKey {
	case "rsa-signer":
		k := key("idp1")
		idp.Signer, idp.Certificate = k.Key, k.Cert
	case "ecdsa-signer":
		k := key("ec256")
		idp.Signer, idp.Certificate = k.Key, k.Cert
	default:
		k := key("idp1")
		idp.Key, idp.Certificate = crypto.PrivateKey(k.Key), k.Cert
	}
	idp.SignatureMethod = wsSigMethod(c.IdpKey, c.Hash)
	if idp.SignatureMethod == "" && c.IdpKey == "ecdsa-signer" {
		// the library default (rsa-sha1) cannot be used with an ECDSA key
		idp.SignatureMethod = dsig.ECDSASHA256SignatureMethod
	}
	return idp
}

// wsNewSP builds the service provider of the configuration (IDPMetadata still unset).
func wsNewSP(c wsCfg) *saml.ServiceProvider {
	kp := key("sp")
	if c.SPKey == "ecdsa" {
		kp = key("ec256b")
	}
	s := &saml.ServiceProvider{
		Key:         kp.Key,
		MetadataURL: mustURL(spMetadata),
		AcsURL:      mustURL(spACS),
		SloURL:      mustURL(spSLO),
	}
	if c.EntityID == "set" {
		s.EntityID = spEntityID
	}
	if c.Enc == "on" || c.Signed {
		s.Certificate = kp.Cert
	}
	if c.Signed {
		s.SignatureMethod = wsSigMethod(c.SPKey, "sha256")
	}
	return s
}

// wsRoundTripMD serialises a metadata value to XML and parses it back.
func wsRoundTripMD(md *saml.EntityDescriptor) (*saml.EntityDescriptor, []byte, error) {
	b, err := xml.MarshalIndent(md, "", "  ")
	if err != nil {
		return nil, nil, err
	}
	out := &saml.EntityDescriptor{}
	if err := xml.Unmarshal(b, out); err != nil {
		return nil, b, err
	}
	return out, b, nil
}

// wsStripEncryptionDescriptor removes use="encryption" key descriptors from metadata XML
// (an SP that needs its certificate for request signing but does not want encrypted assertions).
func wsStripEncryptionDescriptor(b []byte) ([]byte, error) {
	doc := etree.NewDocument()
	if err := doc.ReadFromBytes(b); err != nil {
		return nil, err
	}
	for _, kd := range doc.FindElements("//KeyDescriptor") {
		if kd.SelectAttrValue("use", "") == "encryption" {
			kd.Parent().RemoveChild(kd)
		}
	}
	return doc.WriteToBytes()
}

type wsStages struct {
	SPMetadataXML  []byte
	IDPMetadataXML []byte
	RequestID      string
	Req            *saml.IdpAuthnRequest
	Form           saml.IdpAuthnRequestForm
	ResponseXML    []byte // base64-decoded SAMLResponse
	Stage          string // last stage reached
	Err            error
	Assertion      *saml.Assertion
}

var reSAMLRequestField = regexp.MustCompile(`name="SAMLRequest" value="([^"]*)"`)

// wsFlow is one prepared deployment: SP, IdP, each configured from the other's
// published metadata after an XML round trip.
type wsFlow struct {
	Cfg   wsCfg
	SP    *saml.ServiceProvider
	IdP   *saml.IdentityProvider
	SPXML []byte
	IDXML []byte
}

// wsSetup publishes, serialises, re-parses and registers the metadata in both directions.
// enc=off with a certificate present (signed requests) strips the encryption descriptor from the published XML.
func wsSetup(c wsCfg) (*wsFlow, error) {
	stripEnc := c.Enc != "on" && c.Signed
	reg := wsSPP{m: map[string]*saml.EntityDescriptor{}}
	idp := wsNewIdP(c, reg)
	s := wsNewSP(c)

	idpMD, idxml, err := wsRoundTripMD(idp.Metadata())
	if err != nil {
		return nil, fmt.Errorf("idp metadata round trip: %w", err)
	}
	if c.MdAge == "stale" {
		if idxml, idpMD, err = wsAgeMetadata(idxml); err != nil {
			return nil, fmt.Errorf("idp metadata: %w", err)
		}
	}
	s.IDPMetadata = idpMD

	spMD, spxml, err := wsRoundTripMD(s.Metadata())
	if err != nil {
		return nil, fmt.Errorf("sp metadata round trip: %w", err)
	}
	if stripEnc {
		spxml, err = wsStripEncryptionDescriptor(spxml)
		if err != nil {
			return nil, err
		}
		spMD = &saml.EntityDescriptor{}
		if err := xml.Unmarshal(spxml, spMD); err != nil {
			return nil, err
		}
	}
	if c.MdAge == "stale" {
		if spxml, spMD, err = wsAgeMetadata(spxml); err != nil {
			return nil, fmt.Errorf("sp metadata: %w", err)
		}
	}
	if c.ReqAttrs {
		if spxml, spMD, err = wsAddRequestedAttributes(spxml); err != nil {
			return nil, fmt.Errorf("sp metadata: %w", err)
		}
	}
	reg.m[spMD.EntityID] = spMD
	return &wsFlow{Cfg: c, SP: s, IdP: idp, SPXML: spxml, IDXML: idxml}, nil
}

// wsAuthnHTTPRequest has the SP make a real AuthnRequest and turns it into the HTTP
// request the browser would deliver to the IdP.
func wsAuthnHTTPRequest(f *wsFlow, relay string) (*http.Request, string, error) {
	var r *http.Request
	var id string
	if f.Cfg.Binding == "post" {
		ar, err := f.SP.MakeAuthenticationRequest(f.SP.GetSSOBindingLocation(saml.HTTPPostBinding), saml.HTTPPostBinding, saml.HTTPPostBinding)
		if err != nil {
			return nil, "", err
		}
		id = ar.ID
		page := ar.Post(relay)
		m := reSAMLRequestField.FindSubmatch(page)
		if m == nil {
			return nil, "", fmt.Errorf("no SAMLRequest field in the SP's POST page")
		}
		form := url.Values{}
		form.Set("SAMLRequest", html.UnescapeString(string(m[1])))
		form.Set("RelayState", relay)
		r = httptest.NewRequest("POST", idpSSOURL, strings.NewReader(form.Encode()))
		r.Header.Set("Content-Type", "application/x-www-form-urlencoded")
	} else {
		ar, err := f.SP.MakeAuthenticationRequest(f.SP.GetSSOBindingLocation(saml.HTTPRedirectBinding), saml.HTTPRedirectBinding, saml.HTTPPostBinding)
		if err != nil {
			return nil, "", err
		}
		id = ar.ID
		u, err := ar.Redirect(relay, f.SP)
		if err != nil {
			return nil, "", err
		}
		r = httptest.NewRequest("GET", u.String(), nil)
	}
	r.RemoteAddr = "192.0.2.7:4711"
	return r, id, nil
}

// wsIdPRespond runs the IdP half: parse + validate the request, make the assertion from
// the session, sign (and encrypt), wrap into a Response, produce the POST form.
func wsIdPRespond(f *wsFlow, r *http.Request, session *saml.Session, st *wsStages) {
	st.Stage = "NewIdpAuthnRequest"
	req, err := saml.NewIdpAuthnRequest(f.IdP, r)
	if err != nil {
		st.Err = err
		return
	}
	st.Req = req
	st.Stage = "Validate"
	if err := req.Validate(); err != nil {
		st.Err = err
		return
	}
	st.Stage = "MakeAssertion"
	if err := (saml.DefaultAssertionMaker{}).MakeAssertion(req, session); err != nil {
		st.Err = err
		return
	}
	st.Stage = "MakeAssertionEl"
	if err := req.MakeAssertionEl(); err != nil {
		st.Err = err
		return
	}
	st.Stage = "MakeResponse"
	if err := req.MakeResponse(); err != nil {
		st.Err = err
		return
	}
	st.Stage = "PostBinding"
	form, err := req.PostBinding()
	if err != nil {
		st.Err = err
		return
	}
	st.Form = form
	st.Stage = "Base64"
	st.ResponseXML, err = base64.StdEncoding.DecodeString(form.SAMLResponse)
	if err != nil {
		st.Err = err
		return
	}
	st.Stage = "emitted"
}

// wsSPConsume delivers the form to the SP's ACS through the HTTP entry point.
func wsSPConsume(f *wsFlow, form saml.IdpAuthnRequestForm, requestID string) (*saml.Assertion, error) {
	v := url.Values{}
	v.Set("SAMLResponse", form.SAMLResponse)
	v.Set("RelayState", form.RelayState)
	r := httptest.NewRequest("POST", form.URL, strings.NewReader(v.Encode()))
	r.Header.Set("Content-Type", "application/x-www-form-urlencoded")
	if err := r.ParseForm(); err != nil {
		return nil, err
	}
	return f.SP.ParseResponse(r, []string{requestID})
}

// wsRun runs the whole round trip for one session.
func wsRun(f *wsFlow, session *saml.Session, relay string) *wsStages {
	st := &wsStages{SPMetadataXML: f.SPXML, IDPMetadataXML: f.IDXML}
	st.Stage = "AuthnRequest"
	r, id, err := wsAuthnHTTPRequest(f, relay)
	if err != nil {
		st.Err = err
		return st
	}
	st.RequestID = id
	wsIdPRespond(f, r, session, st)
	if st.Err != nil {
		return st
	}
	st.Stage = "ParseResponse"
	a, err := wsSPConsume(f, st.Form, id)
	if err != nil {
		st.Err = err
		return st
	}
	st.Assertion = a
	st.Stage = "accepted"
	return st
}

func wsErrText(err error) string {
	if err == nil {
		return ""
	}
	if ire, ok := err.(*saml.InvalidResponseError); ok && ire.PrivateErr != nil {
		return "InvalidResponseError: " + ire.PrivateErr.Error()
	}
	return err.Error()
}

// ---------------------------------------------------------------------------
// expected attribute list (DESIGN Appendix B.3), written from the session only

type wsAttr struct {
	Name         string   `json:"name"`
	FriendlyName string   `json:"friendly"`
	NameFormat   string   `json:"format"`
	Values       []string `json:"values"`
}

const wsURI = "urn:oasis:names:tc:SAML:2.0:attrname-format:uri"

// wsExpectedAttrs: no attribute-consuming service is published by ServiceProvider.Metadata,
// so the list starts with the fixed attributes.
func wsExpectedAttrs(s *saml.Session, requested bool) []wsAttr {
	var out []wsAttr
	if requested {
		// requested attributes come first, under the requested name and format, each with its documented session field
		field := map[string]string{"UserName": s.UserName, "UserEmail": s.UserEmail, "UserGivenName": s.UserGivenName,
			"UserSurname": s.UserSurname, "UserCommonName": s.UserCommonName}
		for _, r := range wsRequested {
			out = append(out, wsAttr{Name: r.Name, NameFormat: r.Format, Values: []string{field[r.Field]}})
		}
	}
	add := func(fn, n, v string) {
		out = append(out, wsAttr{Name: n, FriendlyName: fn, NameFormat: wsURI, Values: []string{v}})
	}
	if s.UserName != "" {
		add("uid", "urn:oid:0.9.2342.19200300.100.1.1", s.UserName)
	}
	if s.UserEmail != "" {
		add("mail", "urn:oid:0.9.2342.19200300.100.1.3", s.UserEmail)
	}
	if s.EduPersonPrincipalName != "" || s.UserEmail != "" {
		v := s.EduPersonPrincipalName
		if v == "" {
			v = s.UserEmail
		}
		add("eduPersonPrincipalName", "urn:oid:1.3.6.1.4.1.5923.1.1.1.6", v)
	}
	if s.UserSurname != "" {
		add("sn", "urn:oid:2.5.4.4", s.UserSurname)
	}
	if s.UserGivenName != "" {
		add("givenName", "urn:oid:2.5.4.42", s.UserGivenName)
	}
	if s.UserCommonName != "" {
		add("cn", "urn:oid:2.5.4.3", s.UserCommonName)
	}
	if s.UserScopedAffiliation != "" {
		add("scopedAffiliation", "urn:oid:1.3.6.1.4.1.5923.1.1.1.9", s.UserScopedAffiliation)
	}
	for _, ca := range s.CustomAttributes {
		a := wsAttr{Name: ca.Name, FriendlyName: ca.FriendlyName, NameFormat: ca.NameFormat}
		for _, v := range ca.Values {
			a.Values = append(a.Values, v.Value)
		}
		out = append(out, a)
	}
	if len(s.Groups) != 0 {
		out = append(out, wsAttr{Name: "urn:oid:1.3.6.1.4.1.5923.1.1.1.1", FriendlyName: "eduPersonAffiliation", NameFormat: wsURI, Values: append([]string(nil), s.Groups...)})
	}
	if s.SubjectID != "" {
		out = append(out, wsAttr{Name: "urn:oasis:names:tc:SAML:attribute:subject-id", NameFormat: wsURI, Values: []string{s.SubjectID}})
	}
	return out
}

func wsReturnedAttrs(a *saml.Assertion) []wsAttr {
	var out []wsAttr
	for _, st := range a.AttributeStatements {
		for _, at := range st.Attributes {
			w := wsAttr{Name: at.Name, FriendlyName: at.FriendlyName, NameFormat: at.NameFormat}
			for _, v := range at.Values {
				w.Values = append(w.Values, v.Value)
			}
			out = append(out, w)
		}
	}
	return out
}

// wsDiffAttrs returns "" when the two ordered lists are byte-for-byte equal.
func wsDiffAttrs(want, got []wsAttr) string {
	if len(want) != len(got) {
		return fmt.Sprintf("attribute count: want %d got %d", len(want), len(got))
	}
	for i := range want {
		w, g := want[i], got[i]
		if w.Name != g.Name {
			return fmt.Sprintf("attribute %d Name: want %q got %q", i, w.Name, g.Name)
		}
		if w.FriendlyName != g.FriendlyName {
			return fmt.Sprintf("attribute %d (%s) FriendlyName: want %q got %q", i, w.Name, w.FriendlyName, g.FriendlyName)
		}
		if w.NameFormat != g.NameFormat {
			return fmt.Sprintf("attribute %d (%s) NameFormat: want %q got %q", i, w.Name, w.NameFormat, g.NameFormat)
		}
		if len(w.Values) != len(g.Values) {
			return fmt.Sprintf("attribute %d (%s) value count: want %d got %d", i, w.Name, len(w.Values), len(g.Values))
		}
		for j := range w.Values {
			if w.Values[j] != g.Values[j] {
				return fmt.Sprintf("attribute %d (%s) value %d: want %q got %q", i, w.Name, j, w.Values[j], g.Values[j])
			}
		}
	}
	return ""
}

// ---------------------------------------------------------------------------
// character classes of spec/XmlText.tla

var wsPlainRunes = []rune("abcXYZ019-_.:@/+=~!#$%()*,;?[]^`{|}é中")

// wsClassReps lists concrete representatives of a class (each a complete string piece).
func wsClassReps(class string) []string {
	switch class {
	case "plain":
		return nil // drawn at random from wsPlainRunes
	case "lt":
		return []string{"<"}
	case "gt":
		return []string{">"}
	case "amp":
		return []string{"&", "&amp;", "&#13;", "&lt;", "&#x0A;"} // literal text that looks like a reference
	case "dquote":
		return []string{`"`}
	case "squote":
		return []string{"'"}
	case "CR":
		return []string{"\r"}
	case "LF":
		return []string{"\n"}
	case "TAB":
		return []string{"\t"}
	case "space":
		return []string{" ", "  "}
	case "cdataEnd":
		return []string{"]]>"}
	case "commentStart":
		return []string{"<!--", "<![CDATA[", "<?xml "}
	case "nonBMP":
		return []string{"\U0001F600", "\U00010000", "\U0010FFFD", "\U00020BB7"}
	case "u2028":
		return []string{"\u2028", "\u2029"}
	case "NEL":
		return []string{"\u0085"}
	case "xmlInvalid":
		return []string{"\x00", "\x01", "\x0b", "\x1f", "\ufffe", "\uffff", "\xff", "\xed\xa0\x80"}
	}
	panic("unknown class " + class)
}

// wsConcretise turns a class-string into concrete pieces (one per class symbol).
func wsConcretise(classes []string, rng *rand.Rand) []string {
	out := make([]string, len(classes))
	for i, c := range classes {
		reps := wsClassReps(c)
		if reps == nil {
			n := 1 + rng.Intn(3)
			var sb strings.Builder
			for k := 0; k < n; k++ {
				sb.WriteRune(wsPlainRunes[rng.Intn(len(wsPlainRunes))])
			}
			out[i] = sb.String()
			continue
		}
		out[i] = reps[rng.Intn(len(reps))]
	}
	return out
}

// wsRender writes concrete pieces in the wire form the model predicts for a stage.
// forms[i] is "raw" (the characters themselves), "ent" (predefined entity for the
// class's markup character) or "ref" (numeric character reference).
func wsRender(classes, pieces, forms []string) string {
	var sb strings.Builder
	for i, p := range pieces {
		f := "raw"
		if i < len(forms) {
			f = forms[i]
		}
		if f == "raw" {
			sb.WriteString(p)
			continue
		}
		for _, r := range p {
			switch {
			case f == "ent" && r == '<':
				sb.WriteString("&lt;")
			case f == "ent" && r == '>':
				sb.WriteString("&gt;")
			case f == "ent" && r == '&':
				sb.WriteString("&amp;")
			case f == "ent" && r == '"':
				sb.WriteString("&quot;")
			case f == "ent" && r == '\'':
				sb.WriteString("&apos;")
			case f == "ref" && r == '\r':
				sb.WriteString("&#xD;")
			case f == "ref" && r == '\n':
				sb.WriteString("&#xA;")
			case f == "ref" && r == '\t':
				sb.WriteString("&#x9;")
			default:
				sb.WriteRune(r)
			}
		}
	}
	_ = classes
	return sb.String()
}

// ---------------------------------------------------------------------------
// locating the serialised form of one session position in emitted XML

const (
	wsCustName   = "urn:verif:custom-name"
	wsCustFN     = "verifCustomFriendly"
	wsCustFormat = "urn:verif:custom-format"
	wsCustValue  = "verif-custom-value"
)

// wsPositions: session field -> (kind, locator)
var wsTextPositions = map[string]string{ // position -> FriendlyName of the carrying attribute ("" = special)
	"UserName": "uid", "UserEmail": "mail", "UserCommonName": "cn", "UserSurname": "sn",
	"UserGivenName": "givenName", "UserScopedAffiliation": "scopedAffiliation", "Group": "eduPersonAffiliation",
	"CustomValue": wsCustFN,
}

func wsPosKind(pos string) string {
	switch pos {
	case "CustomName", "CustomFriendlyName", "SessionIndex":
		return "attr"
	}
	return "text"
}

// wsWireOf extracts the raw serialised bytes of the position's value from xmlText.
func wsWireOf(xmlText, pos string) (string, bool) {
	inner := func(from int, tag string) (string, bool) {
		i := strings.Index(xmlText[from:], "<"+tag)
		if i < 0 {
			return "", false
		}
		i += from
		j := strings.IndexByte(xmlText[i:], '>')
		if j < 0 {
			return "", false
		}
		j += i
		if xmlText[j-1] == '/' {
			return "", true
		}
		k := strings.Index(xmlText[j:], "</"+tag+">")
		if k < 0 {
			return "", false
		}
		return xmlText[j+1 : j+k], true
	}
	attrVal := func(marker string) (string, bool) {
		i := strings.Index(xmlText, marker)
		if i < 0 {
			return "", false
		}
		i += len(marker)
		j := strings.IndexByte(xmlText[i:], '"')
		if j < 0 {
			return "", false
		}
		return xmlText[i : i+j], true
	}
	switch pos {
	case "NameID":
		return inner(0, "saml:NameID")
	case "SubjectID":
		i := strings.Index(xmlText, `Name="urn:oasis:names:tc:SAML:attribute:subject-id"`)
		if i < 0 {
			return "", false
		}
		return inner(i, "saml:AttributeValue")
	case "SessionIndex":
		return attrVal(` SessionIndex="`)
	case "CustomName":
		return attrVal(`FriendlyName="` + wsCustFN + `" Name="`)
	case "CustomFriendlyName":
		j := strings.Index(xmlText, `" Name="`+wsCustName+`"`)
		if j < 0 {
			return "", false
		}
		m := `<saml:Attribute FriendlyName="`
		i := strings.LastIndex(xmlText[:j], m)
		if i < 0 {
			// an empty friendly name is not written at all
			if strings.Contains(xmlText, `<saml:Attribute Name="`+wsCustName+`"`) {
				return "", true
			}
			return "", false
		}
		return xmlText[i+len(m) : j], true
	}
	if fn, ok := wsTextPositions[pos]; ok {
		i := strings.Index(xmlText, `FriendlyName="`+fn+`"`)
		if i < 0 {
			return "", false
		}
		if pos == "Group" { // the hostile group is the second of three values
			j := strings.Index(xmlText[i:], "</saml:AttributeValue>")
			if j < 0 {
				return "", false
			}
			i += j + 1
		}
		return inner(i, "saml:AttributeValue")
	}
	return "", false
}

// wsParsedValueOf parses xmlText with etree (the SP's parser) and reads the position's value.
func wsParsedValueOf(xmlText []byte, pos string) (string, bool) {
	doc := etree.NewDocument()
	if err := doc.ReadFromBytes(xmlText); err != nil || doc.Root() == nil {
		return "", false
	}
	root := doc.Root()
	attrByFN := func(fn string) *etree.Element {
		for _, a := range root.FindElements("//Attribute") {
			if a.SelectAttrValue("FriendlyName", "") == fn {
				return a
			}
		}
		return nil
	}
	switch pos {
	case "NameID":
		if e := root.FindElement("//NameID"); e != nil {
			return e.Text(), true
		}
	case "SubjectID":
		for _, a := range root.FindElements("//Attribute") {
			if a.SelectAttrValue("Name", "") == "urn:oasis:names:tc:SAML:attribute:subject-id" {
				if v := a.FindElement("./AttributeValue"); v != nil {
					return v.Text(), true
				}
			}
		}
	case "SessionIndex":
		if e := root.FindElement("//AuthnStatement"); e != nil {
			return e.SelectAttrValue("SessionIndex", ""), true
		}
	case "CustomName":
		if a := attrByFN(wsCustFN); a != nil {
			return a.SelectAttrValue("Name", ""), true
		}
	case "CustomFriendlyName":
		for _, a := range root.FindElements("//Attribute") {
			if a.SelectAttrValue("Name", "") == wsCustName {
				return a.SelectAttrValue("FriendlyName", ""), true
			}
		}
	default:
		if fn, ok := wsTextPositions[pos]; ok {
			if a := attrByFN(fn); a != nil {
				vs := a.FindElements("./AttributeValue")
				k := 0
				if pos == "Group" {
					k = 1
				}
				if k < len(vs) {
					return vs[k].Text(), true
				}
			}
		}
	}
	return "", false
}

// wsCanonical returns the exclusive-c14n octets of an element (goxmldsig as instrument).
func wsCanonical(el *etree.Element) ([]byte, error) {
	return dsig.MakeC14N10ExclusiveCanonicalizerWithPrefixList("").Canonicalize(el.Copy())
}

func wsElBytes(el *etree.Element) []byte {
	doc := etree.NewDocument()
	doc.SetRoot(el.Copy())
	b, _ := doc.WriteToBytes()
	return b
}

// wsSessionFor places value at the position; every other field holds a benign constant.
func wsSessionFor(pos, value string) *saml.Session {
	s := &saml.Session{
		ID:         "sess-id-1",
		CreateTime: wsNow.Add(-time.Minute),
		ExpireTime: wsNow.Add(time.Hour),
		Index:      "idx-benign",
		NameID:     "nameid-benign",
		SubjectID:  "subject-benign",
		// a list, not a set: the same group twice stays twice
		Groups:                []string{"group-a", "group-b", "group-a"},
		UserName:              "user-benign",
		UserEmail:             "mail-benign@example.com",
		UserCommonName:        "cn-benign",
		UserSurname:           "sn-benign",
		UserGivenName:         "gn-benign",
		UserScopedAffiliation: "aff-benign@example.com",
		// both the mail address and a different principal name: eduPersonPrincipalName must carry the latter
		EduPersonPrincipalName: "eppn-benign@example.edu",
		CustomAttributes: []saml.Attribute{{
			FriendlyName: wsCustFN, Name: wsCustName, NameFormat: wsCustFormat,
			Values: []saml.AttributeValue{{Type: "xs:string", Value: wsCustValue}},
		}},
	}
	switch pos {
	case "NameID":
		s.NameID = value
	case "UserName":
		s.UserName = value
	case "UserEmail":
		s.UserEmail = value
	case "UserCommonName":
		s.UserCommonName = value
	case "UserSurname":
		s.UserSurname = value
	case "UserGivenName":
		s.UserGivenName = value
	case "UserScopedAffiliation":
		s.UserScopedAffiliation = value
	case "Group":
		s.Groups = []string{"group-a", value, "group-b", value}
	case "CustomName":
		s.CustomAttributes[0].Name = value
	case "CustomFriendlyName":
		s.CustomAttributes[0].FriendlyName = value
	case "CustomValue":
		s.CustomAttributes[0].Values[0].Value = value
	case "SubjectID":
		s.SubjectID = value
	case "SessionIndex":
		s.Index = value
	default:
		panic("unknown position " + pos)
	}
	return s
}

var _ = bytes.Equal
