package harness

import (
	"bufio"
	"context"
	"errors"
	"fmt"
	"io"
	"net"
	"net/http"
	"net/url"
	"sync"
	"sync/atomic"
	"time"
)

// An artifact resolution endpoint that STALLS (spec/Totality.tla, StallCls x BoundCls x ClientCls):
// it accepts the back-channel request and never answers ("stall"), or answers the status line and
// the headers and never the body ("stallbody").  The call is bounded either by the SP's own client
// timeout or ONLY by the context of the incoming request (a deadline, or an explicit cancellation).
// The statement's oracle: ParseResponse returns (nil, *InvalidResponseError); here: within
// c09StallGrace after the bound has ended.  A normal return takes a few milliseconds after the
// bound; the grace is several thousand times that, so a loaded machine cannot turn a return into
// a "hang".

const (
	// deadline of the incoming request / client timeout (an explicit cancellation comes 50 ms after
	// the endpoint has seen the request).  When the machine is so loaded that the bound ends before
	// the request has reached the endpoint, the case is run again with four times the bound.
	c09StallBound = 300 * time.Millisecond
	c09StallGrace = 25 * time.Second
)

func c09Stalled(res string) bool { return res == "stall" || res == "stallbody" }

// c09StallKey names the cell of resolver behaviour x bound x client.
func c09StallKey(in *c09In) string {
	if in.Bound == "client" {
		return "C09:artifact:resolver-" + in.Res + ":client-timeout:hang"
	}
	return "C09:artifact:resolver-" + in.Res + ":context-" + in.Bound + ":client-" + in.Client + ":hang"
}

// c09StallBody is the body of an answer whose headers came: a few bytes, then nothing until the
// request's context is done (what the body of a net/http.Transport response does).
type c09StallBody struct {
	ctx     context.Context
	release <-chan struct{}
	data    []byte // what comes before the silence
	pos     int
	c09BodyLife
}

func (b *c09StallBody) Read(p []byte) (int, error) {
	b.reading()
	if b.pos < len(b.data) {
		n := copy(p, b.data[b.pos:])
		b.pos += n
		return n, nil
	}
	select {
	case <-b.ctx.Done():
		return 0, b.ctx.Err()
	case <-b.release:
		return 0, io.ErrUnexpectedEOF
	}
}

// c09StallPrefix is what a "stallbody" endpoint sends of a complete valid answer before it goes silent:
// nothing, half of it, or all of it (the end of the stream never comes).
func c09StallPrefix(full []byte, rdpt string) []byte {
	switch rdpt {
	case "start":
		return nil
	case "end":
		return full
	}
	return full[:len(full)/2]
}

// c09Reached counts the requests the stalled endpoint has seen; ch is closed at the first.
type c09Reached struct {
	n    atomic.Int32
	once sync.Once
	ch   chan struct{}
}

func (r *c09Reached) Add(int32) {
	r.n.Add(1)
	r.once.Do(func() { close(r.ch) })
}
func (r *c09Reached) Load() int32 { return r.n.Load() }

// c09StallRT is the stalled endpoint as an http.RoundTripper: like net/http.Transport it gives up
// only when the context of the request it was handed is done.
// answer builds the complete valid answer to the ArtifactResolve it is given; the body that was handed
// out is stored in served.
func c09StallRT(in *c09In, reached *c09Reached, release <-chan struct{}, answer func(req []byte) []byte, closeErr error, served *atomic.Pointer[c09StallBody]) http.RoundTripper {
	res := in.Res
	return rtFunc(func(r *http.Request) (*http.Response, error) {
		var req []byte
		if r.Body != nil {
			req, _ = io.ReadAll(r.Body)
			r.Body.Close()
		}
		reached.Add(1)
		if res == "stallbody" {
			b := &c09StallBody{ctx: r.Context(), release: release, data: c09StallPrefix(answer(req), in.Rdpt)}
			b.closeErr = closeErr
			served.Store(b)
			return &http.Response{StatusCode: 200, Status: "200 OK", Proto: "HTTP/1.1", ProtoMajor: 1, ProtoMinor: 1,
				Header: http.Header{"Content-Type": {"text/xml"}}, ContentLength: -1, Request: r,
				Body: b}, nil
		}
		select {
		case <-r.Context().Done():
			return nil, r.Context().Err()
		case <-release:
			return nil, errors.New("the harness gave the stalled endpoint up")
		}
	})
}

// c09StallListener is the stalled endpoint as a real loopback TCP listener: it accepts, reads the
// request, and writes nothing ("stall") or the headers and the first bytes of a body that never
// ends ("stallbody").  Connections stay open until stop is called.
type c09StallListener struct {
	ln        net.Listener
	mu        sync.Mutex
	conns     []net.Conn
	wg        sync.WaitGroup // the connection handlers
	accepting chan struct{}  // closed when the accept loop has ended
}

func c09StallListen(in *c09In, reached *c09Reached, answer func(req []byte) []byte) (*c09StallListener, error) {
	res := in.Res
	ln, err := net.Listen("tcp", "127.0.0.1:0")
	if err != nil {
		return nil, err
	}
	l := &c09StallListener{ln: ln, accepting: make(chan struct{})}
	go func() {
		defer close(l.accepting)
		for {
			conn, err := ln.Accept()
			if err != nil {
				return
			}
			l.mu.Lock()
			l.conns = append(l.conns, conn)
			l.mu.Unlock()
			l.wg.Add(1)
			go func() {
				defer l.wg.Done()
				br := bufio.NewReader(conn)
				req, err := http.ReadRequest(br)
				if err != nil {
					return
				}
				body, _ := io.ReadAll(req.Body)
				reached.Add(1)
				if res == "stallbody" {
					// the announced length is never reached: the body goes silent where the class says
					full := answer(body)
					fmt.Fprintf(conn, "HTTP/1.1 200 OK\r\nContent-Type: text/xml\r\nContent-Length: %d\r\n\r\n", len(full)+100000)
					conn.Write(c09StallPrefix(full, in.Rdpt))
				}
				// nothing more is written; the read returns when the peer or stop() closes the connection
				io.Copy(io.Discard, br)
			}()
		}
	}()
	return l, nil
}

func (l *c09StallListener) url() string { return "http://" + l.ln.Addr().String() + "/saml/artifact" }

// stop closes the listener and every connection it accepted.  The accept loop is waited for BEFORE the
// connections are closed: a connection that Accept handed out while the listener was being closed (a dial
// of the transport that completed after its request had been given up) would otherwise be registered
// after the sweep and never be closed - its handler, and with it this function, would wait for a peer
// that keeps the idle connection open for ever.
func (l *c09StallListener) stop() {
	l.ln.Close()
	<-l.accepting
	l.mu.Lock()
	for _, c := range l.conns {
		c.Close()
	}
	l.mu.Unlock()
	done := make(chan struct{})
	go func() { l.wg.Wait(); close(done) }()
	select {
	case <-done:
	case <-time.After(10 * time.Second): // a handler that does not end is left behind rather than waited for
	}
}

// runStall: ParseResponse with a SAMLart parameter against a stalled artifact resolution endpoint.
// Variants: "rt" (the endpoint is a RoundTripper of the SP's own client - not possible with
// sp.HTTPClient == nil, which means http.DefaultClient) and "tcp" (a loopback listener; the default
// client and http.DefaultTransport are used as they are).
func (c *c09Ctx) runStall(v *c09Vec) []c09Obs {
	in := &v.In
	modes := []string{"rt", "tcp"}
	if in.Client == "default" {
		modes = []string{"tcp"}
	}
	if in.Close == "err" {
		// the body of a real connection is net/http's own: its Close cannot be made to fail
		modes = []string{"rt"}
		if in.Client == "default" {
			return []c09Obs{{Variant: "rt", Broken: "a body whose Close fails cannot be served to http.DefaultClient"}}
		}
	}
	var out []c09Obs
	for _, mode := range modes {
		var o c09Obs
		for bound, try := c09StallBound, 0; try < 4; bound, try = 4*bound, try+1 {
			var hit bool
			if o, hit = c.runStallOnce(v, mode, bound); hit || o.Hang || o.Panic != "" || o.Shape != "" || o.Broken != "" {
				break
			}
		}
		out = append(out, o)
	}
	return out
}

// runStallOnce returns the observation and whether the stalled endpoint saw the request (if it
// did not, the bound ended before the wait began: nothing was exercised).
func (c *c09Ctx) runStallOnce(v *c09Vec, mode string, bound time.Duration) (c09Obs, bool) {
	in := &v.In
	o := c09Obs{Variant: mode}
	if mode == "tcp" {
		o.BodyCloses = -1 // net/http's own body
	}
	s := c09SPFor(in)
	token := hashKey(fmt.Sprintf("%s/%s/%v", c09CaseKey(v), mode, bound))
	var served atomic.Pointer[c09StallBody]
	answer := func(req []byte) []byte {
		id := ""
		if m := reResolveID.FindSubmatch(req); m != nil {
			id = string(m[1])
		}
		return c.envelopeXML(in.Env, in.Resp, id, "ok", "", in.Ki, in.Encx)
	}
	reached := &c09Reached{ch: make(chan struct{})}
	release := make(chan struct{})
	var cleanup []func()
	defer func() {
		close(release)
		for _, f := range cleanup {
			f()
		}
	}()

	var transport http.RoundTripper
	switch mode {
	case "rt":
		transport = c09StallRT(in, reached, release, answer, c09CloseErr(in, token), &served)
	case "tcp":
		l, err := c09StallListen(in, reached, answer)
		if err != nil {
			o.Broken = "no loopback listener for the stalled resolver: " + err.Error()
			return o, false
		}
		cleanup = append(cleanup, l.stop)
		eps := s.IDPMetadata.IDPSSODescriptors[0].ArtifactResolutionServices
		for i := range eps {
			eps[i].Location = l.url()
		}
		tr := &http.Transport{} // no proxy, no timeout of any kind
		cleanup = append(cleanup, tr.CloseIdleConnections)
		transport = tr
	}
	switch in.Client {
	case "default":
		s.HTTPClient = nil // http.DefaultClient: no timeout
	case "custom":
		s.HTTPClient = &http.Client{Transport: transport}
	case "timeout":
		s.HTTPClient = &http.Client{Transport: transport, Timeout: bound}
	default:
		o.Broken = "unknown client class " + in.Client
		return o, false
	}

	ctx := context.Background()
	switch in.Bound {
	case "client":
	case "deadline":
		var cancel context.CancelFunc
		ctx, cancel = context.WithTimeout(ctx, bound)
		cleanup = append(cleanup, cancel)
	case "cancel":
		var cancel context.CancelFunc
		ctx, cancel = context.WithCancel(ctx)
		// the browser goes away while the SP is waiting for the endpoint
		go func() {
			select {
			case <-reached.ch:
				time.Sleep(50 * time.Millisecond)
			case <-time.After(bound + 5*time.Second):
			case <-release:
			}
			cancel()
		}()
		if bound < 10*time.Second {
			bound += 5 * time.Second // the watchdog counts from the latest moment of the cancellation
		}
	default:
		o.Broken = "unknown bound class " + in.Bound
		return o, false
	}
	r := c09FormRequest("POST", spACS, url.Values{"SAMLart": {c09Artifact}, "RelayState": {"rs"}}).WithContext(ctx)
	r.ParseForm()
	t0 := time.Now()
	var took time.Duration
	c09Guard(&o, bound+c09StallGrace, func() {
		a, err := s.ParseResponse(r, []string{"id-00000000", c09ReqID})
		took = time.Since(t0)
		o.respResult(a, err)
	})
	if b := served.Load(); b != nil && !o.Hang {
		b.observe(&o, token)
	}
	switch {
	case o.Hang:
		o.Calls = append(o.Calls, fmt.Sprintf("still blocked %v after the %s bound of %v ended (endpoint reached %d times)", c09StallGrace, in.Bound, bound, reached.Load()))
	case o.Panic == "":
		o.Calls = append(o.Calls, fmt.Sprintf("returned after %v (bound %v, endpoint reached %d times)", took.Round(time.Millisecond), bound, reached.Load()))
		if reached.Load() == 0 && bound >= 16*c09StallBound {
			o.Broken = fmt.Sprintf("the stalled resolver was never called within %v: the vector does not exercise the wait", bound)
		}
	}
	return o, reached.Load() > 0
}
