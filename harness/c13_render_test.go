package harness

import (
	"encoding/json"
	"fmt"
	"strings"
	"sync"
	"testing"
	"time"

	"github.com/crewjam/saml"
)

// C13 over histories of render calls on ONE message value (spec/SPEmitRenderHistory.tla): every emission
// must carry the form of signature ITS binding requires - the enveloped signature attached at creation is
// still there and verifies after any number of other renderings, the detached one verifies over the octets
// of the URL it is emitted in.  Each emission is judged by c13Judge, exactly like the stateless cases.

var c13RenderKeys = [][2]string{{"rsa-sha256", "rsa2048"}, {"ecdsa-sha256", "ec256"}}
var c13RenderKeysThorough = [][2]string{{"rsa-sha256", "rsa2048"}, {"ecdsa-sha256", "ec256"}, {"rsa-sha512", "rsa3072"}, {"ecdsa-sha384", "ec521"}, {"rsa-sha1", "rsa1024"}}

type c13RenderObs struct {
	Step      int         `json:"step"`
	Op        string      `json:"op"`
	Relay     string      `json:"relay"`
	Enveloped bool        `json:"enveloped_signature_present"`
	Detached  bool        `json:"detached_signature_present"`
	Result    c13Result   `json:"result"`
	Conc      *spemitConc `json:"conc"`
}

// c13RunRenderHistory replays one history for one (method, key); it returns the findings with their keys.
func c13RunRenderHistory(h *spemitRenderHist, method, keyName, label string, onEval func(class, id string)) (findings []spemitFinding, obs []c13RenderObs, drift []string) {
	rng := newRand(label)
	base, c, s, binding := spemitRenderSetup(h, method, keyName, rng)
	// the environment of the history: what the IdP's metadata wants and the SP's certificate chain (spec/SPEmit.tla
	// IdpWants x Chains), drawn once per history
	base.Cfg.IdpWants, base.Cfg.Chain = c13EnvWants[rng.Intn(len(c13EnvWants))], c13EnvChains[rng.Intn(len(c13EnvChains))]
	spemitApplyEnv(s, base)
	mk := fmt.Sprintf("method=%s:key=%s", method, keyName)
	if h.Build == "unsigned" {
		mk = "method=off:key=" + keyName
	}
	mk += base.envSuffix()
	pfx := fmt.Sprintf("C13:renders:%s:built=%s", h.Kind, h.Build)
	val, err, panicked := spemitMakeValue(s, h.Kind, binding, c)
	if err != nil || panicked != "" {
		findings = append(findings, spemitFinding{Key: pfx + ":not-produced:" + mk,
			Clause: fmt.Sprintf("Make* for a supported method with a fitting key (or with signing off) produced no message: %v %s", err, strings.SplitN(panicked, "\n", 2)[0])})
		return
	}
	for i, st := range h.Steps {
		v, cc := spemitRenderStepVec(base, c, st, rng)
		e := val.render(st.Op, cc.Relay, s)
		res := c13Judge(s, v, cc, e)
		o := c13RenderObs{Step: i + 1, Op: st.Op, Relay: cc.Relay, Result: res, Conc: cc}
		if root, q, derr := c13Message(e, v); derr == nil && root != nil {
			o.Enveloped = len(spemitSignatures(root)) > 0
			o.Detached = strings.Contains("&"+q, "&Signature=")
		}
		obs = append(obs, o)
		if onEval != nil {
			onEval(v.Class, fmt.Sprintf("renders:%s:%s:%s:%d:%s", h.Kind, h.Build, h.ops(len(h.Steps)), i, mk))
		}
		for _, f := range res.Findings {
			// the abstract case of an emission is the prefix of calls that led to it
			findings = append(findings, spemitFinding{
				Key: fmt.Sprintf("%s:calls=%s:%s", pfx, h.ops(i), strings.TrimPrefix(f.Key, "C13:")),
				Clause: fmt.Sprintf("%s (emission %d, %s, of ONE %s value built %s and rendered %s)", f.Clause, i+1, st.Op, h.Kind, h.Build, h.ops(i))})
		}
		if len(res.Findings) == 0 && e.Panic == "" && (o.Enveloped != st.Pred.Enveloped || o.Detached != st.Pred.Detached) {
			drift = append(drift, fmt.Sprintf("%s:calls=%s: enveloped=%v detached=%v, model says enveloped=%v detached=%v", pfx, h.ops(i), o.Enveloped, o.Detached, st.Pred.Enveloped, st.Pred.Detached))
		}
	}
	return
}

func c13RenderHistories(t *testing.T, rep *Report) {
	lines := loadLines(t, "renders.ndjson")
	hists, err := spemitLoadRenderHists(lines)
	if err != nil || len(hists) == 0 {
		rep.Break("no render histories: %v", err)
		return
	}
	keys := c13RenderKeys
	if thorough() {
		keys = c13RenderKeysThorough
	}
	for _, k := range keys {
		spemitKey(k[1])
	}
	var mu sync.Mutex
	required := map[string]int{}
	parallel(len(hists), func(i int) {
		h := hists[i]
		for ki, k := range keys {
			if h.Build == "unsigned" && ki > 1 {
				continue
			}
			label := fmt.Sprintf("c13render/%s/%s/%s/%s", h.Kind, h.Build, h.ops(len(h.Steps)), k[1])
			findings, obs, drift := c13RunRenderHistory(h, k[0], k[1], label, func(class, id string) {
				rep.Eval(class, id)
				rep.Trace(1)
			})
			for _, f := range findings {
				rep.Violation(f.Key, f.Clause, map[string]any{"render_history": h, "method": k[0], "key_name": k[1], "label": label, "observed": obs})
			}
			for _, d := range drift {
				rep.DriftCase(d, "signature forms present differ from the model's prediction", obs)
			}
			mu.Lock()
			for _, st := range h.Steps {
				required[h.Kind+"/"+h.Build+"/"+st.Op+"/"+st.Required]++
			}
			mu.Unlock()
			if i%131 == 0 && ki == 0 {
				rep.Sample(map[string]any{"render_history": h.Kind + " built " + h.Build + ": " + h.ops(len(h.Steps)), "emissions": len(obs)})
			}
		}
	})
	rep.Extra["c13_render_emissions"] = required
	for _, need := range []string{"authn/post-signed/Post/enveloped", "authn/post-signed/Redirect/detached", "authn/redirect-signed/Redirect/detached",
		"logoutreq/post-signed/Redirect/enveloped", "logoutreq/redirect-signed/Bytes/enveloped", "logoutresp/post-signed/Element/enveloped"} {
		if required[need] == 0 {
			rep.Break("vacuous: no render-history emission %s", need)
		}
	}
}

func init() {
	registerReplayFor("C13", "render_history", func(t *testing.T, raw []byte) (bool, string) {
		var r struct {
			H      spemitRenderHist `json:"render_history"`
			Method string           `json:"method"`
			Key    string           `json:"key_name"`
			Label  string           `json:"label"`
		}
		if err := json.Unmarshal(raw, &r); err != nil {
			t.Fatal(err)
		}
		saml.TimeNow = func() time.Time { return c12Fixed }
		findings, obs, _ := c13RunRenderHistory(&r.H, r.Method, r.Key, r.Label, nil)
		return len(findings) > 0, fmt.Sprintf("findings=%v emissions=%d", findings, len(obs))
	})
}
