package harness

import (
	"encoding/json"
	"fmt"
	"math/rand"
	"sort"
	"strings"
	"sync"
	"testing"
	"time"

	"github.com/crewjam/saml"
)

// C13 over histories of TWO message values of one ServiceProvider (spec/SPEmitPairHistory.tla): A is made signed
// (AuthnRequest for the POST binding, LogoutRequest, LogoutResponse), B is made, the application writes through the
// pointers B holds, A is emitted.  Every emission of A must carry the signature its binding requires and verify
// under the published certificate whatever was done to B - judged by c13Judge, exactly like the stateless cases.
// Emissions after a write to a cell of the SP's own configuration (ForceAuthn, RequestedAuthnContext: the request
// holds the SP's pointers) are left open by the model; its prediction (does not verify) is compared as drift.

type c13PairStep struct {
	Step     string `json:"step"` // edit | render
	Slot     string `json:"slot"` // edit: the slot of B written through
	Cell     string `json:"cell"` // edit: the owner of the cell the model says is written (B | sp | app | pkg)
	Op       string `json:"op"`   // render: Redirect | Post | Element | Bytes | Deflate
	Required string `json:"required"`
	Verifies bool   `json:"verifies"`
}

type c13PairHist struct {
	A       string        `json:"a"`
	B       string        `json:"b"`
	Order   string        `json:"order"` // AB | BA: which value is made first
	Aliased []string      `json:"aliased"`
	Steps   []c13PairStep `json:"steps"`
}

func (h *c13PairHist) label(upto int) string {
	var o []string
	for i := 0; i <= upto && i < len(h.Steps); i++ {
		if h.Steps[i].Step == "edit" {
			o = append(o, "edit("+h.Steps[i].Slot+")")
		} else {
			o = append(o, h.Steps[i].Op)
		}
	}
	return strings.Join(o, ">")
}

type c13PairObs struct {
	Step     int        `json:"step"`
	What     string     `json:"what"`
	Verifies *bool      `json:"verifies,omitempty"`
	Result   *c13Result `json:"result,omitempty"`
	Note     string     `json:"note,omitempty"`
}

var c13PairFormats = []saml.NameIDFormat{saml.PersistentNameIDFormat, saml.EmailAddressNameIDFormat, saml.UnspecifiedNameIDFormat, saml.TransientNameIDFormat}

// c13PairSlotPtr returns the pointer value slot s of the message value holds (nil when the slot is empty).
func c13PairSlotPtr(val *spemitValue, slot string) any {
	switch val.kind + "/" + slot {
	case "authn/Issuer":
		if val.authn.Issuer != nil {
			return val.authn.Issuer
		}
	case "authn/NameIDPolicy":
		if val.authn.NameIDPolicy != nil {
			return val.authn.NameIDPolicy
		}
	case "authn/NameIDPolicy.AllowCreate":
		if val.authn.NameIDPolicy != nil && val.authn.NameIDPolicy.AllowCreate != nil {
			return val.authn.NameIDPolicy.AllowCreate
		}
	case "authn/NameIDPolicy.Format":
		if val.authn.NameIDPolicy != nil && val.authn.NameIDPolicy.Format != nil {
			return val.authn.NameIDPolicy.Format
		}
	case "authn/ForceAuthn":
		if val.authn.ForceAuthn != nil {
			return val.authn.ForceAuthn
		}
	case "authn/RequestedAuthnContext":
		if val.authn.RequestedAuthnContext != nil {
			return val.authn.RequestedAuthnContext
		}
	case "logoutreq/Issuer":
		if val.lreq.Issuer != nil {
			return val.lreq.Issuer
		}
	case "logoutreq/NameID":
		if val.lreq.NameID != nil {
			return val.lreq.NameID
		}
	case "logoutresp/Issuer":
		if val.lresp.Issuer != nil {
			return val.lresp.Issuer
		}
	}
	return nil
}

// c13PairEdit writes through slot s of B the way an application customising ITS request does.  It never assigns a
// field of the value B itself (that would replace the pointer, not write through it), with one exception the model
// has too: writing the NameIDPolicy struct replaces the pointers it holds.
func c13PairEdit(b *spemitValue, slot string, rng *rand.Rand) (what string, ok bool) {
	switch p := c13PairSlotPtr(b, slot).(type) {
	case nil:
		return "slot " + slot + " of B is empty", false
	case *saml.Issuer:
		switch rng.Intn(3) {
		case 0:
			p.Value = "https://tenant-b.example.org/saml/metadata"
			return "B.Issuer.Value = ...", true
		case 1:
			p.Format = ""
			return `B.Issuer.Format = ""`, true
		default:
			p.NameQualifier = "urn:b"
			return "B.Issuer.NameQualifier = ...", true
		}
	case *saml.NameIDPolicy:
		switch rng.Intn(3) {
		case 0:
			f := false
			p.AllowCreate = &f
			return "B.NameIDPolicy.AllowCreate = &false", true
		case 1:
			g := string(c13PairFormats[rng.Intn(len(c13PairFormats))])
			p.Format = &g
			return "B.NameIDPolicy.Format = &" + g, true
		default:
			q := "https://tenant-b.example.org/sp"
			p.SPNameQualifier = &q
			return "B.NameIDPolicy.SPNameQualifier = &...", true
		}
	case *bool: // NameIDPolicy.AllowCreate, ForceAuthn: flipped, so that a second write changes the value again
		*p = !*p
		return fmt.Sprintf("*B.%s = %v", slot, *p), true
	case *string: // NameIDPolicy.Format
		old := *p
		for _, f := range c13PairFormats {
			if string(f) != old {
				*p = string(f)
				break
			}
		}
		return "*B." + slot + " = " + *p, true
	case *saml.RequestedAuthnContext:
		if rng.Intn(2) == 0 {
			if p.Comparison == "minimum" {
				p.Comparison = "better"
			} else {
				p.Comparison = "minimum"
			}
			return "B.RequestedAuthnContext.Comparison = " + p.Comparison, true
		}
		p.AuthnContextClassRef += "-b"
		return "B.RequestedAuthnContext.AuthnContextClassRef = ...", true
	case *saml.NameID:
		switch rng.Intn(3) {
		case 0:
			p.Value += "+b"
			return "B.NameID.Value = ...", true
		case 1:
			p.Format = string(c13PairFormats[rng.Intn(2)])
			return "B.NameID.Format = ...", true
		default:
			p.NameQualifier = "urn:b:" + p.NameQualifier
			return "B.NameID.NameQualifier = ...", true
		}
	}
	return "slot " + slot + " of B has an unexpected type", false
}

// c13RunPairHistory replays one history for one (method, key).
func c13RunPairHistory(h *c13PairHist, method, keyName, label string, onEval func(class, id string)) (findings []spemitFinding, obs []c13PairObs, drift []string) {
	rng := newRand(label)
	// the configuration: signing on, both configuration pointers of the SP set (the model's ConfigSlots exist)
	v := &spemitVec{Prop: "pair"}
	v.Cfg.Query = spemitRenderQueries[rng.Intn(len(spemitRenderQueries))]
	v.Cfg.Key, v.Cfg.Method, v.Cfg.NidFmt, v.Cfg.MForm, v.Cfg.Rac = keyName, method, "unset", "exact", true
	v.Cfg.Force = []string{"true", "false"}[rng.Intn(2)]
	v.Cfg.IdpWants, v.Cfg.Chain = c13EnvWants[rng.Intn(len(c13EnvWants))], c13EnvChains[rng.Intn(len(c13EnvChains))]
	v.In.Fam, v.In.Kind, v.In.Binding, v.In.Dest = "pair", h.A, "post", "first"
	if h.A == "logoutreq" {
		v.In.NameID = []string{"plain", "nonascii"}
	}
	v.Required.Policy = "transient"
	c := spemitConcretise(v, rng)
	c.OneStep = false
	s := spemitSP(v, c)
	// the application keeps its own copies of what it configured: the SP holds the pointers
	rac := *s.RequestedAuthnContext
	s.RequestedAuthnContext = &rac

	mk := fmt.Sprintf("method=%s:key=%s", method, keyName) + v.envSuffix()
	pfx := fmt.Sprintf("C13:pair:%s:other=%s:order=%s", h.A, h.B, h.Order)

	// B: any build; an AuthnRequest for either binding (for the redirect binding customising it is legitimate
	// beyond doubt: only the query string is signed, later)
	bBinding := []string{"redirect", "post"}[rng.Intn(2)]
	cb := *c
	cb.DestURL = spemitEndpoint(spemitLocations[spemitSvc(h.B)]["first"], c.Query)
	cb.NameID = "user-b@example.org"
	var a, b *spemitValue
	var errA, errB error
	var panA, panB string
	makeA := func() { a, errA, panA = spemitMakeValue(s, h.A, "post", c) }
	makeB := func() { b, errB, panB = spemitMakeValue(s, h.B, bBinding, &cb) }
	if h.Order == "BA" {
		makeB()
		makeA()
	} else {
		makeA()
		makeB()
	}
	if errA != nil || errB != nil || panA != "" || panB != "" {
		findings = append(findings, spemitFinding{Key: pfx + ":not-produced:" + mk,
			Clause: fmt.Sprintf("Make* for a supported method with a fitting key produced no message: A: %v %s B: %v %s", errA, strings.SplitN(panA, "\n", 2)[0], errB, strings.SplitN(panB, "\n", 2)[0])})
		return
	}
	// white-box comparison with the model (drift only): which slots of the two values hold the same pointer
	var shared []string
	for _, slot := range []string{"Issuer", "NameIDPolicy", "NameIDPolicy.AllowCreate", "NameIDPolicy.Format", "ForceAuthn", "RequestedAuthnContext", "NameID"} {
		pa, pb := c13PairSlotPtr(a, slot), c13PairSlotPtr(b, slot)
		if pa != nil && pb != nil && pa == pb {
			shared = append(shared, slot)
		}
	}
	want := append([]string(nil), h.Aliased...)
	sort.Strings(shared)
	sort.Strings(want)
	if strings.Join(shared, ",") != strings.Join(want, ",") {
		drift = append(drift, fmt.Sprintf("%s: the two values share the pointers of [%s], the model says [%s]", pfx, strings.Join(shared, ","), strings.Join(want, ",")))
	}

	for i, st := range h.Steps {
		if st.Step == "edit" {
			what, ok := c13PairEdit(b, st.Slot, rng)
			obs = append(obs, c13PairObs{Step: i + 1, What: what})
			if !ok {
				drift = append(drift, fmt.Sprintf("%s:steps=%s: %s (the model has a cell there); the rest of the history is not replayed", pfx, h.label(i), what))
				return
			}
			// the application goes on and sends B (not judged: B is the application's own business once edited)
			if rng.Intn(3) == 0 {
				safely(func() { b.render([]string{"Redirect", "Post"}[rng.Intn(2)], "relay-b", s) })
			}
			continue
		}
		rst := spemitRenderStep{Op: st.Op, Binding: map[string]string{"Redirect": "redirect", "Post": "post"}[st.Op], Required: st.Required}
		if rst.Binding == "" {
			rst.Binding = "none"
		}
		open := st.Required != "detached" && st.Required != "enveloped"
		if open {
			// judged as the stateless case of its binding would be, but only to compare with the model's prediction
			rst.Required = "enveloped"
			if h.A == "authn" && st.Op == "Redirect" {
				rst.Required = "detached"
			}
		}
		sv, cc := spemitRenderStepVec(v, c, rst, rng)
		e := a.render(st.Op, cc.Relay, s)
		res := c13Judge(s, sv, cc, e)
		verifies := len(res.Findings) == 0
		obs = append(obs, c13PairObs{Step: i + 1, What: "A." + st.Op, Verifies: &verifies, Result: &res})
		if onEval != nil {
			class := "MustAccept"
			if open {
				class = "DontCare"
			}
			onEval(class, fmt.Sprintf("pair:%s:%s:%s:%s:%d:%s", h.A, h.B, h.Order, h.label(len(h.Steps)), i, mk))
		}
		if open {
			if verifies != st.Verifies {
				drift = append(drift, fmt.Sprintf("%s:steps=%s: after a write to a configuration cell of the SP the emission verifies=%v, the model predicts %v", pfx, h.label(i), verifies, st.Verifies))
			}
			continue
		}
		for _, f := range res.Findings {
			findings = append(findings, spemitFinding{
				Key:    fmt.Sprintf("%s:steps=%s:%s", pfx, h.label(i), strings.TrimPrefix(f.Key, "C13:")),
				Clause: fmt.Sprintf("%s (emission of A by %s; A, a %s, was made signed, then B, a %s, was customised through its own pointers: %s)", f.Clause, st.Op, h.A, h.B, h.label(i))})
		}
		if len(res.Findings) == 0 && !st.Verifies {
			drift = append(drift, fmt.Sprintf("%s:steps=%s: the emission verifies, the model predicts it does not", pfx, h.label(i)))
		}
	}
	return
}

var c13PairKeysThorough = [][2]string{{"rsa-sha256", "rsa2048"}, {"ecdsa-sha256", "ec256"}, {"rsa-sha512", "rsa3072"}, {"ecdsa-sha384", "ec521"}}

func c13PairHistories(t *testing.T, rep *Report) {
	lines := loadLines(t, "pairs.ndjson")
	if len(lines) == 0 {
		rep.Break("no two-value histories")
		return
	}
	var hists []*c13PairHist
	for _, l := range lines {
		h := &c13PairHist{}
		if err := json.Unmarshal(l, h); err != nil {
			rep.Break("bad two-value history: %v", err)
			return
		}
		hists = append(hists, h)
	}
	keys := c13RenderKeys
	if thorough() {
		keys = c13PairKeysThorough
	}
	for _, k := range keys {
		spemitKey(k[1])
	}
	var mu sync.Mutex
	cover := map[string]int{}
	parallel(len(hists), func(i int) {
		h := hists[i]
		for ki, k := range keys {
			label := fmt.Sprintf("c13pair/%s/%s/%s/%s/%s", h.A, h.B, h.Order, h.label(len(h.Steps)), k[1])
			findings, obs, drift := c13RunPairHistory(h, k[0], k[1], label, func(class, id string) {
				rep.Eval(class, id)
				rep.Trace(1)
			})
			for _, f := range findings {
				rep.Violation(f.Key, f.Clause, map[string]any{"pair_history": h, "method": k[0], "key_name": k[1], "label": label, "observed": obs})
			}
			for _, d := range drift {
				rep.DriftCase(d, "two message values of one ServiceProvider: the real values differ from the model's heap", obs)
			}
			mu.Lock()
			// counted by what the history REQUIRES, not by what came out
			edited := map[string]bool{}
			for _, st := range h.Steps {
				if st.Step == "edit" {
					edited[st.Slot] = true
					continue
				}
				for slot := range edited {
					cover[h.A+"/"+h.B+"/edit("+slot+")/"+st.Op+"/"+st.Required]++
				}
			}
			mu.Unlock()
			if i%211 == 0 && ki == 0 {
				rep.Sample(map[string]any{"pair_history": fmt.Sprintf("A=%s B=%s %s: %s", h.A, h.B, h.Order, h.label(len(h.Steps))), "steps": len(obs)})
			}
		}
	})
	rep.Extra["c13_pair_emissions"] = cover
	for _, need := range []string{"authn/authn/edit(NameIDPolicy.AllowCreate)/Post/enveloped", "authn/authn/edit(NameIDPolicy.Format)/Post/enveloped",
		"authn/authn/edit(NameIDPolicy)/Element/enveloped", "authn/authn/edit(Issuer)/Post/enveloped", "authn/authn/edit(NameIDPolicy.AllowCreate)/Redirect/detached",
		"authn/authn/edit(RequestedAuthnContext)/Post/open", "authn/authn/edit(ForceAuthn)/Post/open",
		"logoutreq/logoutreq/edit(NameID)/Post/enveloped", "logoutreq/logoutreq/edit(Issuer)/Redirect/enveloped", "logoutresp/logoutresp/edit(Issuer)/Post/enveloped"} {
		if cover[need] == 0 {
			rep.Break("vacuous: no two-value history with %s", need)
		}
	}
	// the registered configuration has no seeded deviation; a phase before this one runs TLC with SharedPolicyPointer on
	// (spec/SPEmitPairHistory_dev.cfg) and must have produced a counterexample to EmissionsOfAVerify
	if c13Refuted("Invariant EmissionsOfAVerify is violated") {
		rep.Note("model self-test: with SharedPolicyPointer on (SPEmitPairHistory_dev.cfg) TLC refutes EmissionsOfAVerify")
	} else {
		rep.Break("TLC did not refute EmissionsOfAVerify under the seeded deviation SharedPolicyPointer (no counterexample in the work directory): the two-value histories are vacuous")
	}
}

func init() {
	registerReplayFor("C13", "pair_history", func(t *testing.T, raw []byte) (bool, string) {
		var r struct {
			H      c13PairHist `json:"pair_history"`
			Method string      `json:"method"`
			Key    string      `json:"key_name"`
			Label  string      `json:"label"`
		}
		if err := json.Unmarshal(raw, &r); err != nil {
			t.Fatal(err)
		}
		saml.TimeNow = func() time.Time { return c12Fixed }
		findings, obs, _ := c13RunPairHistory(&r.H, r.Method, r.Key, r.Label, nil)
		return len(findings) > 0, fmt.Sprintf("findings=%v steps=%d", findings, len(obs))
	})
}
