package harness

import (
	"encoding/json"
	"encoding/xml"
	"fmt"
	"net/http/httptest"
	"sort"
	"testing"
	"time"

	"github.com/crewjam/saml"
)

// C05: the IdP processes only valid authentication requests and routes only to
// registered ACS endpoints.  Vectors come from spec/IdPRequest.tla.

var c05Now = time.Date(2024, 3, 10, 10, 0, 0, 0, time.UTC)

type c05EP struct {
	Binding, Location string
	Index             int
}

type c05Obs struct {
	NewErr, ValErr string
	Accepted       bool
	EP             *c05EP
	Panic          string
	// ServeSSO / ServeIDPInitiated end to end
	HTTPStatus int
	HTTPPanic  string
	FormAction string
	FormMethod string
	FormErr    string
	HasForm    bool
}

type c05World struct {
	Reg, Other *idpreqRegistered
	Prov       idpreqProvider
}

func c05WorldFor(v *idpreqVec) (*c05World, error) {
	r, err := idpreqMetadataFor(spEntityID, v.Reg)
	if err != nil {
		return nil, err
	}
	o, err := idpreqMetadataFor(idpreqOtherEntityID, v.OtherReg)
	if err != nil {
		return nil, err
	}
	return &c05World{Reg: r, Other: o, Prov: idpreqProvider{spEntityID: r.MD, idpreqOtherEntityID: o.MD}}, nil
}

// c05Run drives the real code: NewIdpAuthnRequest + Validate, then the whole handler.
func c05Run(w *c05World, v *idpreqVec, c *idpreqConcrete) c05Obs {
	var o c05Obs
	idp := idpreqNewIdP(w.Prov, idpreqSessions{idpreqSession()})
	if v.In.Kind == "sso" {
		p, msg := safely(func() {
			req, err := saml.NewIdpAuthnRequest(idp, c.httpRequest())
			if err != nil {
				o.NewErr = err.Error()
				return
			}
			if err := req.Validate(); err != nil {
				o.ValErr = err.Error()
				return
			}
			o.Accepted = true
			if req.ACSEndpoint != nil {
				o.EP = &c05EP{req.ACSEndpoint.Binding, req.ACSEndpoint.Location, req.ACSEndpoint.Index}
			}
		})
		if p {
			o.Panic = msg
		}
	}
	rec := httptest.NewRecorder()
	p, msg := safely(func() {
		if v.In.Kind == "sso" {
			idp.ServeSSO(rec, c.httpRequest())
		} else {
			id := map[string]string{"reg": spEntityID, "other": idpreqOtherEntityID}[v.In.Iss]
			if id == "" {
				id = "https://evil.example.net/entity"
			}
			idp.ServeIDPInitiated(rec, httptest.NewRequest("GET", idpSSOURL+"/launch", nil), id, c.RelayState)
		}
	})
	if p {
		o.HTTPPanic = msg
		return o
	}
	o.HTTPStatus = rec.Code
	if rec.Code == 200 {
		f, err := idpreqParseForm(rec.Body.String())
		if err != nil {
			o.FormErr = err.Error()
		} else {
			o.HasForm, o.FormAction, o.FormMethod = true, f.Action, f.Method
		}
	}
	return o
}

// registered endpoint at a model position of the registry the request's issuer names
func c05At(w *c05World, v *idpreqVec, p [2]int) *saml.IndexedEndpoint {
	md := w.Reg.MD
	if v.In.Iss == "other" {
		md = w.Other.MD
	}
	if p[0] < 1 || p[0] > len(md.SPSSODescriptors) {
		return nil
	}
	eps := md.SPSSODescriptors[p[0]-1].AssertionConsumerServices
	if p[1] < 1 || p[1] > len(eps) {
		return nil
	}
	return &eps[p[1]-1]
}

func c05Same(e *saml.IndexedEndpoint, g *c05EP) bool {
	return e != nil && g != nil && e.Binding == g.Binding && e.Location == g.Location && e.Index == g.Index
}

func c05Judge(rep *Report, w *c05World, v *idpreqVec, c *idpreqConcrete, o c05Obs, now time.Time) {
	key := v.caseKey()
	replay := func() map[string]any {
		return map[string]any{"vector": v, "now": now.Format(time.RFC3339Nano), "mid_ms": v.Mid,
			"request_xml": string(c.XML), "http": c, "sp_metadata": string(w.Reg.XML), "other_sp_metadata": string(w.Other.XML), "observed": o}
	}
	known := v.In.Iss == "reg" || v.In.Iss == "other"
	// admissible endpoints under the statement's rule
	var adm []*saml.IndexedEndpoint
	for _, p := range v.Adm {
		if e := c05At(w, v, p); e != nil && known {
			adm = append(adm, e)
		}
	}
	inAdm := func(g *c05EP) bool {
		for _, e := range adm {
			if c05Same(e, g) {
				return true
			}
		}
		return false
	}
	registered := func(g *c05EP) bool {
		if !known {
			return false
		}
		md := w.Reg.MD
		if v.In.Iss == "other" {
			md = w.Other.MD
		}
		for _, d := range md.SPSSODescriptors {
			for i := range d.AssertionConsumerServices {
				if c05Same(&d.AssertionConsumerServices[i], g) {
					return true
				}
			}
		}
		return false
	}

	if o.Panic != "" || o.HTTPPanic != "" {
		k := "C05:panic:" + key[4:]
		if v.In.Iss == "absent" {
			k = "C05:issuer=absent:panic"
		}
		rep.Violation(k, "the IdP panicked on an authentication request instead of refusing or processing it (processes a request only if ...)", replay())
		return
	}

	if v.In.Kind == "sso" {
		switch {
		case o.Accepted && v.Class == "MustReject":
			rep.Violation(key, "request processed although the statement forbids it: "+c05Why(v), replay())
			return
		case !o.Accepted && v.Class == "MustAccept":
			rep.Violation(key, "valid request from a registered SP refused: "+o.NewErr+o.ValErr, replay())
			return
		}
		if o.Accepted {
			switch {
			case o.EP == nil:
				rep.Violation(key, "Validate succeeded without selecting an endpoint", replay())
				return
			case !registered(o.EP):
				rep.Violation(key, fmt.Sprintf("selected endpoint %+v is not one of the ACS endpoints of the registered provider's metadata", *o.EP), replay())
				return
			case !inAdm(o.EP):
				rep.Violation(key, fmt.Sprintf("selected endpoint %+v is registered but is not the one the rule (index, else URL, else default/first browser binding) designates", *o.EP), replay())
				return
			}
		}
		if (v.Pred.Verdict == "accept") != o.Accepted {
			rep.DriftCase(key, "model predicted "+v.Pred.Verdict+" at "+v.Pred.Step, o)
		} else if o.Accepted && !c05Same(c05At(w, v, v.Pred.Sel), o.EP) {
			rep.DriftCase(key, "model predicted another admissible endpoint", o)
		}
	}

	// the handler end to end: an emitted form must target a registered, designated POST endpoint
	if o.HasForm {
		target := (*saml.IndexedEndpoint)(nil)
		for _, e := range adm {
			if e.Location == o.FormAction && e.Binding == saml.HTTPPostBinding {
				target = e
			}
		}
		switch {
		case v.Class == "MustReject":
			rep.Violation(key+":serve", "the handler emitted a response form although the statement forbids processing: "+c05Why(v), replay())
		case o.FormMethod != "post":
			rep.Violation(key+":serve", "emitted form is not a POST form", replay())
		case target == nil:
			rep.Violation(key+":serve", fmt.Sprintf("emitted form targets %q, which is not the registered POST endpoint the rule designates", o.FormAction), replay())
		}
		return
	}
	if v.Class == "MustAccept" {
		rep.Violation(key+":serve", fmt.Sprintf("the handler did not answer a valid request (status %d %s)", o.HTTPStatus, o.FormErr), replay())
		return
	}
	if v.In.Kind == "idpinit" && v.Pred.Verdict == "accept" {
		rep.DriftCase(key, "model predicted a response form", o)
	}
}

func c05Why(v *idpreqVec) string {
	w := v.Why
	switch {
	case w.Undecodable:
		return "no request can be decoded"
	case w.Stale:
		return fmt.Sprintf("IssueInstant + MaxIssueDelay(%dms) lies before the IdP clock", v.Mid)
	case w.Version:
		return "Version is not 2.0"
	case w.Dest:
		return "Destination names something other than the SSO URL"
	case w.Issuer:
		return "the issuer is absent, empty or unknown to the registry"
	case w.NoEndpoint:
		return "no registered endpoint is designated by the request"
	}
	return "no registered endpoint"
}

func TestC05(t *testing.T) {
	rep := NewReport("C05")
	defer rep.Finish(t)
	rep.Rule = "every terminal state of spec/IdPRequest.tla (all combinations of Issuer/Destination/Version/IssueInstant classes x both bindings x tolerance settings; framing classes; ACS URL x ACS index classes x registry shapes of 0-2 descriptors x 0-3 endpoints with bindings, indices, isDefault, duplicate locations; IdP-initiated launches) is concretised as a hand-written AuthnRequest, encoded per binding and run through NewIdpAuthnRequest+Validate and through ServeSSO/ServeIDPInitiated against metadata that was serialised and re-parsed; non-trivial = class MustAccept or MustReject"
	rep.Assume("strings are abstracted to their relation with the expected value (equal / near-miss / other / empty / absent); each class is concretised by random representatives")
	rep.Assume("the registry hands out metadata after an XML round trip; an endpoint with an unknown binding is registered with an empty location (metadata.go)")
	lines := loadLines(t, "vectors.ndjson")
	if len(lines) == 0 {
		rep.Break("no vectors")
		return
	}
	groups := map[int64][]*idpreqVec{}
	for _, l := range lines {
		v := &idpreqVec{}
		if err := json.Unmarshal(l, v); err != nil {
			rep.Break("bad vector: %v", err)
			return
		}
		groups[v.Mid] = append(groups[v.Mid], v)
	}
	var mids []int64
	for m := range groups {
		mids = append(mids, m)
	}
	sort.Slice(mids, func(i, j int) bool { return mids[i] < mids[j] })

	oldNow, oldMid := saml.TimeNow, saml.MaxIssueDelay
	defer func() { saml.TimeNow, saml.MaxIssueDelay = oldNow, oldMid }()
	now := c05Now.Add(time.Duration(seedVal()%1000) * time.Hour)
	saml.TimeNow = func() time.Time { return now }
	reps := 1
	if thorough() {
		reps = 2
	}
	for _, m := range mids {
		saml.MaxIssueDelay = time.Duration(m) * time.Millisecond
		g := groups[m]
		for r := 0; r < reps; r++ {
			parallel(len(g), func(i int) {
				v := g[i]
				k := v.caseKey()
				w, err := c05WorldFor(v)
				if err != nil {
					rep.Break("registry shape cannot be built: %v", err)
					return
				}
				if why := idpreqAgrees(w.Reg, v.Reg); why != "" {
					rep.DriftCase(k, "re-parsed metadata differs from the registry the spec assumes: "+why, nil)
					return
				}
				rng := newRand(fmt.Sprintf("%s/%d", k, r))
				c := idpreqConcretise(v, now, rng)
				o := c05Run(w, v, c)
				rep.Eval(v.Class, k)
				rep.Trace(1)
				c05Judge(rep, w, v, c, o, now)
				if i%2903 == 0 {
					rep.Sample(map[string]any{"in": v.In, "reg": v.Reg, "mid_ms": v.Mid, "class": v.Class, "predicted": v.Pred,
						"real_accepted": o.Accepted, "real_endpoint": o.EP, "real_err": o.NewErr + o.ValErr, "http_status": o.HTTPStatus, "form_action": o.FormAction})
				}
			})
		}
	}
	if rep.Classes["MustAccept"] == 0 || rep.Classes["MustReject"] == 0 {
		rep.Break("vacuous: no MustAccept or no MustReject vectors")
	}
}

func init() {
	registerReplay("C05", func(t *testing.T, raw []byte) (bool, string) {
		var r struct {
			Vector idpreqVec      `json:"vector"`
			Now    string         `json:"now"`
			Mid    int64          `json:"mid_ms"`
			HTTP   idpreqConcrete `json:"http"`
			XML    string         `json:"request_xml"`
			SPMD   string         `json:"sp_metadata"`
			OtMD   string         `json:"other_sp_metadata"`
		}
		if err := json.Unmarshal(raw, &r); err != nil {
			t.Fatal(err)
		}
		now, _ := time.Parse(time.RFC3339Nano, r.Now)
		saml.TimeNow = func() time.Time { return now }
		saml.MaxIssueDelay = time.Duration(r.Mid) * time.Millisecond
		w := &c05World{Reg: &idpreqRegistered{XML: []byte(r.SPMD), MD: &saml.EntityDescriptor{}}, Other: &idpreqRegistered{XML: []byte(r.OtMD), MD: &saml.EntityDescriptor{}}}
		if err := xml.Unmarshal(w.Reg.XML, w.Reg.MD); err != nil {
			t.Fatal(err)
		}
		if err := xml.Unmarshal(w.Other.XML, w.Other.MD); err != nil {
			t.Fatal(err)
		}
		w.Prov = idpreqProvider{spEntityID: w.Reg.MD, idpreqOtherEntityID: w.Other.MD}
		c := r.HTTP
		c.XML = []byte(r.XML)
		o := c05Run(w, &r.Vector, &c)
		rep := NewReport("C05")
		t.Setenv("VERIF_REPLAYS", t.TempDir())
		c05Judge(rep, w, &r.Vector, &c, o, now)
		return len(rep.Violations) > 0, fmt.Sprintf("accepted=%v endpoint=%+v err=%q panic=%v http=%d action=%q", o.Accepted, o.EP, o.NewErr+o.ValErr, o.Panic != "" || o.HTTPPanic != "", o.HTTPStatus, o.FormAction)
	})
}
