package harness

// Helpers shared by TestC12 and TestC13 (spec/SPEmit.tla): concretisation of the
// abstract cases, construction of a real saml.ServiceProvider, and an INDEPENDENT
// receiver for what the SP emits (query-string parser, HTML form tokenizer,
// base64/inflate, XML inspection, signature verification with crypto/* only).

import (
	"bytes"
	"compress/flate"
	"crypto"
	"crypto/ecdsa"
	crand "crypto/rand"
	"crypto/rsa"
	_ "crypto/sha1"
	_ "crypto/sha256"
	_ "crypto/sha512"
	"crypto/x509"
	"crypto/x509/pkix"
	"encoding/base64"
	"encoding/hex"
	"encoding/xml"
	"errors"
	"fmt"
	"html"
	"io"
	"math/big"
	"math/rand"
	"net/http"
	"net/url"
	"os"
	"sort"
	"strings"
	"sync"
	"time"
	"unicode/utf8"

	"github.com/beevik/etree"
	dsig "github.com/russellhaering/goxmldsig"
	"github.com/russellhaering/goxmldsig/etreeutils"

	"github.com/crewjam/saml"
)

// ---------------------------------------------------------------------------
// vectors as emitted by spec/SPEmit.tla

type spemitFlags struct {
	NSAML       int  `json:"nSAML"`
	SamlNamed   bool `json:"samlNamed"`
	Payload     bool `json:"payload"`
	NRelay      int  `json:"nRelay"`
	RelayRT     bool `json:"relayRT"`
	Existing    bool `json:"existing"`
	SigParams   bool `json:"sigParams"`
	SignedExact bool `json:"signedExact"`
	Delivered   bool `json:"delivered"` // the URL / form action (scheme, host, path) is the idpURL given to Make*
}

type spemitIdpFlags struct {
	NSAML   int  `json:"nSAML"`
	Payload bool `json:"payload"`
	RelayRT bool `json:"relayRT"`
	DestOK  bool `json:"destOK"` // the IdP serving the URL the user agent is sent to accepts the message's Destination
	AcsOK   bool `json:"acsOK"`  // the IdP finds the SP's assertion consumer service for the request (either result binding)
}

type spemitPred struct {
	Outcome string          `json:"outcome"`
	Sigform string          `json:"sigform"`
	Flags   *spemitFlags    `json:"flags,omitempty"`
	Idp     *spemitIdpFlags `json:"idp,omitempty"`
}

type spemitVec struct {
	Prop string `json:"prop"`
	Cfg  struct {
		Query  string `json:"query"`
		Method string `json:"method"`
		MForm  string `json:"mform"` // exact | padded | case | suffixed ("" = exact)
		Key    string `json:"key"`
		NidFmt string `json:"nidfmt"`
		Force  string `json:"force"`
		Rac    bool   `json:"rac"`
		// the environment of the signing decision (round 5)
		IdpWants string `json:"idpwants"` // WantAuthnRequestsSigned in the IdP's metadata: absent | true | false ("" = absent)
		Chain    string `json:"chain"`    // sp.Intermediates: none | one | two ("" = none)
		// who emits, and against what (round 6)
		Offers    string `json:"offers"`    // bindings the IdP's metadata offers for single sign-on: both | redirect | post ("" = both)
		MwBinding string `json:"mwbinding"` // samlsp.Middleware.Binding: default | redirect | post ("" = default)
	} `json:"cfg"`
	In struct {
		Fam     string   `json:"fam"`
		Kind    string   `json:"kind"`
		Binding string   `json:"binding"`
		Relay   []string `json:"relay"`
		NameID  []string `json:"nameid"`
		Dest    string   `json:"dest"`   // first | second | custom ("" = first)
		Swap    bool     `json:"swap"`   // sp.IDPMetadata replaced between creation and rendering
		Path    string   `json:"path"`   // direct | middleware ("" = direct): who emits the AuthnRequest
		Result  string   `json:"result"` // post | artifact ("" = post): the binding the response is asked over
	} `json:"in"`
	Class    string `json:"class"`
	Required struct {
		Form     string `json:"form"`
		Policy   string `json:"policy"`
		NearMiss bool   `json:"nearmiss"`
		OneStep  bool   `json:"onestep"`
		Verifier string `json:"verifier"` // which published certificate the signature must verify under: leaf | none
		Chosen   string `json:"chosen"`   // the binding the message is emitted with (the middleware's choice)
	} `json:"required"`
	// the certificates of the signing KeyDescriptor of sp.Metadata() as the model lists them: leaf, ca1, ca2
	Published []string `json:"published"`
	Pred      struct {
		Req spemitPred `json:"req"`
		Pin spemitPred `json:"pin"`
	} `json:"pred"`
}

// caseID is the stable abstract identity of a vector.
func (v *spemitVec) caseID() string {
	txt := func(s []string) string {
		if len(s) == 0 {
			return "-"
		}
		return strings.Join(s, ".")
	}
	m := v.Cfg.Method
	if m == "" {
		m = "off"
	}
	id := fmt.Sprintf("%s-%s:relay=%s:q=%s:method=%s:key=%s", v.In.Kind, v.In.Binding, txt(v.In.Relay), v.Cfg.Query, m, v.Cfg.Key)
	if v.In.Kind == "logoutreq" {
		id += ":nameid=" + txt(v.In.NameID)
	}
	if v.In.Fam == "config" {
		id += fmt.Sprintf(":nidfmt=%s:force=%s:rac=%v", v.Cfg.NidFmt, v.Cfg.Force, v.Cfg.Rac)
	}
	// the round-3 dimensions appear only where they leave their default, so earlier keys stay what they were
	if v.Cfg.MForm != "" && v.Cfg.MForm != "exact" {
		id += ":form=" + v.Cfg.MForm
	}
	if v.In.Dest != "" && v.In.Dest != "first" {
		id += ":dest=" + v.In.Dest
	}
	if v.In.Swap {
		id += ":md=replaced"
	}
	return id + v.envSuffix()
}

func (v *spemitVec) idpWants() string {
	if v.Cfg.IdpWants == "" {
		return "absent"
	}
	return v.Cfg.IdpWants
}

func (v *spemitVec) chain() string {
	if v.Cfg.Chain == "" {
		return "none"
	}
	return v.Cfg.Chain
}

func (v *spemitVec) offers() string {
	if v.Cfg.Offers == "" {
		return "both"
	}
	return v.Cfg.Offers
}

func (v *spemitVec) mwBinding() string {
	if v.Cfg.MwBinding == "" {
		return "default"
	}
	return v.Cfg.MwBinding
}

func (v *spemitVec) path() string {
	if v.In.Path == "" {
		return "direct"
	}
	return v.In.Path
}

func (v *spemitVec) result() string {
	if v.In.Result == "" {
		return "post"
	}
	return v.In.Result
}

// envSuffix names the round-5 and round-6 dimensions where they leave their default (earlier keys stay what they were).
func (v *spemitVec) envSuffix() string {
	out := ""
	if w := v.idpWants(); w != "absent" {
		out += ":idpwants=" + w
	}
	if ch := v.chain(); ch != "none" {
		out += ":chain=" + ch
	}
	if p := v.path(); p != "direct" {
		out += ":path=" + p + ":mwbinding=" + v.mwBinding()
	}
	if o := v.offers(); o != "both" {
		out += ":offers=" + o
	}
	if r := v.result(); r != "post" {
		out += ":result=" + r
	}
	return out
}

func (v *spemitVec) destClass() string {
	if v.In.Dest == "" {
		return "first"
	}
	return v.In.Dest
}

// ---------------------------------------------------------------------------
// concretisation

var spemitClassReps = map[string][]string{
	"plain":     {"a", "Z", "7", "-", "_", ".", "~", "q", "K", "0", "/", ":", "@", ",", "!", "*", "(", ")"},
	"amp":       {"&"},
	"eq":        {"="},
	"hash":      {"#"},
	"plus":      {"+"},
	"pct":       {"%"},
	"space":     {" "},
	"dquote":    {`"`},
	"squote":    {"'"},
	"lt":        {"<"},
	"nonascii":  {"é", "ü", "ß", "日", "Ж", "😀", "\u00a0", "\u20ac", "ı"},
	"semicolon": {";"},
}

const spemitPlainRun = "abcdefghijklmnopqrstuvwxyzABCDEFGHIJKLMNOPQRSTUVWXYZ0123456789-_.~"

func spemitRunLen(c string) int {
	switch c {
	case "L79":
		return 79
	case "L80":
		return 80
	case "L81":
		return 81
	case "L300":
		return 300
	}
	return 0
}

// spemitText turns a class string into a concrete string.
func spemitText(classes []string, rng *rand.Rand) string {
	var b strings.Builder
	for _, c := range classes {
		if n := spemitRunLen(c); n > 0 {
			for i := 0; i < n; i++ {
				b.WriteByte(spemitPlainRun[rng.Intn(len(spemitPlainRun))])
			}
			continue
		}
		reps, ok := spemitClassReps[c]
		if !ok {
			panic("unknown character class " + c)
		}
		b.WriteString(reps[rng.Intn(len(reps))])
	}
	s := b.String()
	if !utf8.ValidString(s) || strings.ContainsRune(s, 0) {
		panic("concretisation outside the statement's domain")
	}
	return s
}

var spemitMethodURI = map[string]string{
	"rsa-sha1":     dsig.RSASHA1SignatureMethod,
	"rsa-sha256":   dsig.RSASHA256SignatureMethod,
	"rsa-sha384":   dsig.RSASHA384SignatureMethod,
	"rsa-sha512":   dsig.RSASHA512SignatureMethod,
	"ecdsa-sha1":   dsig.ECDSASHA1SignatureMethod,
	"ecdsa-sha256": dsig.ECDSASHA256SignatureMethod,
	"ecdsa-sha384": dsig.ECDSASHA384SignatureMethod,
	"ecdsa-sha512": dsig.ECDSASHA512SignatureMethod,
}

// URIs no supported method has (wrong namespace, DSA, RSA-PSS, HMAC, junk)
var spemitUnknownMethods = []string{
	"http://www.w3.org/2000/09/xmldsig#dsa-sha1",
	"http://www.w3.org/2000/09/xmldsig#rsa-sha256",
	"http://www.w3.org/2007/05/xmldsig-more#sha256-rsa-MGF1",
	"http://www.w3.org/2000/09/xmldsig#hmac-sha1",
	"rsa-sha256",
	"urn:example:not-a-method",
}

// spemitNearMethods concretises cfg.mform: strings that are NOT the URI u although they resemble it.
func spemitNearMethods(form, u string) []string {
	switch form {
	case "padded": // white space around it, a trailing newline
		return []string{u + "\n", " " + u, u + " ", "\t" + u, u + "\r\n", " " + u + " ", "\n" + u}
	case "case": // another letter case
		i := strings.IndexByte(u, '#')
		return []string{strings.ToUpper(u), u[:i+1] + strings.ToUpper(u[i+1:]), "HTTP" + u[4:], strings.Replace(u, "www.w3.org", "WWW.W3.ORG", 1)}
	case "suffixed": // a trailing slash or fragment
		return []string{u + "/", u + "#", u + "#v1", u + "/#"}
	}
	panic("unknown method form " + form)
}

var spemitHashOf = map[string]crypto.Hash{
	dsig.RSASHA1SignatureMethod: crypto.SHA1, dsig.RSASHA256SignatureMethod: crypto.SHA256,
	dsig.RSASHA384SignatureMethod: crypto.SHA384, dsig.RSASHA512SignatureMethod: crypto.SHA512,
	dsig.ECDSASHA1SignatureMethod: crypto.SHA1, dsig.ECDSASHA256SignatureMethod: crypto.SHA256,
	dsig.ECDSASHA384SignatureMethod: crypto.SHA384, dsig.ECDSASHA512SignatureMethod: crypto.SHA512,
}

var spemitDigestHash = map[string]crypto.Hash{
	"http://www.w3.org/2000/09/xmldsig#sha1":        crypto.SHA1,
	"http://www.w3.org/2001/04/xmlenc#sha256":       crypto.SHA256,
	"http://www.w3.org/2001/04/xmldsig-more#sha384": crypto.SHA384,
	"http://www.w3.org/2001/04/xmlenc#sha512":       crypto.SHA512,
}

func spemitKey(name string) *KeyPair {
	if name == "rsa2048" {
		return key("sp")
	}
	return key(name)
}

var spemitQueryReps = map[string][][2]string{ // concrete query, and the same as the decoded pairs "n=v;n=v"
	"none": {{"", ""}},
	"ab":   {{"a=b", "a=b"}, {"tenant=42", "tenant=42"}, {"hint=a%26b", "hint=a&b"}},
	"abc":  {{"a=b&c", "a=b;c="}, {"tenant=42&debug", "tenant=42;debug="}, {"a=b&c=", "a=b;c="}, {"realm=staff&x", "realm=staff;x="}},
}

// where the IdP's endpoints are (spec: EP(at, query)); every location the message is NOT made for carries
// the query spemitOtherQuery
const spemitOtherQuery = "m=1"

var spemitLocations = map[string]map[string]string{
	"sso": {"first": idpSSOURL, "second": "https://idp.example.com/saml2/sso-alt", "custom": "https://login.tenant.example.net/t/acme/sso",
		"moved": "https://idp.example.com/v2/sso", "moved2": "https://idp.example.com/v2/sso-alt"},
	"slo": {"first": idpSLOURL, "second": "https://idp.example.com/saml2/slo-alt", "custom": "https://login.tenant.example.net/t/acme/slo",
		"moved": "https://idp.example.com/v2/slo", "moved2": "https://idp.example.com/v2/slo-alt"},
}

func spemitSvc(kind string) string {
	if kind == "authn" {
		return "sso"
	}
	return "slo"
}

var spemitNidFormats = map[string]saml.NameIDFormat{
	"unset":       "",
	"transient":   saml.TransientNameIDFormat,
	"unspecified": saml.UnspecifiedNameIDFormat,
	"email":       saml.EmailAddressNameIDFormat,
	"persistent":  saml.PersistentNameIDFormat,
}

const spemitRacClass = "urn:oasis:names:tc:SAML:2.0:ac:classes:PasswordProtectedTransport"

// spemitConc is everything concrete about one execution (stored in replays).
type spemitConc struct {
	Relay       string `json:"relay"`
	NameID      string `json:"name_id"`
	GivenID     string `json:"given_id"` // request ID a LogoutResponse answers
	Query       string `json:"endpoint_query"`
	QueryPairs  string `json:"endpoint_pairs"`
	MethodURI   string `json:"method_uri"`
	EntityIDSet bool   `json:"entity_id_set"`
	OneStep     bool   `json:"one_step_api"`
	Artifact    string `json:"artifact"`
	// the idpURL handed to Make* ("" in replay files written before round 3: the metadata's first location)
	DestURL string `json:"dest_url,omitempty"`
	// the URI a near-miss method string resembles
	MethodBase string `json:"method_base,omitempty"`
	// middleware path: the request tracker in use (stub: returns the case's relay state; default: the CookieRequestTracker
	// of samlsp.New with a RelayStateFunc) and the entry point (HandleStartAuthFlow | RequireAccount)
	Tracker string `json:"tracker,omitempty"`
	Entry   string `json:"entry,omitempty"`
}

var spemitGivenIDs = []string{"id-9e61753d64e928af5a7a341a97f420c9", "_3c39bc0fe7b13769cab2f6f45eba801b1245264310738",
	"ONELOGIN_4fee3b046395c4e751011e97f8900b5273d56685", "a", "id.with-dots_and~tilde", "pfx&<\"'é"}

func spemitConcretise(v *spemitVec, rng *rand.Rand) *spemitConc {
	c := &spemitConc{
		Relay:       spemitText(v.In.Relay, rng),
		NameID:      spemitText(v.In.NameID, rng),
		GivenID:     spemitGivenIDs[rng.Intn(len(spemitGivenIDs))],
		EntityIDSet: rng.Intn(4) != 0,
		OneStep:     rng.Intn(2) == 0,
		Artifact:    base64.StdEncoding.EncodeToString([]byte(fmt.Sprintf("\x00\x04\x00\x00%040x", rng.Int63()))),
	}
	q := spemitQueryReps[v.Cfg.Query]
	p := q[rng.Intn(len(q))]
	c.Query, c.QueryPairs = p[0], p[1]
	switch v.Cfg.Method {
	case "":
	case "unknown":
		c.MethodURI = spemitUnknownMethods[rng.Intn(len(spemitUnknownMethods))]
	default:
		c.MethodURI = spemitMethodURI[v.Cfg.Method]
		if v.Cfg.MForm != "" && v.Cfg.MForm != "exact" {
			c.MethodBase = c.MethodURI
			near := spemitNearMethods(v.Cfg.MForm, c.MethodBase)
			c.MethodURI = near[rng.Intn(len(near))]
		}
	}
	if v.In.Kind != "artifact" {
		c.DestURL = spemitEndpoint(spemitLocations[spemitSvc(v.In.Kind)][v.destClass()], c.Query)
	}
	if v.destClass() != "first" || v.In.Swap {
		c.OneStep = false // the one-step functions pass the metadata's first location and render at once
	}
	if v.result() != "post" {
		c.OneStep = false // the one-step functions ask for the response over HTTP-POST
	}
	if v.path() == "middleware" {
		c.OneStep = false
		c.Tracker, c.Entry = "stub", "HandleStartAuthFlow"
		if rng.Intn(2) == 0 {
			c.Entry = "RequireAccount"
		}
		// the default tracker signs its cookie with RS256 / ES256, which takes an RSA or a P-256 key; it invents a relay
		// state of its own unless the RelayStateFunc returns one
		if c.Relay != "" && (strings.HasPrefix(v.Cfg.Key, "rsa") || v.Cfg.Key == "ec256") && rng.Intn(2) == 0 {
			c.Tracker = "default"
		}
	}
	return c
}

func spemitEndpoint(base, query string) string {
	if query == "" {
		return base
	}
	return base + "?" + query
}

// spemitIdpMetadata is gen.go's idpMetadata with two locations per service and binding (spec: MdAtCreate).
// The location the message is made for (dest: first | second; none of them for custom) carries query, the
// others spemitOtherQuery.
func spemitIdpMetadata(dest, query string) *saml.EntityDescriptor {
	q := func(at string) string {
		if at == dest || (dest == "" && at == "first") {
			return query
		}
		return spemitOtherQuery
	}
	return spemitIdpMetadataAt("first", q("first"), "second", q("second"))
}

// spemitApplyOffers removes the SingleSignOnService endpoints of the bindings the IdP does not offer (spec: cfg.offers).
func spemitApplyOffers(md *saml.EntityDescriptor, offers string) {
	if offers == "both" || offers == "" {
		return
	}
	keep := spemitBindingURI(offers)
	for i := range md.IDPSSODescriptors {
		var eps []saml.Endpoint
		for _, ep := range md.IDPSSODescriptors[i].SingleSignOnServices {
			if ep.Binding == keep {
				eps = append(eps, ep)
			}
		}
		md.IDPSSODescriptors[i].SingleSignOnServices = eps
	}
}

// spemitIdpMetadataReplaced is what the application installs later (spec: MdReplaced).
func spemitIdpMetadataReplaced() *saml.EntityDescriptor {
	return spemitIdpMetadataAt("moved", spemitOtherQuery, "moved2", spemitOtherQuery)
}

func spemitIdpMetadataAt(at1, q1, at2, q2 string) *saml.EntityDescriptor {
	md := idpMetadata([]keyUse{{"signing", key("idp1").CertB64()}})
	d := &md.IDPSSODescriptors[0]
	eps := func(svc string) []saml.Endpoint {
		var out []saml.Endpoint
		for _, l := range [][2]string{{at1, q1}, {at2, q2}} {
			for _, b := range []string{saml.HTTPRedirectBinding, saml.HTTPPostBinding} {
				out = append(out, saml.Endpoint{Binding: b, Location: spemitEndpoint(spemitLocations[svc][l[0]], l[1])})
			}
		}
		return out
	}
	d.SingleSignOnServices = eps("sso")
	d.SingleLogoutServices = eps("slo")
	return md
}

// ---------------------------------------------------------------------------
// the environment of the signing decision (spec: cfg.idpwants, cfg.chain)

// spemitChainSet is a real certificate chain for every fixed SP key: root (not handed to the SP) -> ca2 -> ca1
// -> leaf.  "leaf" certifies the SP key and is what sp.Certificate holds when a chain is configured;
// sp.Intermediates is {ca1} (chain one) or {ca1, ca2} (chain two).
type spemitChainSet struct {
	root, ca1, ca2 *x509.Certificate
	mu             sync.Mutex
	leaf           map[string]*x509.Certificate
}

var (
	spemitChainOnce sync.Once
	spemitChains    *spemitChainSet
)

// spemitOwnDER parses a certificate from a buffer of its own with no spare capacity, so that code appending
// to Certificate.Raw can never write into memory shared between the harness's concurrent cases.
func spemitOwnDER(der []byte) *x509.Certificate {
	own := make([]byte, len(der))
	copy(own, der)
	cert, err := x509.ParseCertificate(own)
	if err != nil {
		panic(err)
	}
	return cert
}

func spemitIssue(serial int64, cn string, ca bool, pub crypto.PublicKey, parent *x509.Certificate, parentKey crypto.Signer) *x509.Certificate {
	tpl := &x509.Certificate{
		SerialNumber:          big.NewInt(serial),
		Subject:               pkix.Name{CommonName: cn, Organization: []string{"verif harness"}},
		NotBefore:             time.Date(2020, 1, 1, 0, 0, 0, 0, time.UTC),
		NotAfter:              time.Date(2100, 1, 1, 0, 0, 0, 0, time.UTC),
		KeyUsage:              x509.KeyUsageDigitalSignature,
		BasicConstraintsValid: true,
	}
	if ca {
		tpl.IsCA, tpl.KeyUsage = true, x509.KeyUsageCertSign|x509.KeyUsageCRLSign
	}
	if parent == nil {
		parent = tpl // self-signed
	}
	der, err := x509.CreateCertificate(crand.Reader, tpl, parent, pub, parentKey)
	if err != nil {
		panic(err)
	}
	return spemitOwnDER(der)
}

func spemitChain() *spemitChainSet {
	spemitChainOnce.Do(func() {
		rootK, ca2K, ca1K := key("att"), key("idpenc"), key("idp2")
		cs := &spemitChainSet{leaf: map[string]*x509.Certificate{}}
		cs.root = spemitIssue(1, "Harness Root CA", true, rootK.Key.Public(), nil, rootK.Key)
		cs.ca2 = spemitIssue(2, "Harness Policy CA", true, ca2K.Key.Public(), cs.root, rootK.Key)
		cs.ca1 = spemitIssue(3, "Harness Issuing CA", true, ca1K.Key.Public(), cs.ca2, ca2K.Key)
		spemitChains = cs
	})
	return spemitChains
}

// spemitLeaf is the certificate of the fixed SP key keyName issued by ca1.
func spemitLeaf(keyName string) *x509.Certificate {
	cs := spemitChain()
	cs.mu.Lock()
	defer cs.mu.Unlock()
	if c, ok := cs.leaf[keyName]; ok {
		return c
	}
	c := spemitIssue(100+int64(len(cs.leaf)), "sp.example.com", false, spemitKey(keyName).Key.Public(), cs.ca1, key("idp2").Key)
	cs.leaf[keyName] = c
	return c
}

// spemitCertName names a certificate as the model does: leaf (the certificate of the SP's key), ca1, ca2.
func spemitCertName(c *x509.Certificate, s *saml.ServiceProvider) string {
	cs := spemitChain()
	switch {
	case s.Certificate != nil && bytes.Equal(c.Raw, s.Certificate.Raw):
		return "leaf"
	case bytes.Equal(c.Raw, cs.ca1.Raw):
		return "ca1"
	case bytes.Equal(c.Raw, cs.ca2.Raw):
		return "ca2"
	case bytes.Equal(c.Raw, cs.root.Raw):
		return "root"
	}
	return "other:" + c.Subject.CommonName
}

// spemitApplyEnv configures the SP s for the environment the vector names: the attribute
// WantAuthnRequestsSigned on every IDPSSODescriptor of s.IDPMetadata, and the certificate chain
// (s.Certificate = the CA-issued certificate of the SP key, s.Intermediates = the CA certificates).
func spemitApplyEnv(s *saml.ServiceProvider, v *spemitVec) {
	spemitApplyWants(s.IDPMetadata, v.idpWants())
	kp := spemitKey(v.Cfg.Key)
	cs := spemitChain()
	switch v.chain() {
	case "none":
		s.Certificate, s.Intermediates = kp.Cert, nil
	case "one":
		s.Certificate, s.Intermediates = spemitLeaf(v.Cfg.Key), []*x509.Certificate{cs.ca1}
	case "two":
		s.Certificate, s.Intermediates = spemitLeaf(v.Cfg.Key), []*x509.Certificate{cs.ca1, cs.ca2}
	default:
		panic("unknown chain class " + v.Cfg.Chain)
	}
}

func spemitApplyWants(md *saml.EntityDescriptor, wants string) {
	for i := range md.IDPSSODescriptors {
		switch wants {
		case "absent":
			md.IDPSSODescriptors[i].WantAuthnRequestsSigned = nil
		case "true", "false":
			b := wants == "true"
			md.IDPSSODescriptors[i].WantAuthnRequestsSigned = &b
		default:
			panic("unknown WantAuthnRequestsSigned class " + wants)
		}
	}
}

func spemitSP(v *spemitVec, c *spemitConc) *saml.ServiceProvider {
	kp := spemitKey(v.Cfg.Key)
	s := &saml.ServiceProvider{
		Key:               kp.Key,
		Certificate:       kp.Cert,
		MetadataURL:       mustURL(spMetadata),
		AcsURL:            mustURL(spACS),
		SloURL:            mustURL(spSLO),
		IDPMetadata:       spemitIdpMetadata(v.In.Dest, c.Query),
		SignatureMethod:   c.MethodURI,
		AuthnNameIDFormat: spemitNidFormats[v.Cfg.NidFmt],
		LogoutBindings:    []string{saml.HTTPPostBinding, saml.HTTPRedirectBinding},
	}
	if c.EntityIDSet {
		s.EntityID = spEntityID
	}
	switch v.Cfg.Force {
	case "true":
		t := true
		s.ForceAuthn = &t
	case "false":
		f := false
		s.ForceAuthn = &f
	}
	if v.Cfg.Rac {
		s.RequestedAuthnContext = &saml.RequestedAuthnContext{Comparison: "exact", AuthnContextClassRef: spemitRacClass}
	}
	spemitApplyOffers(s.IDPMetadata, v.offers())
	spemitApplyEnv(s, v)
	return s
}

func spemitIssuer(c *spemitConc) string {
	if c.EntityIDSet {
		return spEntityID
	}
	return spMetadata
}

// ---------------------------------------------------------------------------
// calling the real API

type spemitEmission struct {
	URL      string // redirect binding: the URL as it goes into the Location header
	Form     []byte // POST binding: the HTML document
	XML      []byte // binding "element": the serialised element (Element() / Bytes() / inflated Deflate())
	Element  *etree.Element
	SOAP     []byte
	Err      error
	Panic    string
	KnownID  string // message ID when the API exposes it (two-step)
	Produced bool
	// middleware path: the ServiceProvider of the middleware (whose metadata is the published one) and the binding the
	// response was emitted with (302 + Location: redirect; 200 + form: post)
	SP      *saml.ServiceProvider
	Binding string
	Status  int
}

func spemitResultURI(r string) string {
	if r == "artifact" {
		return saml.HTTPArtifactBinding
	}
	return saml.HTTPPostBinding
}

func spemitBindingURI(b string) string {
	if b == "post" {
		return saml.HTTPPostBinding
	}
	return saml.HTTPRedirectBinding
}

func spemitEmit(s *saml.ServiceProvider, v *spemitVec, c *spemitConc) *spemitEmission {
	if v.path() == "middleware" {
		return spemitEmitViaMiddleware(s, v, c)
	}
	e := &spemitEmission{}
	result := spemitResultURI(v.result())
	setURL := func(u *url.URL, err error) {
		e.Err = err
		if u != nil {
			e.URL = u.String()
			e.Produced = true
		}
	}
	setForm := func(b []byte, err error) {
		e.Err = err
		if len(b) > 0 {
			e.Form = b
			e.Produced = true
		}
	}
	b := spemitBindingURI(v.In.Binding)
	// the idpURL handed to Make*: the metadata's first location for the binding (what the one-step functions
	// pass), or the URL the case names
	dest := func(first string) string {
		if c.DestURL != "" {
			return c.DestURL
		}
		return first
	}
	// between the two steps of the API the application may install new IdP metadata
	replace := func() {
		if v.In.Swap {
			s.IDPMetadata = spemitIdpMetadataReplaced()
			spemitApplyWants(s.IDPMetadata, v.idpWants()) // the IdP moved its endpoints, not its wishes
		}
	}
	p, msg := safely(func() {
		switch v.In.Kind {
		case "authn":
			if c.OneStep {
				if v.In.Binding == "redirect" {
					setURL(s.MakeRedirectAuthenticationRequest(c.Relay))
				} else {
					setForm(s.MakePostAuthenticationRequest(c.Relay))
				}
				return
			}
			req, err := s.MakeAuthenticationRequest(dest(s.GetSSOBindingLocation(b)), b, result)
			if err != nil || req == nil {
				e.Err, e.Produced = err, req != nil
				return
			}
			e.KnownID = req.ID
			replace()
			if v.In.Binding == "redirect" {
				setURL(req.Redirect(c.Relay, s))
			} else {
				setForm(req.Post(c.Relay), nil)
			}
		case "logoutreq":
			if c.OneStep {
				if v.In.Binding == "redirect" {
					setURL(s.MakeRedirectLogoutRequest(c.NameID, c.Relay))
				} else {
					setForm(s.MakePostLogoutRequest(c.NameID, c.Relay))
				}
				return
			}
			req, err := s.MakeLogoutRequest(dest(s.GetSLOBindingLocation(b)), c.NameID)
			if err != nil || req == nil {
				e.Err, e.Produced = err, req != nil
				return
			}
			e.KnownID = req.ID
			replace()
			if v.In.Binding == "redirect" {
				setURL(req.Redirect(c.Relay), nil)
			} else {
				setForm(req.Post(c.Relay), nil)
			}
		case "logoutresp":
			if c.OneStep {
				if v.In.Binding == "redirect" {
					setURL(s.MakeRedirectLogoutResponse(c.GivenID, c.Relay))
				} else {
					setForm(s.MakePostLogoutResponse(c.GivenID, c.Relay))
				}
				return
			}
			resp, err := s.MakeLogoutResponse(dest(s.GetSLOBindingLocation(b)), c.GivenID)
			if err != nil || resp == nil {
				e.Err, e.Produced = err, resp != nil
				return
			}
			e.KnownID = resp.ID
			replace()
			if v.In.Binding == "redirect" {
				setURL(resp.Redirect(c.Relay), nil)
			} else {
				setForm(resp.Post(c.Relay), nil)
			}
		case "artifact":
			req, err := s.MakeArtifactResolveRequest(c.Artifact)
			e.Err = err
			if req != nil {
				e.Produced = true
				e.KnownID = req.ID
				e.Element = req.Element()
				doc := etree.NewDocument()
				doc.SetRoot(req.SoapRequest())
				e.SOAP, _ = doc.WriteToBytes()
			}
		default:
			panic("unknown kind " + v.In.Kind)
		}
	})
	if p {
		e.Panic = msg
	}
	return e
}

// ---------------------------------------------------------------------------
// independent receiver: query strings

type spemitParam struct {
	Name, Value       string
	RawName, RawValue string
	rawEq             string // "=" when the pair was written with one
	OK                bool   // both parts percent-decode
}

// spemitPctDecode is application/x-www-form-urlencoded decoding: '+' is a space,
// %XX a byte; a '%' not followed by two hex digits has no defined meaning (ok=false).
func spemitPctDecode(s string) (string, bool) {
	var b []byte
	for i := 0; i < len(s); i++ {
		switch s[i] {
		case '+':
			b = append(b, ' ')
		case '%':
			if i+2 >= len(s) {
				return "", false
			}
			x, err := hex.DecodeString(s[i+1 : i+3])
			if err != nil {
				return "", false
			}
			b = append(b, x[0])
			i += 2
		default:
			b = append(b, s[i])
		}
	}
	return string(b), true
}

// spemitSplitURL splits the wire form of a URL as a user agent does: the fragment
// (from the first '#') is not sent, the query starts at the first '?'.
func spemitSplitURL(wire string) (base, rawQuery, fragment string, hasFragment bool) {
	if i := strings.IndexByte(wire, '#'); i >= 0 {
		wire, fragment, hasFragment = wire[:i], wire[i+1:], true
	}
	if i := strings.IndexByte(wire, '?'); i >= 0 {
		return wire[:i], wire[i+1:], fragment, hasFragment
	}
	return wire, "", fragment, hasFragment
}

func spemitParseQuery(raw string) []spemitParam {
	var out []spemitParam
	for _, piece := range strings.Split(raw, "&") {
		if piece == "" {
			continue
		}
		p := spemitParam{RawName: piece}
		if i := strings.IndexByte(piece, '='); i >= 0 {
			p.RawName, p.RawValue, p.rawEq = piece[:i], piece[i+1:], "="
		}
		n, ok1 := spemitPctDecode(p.RawName)
		val, ok2 := spemitPctDecode(p.RawValue)
		p.Name, p.Value, p.OK = n, val, ok1 && ok2
		if !ok1 {
			p.Name = p.RawName
		}
		out = append(out, p)
	}
	return out
}

func spemitNamed(ps []spemitParam, name string) []spemitParam {
	var out []spemitParam
	for _, p := range ps {
		if p.Name == name {
			out = append(out, p)
		}
	}
	return out
}

var spemitOwnNames = map[string]bool{"SAMLRequest": true, "SAMLResponse": true, "RelayState": true, "SigAlg": true, "Signature": true}

func spemitForeign(ps []spemitParam) string {
	var out []string
	for _, p := range ps {
		if !spemitOwnNames[p.Name] {
			out = append(out, p.Name+"="+p.Value)
		}
	}
	sort.Strings(out)
	return strings.Join(out, ";")
}

// spemitForeignRaw joins, as written and in order, the parameters that are not the binding's own: the
// query string of the URL the user agent is sent to.
func spemitForeignRaw(ps []spemitParam) string {
	var out []string
	for _, p := range ps {
		if !spemitOwnNames[p.Name] {
			out = append(out, p.RawName+p.rawEq+p.RawValue)
		}
	}
	return strings.Join(out, "&")
}

func spemitSortedPairs(s string) string {
	if s == "" {
		return ""
	}
	p := strings.Split(s, ";")
	sort.Strings(p)
	return strings.Join(p, ";")
}

// ---------------------------------------------------------------------------
// independent receiver: HTML forms (minimal tokenizer for start tags)

type spemitTag struct {
	Name  string
	Attrs [][2]string
}

func (t spemitTag) attr(n string) (string, int) {
	v, k := "", 0
	for _, a := range t.Attrs {
		if a[0] == n {
			if k == 0 {
				v = a[1]
			}
			k++
		}
	}
	return v, k
}

func spemitIsSpace(c byte) bool { return c == ' ' || c == '\t' || c == '\n' || c == '\r' || c == '\f' }

// spemitTokenize returns the start tags of an HTML document in order.  Attribute
// values are delimited as an HTML parser delimits them and entity-decoded with
// html.UnescapeString; the text of <script> elements is skipped.
func spemitTokenize(doc []byte) ([]spemitTag, error) {
	var tags []spemitTag
	s := string(doc)
	i := 0
	for i < len(s) {
		if s[i] != '<' {
			i++
			continue
		}
		i++
		if i < len(s) && (s[i] == '/' || s[i] == '!') {
			j := strings.IndexByte(s[i:], '>')
			if j < 0 {
				return tags, errors.New("unterminated tag")
			}
			i += j + 1
			continue
		}
		st := i
		for i < len(s) && !spemitIsSpace(s[i]) && s[i] != '>' && s[i] != '/' {
			i++
		}
		t := spemitTag{Name: strings.ToLower(s[st:i])}
		for {
			for i < len(s) && (spemitIsSpace(s[i]) || s[i] == '/') {
				i++
			}
			if i >= len(s) {
				return tags, errors.New("unterminated tag")
			}
			if s[i] == '>' {
				i++
				break
			}
			st = i
			for i < len(s) && !spemitIsSpace(s[i]) && s[i] != '=' && s[i] != '>' && s[i] != '/' {
				i++
			}
			name := strings.ToLower(s[st:i])
			for i < len(s) && spemitIsSpace(s[i]) {
				i++
			}
			val := ""
			if i < len(s) && s[i] == '=' {
				i++
				for i < len(s) && spemitIsSpace(s[i]) {
					i++
				}
				if i < len(s) && (s[i] == '"' || s[i] == '\'') {
					q := s[i]
					i++
					j := strings.IndexByte(s[i:], q)
					if j < 0 {
						return tags, errors.New("unterminated attribute value")
					}
					val = s[i : i+j]
					i += j + 1
				} else {
					st = i
					for i < len(s) && !spemitIsSpace(s[i]) && s[i] != '>' {
						i++
					}
					val = s[st:i]
				}
			}
			t.Attrs = append(t.Attrs, [2]string{name, html.UnescapeString(val)})
		}
		tags = append(tags, t)
		if t.Name == "script" {
			j := strings.Index(strings.ToLower(s[i:]), "</script")
			if j < 0 {
				return tags, errors.New("unterminated script")
			}
			i += j
		}
	}
	return tags, nil
}

type spemitForm struct {
	Action, Method string
	Fields         [][2]string
	Forms          int
}

func spemitParseForm(doc []byte) (*spemitForm, error) {
	tags, err := spemitTokenize(doc)
	if err != nil {
		return nil, err
	}
	f := &spemitForm{}
	for _, t := range tags {
		switch t.Name {
		case "form":
			f.Forms++
			f.Action, _ = t.attr("action")
			f.Method, _ = t.attr("method")
		case "input":
			n, k := t.attr("name")
			if k == 0 {
				continue
			}
			val, kv := t.attr("value")
			if k > 1 || kv > 1 {
				return f, errors.New("duplicate attribute on input")
			}
			f.Fields = append(f.Fields, [2]string{n, val})
		}
	}
	if f.Forms != 1 {
		return f, fmt.Errorf("%d form elements", f.Forms)
	}
	return f, nil
}

// ---------------------------------------------------------------------------
// independent receiver: payloads and XML

func spemitInflate(b []byte) ([]byte, error) {
	r := flate.NewReader(bytes.NewReader(b))
	defer r.Close()
	return io.ReadAll(io.LimitReader(r, 4<<20))
}

// spemitWellFormed runs encoding/xml's strict tokenizer over the whole document.
func spemitWellFormed(b []byte) error {
	d := xml.NewDecoder(bytes.NewReader(b))
	depth, roots := 0, 0
	for {
		tok, err := d.Token()
		if err == io.EOF {
			break
		}
		if err != nil {
			return err
		}
		switch tok.(type) {
		case xml.StartElement:
			if depth == 0 {
				roots++
			}
			depth++
		case xml.EndElement:
			depth--
		}
	}
	if roots != 1 || depth != 0 {
		return fmt.Errorf("%d root elements", roots)
	}
	return nil
}

func spemitParseXML(b []byte) (*etree.Element, error) {
	if err := spemitWellFormed(b); err != nil {
		return nil, err
	}
	doc := etree.NewDocument()
	if err := doc.ReadFromBytes(b); err != nil {
		return nil, err
	}
	if doc.Root() == nil {
		return nil, errors.New("no root element")
	}
	return doc.Root(), nil
}

func spemitChild(el *etree.Element, ns, tag string) []*etree.Element {
	var out []*etree.Element
	for _, c := range el.ChildElements() {
		if c.Tag == tag && c.NamespaceURI() == ns {
			out = append(out, c)
		}
	}
	return out
}

func spemitAttr(el *etree.Element, name string) (string, bool) {
	a := el.SelectAttr(name)
	if a == nil {
		return "", false
	}
	return a.Value, true
}

var spemitRootTag = map[string]string{"authn": "AuthnRequest", "logoutreq": "LogoutRequest", "logoutresp": "LogoutResponse", "artifact": "ArtifactResolve"}

// spemitCheckMessage compares the decoded message with what was configured / given.
// It returns the message ID and a list of "field: problem" strings.
func spemitCheckMessage(root *etree.Element, v *spemitVec, c *spemitConc, knownID string) (string, []string) {
	var bad []string
	want := func(what, got, exp string) {
		if got != exp {
			bad = append(bad, fmt.Sprintf("%s: got %q want %q", what, got, exp))
		}
	}
	if root.Tag != spemitRootTag[v.In.Kind] || root.NamespaceURI() != nsProtocol {
		bad = append(bad, fmt.Sprintf("root: {%s}%s", root.NamespaceURI(), root.Tag))
		return "", bad
	}
	id, _ := spemitAttr(root, "ID")
	if id == "" {
		bad = append(bad, "ID: absent")
	}
	if knownID != "" {
		want("ID", id, knownID)
	}
	ver, _ := spemitAttr(root, "Version")
	want("Version", ver, "2.0")
	ii, _ := spemitAttr(root, "IssueInstant")
	if _, err := time.Parse(time.RFC3339Nano, ii); err != nil {
		bad = append(bad, "IssueInstant: "+ii)
	}
	iss := spemitChild(root, nsAssertion, "Issuer")
	if len(iss) != 1 {
		bad = append(bad, fmt.Sprintf("Issuer: %d elements", len(iss)))
	} else {
		want("Issuer", iss[0].Text(), spemitIssuer(c))
	}
	dest, _ := spemitAttr(root, "Destination")
	// the message names the idpURL it was made for
	given := c.DestURL
	if given == "" && v.In.Kind != "artifact" { // replay files written before round 3
		given = spemitEndpoint(spemitLocations[spemitSvc(v.In.Kind)]["first"], c.Query)
	}
	switch v.In.Kind {
	case "authn":
		want("Destination", dest, given)
		acs, _ := spemitAttr(root, "AssertionConsumerServiceURL")
		want("AssertionConsumerServiceURL", acs, spACS)
		pb, _ := spemitAttr(root, "ProtocolBinding")
		want("ProtocolBinding", pb, spemitResultURI(v.result()))
		pol := spemitChild(root, nsProtocol, "NameIDPolicy")
		if len(pol) != 1 {
			bad = append(bad, fmt.Sprintf("NameIDPolicy: %d elements", len(pol)))
		} else {
			f, has := spemitAttr(pol[0], "Format")
			switch v.Required.Policy {
			case "absent":
				if has && f != "" && f != string(saml.UnspecifiedNameIDFormat) {
					bad = append(bad, "NameIDPolicy.Format: "+f)
				}
			default:
				want("NameIDPolicy.Format", f, string(spemitNidFormats[v.Required.Policy]))
			}
			ac, _ := spemitAttr(pol[0], "AllowCreate")
			want("NameIDPolicy.AllowCreate", ac, "true")
		}
		fa, has := spemitAttr(root, "ForceAuthn")
		switch v.Cfg.Force {
		case "nil":
			if has {
				bad = append(bad, "ForceAuthn: present "+fa)
			}
		default:
			want("ForceAuthn", fa, v.Cfg.Force)
		}
		rac := spemitChild(root, nsProtocol, "RequestedAuthnContext")
		if v.Cfg.Rac {
			if len(rac) != 1 {
				bad = append(bad, fmt.Sprintf("RequestedAuthnContext: %d elements", len(rac)))
			} else {
				cmp, _ := spemitAttr(rac[0], "Comparison")
				want("RequestedAuthnContext.Comparison", cmp, "exact")
				refs := spemitChild(rac[0], nsAssertion, "AuthnContextClassRef")
				if len(refs) != 1 {
					bad = append(bad, "AuthnContextClassRef: missing")
				} else {
					want("AuthnContextClassRef", refs[0].Text(), spemitRacClass)
				}
			}
		} else if len(rac) != 0 {
			bad = append(bad, "RequestedAuthnContext: present")
		}
	case "logoutreq":
		want("Destination", dest, given)
		nid := spemitChild(root, nsAssertion, "NameID")
		if len(nid) != 1 {
			bad = append(bad, fmt.Sprintf("NameID: %d elements", len(nid)))
		} else {
			want("NameID", nid[0].Text(), c.NameID)
			f, has := spemitAttr(nid[0], "Format")
			if v.Required.Policy == "absent" {
				if has && f != "" && f != string(saml.UnspecifiedNameIDFormat) {
					bad = append(bad, "NameID.Format: "+f)
				}
			} else {
				want("NameID.Format", f, string(spemitNidFormats[v.Required.Policy]))
			}
		}
	case "logoutresp":
		want("Destination", dest, given)
		irt, _ := spemitAttr(root, "InResponseTo")
		want("InResponseTo", irt, c.GivenID)
		st := spemitChild(root, nsProtocol, "Status")
		if len(st) != 1 || len(spemitChild(st[0], nsProtocol, "StatusCode")) != 1 {
			bad = append(bad, "Status: malformed")
		} else {
			val, _ := spemitAttr(spemitChild(st[0], nsProtocol, "StatusCode")[0], "Value")
			want("StatusCode", val, statusOK)
		}
	case "artifact":
		art := spemitChild(root, nsProtocol, "Artifact")
		if len(art) != 1 {
			bad = append(bad, "Artifact: missing")
		} else {
			want("Artifact", art[0].Text(), c.Artifact)
		}
	}
	return id, bad
}

// ---------------------------------------------------------------------------
// the SP's published certificate

// spemitPublishedCert returns "the certificate in the SP's published metadata": the FIRST certificate of
// the KeyDescriptor use="signing" found in sp.Metadata() after an XML round trip.
func spemitPublishedCert(s *saml.ServiceProvider) (*x509.Certificate, *saml.EntityDescriptor, error) {
	certs, md, err := spemitPublishedChain(s)
	if err != nil {
		return nil, md, err
	}
	return certs[0], md, nil
}

// spemitPublishedChain returns every certificate of the one signing KeyDescriptor, in document order.  An
// X509Certificate element may hold several DER certificates one after the other (that is how this library
// publishes sp.Intermediates); several X509Certificate elements are read in order as well.
func spemitPublishedChain(s *saml.ServiceProvider) ([]*x509.Certificate, *saml.EntityDescriptor, error) {
	b, err := xml.Marshal(s.Metadata())
	if err != nil {
		return nil, nil, err
	}
	md := &saml.EntityDescriptor{}
	if err := xml.Unmarshal(b, md); err != nil {
		return nil, nil, err
	}
	var found []*x509.Certificate
	descriptors := 0
	for _, d := range md.SPSSODescriptors {
		for _, kd := range d.KeyDescriptors {
			if kd.Use != "signing" {
				continue
			}
			descriptors++
			for _, c := range kd.KeyInfo.X509Data.X509Certificates {
				raw, err := base64.StdEncoding.DecodeString(strings.Join(strings.Fields(c.Data), ""))
				if err != nil {
					return nil, md, err
				}
				certs, err := x509.ParseCertificates(raw)
				if err != nil {
					return nil, md, err
				}
				found = append(found, certs...)
			}
		}
	}
	if descriptors != 1 {
		return nil, md, fmt.Errorf("%d signing key descriptors in the published metadata", descriptors)
	}
	if len(found) == 0 {
		return nil, md, errors.New("the signing key descriptor of the published metadata holds no certificate")
	}
	return found, md, nil
}

// ---------------------------------------------------------------------------
// signature verification with the standard library only

func spemitVerifyRaw(pub crypto.PublicKey, methodURI string, signedOctets, sig []byte) error {
	h, ok := spemitHashOf[methodURI]
	if !ok {
		return fmt.Errorf("unknown signature method %q", methodURI)
	}
	hh := h.New()
	hh.Write(signedOctets)
	sum := hh.Sum(nil)
	isRSA := strings.Contains(methodURI, "#rsa-")
	switch k := pub.(type) {
	case *rsa.PublicKey:
		if !isRSA {
			return errors.New("method is not an RSA method but the published key is RSA")
		}
		return rsa.VerifyPKCS1v15(k, h, sum, sig)
	case *ecdsa.PublicKey:
		if isRSA {
			return errors.New("method is an RSA method but the published key is ECDSA")
		}
		if ecdsa.VerifyASN1(k, sum, sig) {
			return nil
		}
		n := (k.Curve.Params().BitSize + 7) / 8
		if len(sig) == 2*n {
			r := new(big.Int).SetBytes(sig[:n])
			s := new(big.Int).SetBytes(sig[n:])
			if ecdsa.Verify(k, sum, r, s) {
				return nil
			}
		}
		return errors.New("ecdsa: verification failed (DER and raw r||s tried)")
	}
	return fmt.Errorf("unsupported public key %T", pub)
}

type spemitDetached struct {
	Present      bool   // a Signature parameter exists
	Shape        string // "" or what is wrong with SAMLRequest=..[&RelayState=..]&SigAlg=..
	SigAlg       string
	Own          string // the octets from "SAMLRequest=" to before "&Signature="
	ExactErr     error  // verification over Own
	WholeErr     error  // verification over everything before "&Signature=" (diagnosis)
	PrefixLen    int    // octets of the query in front of "SAMLRequest="
	TrailingJunk string
}

// spemitCheckDetached verifies the redirect-binding signature over exactly the
// octets "SAMLRequest=...[&RelayState=...]&SigAlg=..." as they appear in rawQuery.
func spemitCheckDetached(rawQuery, samlName string, relaySent bool, pub crypto.PublicKey) spemitDetached {
	var d spemitDetached
	i := strings.Index(rawQuery, "&Signature=")
	if i < 0 {
		return d
	}
	d.Present = true
	sigEsc := rawQuery[i+len("&Signature="):]
	if k := strings.IndexByte(sigEsc, '&'); k >= 0 {
		d.TrailingJunk = sigEsc[k:]
		sigEsc = sigEsc[:k]
	}
	sigB64, ok := spemitPctDecode(sigEsc)
	sig, err := base64.StdEncoding.DecodeString(sigB64)
	if !ok || err != nil {
		d.Shape = "Signature value is not base64"
		d.ExactErr = errors.New(d.Shape)
		return d
	}
	j := strings.Index(rawQuery, samlName+"=")
	for j > 0 && rawQuery[j-1] != '&' { // a parameter name, not the tail of another one
		k := strings.Index(rawQuery[j+1:], samlName+"=")
		if k < 0 {
			j = -1
			break
		}
		j += 1 + k
	}
	if j < 0 || j > i {
		d.Shape = "no " + samlName + " parameter before the signature"
		d.ExactErr = errors.New(d.Shape)
		return d
	}
	d.PrefixLen = j
	d.Own = rawQuery[j:i]
	k := strings.LastIndex(d.Own, "&SigAlg=")
	if k < 0 {
		d.Shape = "signed octets do not end with a SigAlg parameter"
	} else if alg, ok := spemitPctDecode(d.Own[k+len("&SigAlg="):]); !ok || strings.ContainsRune(d.Own[k+1:], '&') {
		d.Shape = "SigAlg is not the last signed parameter"
	} else {
		d.SigAlg = alg
		if relaySent != strings.Contains(d.Own[:k], "&RelayState=") {
			d.Shape = "RelayState parameter presence does not match"
		}
	}
	if d.SigAlg == "" {
		d.ExactErr = errors.New("no SigAlg")
		return d
	}
	d.ExactErr = spemitVerifyRaw(pub, d.SigAlg, []byte(d.Own), sig)
	if d.ExactErr != nil {
		d.WholeErr = spemitVerifyRaw(pub, d.SigAlg, []byte(rawQuery[:i]), sig)
	}
	return d
}

const (
	spemitAlgEnveloped = "http://www.w3.org/2000/09/xmldsig#enveloped-signature"
	spemitAlgExcC14N   = "http://www.w3.org/2001/10/xml-exc-c14n#"
)

// spemitSignatures returns the ds:Signature children of the element.
func spemitSignatures(root *etree.Element) []*etree.Element {
	return spemitChild(root, nsDsig, "Signature")
}

// spemitVerifyEnveloped recomputes the reference digest and the signature of an
// enveloped XML signature on root: goxmldsig's canonicaliser produces the octets,
// crypto/* does the mathematics.  It returns the signature method URI.
func spemitVerifyEnveloped(root *etree.Element, pub crypto.PublicKey) (string, error) {
	sigs := spemitSignatures(root)
	if len(sigs) != 1 {
		return "", fmt.Errorf("%d ds:Signature children", len(sigs))
	}
	sigEl := sigs[0]
	one := func(parent *etree.Element, tag string) (*etree.Element, error) {
		c := spemitChild(parent, nsDsig, tag)
		if len(c) != 1 {
			return nil, fmt.Errorf("%d ds:%s elements", len(c), tag)
		}
		return c[0], nil
	}
	si, err := one(sigEl, "SignedInfo")
	if err != nil {
		return "", err
	}
	cm, err := one(si, "CanonicalizationMethod")
	if err != nil {
		return "", err
	}
	if a, _ := spemitAttr(cm, "Algorithm"); a != spemitAlgExcC14N {
		return "", fmt.Errorf("canonicalization method %q", a)
	}
	sm, err := one(si, "SignatureMethod")
	if err != nil {
		return "", err
	}
	method, _ := spemitAttr(sm, "Algorithm")
	ref, err := one(si, "Reference")
	if err != nil {
		return method, err
	}
	id, _ := spemitAttr(root, "ID")
	if uri, _ := spemitAttr(ref, "URI"); uri != "#"+id || id == "" {
		return method, fmt.Errorf("Reference URI %q does not name the element (ID %q)", uri, id)
	}
	trs, err := one(ref, "Transforms")
	if err != nil {
		return method, err
	}
	prefixes, enveloped, exc := "", false, false
	for _, tr := range spemitChild(trs, nsDsig, "Transform") {
		switch a, _ := spemitAttr(tr, "Algorithm"); a {
		case spemitAlgEnveloped:
			enveloped = true
		case spemitAlgExcC14N:
			exc = true
			for _, inc := range tr.ChildElements() {
				if inc.Tag == "InclusiveNamespaces" {
					prefixes, _ = spemitAttr(inc, "PrefixList")
				}
			}
		default:
			return method, fmt.Errorf("transform %q", a)
		}
	}
	if !enveloped || !exc {
		return method, errors.New("transforms are not enveloped-signature + exc-c14n")
	}
	dm, err := one(ref, "DigestMethod")
	if err != nil {
		return method, err
	}
	dalg, _ := spemitAttr(dm, "Algorithm")
	dh, ok := spemitDigestHash[dalg]
	if !ok {
		return method, fmt.Errorf("digest method %q", dalg)
	}
	dv, err := one(ref, "DigestValue")
	if err != nil {
		return method, err
	}
	wantDigest, err := base64.StdEncoding.DecodeString(strings.Join(strings.Fields(dv.Text()), ""))
	if err != nil {
		return method, err
	}
	// the element without its Signature child, with the namespace context of its ancestors
	pctx, err := etreeutils.NSBuildParentContext(root)
	if err != nil {
		return method, err
	}
	detached, err := etreeutils.NSDetatch(pctx, root)
	if err != nil {
		return method, err
	}
	for _, c := range spemitChild(detached, nsDsig, "Signature") {
		detached.RemoveChild(c)
	}
	octets, err := dsig.MakeC14N10ExclusiveCanonicalizerWithPrefixList(prefixes).Canonicalize(detached)
	if err != nil {
		return method, err
	}
	h := dh.New()
	h.Write(octets)
	if got := h.Sum(nil); !bytes.Equal(got, wantDigest) {
		return method, fmt.Errorf("reference digest mismatch (%s)", dalg)
	}
	// SignedInfo in the namespace context of its final position
	sctx, err := etreeutils.NSBuildParentContext(si)
	if err != nil {
		return method, err
	}
	dsi, err := etreeutils.NSDetatch(sctx, si)
	if err != nil {
		return method, err
	}
	siOctets, err := dsig.MakeC14N10ExclusiveCanonicalizerWithPrefixList("").Canonicalize(dsi)
	if err != nil {
		return method, err
	}
	sv, err := one(sigEl, "SignatureValue")
	if err != nil {
		return method, err
	}
	sig, err := base64.StdEncoding.DecodeString(strings.Join(strings.Fields(sv.Text()), ""))
	if err != nil {
		return method, err
	}
	return method, spemitVerifyRaw(pub, method, siOctets, sig)
}

// spemitVerifyWithDsig validates with an independent goxmldsig context whose only
// root is the published certificate.
func spemitVerifyWithDsig(root *etree.Element, cert *x509.Certificate) error {
	ctx := dsig.NewDefaultValidationContext(&dsig.MemoryX509CertificateStore{Roots: []*x509.Certificate{cert}})
	ctx.IdAttribute = "ID"
	_, err := ctx.Validate(root)
	return err
}

// ---------------------------------------------------------------------------
// this library's IdP as the receiver of AuthnRequests

type spemitSPProvider struct{ md *saml.EntityDescriptor }

func (p spemitSPProvider) GetServiceProvider(_ *http.Request, id string) (*saml.EntityDescriptor, error) {
	if p.md != nil && p.md.EntityID == id {
		return p.md, nil
	}
	return nil, os.ErrNotExist
}

type spemitIdpResult struct {
	ParseErr, ValidateErr error
	Panic                 string
	ID, RelayState, ACS   string
}

func spemitFeedIdP(ssoURL url.URL, spMD *saml.EntityDescriptor, r *http.Request) spemitIdpResult {
	var res spemitIdpResult
	idpKey := key("idp1")
	idp := &saml.IdentityProvider{
		Key:                     idpKey.Key,
		Certificate:             idpKey.Cert,
		MetadataURL:             mustURL(idpEntityID),
		SSOURL:                  ssoURL,
		ServiceProviderProvider: spemitSPProvider{spMD},
	}
	p, msg := safely(func() {
		req, err := saml.NewIdpAuthnRequest(idp, r)
		if err != nil {
			res.ParseErr = err
			return
		}
		res.RelayState = req.RelayState
		if err := req.Validate(); err != nil {
			res.ValidateErr = err
			return
		}
		res.ID = req.Request.ID
		if req.ACSEndpoint != nil {
			res.ACS = req.ACSEndpoint.Location
		}
	})
	if p {
		res.Panic = msg
	}
	return res
}

// ---------------------------------------------------------------------------
// deterministic counting replacement for saml.RandReader

type spemitStream struct {
	mu   sync.Mutex
	seed int64
	off  int64
	log  []byte // every byte handed out, in order
	// chunk > 0: at most that many bytes per Read (short reads, as io.Reader permits)
	chunk int
}

func spemitBlock(seed, idx int64) [32]byte {
	var in [16]byte
	for i := 0; i < 8; i++ {
		in[i] = byte(seed >> (8 * i))
		in[8+i] = byte(idx >> (8 * i))
	}
	h := crypto.SHA256.New()
	h.Write([]byte("verif-spemit-stream"))
	h.Write(in[:])
	var out [32]byte
	copy(out[:], h.Sum(nil))
	return out
}

func (s *spemitStream) Read(p []byte) (int, error) {
	s.mu.Lock()
	defer s.mu.Unlock()
	if s.chunk > 0 && len(p) > s.chunk {
		p = p[:s.chunk] // a valid io.Reader may return fewer bytes than asked for
	}
	for i := range p {
		blk := spemitBlock(s.seed, s.off/32)
		p[i] = blk[s.off%32]
		s.off++
	}
	s.log = append(s.log, p...)
	return len(p), nil
}

func (s *spemitStream) offset() int64 {
	s.mu.Lock()
	defer s.mu.Unlock()
	return s.off
}

func (s *spemitStream) bytes(from, to int64) []byte {
	s.mu.Lock()
	defer s.mu.Unlock()
	return append([]byte(nil), s.log[from:to]...)
}
