// Package harness binds the TLA+ specifications in /verif/spec to the real
// crewjam/saml code in /repo (through the replace directive in go.mod).
//
// Every TestCnn reads the abstract cases TLC emitted (ndjson in $VERIF_WORK),
// concretises them, runs the real public API, abstracts the observation back
// and compares it with the model's prediction and with the property's own
// oracle.  Only behaviour of the real code that a clause of the property
// forbids is reported as a violation; model/code disagreement on cases the
// property leaves open is reported as drift.
package harness

import (
	"bufio"
	"crypto/sha256"
	"encoding/hex"
	"encoding/json"
	"fmt"
	"math/rand"
	"os"
	"path/filepath"
	"regexp"
	"runtime"
	"sort"
	"strconv"
	"sync"
	"testing"
	"time"
)

func envOr(k, d string) string {
	if v := os.Getenv(k); v != "" {
		return v
	}
	return d
}

func workDir() string { return envOr("VERIF_WORK", "/verif/.work/manual") }
func tier() string    { return envOr("VERIF_TIER", "quick") }
func thorough() bool  { return tier() == "thorough" }
func seedVal() int64 {
	s, err := strconv.ParseInt(os.Getenv("VERIF_SEED"), 10, 64)
	if err != nil {
		return 1
	}
	return s
}

// No property depends on the time zone of the process: every check runs in a local zone that is
// not UTC (chosen by the seed), so that code which reads an instant in time.Local shows.
func init() {
	zones := []int{-8 * 3600, 5*3600 + 1800, 13 * 3600, -(3*3600 + 1800)}
	n := int64(len(zones))
	time.Local = time.FixedZone("VERIF", zones[((seedVal()%n)+n)%n])
}

// newRand returns a deterministic generator derived from VERIF_SEED and a label.
func newRand(label string) *rand.Rand {
	h := sha256.Sum256([]byte(fmt.Sprintf("%d/%s", seedVal(), label)))
	var s int64
	for i := 0; i < 8; i++ {
		s = s<<8 | int64(h[i])
	}
	return rand.New(rand.NewSource(s))
}

// loadLines reads an ndjson file emitted by TLC (one JSON object per line).
func loadLines(t testing.TB, name string) [][]byte {
	p := filepath.Join(workDir(), name)
	f, err := os.Open(p)
	if err != nil {
		t.Fatalf("cannot open %s: %v", p, err)
	}
	defer f.Close()
	var out [][]byte
	sc := bufio.NewScanner(f)
	sc.Buffer(make([]byte, 1<<20), 64<<20)
	for sc.Scan() {
		b := append([]byte(nil), sc.Bytes()...)
		if len(b) > 0 {
			out = append(out, b)
		}
	}
	return out
}

type Finding struct {
	Key    string          `json:"key"`
	Clause string          `json:"clause"`
	Replay string          `json:"replay,omitempty"`
	Detail json.RawMessage `json:"detail,omitempty"`
}

// Report accumulates what one harness phase observed; Finish writes it for vcheck.
type Report struct {
	mu                 sync.Mutex
	Prop               string
	Evaluations        int               `json:"evaluations"`
	DistinctNontrivial int               `json:"distinct_nontrivial"`
	Rule               string            `json:"rule"`
	Classes            map[string]int    `json:"classes"`
	Violations         []Finding         `json:"violations"`
	Drift              []Finding         `json:"drift"`
	Samples            []json.RawMessage `json:"samples"`
	Traces             int               `json:"traces"`
	Broken             string            `json:"broken"`
	Notes              []string          `json:"notes"`
	Assumptions        []string          `json:"assumptions"`
	Extra              map[string]any    `json:"extra"`
	nontrivial         map[string]bool
	vioKeys            map[string]bool
}

func NewReport(prop string) *Report {
	return &Report{Prop: prop, Classes: map[string]int{}, Extra: map[string]any{}, nontrivial: map[string]bool{}, vioKeys: map[string]bool{}}
}

// Eval counts one execution of the real code for an abstract case of the given class.
// distinctKey identifies the abstract case; non-DontCare cases count as non-trivial.
func (r *Report) Eval(class, distinctKey string) {
	r.mu.Lock()
	defer r.mu.Unlock()
	r.Evaluations++
	r.Classes[class]++
	if class != "DontCare" && distinctKey != "" {
		r.nontrivial[distinctKey] = true
	}
}

func (r *Report) Trace(n int) {
	r.mu.Lock()
	r.Traces += n
	r.mu.Unlock()
}

func (r *Report) Sample(v any) {
	r.mu.Lock()
	defer r.mu.Unlock()
	if len(r.Samples) >= 6 {
		return
	}
	b, err := json.Marshal(v)
	if err == nil {
		r.Samples = append(r.Samples, b)
	}
}

func (r *Report) Note(f string, a ...any) {
	r.mu.Lock()
	r.Notes = append(r.Notes, fmt.Sprintf(f, a...))
	r.mu.Unlock()
}

func (r *Report) Assume(s string) {
	r.mu.Lock()
	r.Assumptions = append(r.Assumptions, s)
	r.mu.Unlock()
}

func (r *Report) Break(f string, a ...any) {
	r.mu.Lock()
	if r.Broken == "" {
		r.Broken = fmt.Sprintf(f, a...)
	}
	r.mu.Unlock()
}

var reSan = regexp.MustCompile(`[^A-Za-z0-9_.=-]+`)

func hashKey(s string) string {
	h := sha256.Sum256([]byte(s))
	return hex.EncodeToString(h[:6])
}

// Violation records behaviour of the real code that a property clause forbids.
// key is the abstract-case identity (used for known-finding matching); replay is
// stored as a JSON file that `vcheck replay` can re-execute.
func (r *Report) Violation(key, clause string, replay map[string]any) {
	r.mu.Lock()
	defer r.mu.Unlock()
	if r.vioKeys[key] {
		return
	}
	r.vioKeys[key] = true
	f := Finding{Key: key, Clause: clause}
	if len(r.Violations) < 200 {
		dir := envOr("VERIF_REPLAYS", filepath.Join("/verif/replays", r.Prop))
		os.MkdirAll(dir, 0o755)
		name := reSan.ReplaceAllString(key, "_")
		if len(name) > 80 {
			name = name[:60] + "-" + hashKey(key)
		}
		p := filepath.Join(dir, name+".json")
		if replay == nil {
			replay = map[string]any{}
		}
		replay["prop"] = r.Prop
		replay["key"] = key
		replay["clause"] = clause
		replay["seed"] = seedVal()
		replay["tier"] = tier()
		b, _ := json.MarshalIndent(replay, "", " ")
		os.WriteFile(p, b, 0o644)
		f.Replay = p
	}
	r.Violations = append(r.Violations, f)
}

func (r *Report) DriftCase(key, what string, detail any) {
	r.mu.Lock()
	defer r.mu.Unlock()
	if len(r.Drift) >= 100 {
		r.Drift = append(r.Drift, Finding{Key: key})
		return
	}
	b, _ := json.Marshal(detail)
	r.Drift = append(r.Drift, Finding{Key: key, Clause: what, Detail: b})
}

// Finish writes the result file for vcheck.  A harness that found violations does
// not fail the Go test: the verdict is carried by the result file.
func (r *Report) Finish(t testing.TB) {
	r.mu.Lock()
	defer r.mu.Unlock()
	r.DistinctNontrivial = len(r.nontrivial)
	sort.Slice(r.Violations, func(i, j int) bool {
		a, b := r.Violations[i], r.Violations[j]
		if (a.Replay == "") != (b.Replay == "") {
			return a.Replay != ""
		}
		return a.Key < b.Key
	})
	out := envOr("VERIF_OUT", filepath.Join(workDir(), "result_manual.json"))
	os.MkdirAll(filepath.Dir(out), 0o755)
	b, _ := json.MarshalIndent(r, "", " ")
	if err := os.WriteFile(out, b, 0o644); err != nil {
		t.Fatalf("write result: %v", err)
	}
	t.Logf("%s: evaluations=%d nontrivial=%d classes=%v violations=%d drift=%d broken=%q",
		r.Prop, r.Evaluations, r.DistinctNontrivial, r.Classes, len(r.Violations), len(r.Drift), r.Broken)
	for i, v := range r.Violations {
		if i < 10 {
			t.Logf("  violation %s: %s", v.Key, v.Clause)
		}
	}
}

// parallel runs f(i) for i in [0,n) on all cores.
func parallel(n int, f func(i int)) {
	w := runtime.NumCPU()
	if w > n {
		w = n
	}
	if w < 1 {
		w = 1
	}
	var wg sync.WaitGroup
	ch := make(chan int, 256)
	for k := 0; k < w; k++ {
		wg.Add(1)
		go func() {
			defer wg.Done()
			for i := range ch {
				f(i)
			}
		}()
	}
	for i := 0; i < n; i++ {
		ch <- i
	}
	close(ch)
	wg.Wait()
}

// safely runs f and converts a panic into (true, message).
func safely(f func()) (panicked bool, msg string) {
	defer func() {
		if r := recover(); r != nil {
			panicked = true
			buf := make([]byte, 4096)
			n := runtime.Stack(buf, false)
			msg = fmt.Sprintf("%v\n%s", r, buf[:n])
		}
	}()
	f()
	return false, ""
}

// replay dispatch -------------------------------------------------------------

type replayFunc func(t *testing.T, raw []byte) (violates bool, observed string)

var replayers = map[string]replayFunc{}

func registerReplay(prop string, f replayFunc) { replayers[prop] = f }

// replayers for replay files of a particular shape: chosen when the file has the top-level field
type markedReplayer struct {
	prop, field string
	f           replayFunc
}

var markedReplayers []markedReplayer

func registerReplayFor(prop, field string, f replayFunc) {
	markedReplayers = append(markedReplayers, markedReplayer{prop, field, f})
}
