package harness

// C16 over the life of one protected handler value (spec/GateHistory.tla): requests of different
// browsers pass through ONE RequireAccount(RequireAttribute(...)(h)) value; each must be judged on
// the session it presents, whatever the handler served before.

import (
	"encoding/json"
	"fmt"
	"net/http"
	"net/http/httptest"
	"strings"
	"sync"
	"sync/atomic"
	"testing"
	"time"

	"github.com/golang-jwt/jwt/v4"

	"github.com/crewjam/saml"
	"github.com/crewjam/saml/samlsp"
)

func TestC16GateHistory(t *testing.T) {
	rep := NewReport("C16")
	defer rep.Finish(t)
	rep.Rule = "every history of spec/GateHistory.tla (up to MaxLen requests: entitled in two attribute layouts, another value, the required value in another letter case, a Unicode case-folding look-alike of it, a proper prefix of it, no such attribute, no cookie, expired token, token of another deployment - at least two different required outcomes per history) is sent through ONE RequireAccount(RequireAttribute(groups, admins)(h)) value per deployment (RSA and ECDSA keys); every request must be served / refused / sent to the IdP as its own session demands"
	lines := loadLines(t, "gatehist.ndjson")
	if len(lines) == 0 {
		rep.Break("no histories")
		return
	}
	oldNow, oldJWT := saml.TimeNow, jwt.TimeFunc
	defer func() { saml.TimeNow, jwt.TimeFunc = oldNow, oldJWT }()
	base := time.Date(2024, 4, 2, 9, 0, 0, 0, time.UTC)
	var clock atomic.Int64 // seconds after base, shared: tokens are minted first, then only read
	nowFn := func() time.Time { return base.Add(time.Duration(clock.Load()) * time.Second) }
	saml.TimeNow, jwt.TimeFunc = nowFn, nowFn

	type depl struct {
		d    *c16Depl
		toks map[string]string
	}
	var depls []*depl
	for _, spkey := range []string{"RSA", "ECDSA"} {
		d, err := c16NewDepl(c16Cfg{Spkey: spkey, Life: 3600, Cookie: "default"}, "this", "https://sp.example.com")
		if err != nil {
			rep.Break("deployment: %v", err)
			return
		}
		other, err := c16NewDepl(c16Cfg{Spkey: spkey, Life: 3600, Cookie: "default"}, "other", "https://sp.example.com")
		if err != nil {
			rep.Break("deployment: %v", err)
			return
		}
		var mintFail []string
		mk := func(dd *c16Depl, who string, stmts [][]c16ConcAttr) (tok string) {
			var err error
			if p, msg := safely(func() { tok, err = c16Mint(dd, c16BuildAssertion(sp(who), true, stmts, []string{"si-" + who})) }); p {
				err = fmt.Errorf("panic: %s", strings.SplitN(msg, "\n", 2)[0])
			}
			if err != nil {
				// CreateSession gave no token: behaviour of the code under test, not a harness failure
				mintFail = append(mintFail, who+": "+err.Error())
			}
			return tok
		}
		toks := map[string]string{}
		// the expired token is minted two hours before everything else
		clock.Store(-7200)
		toks["expired"] = mk(d, "eve", [][]c16ConcAttr{{{Fn: "groups", Name: "urn:groups", Vals: []string{"admins"}}}})
		clock.Store(0)
		toks["entitled"] = mk(d, "alice", [][]c16ConcAttr{{{Fn: "groups", Name: "urn:groups", Vals: []string{"admins"}}}})
		toks["entitled-2nd-value"] = mk(d, "carol", [][]c16ConcAttr{{{Fn: "mail", Name: "urn:mail", Vals: []string{"c@example.com"}}}, {{Fn: "groups", Name: "urn:groups", Vals: []string{"users", "admins"}}}})
		toks["other-value"] = mk(d, "bob", [][]c16ConcAttr{{{Fn: "groups", Name: "urn:groups", Vals: []string{"users", "administrators"}}}})
		// near misses of the required value "admins": only the string itself carries it
		toks["value-other-case"] = mk(d, "oscar", [][]c16ConcAttr{{{Fn: "groups", Name: "urn:groups", Vals: []string{"users", "ADMINS", "Admins"}}}})
		toks["value-fold-lookalike"] = mk(d, "frank", [][]c16ConcAttr{{{Fn: "groups", Name: "urn:groups", Vals: []string{"admin\u017f"}}}}) // LATIN SMALL LETTER LONG S
		toks["value-prefix"] = mk(d, "peggy", [][]c16ConcAttr{{{Fn: "groups", Name: "urn:groups", Vals: []string{"admin", "adm", ""}}}})
		toks["no-attribute"] = mk(d, "dave", [][]c16ConcAttr{{{Fn: "mail", Name: "urn:mail", Vals: []string{"admins"}}}})
		toks["foreign"] = mk(other, "mallory", [][]c16ConcAttr{{{Fn: "groups", Name: "urn:groups", Vals: []string{"admins"}}}})
		if len(mintFail) > 0 {
			// without its tokens the histories of this deployment cannot be driven; no clause obliges CreateSession to succeed
			rep.DriftCase("C16:gate-history:"+spkey+":mint", "CreateSession minted no token for the gate histories of this deployment", mintFail)
			continue
		}
		depls = append(depls, &depl{d: d, toks: toks})
	}
	if rep.Broken != "" {
		return
	}
	clock.Store(60)
	vcSeen, vcMu := map[string]int{}, sync.Mutex{}
	parallel(len(lines), func(i int) {
		var h struct {
			Steps []struct {
				K   string `json:"k"`
				Vc  string `json:"vc"`
				Req string `json:"req"`
			} `json:"steps"`
		}
		if err := json.Unmarshal(lines[i], &h); err != nil {
			rep.Break("bad history: %v", err)
			return
		}
		var ks []string
		for _, s := range h.Steps {
			ks = append(ks, s.K)
			if (s.Req == "served") != (s.Vc == "exact") {
				rep.Break("history step %s: value class %q with required outcome %q", s.K, s.Vc, s.Req)
				return
			}
			vcMu.Lock()
			vcSeen[s.Vc]++
			vcMu.Unlock()
		}
		hid := strings.Join(ks, ">")
		for _, dp := range depls {
			// ONE handler value for the whole history
			var served []string
			final := http.HandlerFunc(func(w http.ResponseWriter, r *http.Request) {
				served = append(served, samlsp.AttributeFromContext(r.Context(), "groups"))
				w.WriteHeader(http.StatusTeapot)
			})
			gate := dp.d.m.RequireAccount(samlsp.RequireAttribute("groups", "admins")(final))
			var trace []string
			for n, st := range h.Steps {
				req := httptest.NewRequest("GET", dp.d.root+"/private/page", nil)
				if tok, ok := dp.toks[st.K]; ok {
					req.Header.Set("Cookie", dp.d.cookie+"="+tok)
				}
				rec := httptest.NewRecorder()
				before := len(served)
				p, msg := safely(func() { gate.ServeHTTP(rec, req) })
				got := "other"
				switch {
				case p:
					got = "panic"
				case len(served) > before:
					got = "served"
				case rec.Code == http.StatusForbidden:
					got = "forbidden"
				case rec.Code == http.StatusFound || (rec.Code == http.StatusOK && strings.Contains(rec.Body.String(), "SAMLRequest")):
					got = "no-session"
				}
				trace = append(trace, st.K+":"+got)
				key_ := fmt.Sprintf("C16:gate-history:%s:%s", dp.d.cfg.Spkey, hid)
				replay := map[string]any{"history": h.Steps, "step": n + 1, "observed": trace, "panic": msg}
				rep.Eval(st.Req, key_)
				switch {
				case got == "served" && st.Req != "served":
					rep.Violation(key_, fmt.Sprintf("request %d (%s) is admitted by the attribute-gated handler although its own session does not carry the required value (after %v)", n+1, st.K, trace[:n]), replay)
					return
				case got != "served" && st.Req == "served":
					rep.Violation(key_, fmt.Sprintf("request %d (%s) presents a valid session whose attribute carries the required value and is not admitted: %s (after %v)", n+1, st.K, got, trace[:n]), replay)
					return
				case got != st.Req:
					rep.DriftCase(key_, fmt.Sprintf("request %d (%s): %s, model %s", n+1, st.K, got, st.Req), replay)
					return
				}
			}
			rep.Trace(len(h.Steps))
		}
	})
	rep.Extra["gate_histories"] = len(lines)
	rep.Extra["gate_history_requests_per_value_class"] = vcSeen
	// counted from the histories (what the model requires): every class of attribute value is presented
	for _, vc := range []string{"exact", "otherCase", "foldLookalike", "prefix", "other", "absent", "noSession"} {
		if vcSeen[vc] == 0 && rep.Broken == "" {
			rep.Break("vacuous: no request whose session's attribute value is of class %q", vc)
		}
	}
}
