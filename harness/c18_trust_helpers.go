package harness

import (
	"bytes"
	"crypto/sha1"
	"crypto/sha256"
	"crypto/sha512"
	"encoding/xml"
	"fmt"
	"math/rand"
	"strings"

	"github.com/beevik/etree"

	"github.com/crewjam/saml"
)

// C18 helpers, second part: the trust configuration of the ServiceProvider and the
// Status structure of the message, as spec/LogoutValidate.tla describes them.

// c18KD is one KeyDescriptor of the IdP metadata: its use and the keys whose
// certificates it carries, in order.
type c18KD struct {
	Use   string   `json:"use"`
	Certs []string `json:"certs"`
}

// c18RoleKD is one KeyDescriptor of another role descriptor of the IdP's entity:
// role "sp" = SPSSODescriptor, "aa" = AttributeAuthorityDescriptor.
type c18RoleKD struct {
	Role  string   `json:"role"`
	Use   string   `json:"use"`
	Certs []string `json:"certs"`
}

// c18Key maps a signer / certificate class of the spec to a harness key pair: "role" (the
// key the entity publishes for another role only) is the spare RSA-2048 pair "sp2".
func c18Key(name string) *KeyPair {
	if name == "role" {
		return key("sp2")
	}
	return key(name)
}

// c18Trust is TrustOf(cfg.trust) of the spec: what sp.IDPMetadata lists, the pinned
// IDPCertificate, the IDPCertificateFingerprint (+ algorithm); "none" = not set.
type c18Trust struct {
	MdNil bool        `json:"mdnil"`
	Md    []c18KD     `json:"md"`
	Oth   []c18RoleKD `json:"oth"` // key descriptors of the entity's other role descriptors
	Pin   string      `json:"pin"`
	Fp    string      `json:"fp"`
	Alg   string      `json:"alg"`
	set   bool
}

// c18Normalize fills what vectors written before the trust / Status dimensions existed
// (stored replays) do not carry.
func c18Normalize(v *c18Vec) {
	if v.In.Sub == "" {
		v.In.Sub = "none"
	}
	if v.In.Sx == "" {
		v.In.Sx = "none"
	}
	t := &v.Tc
	if t.Pin == "" && t.Fp == "" && t.Alg == "" && t.Md == nil && !t.MdNil {
		t.Pin, t.Fp, t.Alg = "none", "none", "none"
		switch v.Cfg.Trust {
		case "one":
			t.Md = []c18KD{{"signing", []string{"idp1"}}}
		case "two":
			t.Md = []c18KD{{"signing", []string{"idp1"}}, {"", []string{"idp2"}}, {"encryption", []string{"idpenc"}}}
		default:
			panic("vector without trust configuration: " + v.Cfg.Trust)
		}
	}
	t.set = true
}

// c18CertText is the base64 text of a certificate the way a configuration may carry it:
// one line, or wrapped (the library removes white space before decoding).
func c18CertText(k *KeyPair, rng *rand.Rand) string {
	b := k.CertB64()
	width := []int{0, 64, 76}[rng.Intn(3)]
	if width == 0 {
		return b
	}
	var sb strings.Builder
	sb.WriteString("\n")
	for len(b) > width {
		sb.WriteString(b[:width])
		sb.WriteString([]string{"\n", "\r\n", "\n    "}[rng.Intn(3)])
		b = b[width:]
	}
	sb.WriteString(b)
	sb.WriteString("\n")
	return sb.String()
}

// c18FingerprintOf: the digest of the DER certificate as upper-case hex octets joined by
// colons (what `openssl x509 -fingerprint` prints), computed here independently.
func c18FingerprintOf(k *KeyPair, alg string) string {
	var d []byte
	switch alg {
	case "sha512":
		x := sha512.Sum512(k.Cert.Raw)
		d = x[:]
	case "sha1":
		x := sha1.Sum(k.Cert.Raw)
		d = x[:]
	default:
		x := sha256.Sum256(k.Cert.Raw)
		d = x[:]
	}
	parts := make([]string, len(d))
	for i, c := range d {
		parts[i] = fmt.Sprintf("%02X", c)
	}
	return strings.Join(parts, ":")
}

func c18AlgURI(alg string) string {
	switch alg {
	case "sha256":
		return "http://www.w3.org/2001/04/xmlenc#sha256"
	case "sha512":
		return "http://www.w3.org/2001/04/xmlenc#sha512"
	case "sha1":
		return "http://www.w3.org/2000/09/xmldsig#sha1"
	}
	panic("unknown fingerprint algorithm class " + alg)
}

// c18SPFor builds the ServiceProvider of a vector's trust configuration.
func c18SPFor(v *c18Vec, rng *rand.Rand) *saml.ServiceProvider {
	t := v.Tc
	if !t.set {
		panic("c18SPFor: vector not normalised")
	}
	md := idpMetadata(nil)
	mkKD := func(use string, certs []string) saml.KeyDescriptor {
		kd := saml.KeyDescriptor{Use: use}
		for _, name := range certs {
			kd.KeyInfo.X509Data.X509Certificates = append(kd.KeyInfo.X509Data.X509Certificates,
				saml.X509Certificate{Data: c18CertText(c18Key(name), rng)})
		}
		return kd
	}
	var kds []saml.KeyDescriptor
	for _, d := range t.Md {
		kds = append(kds, mkKD(d.Use, d.Certs))
	}
	md.IDPSSODescriptors[0].KeyDescriptors = kds
	if len(t.Oth) > 0 {
		md = c18WithOtherRoles(md, t.Oth, mkKD, rng)
	}
	s := newSP(md)
	if t.MdNil {
		s.IDPMetadata = nil
	}
	if t.Pin != "none" {
		s.IDPCertificate = sp(c18CertText(c18Key(t.Pin), rng))
	}
	if t.Fp != "none" {
		s.IDPCertificateFingerprint = sp(c18FingerprintOf(c18Key(t.Fp), t.Alg))
	}
	if t.Alg != "none" {
		s.IDPCertificateFingerprintAlgorithm = sp(c18AlgURI(t.Alg))
	}
	return s
}

// c18WithOtherRoles adds an SPSSODescriptor / an AttributeAuthorityDescriptor carrying the
// given key descriptors to the IdP's EntityDescriptor (the entity also acts as a service
// provider towards upstream IdPs / answers attribute queries) and passes the result through
// XML, the way a metadata document reaches a ServiceProvider.
func c18WithOtherRoles(md *saml.EntityDescriptor, oth []c18RoleKD, mkKD func(string, []string) saml.KeyDescriptor,
	rng *rand.Rand) *saml.EntityDescriptor {
	var spKDs, aaKDs []saml.KeyDescriptor
	for _, d := range oth {
		switch d.Role {
		case "sp":
			spKDs = append(spKDs, mkKD(d.Use, d.Certs))
		case "aa":
			aaKDs = append(aaKDs, mkKD(d.Use, d.Certs))
		default:
			panic("unknown role descriptor class " + d.Role)
		}
	}
	if spKDs != nil {
		yes := true
		md.SPSSODescriptors = []saml.SPSSODescriptor{{
			SSODescriptor: saml.SSODescriptor{
				RoleDescriptor: saml.RoleDescriptor{ProtocolSupportEnumeration: nsProtocol, KeyDescriptors: spKDs},
				SingleLogoutServices: []saml.Endpoint{
					{Binding: saml.HTTPRedirectBinding, Location: "https://idp.example.com/broker/slo"}},
			},
			AuthnRequestsSigned: &yes,
			AssertionConsumerServices: []saml.IndexedEndpoint{
				{Binding: saml.HTTPPostBinding, Location: "https://idp.example.com/broker/acs", Index: 1}},
		}}
	}
	if aaKDs != nil {
		md.AttributeAuthorityDescriptors = []saml.AttributeAuthorityDescriptor{{
			RoleDescriptor:    saml.RoleDescriptor{ProtocolSupportEnumeration: nsProtocol, KeyDescriptors: aaKDs},
			AttributeServices: []saml.Endpoint{{Binding: saml.SOAPBinding, Location: "https://idp.example.com/saml/attributes"}},
		}}
	}
	var raw []byte
	var err error
	if rng.Intn(2) == 0 {
		raw, err = xml.Marshal(md)
	} else {
		raw, err = xml.MarshalIndent(md, "", "  ")
	}
	if err != nil {
		panic("c18WithOtherRoles: marshal: " + err.Error())
	}
	back := &saml.EntityDescriptor{}
	if err := xml.Unmarshal(raw, back); err != nil {
		panic("c18WithOtherRoles: unmarshal: " + err.Error())
	}
	// harness self-check: every role descriptor and every key descriptor came back
	n := func(e *saml.EntityDescriptor) [3]int {
		var c [3]int
		for _, d := range e.IDPSSODescriptors {
			c[0] += len(d.KeyDescriptors)
		}
		for _, d := range e.SPSSODescriptors {
			c[1] += len(d.KeyDescriptors)
		}
		for _, d := range e.AttributeAuthorityDescriptors {
			c[2] += len(d.KeyDescriptors)
		}
		return c
	}
	if n(back) != n(md) || !bytes.Contains(raw, []byte("Descriptor")) {
		panic(fmt.Sprintf("c18WithOtherRoles: the metadata did not survive the XML round trip: %v -> %v", n(md), n(back)))
	}
	return back
}

// c18OtherRoleSigner: metadata trust, and the signer's certificate is offered for signing by
// another role descriptor of the entity only, not by the IDPSSODescriptor.
func c18OtherRoleSigner(v *c18Vec) bool {
	if c18TrustKind(v.Tc) != "metadata" {
		return false
	}
	for _, k := range v.Trusted {
		if k == v.In.Key {
			return false
		}
	}
	for _, d := range v.Tc.Oth {
		for _, c := range d.Certs {
			if c == v.In.Key && d.Use != "encryption" {
				return true
			}
		}
	}
	return false
}

// c18TrustKind names the branch of the statement's "trusted IdP certificate" a
// configuration falls under (evidence counters).
func c18TrustKind(t c18Trust) string {
	switch {
	case t.MdNil:
		return "no-idp"
	case t.Pin != "none" && t.Fp != "none":
		return "pinned+fingerprint"
	case t.Pin != "none":
		return "pinned"
	case t.Fp != "none":
		return "fingerprint"
	}
	return "metadata"
}

// c18ListedOnlyInMetadata: the signer's certificate is offered by sp.IDPMetadata although
// the configuration trusts something else (a pinned certificate / a fingerprint).
func c18ListedOnlyInMetadata(v *c18Vec) bool {
	if c18TrustKind(v.Tc) == "metadata" {
		return false
	}
	for _, k := range v.Trusted {
		if k == v.In.Key {
			return false
		}
	}
	for _, d := range v.Tc.Md {
		for _, c := range d.Certs {
			if c == v.In.Key && d.Use != "encryption" {
				return true
			}
		}
	}
	return false
}

const (
	statusVersionMismatch = "urn:oasis:names:tc:SAML:2.0:status:VersionMismatch"
	statusPartialLogout   = "urn:oasis:names:tc:SAML:2.0:status:PartialLogout"
	statusAuthnFailed     = "urn:oasis:names:tc:SAML:2.0:status:AuthnFailed"
	statusRequestDenied   = "urn:oasis:names:tc:SAML:2.0:status:RequestDenied"
)

// c18CodeValue renders a StatusCode class (top-level or nested); alt picks among the
// representatives of the open classes.
func c18CodeValue(cls string, alt int) string {
	switch cls {
	case "Success":
		return statusOK
	case "Requester":
		return statusReq
	case "Responder":
		return statusResp
	case "VersionMismatch":
		return statusVersionMismatch
	case "PartialLogout":
		return statusPartialLogout
	case "AuthnFailed":
		return statusAuthnFailed
	case "RequestDenied":
		return statusRequestDenied
	case "unknown":
		return []string{"urn:oasis:names:tc:SAML:2.0:status:NoSuchCode", "urn:example:status:ok", "samlp:Success",
			"urn:oasis:names:tc:SAML:2.0:status:Success/", "urn:oasis:names:tc:SAML:2.0:status"}[alt%5]
	case "case": // the Success URI with letters of another case after the namespace identifier
		return []string{"urn:oasis:names:tc:SAML:2.0:status:success", "urn:oasis:names:tc:saml:2.0:status:Success",
			"urn:oasis:names:tc:SAML:2.0:Status:Success", "urn:oasis:names:TC:SAML:2.0:STATUS:SUCCESS"}[alt%4]
	}
	return "" // "empty"
}

// c18StatusInto appends the Status structure of f to el.
func c18StatusInto(el *etree.Element, f c18Fields) {
	if f.Status == "absent" {
		return
	}
	st := el.CreateElement("samlp:Status")
	if f.Status != "nocode" {
		code := st.CreateElement("samlp:StatusCode")
		code.CreateAttr("Value", c18CodeValue(f.Status, f.Alt))
		if f.Sub != "" && f.Sub != "none" {
			code.CreateElement("samlp:StatusCode").CreateAttr("Value", c18CodeValue(f.Sub, f.Alt/5))
		}
	}
	if f.SX == "msg" || f.SX == "both" {
		st.CreateElement("samlp:StatusMessage").SetText([]string{"Logout completed", "The session was terminated.",
			statusOK, "partial logout: 1 of 3 session participants did not answer", ""}[f.Alt%5])
	}
	if f.SX == "detail" || f.SX == "both" {
		d := st.CreateElement("samlp:StatusDetail")
		switch f.Alt % 3 {
		case 0:
			c := d.CreateElement("x:Cause")
			c.CreateAttr("xmlns:x", "urn:example:status-detail")
			c.SetText("participant https://other-sp.example.net did not respond")
		case 1: // a Success code where no status code belongs
			d.CreateElement("samlp:StatusCode").CreateAttr("Value", statusOK)
		}
	}
}
