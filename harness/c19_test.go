package harness

import (
	"bytes"
	"encoding/base64"
	"encoding/json"
	"errors"
	"fmt"
	"math/rand"
	"net/http"
	"net/url"
	"os"
	"path/filepath"
	"sort"
	"strconv"
	"strings"
	"sync"
	"testing"
	"time"

	"github.com/beevik/etree"

	"github.com/crewjam/saml"
	"github.com/crewjam/saml/samlidp"

	"golang.org/x/crypto/bcrypt"
)

// C19: the bundled IdP server against spec/IdpServer.tla.
// Every transition TLC printed is executed once on the real server from a concrete
// snapshot of its source state; property oracles are evaluated on the real reply.

// ---------------------------------------------------------------------------
// a copyable Store with fault injection

type mapStore struct {
	mu   sync.Mutex
	data map[string]string
	// fault injection: the failAt-th operation after arm() fails
	armed  bool
	ops    int
	failAt int
	kind   string
	log    []string
}

func newMapStore(d map[string]string) *mapStore {
	m := &mapStore{data: map[string]string{}}
	for k, v := range d {
		m.data[k] = v
	}
	return m
}

func (s *mapStore) clone() map[string]string {
	s.mu.Lock()
	defer s.mu.Unlock()
	c := map[string]string{}
	for k, v := range s.data {
		c[k] = v
	}
	return c
}

func (s *mapStore) arm(failAt int, kind string) {
	s.mu.Lock()
	s.armed, s.ops, s.failAt, s.kind, s.log = true, 0, failAt, kind, nil
	s.mu.Unlock()
}

// tick counts one store operation and says whether it must fail.
func (s *mapStore) tick(op, key string) error {
	if !s.armed {
		return nil
	}
	s.ops++
	s.log = append(s.log, op+" "+key)
	if s.failAt > 0 && s.ops == s.failAt {
		if s.kind == "notfound" {
			return samlidp.ErrNotFound
		}
		return errors.New("injected i/o error")
	}
	return nil
}

func (s *mapStore) Get(key string, value interface{}) error {
	s.mu.Lock()
	defer s.mu.Unlock()
	if err := s.tick("Get", key); err != nil {
		return err
	}
	v, ok := s.data[key]
	if !ok {
		return samlidp.ErrNotFound
	}
	return json.Unmarshal([]byte(v), value)
}

func (s *mapStore) Put(key string, value interface{}) error {
	s.mu.Lock()
	defer s.mu.Unlock()
	if err := s.tick("Put", key); err != nil {
		return err
	}
	b, err := json.Marshal(value)
	if err != nil {
		return err
	}
	s.data[key] = string(b)
	return nil
}

func (s *mapStore) Delete(key string) error {
	s.mu.Lock()
	defer s.mu.Unlock()
	if err := s.tick("Delete", key); err != nil {
		return err
	}
	delete(s.data, key)
	return nil
}

func (s *mapStore) List(prefix string) ([]string, error) {
	s.mu.Lock()
	defer s.mu.Unlock()
	if err := s.tick("List", prefix); err != nil {
		return nil, err
	}
	rv := []string{}
	for k := range s.data {
		if strings.HasPrefix(k, prefix) {
			rv = append(rv, strings.TrimPrefix(k, prefix))
		}
	}
	sort.Strings(rv)
	return rv, nil
}

// ---------------------------------------------------------------------------
// per-goroutine clock and URL-safe random source (package variables of saml)

var (
	gclockMu sync.Mutex
	gclock   = map[int64]time.Time{}
)

func setGoroutineClock(t time.Time) {
	gclockMu.Lock()
	gclock[goid()] = t
	gclockMu.Unlock()
}
func clearGoroutineClock() {
	gclockMu.Lock()
	delete(gclock, goid())
	gclockMu.Unlock()
}
func goroutineNow() time.Time {
	gclockMu.Lock()
	t, ok := gclock[goid()]
	gclockMu.Unlock()
	if ok {
		return t
	}
	return time.Now().UTC()
}

// safeRand yields bytes whose standard base64 encoding contains no '+' or '/'
// (session IDs travel in URL paths and cookies).
type safeRand struct {
	mu sync.Mutex
	r  *rand.Rand
	n  int // sextet alphabet size: 0 / 62 = alphanumeric only; 63 adds '+'; 64 adds '/' as well
}

func (s *safeRand) Read(p []byte) (int, error) {
	s.mu.Lock()
	defer s.mu.Unlock()
	var acc uint32
	bits := 0
	n := s.n
	if n == 0 {
		n = 62
	}
	for i := range p {
		for bits < 8 {
			acc = acc<<6 | uint32(s.r.Intn(n))
			bits += 6
		}
		p[i] = byte(acc >> (bits - 8))
		bits -= 8
		acc &= (1 << bits) - 1
	}
	return len(p), nil
}

// ---------------------------------------------------------------------------
// abstract <-> concrete

type c19User struct {
	Pw  string `json:"pw"`
	Ver int    `json:"ver"`
}
type c19Sess struct {
	User string `json:"user"`
	Ver  int    `json:"ver"`
	Age  int    `json:"age"`
}
type c19View struct {
	Users     map[string]c19User `json:"users"`
	Services  map[string]string  `json:"services"`
	Registry  map[string]string  `json:"registry"`
	Shortcuts map[string]string  `json:"shortcuts"`
	Sessions  []c19Sess          `json:"sessions"`
}
type c19Act struct {
	N    string `json:"n"`
	U    string `json:"u"`
	Pw   string `json:"pw"`
	Ver  int    `json:"ver"`
	Svc  string `json:"svc"`
	E    string `json:"e"`
	C    string `json:"c"`
	K    int    `json:"k"`
	Ck   string `json:"ck"`
	What string `json:"what"`
	// Var (probes only, no model counterpart): the user name / entity ID is written with other letter case - names and
	// entity IDs are case-sensitive: "U1" is not the user "u1", ".../Saml/Metadata" is not a registered provider
	Var bool `json:"var,omitempty"`
}

func c19CaseVar(s string) string {
	// (of a URL only the path is varied: scheme and host are case-insensitive in URL semantics)
	if rest, ok := strings.CutPrefix(s, "https://"); ok {
		if i := strings.Index(rest, "/"); i >= 0 {
			return "https://" + rest[:i] + c19CaseVar(rest[i:])
		}
	}
	b := []byte(s)
	for i := len(b) - 1; i >= 0; i-- {
		if b[i] >= 'a' && b[i] <= 'z' && (i == 0 || b[i-1] == '/' || i == len(b)-1) {
			b[i] -= 0x20
		}
	}
	if string(b) == s {
		return strings.ToUpper(s)
	}
	return string(b)
}

type c19Reply struct {
	Status int    `json:"status"`
	Kind   string `json:"kind"`
	User   string `json:"user"`
	Ver    int    `json:"ver"`
	Aud    string `json:"aud"`
	Cookie int    `json:"cookie"`
}
type c19Edge struct {
	From  c19View  `json:"from"`
	Act   c19Act   `json:"act"`
	Reply c19Reply `json:"reply"`
	To    c19View  `json:"to"`
}

func (v c19View) key() string { b, _ := json.Marshal(v); return string(b) }

func (v c19View) regSet() []string {
	m := map[string]bool{}
	for _, e := range v.Registry {
		if e != "" {
			m[e] = true
		}
	}
	var out []string
	for e := range m {
		out = append(out, e)
	}
	sort.Strings(out)
	return out
}

const c19TickDur = 25 * time.Minute

var c19Base = time.Date(2024, 5, 1, 8, 0, 0, 0, time.UTC)

// An issuer class "n:<service name>" is a request that names a service NAME where the entity ID
// belongs; it asks for e1's endpoint, so that a registry that resolved it to e1's metadata would answer.
func c19Eid(e string) string {
	if n, ok := strings.CutPrefix(e, "n:"); ok {
		return n
	}
	return "https://sp-" + e + ".example.com/saml/metadata"
}
func c19Acs(e string) string {
	if strings.HasPrefix(e, "n:") {
		e = "e1"
	}
	return "https://sp-" + e + ".example.com/saml/acs"
}

// c19Long is longer than the 72 bytes bcrypt can hash; c19Pw("L2") agrees with it on exactly
// those 72 bytes and differs afterwards, so it must never authenticate anybody.
const c19Long = "long-passphrase-0123456789-abcdefghijklmnopqrstuvwxyz-ABCDEFGHIJKLMNOPQRSTUVWXYZ-tail-of-the-real-one"

func c19Pw(p string) string {
	switch p {
	case "L":
		return c19Long
	case "L2":
		return c19Long[:72] + "-another-tail-entirely"
	}
	// "<class>+ws": the class's password with white space around it - another password
	if base, ok := strings.CutSuffix(p, "+ws"); ok {
		return []string{" ", "\t"}[len(base)%2] + c19Pw(base) + " "
	}
	return map[string]string{"p1": "correct-horse-1", "p2": "battery-staple-2", "e": "", "intruder": c19IntruderPw}[p]
}

// An update of an EXISTING user that carries no password keeps the stored credential ("HashedPassword
// retains its stored value"), whatever else the body holds: such updates carry the hash of a password
// that never was the user's, and that password must not open a session afterwards.
const c19IntruderPw = "never-this-users-password"

var (
	c19IntruderOnce sync.Once
	c19IntruderH    []byte
)

func c19IntruderHash() []byte {
	c19IntruderOnce.Do(func() { c19IntruderH, _ = bcrypt.GenerateFromPassword([]byte(c19IntruderPw), bcrypt.MinCost) })
	return c19IntruderH
}
func c19SampleN() int {
	n, err := strconv.Atoi(os.Getenv("C19_SAMPLE"))
	if err != nil || n < 1 {
		return 1
	}
	return n
}
func c19Email(u string, v int) string { return fmt.Sprintf("%s.v%d@example.com", u, v) }

func c19EidOf(s string) string {
	for _, e := range []string{"e1", "e2", "e3"} {
		if s == c19Eid(e) {
			return e
		}
	}
	return "?" + s
}

// snapshot of a concrete server state whose abstraction is a given View
type c19Snap struct {
	data  map[string]string
	slot  map[int]string // slot -> concrete session id
	ticks int            // clock = base + ticks*25min
}

var (
	c19HashMu    sync.Mutex
	c19HashClass = map[string]string{} // stored hash (string) -> password class
)

type c19Env struct {
	store *mapStore
	srv   *samlidp.Server
	snap  *c19Snap
	now   time.Time
}

func c19Restore(s *c19Snap) *c19Env {
	st := newMapStore(s.data)
	srv, err := newIdpSrv(st)
	if err != nil {
		panic(err)
	}
	slot := map[int]string{}
	for k, v := range s.slot {
		slot[k] = v
	}
	return &c19Env{store: st, srv: srv, snap: &c19Snap{slot: slot, ticks: s.ticks}, now: c19Base.Add(time.Duration(s.ticks) * c19TickDur)}
}

func (e *c19Env) cookie(ck string) string {
	switch {
	case ck == "none" || ck == "":
		return ""
	case ck == "forged":
		return "session=Zm9yZ2VkLXNlc3Npb24taWQtbm90LWluLXRoZS1zdG9yZQ"
	default:
		var k int
		fmt.Sscanf(ck, "k%d", &k)
		if id, ok := e.snap.slot[k]; ok {
			return "session=" + id
		}
		return "session=bm8tc3VjaC1zbG90LXNlc3Npb24"
	}
}

func (e *c19Env) request(a c19Act) (httpReq, bool) {
	u := func(p string) string { return idpSrvRoot + p }
	eid := c19Eid
	if a.Var {
		a.U = c19CaseVar(a.U)
		eid = func(x string) string { return c19CaseVar(c19Eid(x)) }
	}
	form := "application/x-www-form-urlencoded"
	switch a.N {
	case "PutUser":
		m := map[string]any{"name": a.U, "email": c19Email(a.U, a.Ver), "common_name": fmt.Sprintf("%s v%d", a.U, a.Ver), "groups": []string{"staff", fmt.Sprintf("grp-v%d", a.Ver)}}
		if a.Pw != "keep" {
			m["password"] = c19Pw(a.Pw)
		} else if data := e.store.clone(); data["/users/"+a.U] != "" {
			m["hashed_password"] = c19IntruderHash() // ignored: the stored credential stays
			// ... and so is a name in the body that is not the name in the URL: the update is about the user in
			// the URL, whoever else the body mentions
			for k := range data {
				if strings.HasPrefix(k, "/users/") && k != "/users/"+a.U && (m["name"] == a.U || k < "/users/"+m["name"].(string)) {
					m["name"] = strings.TrimPrefix(k, "/users/")
				}
			}
		}
		b, _ := json.Marshal(m)
		return httpReq{Method: "PUT", URL: u("/users/" + a.U), Body: string(b)}, true
	case "DeleteUser":
		return httpReq{Method: "DELETE", URL: u("/users/" + a.U)}, true
	case "GetUser":
		return httpReq{Method: "GET", URL: u("/users/" + a.U)}, true
	case "PutService":
		return httpReq{Method: "PUT", URL: u("/services/" + a.Svc), Body: string(spMetaXML(c19Eid(a.E), c19Acs(a.E), false))}, true
	case "DeleteService":
		return httpReq{Method: "DELETE", URL: u("/services/" + a.Svc)}, true
	case "GetService":
		return httpReq{Method: "GET", URL: u("/services/" + a.Svc)}, true
	case "PutShortcut":
		return httpReq{Method: "PUT", URL: u("/shortcuts/" + a.C), Body: `{"service_provider":"` + c19Eid(a.E) + `"}`}, true
	case "DeleteShortcut":
		return httpReq{Method: "DELETE", URL: u("/shortcuts/" + a.C)}, true
	case "DeleteSession":
		return httpReq{Method: "DELETE", URL: u("/sessions/" + url.PathEscape(e.snap.slot[a.K]))}, true
	case "List":
		return httpReq{Method: "GET", URL: u("/" + a.What + "/")}, true
	case "Login":
		return httpReq{Method: "POST", URL: u("/login"), Body: url.Values{"user": {a.U}, "password": {c19Pw(a.Pw)}}.Encode(), CType: form}, true
	case "LoginCookie":
		return httpReq{Method: "GET", URL: u("/login"), Cookie: e.cookie(a.Ck)}, true
	case "SSO":
		return httpReq{Method: "GET", URL: authnRequestURL(e.srv.IDP.Metadata(), eid(a.E), c19Acs(a.E), "rs"), Cookie: e.cookie(a.Ck)}, true
	case "SSOLogin":
		s := saml.ServiceProvider{EntityID: c19Eid(a.E), MetadataURL: mustURL(c19Eid(a.E)), AcsURL: mustURL(c19Acs(a.E)), IDPMetadata: e.srv.IDP.Metadata()}
		req, err := s.MakeAuthenticationRequest(idpSrvRoot+"/sso", saml.HTTPPostBinding, saml.HTTPPostBinding)
		if err != nil {
			panic(err)
		}
		v := url.Values{"SAMLRequest": {base64.StdEncoding.EncodeToString(docBytes(req.Element()))}, "RelayState": {"rs"},
			"user": {a.U}, "password": {c19Pw(a.Pw)}}
		return httpReq{Method: "POST", URL: u("/sso"), Body: v.Encode(), CType: form}, true
	case "Shortcut":
		return httpReq{Method: "GET", URL: u("/login/" + a.C), Cookie: e.cookie(a.Ck)}, true
	}
	return httpReq{}, false
}

type c19Real struct {
	Reply     c19Reply
	Body      string
	SetCookie string
	Panic     string
	Writes    int
	Malformed string // why the bytes sent do not make one well-formed reply
}

// c19OneReply tells whether status, headers and body make ONE well-formed reply: a handler that goes on
// after it has answered (an error line followed by a page, two pages) has sent two.
func c19OneReply(code int, h http.Header, body string) string {
	lower := strings.ToLower(body)
	pages := strings.Count(lower, "<html")
	switch {
	case pages > 1:
		return "the reply body holds more than one HTML document"
	case code >= 400 && (pages > 0 || strings.Contains(lower, "<form")):
		return fmt.Sprintf("the error reply (%d) is followed by a page in the same body", code)
	case strings.HasPrefix(h.Get("Content-Type"), "text/plain") && (pages > 0 || strings.Contains(lower, "<form")):
		return "a page is served behind a text/plain error line"
	case strings.HasPrefix(h.Get("Content-Type"), "application/json") && body != "" && !json.Valid([]byte(body)):
		return "the JSON reply is followed by other content"
	}
	return ""
}

// project maps a real HTTP reply onto the model's reply record.
func c19Project(code int, hdr http.Header, body string) (c19Reply, string) {
	r := c19Reply{Status: code}
	newCookie := ""
	for _, sc := range hdr.Values("Set-Cookie") {
		if strings.HasPrefix(sc, "session=") {
			newCookie = strings.SplitN(strings.TrimPrefix(sc, "session="), ";", 2)[0]
		}
	}
	switch {
	case code == 204:
		r.Kind = "empty"
	case code >= 400:
		r.Kind = "error"
	default:
		if xmlb, _, ok := samlResponseInBody(body); ok {
			r.Kind = "assertion"
			doc := etree.NewDocument()
			if err := doc.ReadFromBytes(xmlb); err == nil && doc.Root() != nil {
				if n := doc.FindElement("//Assertion/Subject/NameID"); n != nil {
					var u string
					var v int
					if _, err := fmt.Sscanf(strings.Replace(n.Text(), ".v", " ", 1), "%s %d@example.com", &u, &v); err == nil {
						r.User, r.Ver = u, v
					} else {
						r.User = "?" + n.Text()
					}
				}
				if a := doc.FindElement("//Assertion/Conditions/AudienceRestriction/Audience"); a != nil {
					r.Aud = c19EidOf(a.Text())
				}
				// every part of the user record carries the version it was stored with: an assertion that mixes
				// parts of two versions (mail of one, groups of another) describes no stored user at all
				for _, av := range doc.FindElements("//Assertion/AttributeStatement/Attribute/AttributeValue") {
					var gv int
					if _, err := fmt.Sscanf(av.Text(), "grp-v%d", &gv); err == nil && gv != r.Ver {
						r.Ver = -1000*gv - r.Ver
					}
				}
			}
		} else if strings.Contains(body, `<form method="post" action="`+idpSrvRoot+`/login"`) {
			r.Kind = "loginform"
		} else if strings.HasPrefix(strings.TrimSpace(body), "{") {
			r.Kind = "json"
			var m map[string]any
			if json.Unmarshal([]byte(body), &m) == nil {
				email, _ := m["email"].(string)
				if email == "" {
					email, _ = m["UserEmail"].(string)
				}
				var u string
				var v int
				if _, err := fmt.Sscanf(strings.Replace(email, ".v", " ", 1), "%s %d@example.com", &u, &v); err == nil {
					r.User, r.Ver = u, v
				}
				for _, key := range []string{"Groups", "groups"} {
					if gs, ok := m[key].([]any); ok {
						for _, g := range gs {
							var gv int
							if gstr, _ := g.(string); gstr != "" {
								if _, err := fmt.Sscanf(gstr, "grp-v%d", &gv); err == nil && r.User != "" && gv != r.Ver {
									r.Ver = -1000*gv - r.Ver
								}
							}
						}
					}
				}
			}
		} else if strings.HasPrefix(strings.TrimSpace(body), "<EntityDescriptor") {
			r.Kind = "xml"
			if i := strings.Index(body, `entityID="`); i >= 0 {
				rest := body[i+10:]
				r.Aud = c19EidOf(rest[:strings.Index(rest, `"`)])
			}
		} else {
			r.Kind = "other"
		}
	}
	return r, newCookie
}

func (e *c19Env) do(a c19Act, failAt int, kind string) c19Real {
	var out c19Real
	q, ok := e.request(a)
	if !ok {
		return out
	}
	setGoroutineClock(e.now)
	defer clearGoroutineClock()
	e.store.arm(failAt, kind)
	p, msg := safely(func() {
		w := doHTTP(e.srv, q)
		out.Body = w.Body.String()
		out.Reply, out.SetCookie = c19Project(w.Code, w.Header(), out.Body)
		out.Malformed = c19OneReply(w.Code, w.Header(), out.Body)
	})
	e.store.armed = false
	if p {
		out.Panic = msg
	}
	return out
}

// abstract the real post-state
func (e *c19Env) abstract(usersDom, svcDom, scDom []string, nslots int) c19View {
	v := c19View{Users: map[string]c19User{}, Services: map[string]string{}, Registry: map[string]string{}, Shortcuts: map[string]string{}}
	data := e.store.clone()
	for _, u := range usersDom {
		raw, ok := data["/users/"+u]
		if !ok {
			v.Users[u] = c19User{Pw: "absent"}
			continue
		}
		var rec samlidp.User
		json.Unmarshal([]byte(raw), &rec)
		cu := c19User{Pw: "none"}
		if len(rec.HashedPassword) > 0 {
			c19HashMu.Lock()
			cu.Pw = c19HashClass[string(rec.HashedPassword)]
			c19HashMu.Unlock()
			if cu.Pw == "" {
				cu.Pw = "unknown-hash"
			}
		}
		var name string
		fmt.Sscanf(strings.Replace(rec.Email, ".v", " ", 1), "%s %d@example.com", &name, &cu.Ver)
		v.Users[u] = cu
	}
	for _, n := range svcDom {
		v.Services[n] = ""
		if raw, ok := data["/services/"+n]; ok {
			var rec samlidp.Service
			json.Unmarshal([]byte(raw), &rec)
			v.Services[n] = c19EidOf(rec.Metadata.EntityID)
		}
	}
	for _, c := range scDom {
		v.Shortcuts[c] = ""
		if raw, ok := data["/shortcuts/"+c]; ok {
			var rec samlidp.Shortcut
			json.Unmarshal([]byte(raw), &rec)
			v.Shortcuts[c] = c19EidOf(rec.ServiceProviderID)
		}
	}
	for k := 1; k <= nslots; k++ {
		s := c19Sess{}
		if id, ok := e.snap.slot[k]; ok {
			if raw, ok := data["/sessions/"+id]; ok {
				var rec saml.Session
				json.Unmarshal([]byte(raw), &rec)
				fmt.Sscanf(strings.Replace(rec.UserEmail, ".v", " ", 1), "%s %d@example.com", &s.User, &s.Ver)
				age := int((e.now.Sub(rec.CreateTime) + c19TickDur/2) / c19TickDur)
				if age > 3 {
					age = 3
				}
				s.Age = age
			}
		}
		v.Sessions = append(v.Sessions, s)
	}
	return v
}

// registered probes which entity IDs the live server answers (no session needed, no mutation).
func c19Registered(srv *samlidp.Server, now time.Time, eids []string) []string {
	setGoroutineClock(now)
	defer clearGoroutineClock()
	var out []string
	for _, e := range eids {
		w := doHTTP(srv, httpReq{Method: "GET", URL: authnRequestURL(srv.IDP.Metadata(), c19Eid(e), c19Acs(e), "probe")})
		if w.Code != 400 {
			out = append(out, e)
		}
	}
	sort.Strings(out)
	return out
}

// probe sends identical read-only requests to a server and returns the projected replies.
func c19Probe(srv *samlidp.Server, now time.Time, cookie string, eids, scs []string) []c19Reply {
	setGoroutineClock(now)
	defer clearGoroutineClock()
	var out []c19Reply
	for _, e := range eids {
		for _, ck := range []string{"", cookie} {
			w := doHTTP(srv, httpReq{Method: "GET", URL: authnRequestURL(srv.IDP.Metadata(), c19Eid(e), c19Acs(e), "probe"), Cookie: ck})
			r, _ := c19Project(w.Code, w.Header(), w.Body.String())
			out = append(out, r)
		}
	}
	for _, c := range scs {
		w := doHTTP(srv, httpReq{Method: "GET", URL: idpSrvRoot + "/login/" + c, Cookie: cookie})
		r, _ := c19Project(w.Code, w.Header(), w.Body.String())
		out = append(out, r)
	}
	return out
}

// ---------------------------------------------------------------------------
// oracles (property clauses evaluated on the real reply against the model's source state)

func c19SlotOf(ck string) int {
	var k int
	if _, err := fmt.Sscanf(ck, "k%d", &k); err == nil {
		return k
	}
	return 0
}

func c19LiveSession(from c19View, ck string) (c19Sess, bool) {
	k := c19SlotOf(ck)
	if k >= 1 && k <= len(from.Sessions) {
		s := from.Sessions[k-1]
		if s.User != "" && s.Age < 3 {
			return s, true
		}
	}
	return c19Sess{}, false
}

func c19Stored(from c19View, e string) bool {
	for _, x := range from.Services {
		if x == e {
			return true
		}
	}
	return false
}

// returns "" when the real reply satisfies every clause, else the violated clause
func c19Oracle(from c19View, a c19Act, r c19Real) string {
	if r.Panic != "" {
		return "the request did not receive a well-formed HTTP reply (handler panicked)"
	}
	if r.Reply.Status == 0 {
		return "the request did not receive an HTTP reply"
	}
	if r.Malformed != "" {
		return "the request did not receive exactly one well-formed HTTP reply: " + r.Malformed
	}
	credsOK := (a.N == "Login" || a.N == "SSOLogin") && a.Pw != "" && from.Users[a.U].Pw == a.Pw
	if r.Reply.Kind == "assertion" {
		if !c19Stored(from, r.Reply.Aud) {
			return fmt.Sprintf("assertion issued towards %s, which is not a registered service provider at that moment", r.Reply.Aud)
		}
		s, byCookie := c19LiveSession(from, a.Ck)
		switch {
		case byCookie:
			if r.Reply.User != s.User {
				return "assertion names a user other than the owner of the presented session"
			}
			if r.Reply.Ver != s.Ver {
				return "assertion does not describe the user as stored at login"
			}
		case credsOK:
			if r.Reply.User != a.U {
				return "assertion names a user other than the one whose password was presented"
			}
			if r.Reply.Ver != from.Users[a.U].Ver {
				return "assertion does not describe the user as stored at login"
			}
		default:
			return "assertion issued to a request that presented neither the user's current password nor the cookie of a stored, unexpired session"
		}
	}
	if r.SetCookie != "" && !credsOK {
		return "a session was created for a request that did not present the user's current password"
	}
	// stored password hashes are never disclosed
	c19HashMu.Lock()
	defer c19HashMu.Unlock()
	for h := range c19HashClass {
		if strings.Contains(r.Body, h) || strings.Contains(r.Body, base64.StdEncoding.EncodeToString([]byte(h))) {
			return "a stored password hash is disclosed in the reply"
		}
	}
	return ""
}

func c19RecordHashes(data map[string]string, a c19Act) {
	if a.N != "PutUser" || a.Pw == "keep" {
		return
	}
	if raw, ok := data["/users/"+a.U]; ok {
		var rec samlidp.User
		json.Unmarshal([]byte(raw), &rec)
		if len(rec.HashedPassword) > 0 {
			c19HashMu.Lock()
			if _, seen := c19HashClass[string(rec.HashedPassword)]; !seen {
				c19HashClass[string(rec.HashedPassword)] = a.Pw
			}
			c19HashMu.Unlock()
		}
	}
}

func domKeys[T any](m map[string]T) []string {
	var out []string
	for k := range m {
		out = append(out, k)
	}
	sort.Strings(out)
	return out
}

func c19ActKey(a c19Act) string {
	b, _ := json.Marshal(a)
	var m map[string]any
	json.Unmarshal(b, &m)
	for k, v := range m {
		if v == "" || v == float64(0) {
			delete(m, k)
		}
	}
	b, _ = json.Marshal(m)
	return strings.NewReplacer(`"`, "", "{", "", "}", "").Replace(string(b))
}

func TestC19(t *testing.T) {
	rep := NewReport("C19")
	defer rep.Finish(t)
	rep.Rule = "every transition of the reachable graph of spec/IdpServer.tla (deduplicated by VIEW) is executed once on the real samlidp server from a concrete snapshot of its source state (store copy + server created over it); property oracles are evaluated on the real reply; after each transition the live server is probed against a server freshly created over a copy of its store; single store faults (n-th operation fails, not-found / I/O) are swept over the authentication and SSO transitions; non-trivial = transition whose act is a request (not Tick/Restart)"
	lines := loadLines(t, envOr("C19_EDGES", "edges.ndjson"))
	if len(lines) == 0 {
		rep.Break("no edges")
		return
	}
	oldNow, oldRand := saml.TimeNow, saml.RandReader
	defer func() { saml.TimeNow, saml.RandReader = oldNow, oldRand }()
	saml.TimeNow = goroutineNow
	saml.RandReader = &safeRand{r: newRand("c19rand"), n: 64} // session IDs with + and / as the server really draws them

	// graph
	type node struct {
		view c19View
		out  []*c19Edge
	}
	nodes := map[string]*node{}
	get := func(v c19View) *node {
		k := v.key()
		n, ok := nodes[k]
		if !ok {
			n = &node{view: v}
			nodes[k] = n
		}
		return n
	}
	var initKey string
	nEdges := 0
	for _, l := range lines {
		e := &c19Edge{}
		if err := json.Unmarshal(l, e); err != nil {
			rep.Break("bad edge: %v", err)
			return
		}
		n := get(e.From)
		get(e.To)
		n.out = append(n.out, e)
		nEdges++
		empty := true
		for _, u := range e.From.Users {
			if u.Pw != "absent" {
				empty = false
			}
		}
		for _, s := range e.From.Services {
			if s != "" {
				empty = false
			}
		}
		for _, s := range e.From.Shortcuts {
			if s != "" {
				empty = false
			}
		}
		for _, s := range e.From.Sessions {
			if s.User != "" {
				empty = false
			}
		}
		if empty {
			initKey = e.From.key()
		}
	}
	if initKey == "" {
		rep.Break("initial state not found among the edges")
		return
	}
	first := nodes[initKey].view
	usersDom, svcDom, scDom, nslots := domKeys(first.Users), domKeys(first.Services), domKeys(first.Shortcuts), len(first.Sessions)
	eids := []string{"e1", "e2"}

	snaps := map[string]*c19Snap{initKey: {data: map[string]string{}, slot: map[int]string{}}}
	var snapMu sync.Mutex
	done := map[string]bool{}
	fallback := map[string]*c19Snap{}
	unfaithful := 0
	frontier := []string{initKey}
	executed, unreached := 0, 0
	faultRuns := 0
	var cnt sync.Mutex

	for len(frontier) > 0 {
		var next []string
		type job struct {
			fk string
			ed *c19Edge
		}
		var jobs []job
		for _, fk := range frontier {
			if done[fk] {
				continue
			}
			done[fk] = true
			for _, ed := range nodes[fk].out {
				jobs = append(jobs, job{fk, ed})
			}
		}
		{
			parallel(len(jobs), func(i int) {
				ed, fk := jobs[i].ed, jobs[i].fk
				snapMu.Lock()
				snap := snaps[fk]
				snapMu.Unlock()
				key := "C19:" + c19ActKey(ed.Act) + ":from=" + hashKey(fk)
				switch ed.Act.N {
				case "Tick":
					ns := &c19Snap{data: snap.data, slot: snap.slot, ticks: snap.ticks + 1}
					env := c19Restore(ns)
					post := env.abstract(usersDom, svcDom, scDom, nslots)
					post.Registry = ed.To.Registry
					snapMu.Lock()
					if _, ok := snaps[ed.To.key()]; !ok && post.key() == ed.To.key() {
						snaps[ed.To.key()] = &c19Snap{data: env.store.clone(), slot: env.snap.slot, ticks: ns.ticks}
						next = append(next, ed.To.key())
					}
					snapMu.Unlock()
					rep.Eval("Env", "")
					return
				case "Restart":
					// restart equivalence is probed after every transition below
					rep.Eval("Env", "")
					return
				}
				// the bcrypt-bound transitions (about 60 ms each: the server hashes with the default
				// cost) are executed from a third of the states, and always when they lead to a state that has
				// no concrete snapshot yet (reachability)
				// the large graphs of the thorough tier (0.5 M and 1 M transitions) are sampled: one transition in
				// C19_SAMPLE, chosen by hash and VERIF_SEED, plus every transition needed for reachability
				skip := (ed.Act.N == "Login" || ed.Act.N == "SSOLogin" || (ed.Act.N == "PutUser" && ed.Act.Pw != "keep")) && hashKey(fk)[0]%3 != 0
				if n := c19SampleN(); n > 1 && (int(hashKey(key)[1])+int(seedVal()))%n != 0 {
					skip = true
				}
				if skip {
					snapMu.Lock()
					_, have := snaps[ed.To.key()]
					snapMu.Unlock()
					if have {
						return
					}
				}
				env := c19Restore(snap)
				real := env.do(ed.Act, 0, "")
				if real.SetCookie != "" && ed.Reply.Cookie != 0 {
					env.snap.slot[ed.Reply.Cookie] = real.SetCookie
					real.Reply.Cookie = ed.Reply.Cookie
				} else if real.SetCookie != "" {
					env.snap.slot[99] = real.SetCookie
					real.Reply.Cookie = 99
				}
				c19RecordHashes(env.store.clone(), ed.Act)
				cnt.Lock()
				executed++
				cnt.Unlock()
				rep.Eval("Request", key)
				rep.Trace(1)
				replay := func(extra map[string]any) map[string]any {
					m := map[string]any{"edge": ed, "real_reply": real.Reply, "real_body_head": head(real.Body, 400), "panic": real.Panic}
					for k, v := range extra {
						m[k] = v
					}
					return m
				}
				if why := c19Oracle(ed.From, ed.Act, real); why != "" {
					rep.Violation(key, why, replay(nil))
					return
				}
				// post-state and restart equivalence
				post := env.abstract(usersDom, svcDom, scDom, nslots)
				liveReg := c19Registered(env.srv, env.now, eids)
				fresh, err := newIdpSrv(newMapStore(env.store.clone()))
				if err != nil {
					rep.Violation(key+":restart", "a server cannot be re-created over the store left by this request: "+err.Error(), replay(nil))
					return
				}
				ck := ""
				for k := 1; k <= nslots; k++ {
					if id, ok := env.snap.slot[k]; ok && post.Sessions[k-1].User != "" && post.Sessions[k-1].Age < 3 {
						ck = "session=" + id
					}
				}
				pl, pf := c19Probe(env.srv, env.now, ck, eids, scDom), c19Probe(fresh, env.now, ck, eids, scDom)
				if fmt.Sprint(pl) != fmt.Sprint(pf) {
					rep.Violation(key+":restart", "a server re-created over the same store answers differently from the running one (registry out of step with the stored services)",
						replay(map[string]any{"live_probe": pl, "fresh_probe": pf, "live_registered": liveReg}))
					return
				}
				// a service the history unregistered (in a request answered as the reference model does) obtains
				// nothing any more: the probe with a live session cookie must not yield an assertion towards it
				if real.Reply == ed.Reply && ck != "" {
					regNow := map[string]bool{}
					for _, e := range ed.To.regSet() {
						regNow[e] = true
					}
					for _, pr := range pl {
						if pr.Kind == "assertion" && !regNow[pr.Aud] {
							rep.Violation(key+":unregistered", fmt.Sprintf("after this request (answered %d, as the reference model does) the services registered are %v, yet a request with a valid session obtains an assertion towards %s", real.Reply.Status, ed.To.regSet(), pr.Aud),
								replay(map[string]any{"probe": pr, "live_registered": liveReg}))
							return
						}
					}
				}
				// what the history revoked stays revoked: the request was answered as the reference model says
				// (e.g. 204 to DELETE /sessions/{id}), so the reference state after it is what the history means;
				// a session cookie that this state no longer entitles must not obtain an assertion any more
				if real.Reply == ed.Reply {
					for k := 1; k <= nslots; k++ {
						id, known := env.snap.slot[k]
						if !known || k > len(ed.To.Sessions) {
							continue
						}
						if ms := ed.To.Sessions[k-1]; ms.User != "" && ms.Age < 3 {
							continue // still entitled
						}
						for _, pr := range c19Probe(env.srv, env.now, "session="+id, eids, scDom) {
							if pr.Kind == "assertion" {
								rep.Violation(key+":revoked", fmt.Sprintf("after this request (answered %d, as the reference model does) the session in slot %d is deleted or expired, yet its cookie still obtains an assertion (for %s)", real.Reply.Status, k, pr.Aud),
									replay(map[string]any{"slot": k, "probe": pr}))
								return
							}
						}
					}
				}
				// ... and so do credentials: after a user was deleted, or the password replaced, in a request the
				// server answered as the reference model does, the previous password must not open a session
				if real.Reply == ed.Reply && (ed.Act.N == "DeleteUser" || (ed.Act.N == "PutUser" && ed.Act.Pw != "keep")) {
					old := ed.From.Users[ed.Act.U].Pw
					if (old == "p1" || old == "e") && ed.To.Users[ed.Act.U].Pw != old {
						penv := c19Restore(&c19Snap{data: env.store.clone(), slot: env.snap.slot, ticks: env.snap.ticks})
						if pr := penv.do(c19Act{N: "Login", U: ed.Act.U, Pw: old}, 0, ""); pr.SetCookie != "" || pr.Reply.Kind == "json" {
							rep.Violation(key+":revoked-password", fmt.Sprintf("after this request (answered %d, as the reference model does) user %s has %s, yet the previous password still opens a session", real.Reply.Status, ed.Act.U,
								map[bool]string{true: "been deleted", false: "another password"}[ed.Act.N == "DeleteUser"]), replay(map[string]any{"probe": pr.Reply}))
							return
						}
					}
				}
				// ... and an update that carried no password has given the user no new one
				if real.Reply == ed.Reply && ed.Act.N == "PutUser" && ed.Act.Pw == "keep" && ed.From.Users[ed.Act.U].Pw != "absent" {
					penv := c19Restore(&c19Snap{data: env.store.clone(), slot: env.snap.slot, ticks: env.snap.ticks})
					// (nor anybody else's: tried from a third of the states, the comparison is bcrypt-bound)
					if cur := ed.From.Users[ed.Act.U].Pw; hashKey(fk)[0]%3 == 0 {
						for _, other := range []string{"p1", "e"} {
							if other == cur {
								continue
							}
							oenv := c19Restore(&c19Snap{data: env.store.clone(), slot: env.snap.slot, ticks: env.snap.ticks})
							if pr := oenv.do(c19Act{N: "Login", U: ed.Act.U, Pw: other}, 0, ""); pr.SetCookie != "" || pr.Reply.Kind == "json" {
								rep.Violation(key+":credential-changed-without-password", fmt.Sprintf("after this update without a password (answered %d, as the reference model does) user %s's current password is still %q, yet %q - not the user's password - opens a session", real.Reply.Status, ed.Act.U, cur, other), replay(map[string]any{"probe": pr.Reply}))
								return
							}
						}
					}
					if pr := penv.do(c19Act{N: "Login", U: ed.Act.U, Pw: "intruder"}, 0, ""); pr.SetCookie != "" || pr.Reply.Kind == "json" {
						rep.Violation(key+":credential-from-body", fmt.Sprintf("after this update without a password (answered %d, as the reference model does) user %s's current password is still %q, yet a password that was never set for the user - its hash travelled in the update's hashed_password field - opens a session", real.Reply.Status, ed.Act.U, ed.From.Users[ed.Act.U].Pw), replay(map[string]any{"probe": pr.Reply}))
						return
					}
				}
				// conformance with the model's prediction (drift only)
				want := ed.To
				if real.Reply != ed.Reply {
					rep.DriftCase(key, "reply differs from the model", map[string]any{"model": ed.Reply, "real": real.Reply})
				}
				post.Registry = want.Registry
				same := post.key() == want.key() && fmt.Sprint(liveReg) == fmt.Sprint(want.regSet())
				if !same {
					rep.DriftCase(key, "post-state differs from the model", map[string]any{"model": want, "real": post, "live_registered": liveReg})
					// The model is the reference for what the history means (who is registered, what the current
					// password is); the real server's state is what it is.  If no faithful transition reaches the
					// model's target state, exploration continues from this real state under the model's target as
					// reference, so that a state the code cannot represent correctly is still exercised.
					snapMu.Lock()
					if _, ok := fallback[want.key()]; !ok {
						fallback[want.key()] = &c19Snap{data: env.store.clone(), slot: env.snap.slot, ticks: env.snap.ticks}
					}
					snapMu.Unlock()
				} else {
					snapMu.Lock()
					if _, ok := snaps[want.key()]; !ok {
						snaps[want.key()] = &c19Snap{data: env.store.clone(), slot: env.snap.slot, ticks: env.snap.ticks}
						next = append(next, want.key())
					}
					snapMu.Unlock()
				}
				// names are case-sensitive: where the model's request succeeds, the same request under another spelling of the
				// user name (no such user exists) or of the entity ID (no such provider is registered) must not
				if real.Reply == ed.Reply && hashKey(fk)[0]%3 == 0 {
					va := ed.Act
					va.Var = true
					switch {
					case ed.Act.N == "Login" && real.SetCookie != "":
						// ... nor does the password with white space around it: it is not the user's password
						wa := ed.Act
						wa.Pw += "+ws"
						if pr := c19Restore(snap).do(wa, 0, ""); pr.SetCookie != "" || pr.Reply.Kind == "json" || pr.Reply.Kind == "assertion" {
							rep.Violation(key+":padded-password", fmt.Sprintf("a login as %s with the user's password surrounded by white space - not the user's password - opens a session", ed.Act.U), replay(map[string]any{"probe": pr.Reply}))
							return
						}
						if pr := c19Restore(snap).do(va, 0, ""); pr.SetCookie != "" || pr.Reply.Kind == "json" || pr.Reply.Kind == "assertion" {
							rep.Violation(key+":case-variant-user", fmt.Sprintf("a login as %q - no such user exists, %q does - with %s's password opens a session", c19CaseVar(ed.Act.U), ed.Act.U, ed.Act.U), replay(map[string]any{"probe": pr.Reply}))
							return
						}
					case ed.Act.N == "SSO" && real.Reply.Kind == "assertion":
						if pr := c19Restore(snap).do(va, 0, ""); pr.Reply.Kind == "assertion" {
							rep.Violation(key+":case-variant-entity", fmt.Sprintf("a request issued by %q - not a registered service provider, %q is - obtains an assertion (towards %s)", c19CaseVar(c19Eid(ed.Act.E)), c19Eid(ed.Act.E), pr.Reply.Aud), replay(map[string]any{"probe": pr.Reply}))
							return
						}
					}
				}
				// single store faults on the transitions that authenticate or issue assertions
				sweep := map[string]bool{"Login": true, "SSO": true, "SSOLogin": true, "Shortcut": true, "LoginCookie": true,
					"PutService": true, "DeleteService": true, "GetUser": true}
				if thorough() || ed.Act.Pw == "keep" {
					sweep["PutUser"] = true
				}
				// bcrypt-bound transitions are swept from a third of the states
				if (ed.Act.N == "Login" || ed.Act.N == "SSOLogin") && hashKey(fk)[0]%3 != 0 {
					sweep[ed.Act.N] = false
				}
				if sweep[ed.Act.N] {
					for at := 1; at <= 3; at++ {
						for _, kind := range []string{"notfound", "io"} {
							fenv := c19Restore(snap)
							fr := fenv.do(ed.Act, at, kind)
							if fenv.store.ops < at {
								continue // the request performs fewer store operations
							}
							cnt.Lock()
							faultRuns++
							cnt.Unlock()
							fkey := fmt.Sprintf("%s:fault=%d/%s", key, at, kind)
							rep.Eval("FaultedRequest", fkey)
							if why := c19Oracle(ed.From, ed.Act, fr); why != "" {
								rep.Violation(fkey, why+fmt.Sprintf(" (store operation %d of the request failed with %s)", at, kind),
									map[string]any{"edge": ed, "fault_at": at, "fault_kind": kind, "store_ops": fenv.store.log, "real_reply": fr.Reply})
								continue
							}
							// a cookie handed out for a session that the failed write never stored entitles nobody (no
							// clause forbids it: the user did present the password) - made visible as drift
							if fr.SetCookie != "" {
								if _, stored := fenv.store.clone()["/sessions/"+fr.SetCookie]; !stored {
									rep.DriftCase(fkey+":cookie-without-session", "the request hands out a session cookie although the store operation that should have stored the session failed",
										map[string]any{"edge": ed, "fault_at": at, "fault_kind": kind, "store_ops": fenv.store.log, "real_reply": fr.Reply})
								}
							}
							// a request that failed half-way must not leave the running server out of step with its store
							if ed.Act.N == "PutService" || ed.Act.N == "DeleteService" {
								ffresh, ferr := newIdpSrv(newMapStore(fenv.store.clone()))
								if ferr == nil {
									lp, fp := c19Registered(fenv.srv, fenv.now, eids), c19Registered(ffresh, fenv.now, eids)
									if fmt.Sprint(lp) != fmt.Sprint(fp) {
										rep.Violation(fkey+":restart", fmt.Sprintf("after store operation %d of the request failed (%s), the running server answers for %v while a server re-created over the same store answers for %v", at, kind, lp, fp),
											map[string]any{"edge": ed, "fault_at": at, "fault_kind": kind, "store_ops": fenv.store.log, "real_reply": fr.Reply})
										continue
									}
								}
							}
							fpost := fenv.abstract(usersDom, svcDom, scDom, nslots)
							fpost.Registry = ed.From.Registry
							if fpost.key() != ed.From.key() && !(fr.Reply == real.Reply) {
								rep.DriftCase(fkey, "a failed request had an effect", map[string]any{"from": ed.From, "real": fpost, "reply": fr.Reply})
							}
						}
					}
				}
				if executed%4001 == 0 {
					rep.Sample(map[string]any{"from": ed.From, "act": ed.Act, "model_reply": ed.Reply, "real_reply": real.Reply})
				}
			})
		}
		frontier = next
		if len(frontier) == 0 {
			// states no faithful transition reached: continue from the unfaithful real states
			for k, sn := range fallback {
				if _, ok := snaps[k]; !ok && !done[k] {
					snaps[k] = sn
					frontier = append(frontier, k)
					unfaithful++
				}
			}
		}
	}
	for k := range nodes {
		if !done[k] {
			unreached++
		}
	}
	rep.Extra["states_entered_unfaithfully"] = unfaithful
	rep.Extra["model_states"] = len(nodes)
	rep.Extra["states_with_concrete_snapshot"] = len(done)
	rep.Extra["edges_total"] = nEdges
	rep.Extra["edges_executed"] = executed
	rep.Extra["fault_runs"] = faultRuns
	if unreached > 0 {
		rep.Note("%d model states were never reached concretely (their outgoing transitions were not executed)", unreached)
	}
	if executed == 0 {
		rep.Break("no transition executed")
	}
	if unreached*2 > len(nodes) {
		rep.Break("more than half of the model states could not be reached concretely (%d of %d)", unreached, len(nodes))
	}
	_ = bytes.MinRead
}

func head(s string, n int) string {
	if len(s) > n {
		return s[:n]
	}
	return s
}

// ---------------------------------------------------------------------------
// reverse direction: long random histories, validated by spec/TraceIdpServer.tla

func c19ActJSON(a c19Act) map[string]any {
	m := map[string]any{"n": a.N}
	switch a.N {
	case "PutUser":
		m["u"], m["pw"], m["ver"] = a.U, a.Pw, a.Ver
	case "DeleteUser", "GetUser":
		m["u"] = a.U
	case "PutService":
		m["svc"], m["e"] = a.Svc, a.E
	case "DeleteService", "GetService":
		m["svc"] = a.Svc
	case "PutShortcut":
		m["c"], m["e"] = a.C, a.E
	case "DeleteShortcut":
		m["c"] = a.C
	case "DeleteSession":
		m["k"] = a.K
	case "List":
		m["what"] = a.What
	case "Login":
		m["u"], m["pw"] = a.U, a.Pw
	case "LoginCookie":
		m["ck"] = a.Ck
	case "SSO":
		m["e"], m["ck"] = a.E, a.Ck
	case "SSOLogin":
		m["e"], m["u"], m["pw"] = a.E, a.U, a.Pw
	case "Shortcut":
		m["c"], m["ck"] = a.C, a.Ck
	}
	return m
}

func TestC19Random(t *testing.T) {
	rep := NewReport("C19")
	defer rep.Finish(t)
	nHist, steps := 24, 80
	if thorough() {
		nHist, steps = 300, 120
	}
	oldNow, oldRand := saml.TimeNow, saml.RandReader
	defer func() { saml.TimeNow, saml.RandReader = oldNow, oldRand }()
	saml.TimeNow = goroutineNow
	saml.RandReader = &safeRand{r: newRand("c19random-rand"), n: 64}
	users, svcs, eids, pws := []string{"u1", "u2"}, []string{"s1", "s2"}, []string{"e1", "e2"}, []string{"p1", "e", "p1", "e", "L2"}
	const maxSess = 2
	type line struct {
		A map[string]any `json:"a"`
		R *c19Reply      `json:"r,omitempty"`
	}
	hists := make([][]line, nHist)
	parallel(nHist, func(h int) {
		rng := newRand(fmt.Sprintf("c19random/%d", h))
		env := c19Restore(&c19Snap{data: map[string]string{}, slot: map[int]string{}})
		// the reference meaning of the user records the driver itself wrote (to know when the model logs in)
		pwOf := map[string]string{} // user -> "p1" | "e" | "none"; absent key = no such user
		born := map[int]int{}       // slot -> tick of creation
		out := []line{{A: map[string]any{"n": "Reset"}}}
		pick := func(s []string) string { return s[rng.Intn(len(s))] }
		cookie := func() string { return []string{"none", "forged", "k1", "k2"}[rng.Intn(4)] }
		for s := 0; s < steps; s++ {
			var a c19Act
			switch rng.Intn(17) {
			case 0, 1:
				a = c19Act{N: "PutUser", U: pick(users), Pw: []string{"keep", "p1", "e", "p1", "e", "L"}[rng.Intn(6)], Ver: 1 + rng.Intn(2)}
			case 2:
				a = c19Act{N: "DeleteUser", U: pick(users)}
			case 3:
				a = c19Act{N: "GetUser", U: pick(users)}
			case 4, 5:
				a = c19Act{N: "PutService", Svc: pick(svcs), E: pick(eids)}
			case 6:
				a = c19Act{N: "DeleteService", Svc: pick(svcs)}
			case 7:
				a = c19Act{N: []string{"PutShortcut", "PutShortcut", "DeleteShortcut"}[rng.Intn(3)], C: "c1", E: pick(eids)}
				if a.N == "DeleteShortcut" {
					a.E = ""
				}
			case 8:
				a = c19Act{N: "List", What: pick([]string{"users", "services", "shortcuts", "sessions"})}
			case 9, 10:
				a = c19Act{N: "Login", U: pick(users), Pw: pick(pws)}
			case 11:
				a = c19Act{N: "LoginCookie", Ck: cookie()}
			case 12, 13:
				a = c19Act{N: "SSO", E: pick(eids), Ck: cookie()}
			case 14:
				a = c19Act{N: "SSOLogin", E: pick(eids), U: pick(users), Pw: pick(pws)}
			case 15:
				a = c19Act{N: "Shortcut", C: "c1", Ck: cookie()}
			case 16:
				switch rng.Intn(4) {
				case 0:
					if len(born) == 0 {
						continue
					}
					for k := range born {
						a = c19Act{N: "DeleteSession", K: k}
						break
					}
				case 1:
					live := false
					for _, b := range born {
						if env.snap.ticks-b < 3 {
							live = true
						}
					}
					if !live {
						continue
					}
					a = c19Act{N: "Tick"}
				case 2:
					a = c19Act{N: "Restart"}
				default:
					a = c19Act{N: "GetService", Svc: pick(svcs)}
				}
			}
			// the model needs a free slot to log in
			if (a.N == "Login" || a.N == "SSOLogin") && len(born) >= maxSess {
				continue
			}
			switch a.N {
			case "Tick":
				env.snap.ticks++
				env.now = c19Base.Add(time.Duration(env.snap.ticks) * c19TickDur)
				out = append(out, line{A: c19ActJSON(a)})
				continue
			case "Restart":
				srv, err := newIdpSrv(env.store)
				if err != nil {
					rep.Violation(fmt.Sprintf("C19:random:h%d:restart", h), "a server cannot be re-created over its own store: "+err.Error(), map[string]any{"history": out})
					return
				}
				env.srv = srv
				out = append(out, line{A: c19ActJSON(a)})
				continue
			}
			real := env.do(a, 0, "")
			c19RecordHashes(env.store.clone(), a)
			modelLogsIn := (a.N == "Login" || a.N == "SSOLogin") && pwOf[a.U] == a.Pw && pwOf[a.U] != ""
			if a.N == "SSOLogin" {
				// the model only reaches the credentials when the SP is registered
				modelLogsIn = modelLogsIn && real.Reply.Status != 400
			}
			if real.SetCookie != "" {
				k := 1
				for ; k <= maxSess; k++ {
					if _, used := born[k]; !used {
						break
					}
				}
				env.snap.slot[k] = real.SetCookie
				born[k] = env.snap.ticks
				real.Reply.Cookie = k
			}
			r := real.Reply
			out = append(out, line{A: c19ActJSON(a), R: &r})
			rep.Eval("RandomRequest", fmt.Sprintf("h%d-%d", h, s))
			if real.Panic != "" {
				rep.Violation(fmt.Sprintf("C19:random:h%d:panic:%s", h, a.N), "the request did not receive a well-formed HTTP reply (handler panicked)", map[string]any{"history": out})
				return
			}
			// keep the driver's notion of the reference state
			switch a.N {
			case "PutUser":
				if a.Pw == "L" {
					// refused by the reference model: nothing changes
				} else if a.Pw != "keep" {
					pwOf[a.U] = a.Pw
				} else if _, ok := pwOf[a.U]; !ok {
					pwOf[a.U] = "none"
				}
			case "DeleteUser":
				delete(pwOf, a.U)
			case "DeleteSession":
				delete(born, a.K)
				delete(env.snap.slot, a.K)
			}
			if modelLogsIn && real.SetCookie == "" {
				// the server refused a login the reference model grants: not forbidden by the statement, but the
				// slot bookkeeping of model and driver now differ - end this history here (counted as drift)
				rep.DriftCase(fmt.Sprintf("C19:random:h%d-%d", h, s), "a login with the current password was refused", r)
				out = out[:len(out)-1]
				break
			}
		}
		hists[h] = out
	})
	f, err := os.Create(filepath.Join(workDir(), "trace.ndjson"))
	if err != nil {
		rep.Break("%v", err)
		return
	}
	defer f.Close()
	n := 0
	for _, h := range hists {
		for _, l := range h {
			b, _ := json.Marshal(l)
			f.Write(append(b, '\n'))
			n++
		}
	}
	if len(hists) > 0 && len(hists[0]) > 6 {
		rep.Sample(hists[0][:6])
	}
	rep.Extra["random_histories"] = nHist
	rep.Extra["random_trace_lines"] = n
}
