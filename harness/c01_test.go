package harness

import (
	"bytes"
	"encoding/base64"
	"encoding/json"
	"fmt"
	"io"
	"net/http"
	"net/url"
	"sort"
	"strings"
	"sync"
	"testing"
	"time"

	"github.com/beevik/etree"
	xrv "github.com/mattermost/xml-roundtrip-validator"

	"github.com/crewjam/saml"
)

// C01: the SP returns an assertion only if a trusted IdP key signed its content.
// Conformance of spec/SigTree.tla with ParseXMLResponse / ParseResponse / ParseXMLArtifactResponse,
// plus the concrete ledger oracle that alone decides VIOLATION.

type stObs struct {
	Accepted bool   `json:"accepted"`
	Identity string `json:"identity,omitempty"` // digest of the returned identity-bearing content
	NameID   string `json:"nameID,omitempty"`
	RetID    string `json:"retID,omitempty"`
	Err      string `json:"err,omitempty"`
	Panic    string `json:"panic,omitempty"`
}

// stBackChannel plays the IdP's artifact resolution service for ParseResponse (SAMLart): whatever is asked, the
// answer is the document under test (the party in the middle of the back channel decides what the SP reads).
type stBackChannel struct {
	doc  []byte
	seen *string
}

func (b stBackChannel) RoundTrip(req *http.Request) (*http.Response, error) {
	body, _ := io.ReadAll(req.Body)
	*b.seen = req.Method + " " + req.URL.String() + " " + string(body)
	return &http.Response{StatusCode: 200, Status: "200 OK", Proto: "HTTP/1.1", ProtoMajor: 1, ProtoMinor: 1,
		Header: http.Header{"Content-Type": {"text/xml"}}, Body: io.NopCloser(bytes.NewReader(b.doc)), Request: req}, nil
}

const stArtifact = "AAQAAMh48/1oXIM+sDo7Dh2qMp1HM4IF5DaRNmDj6RdUmllwn9jJHyEgIi8="

// stCall runs the real API on a concrete document.
func stCall(cfg *stTrustCfg, cv stCfgVariant, entry string, doc []byte) stObs {
	s := stNewSP(cfg, cv)
	var o stObs
	p, msg := safely(func() {
		var a *saml.Assertion
		var err error
		cur := mustURL(spACS)
		switch entry {
		case "xml":
			a, err = s.ParseXMLResponse(doc, []string{stRequestID}, cur)
		case "post":
			form := url.Values{"SAMLResponse": {base64.StdEncoding.EncodeToString(doc)}}
			req, _ := http.NewRequest("POST", spACS, strings.NewReader(form.Encode()))
			req.Header.Set("Content-Type", "application/x-www-form-urlencoded")
			req.ParseForm()
			a, err = s.ParseResponse(req, []string{stRequestID})
		case "artifact":
			a, err = s.ParseXMLArtifactResponse(doc, []string{stRequestID}, stArtReqID, cur)
		case "artifact-http":
			// ParseResponse with SAMLart: the SP sends its own ArtifactResolve (ID drawn from saml.RandReader, see
			// stArtReqID) over sp.HTTPClient and parses the body of the reply
			var seen string
			s.HTTPClient = &http.Client{Transport: stBackChannel{doc: doc, seen: &seen}}
			form := url.Values{"SAMLart": {stArtifact}}
			req, _ := http.NewRequest("POST", spACS, strings.NewReader(form.Encode()))
			req.Header.Set("Content-Type", "application/x-www-form-urlencoded")
			req.ParseForm()
			a, err = s.ParseResponse(req, []string{stRequestID})
			if !strings.Contains(seen, `ID="`+stArtReqID+`"`) || !strings.HasPrefix(seen, "POST https://idp.example.com/saml/artifact ") {
				panic("harness: the SP's ArtifactResolve request is not the one the base messages answer: " + seen)
			}
		default:
			panic("unknown entry " + entry)
		}
		if err != nil {
			if ire, ok := err.(*saml.InvalidResponseError); ok && ire.PrivateErr != nil {
				o.Err = ire.PrivateErr.Error()
			} else {
				o.Err = err.Error()
			}
			if a != nil {
				o.Err += " (assertion returned together with an error)"
			}
			return
		}
		if a == nil {
			o.Err = "nil assertion with nil error"
			return
		}
		o.Accepted = true
		o.Identity = stDigest(stIdentity(a))
		o.RetID = a.ID
		if a.Subject != nil && a.Subject.NameID != nil {
			o.NameID = a.Subject.NameID.Value
		}
	})
	if p {
		o.Panic = msg
	}
	return o
}

type stCase struct {
	Key      string              `json:"case"`
	Entry    string              `json:"entry"`
	Trust    string              `json:"trust"`
	Cfg      *stTrustCfg         `json:"cfg"`
	CfgVar   stCfgVariant        `json:"cfgVariant"`
	GKey     string              `json:"gkey"`
	Layout   string              `json:"layout"`
	Class    string              `json:"class"`
	Pred     string              `json:"pred"`
	Doc      []byte              `json:"doc"`
	Ledger   map[string][]string `json:"ledger"`
	Now      string              `json:"now"`
	Variants stVariants          `json:"variants"`
	Tree     *stNode             `json:"tree,omitempty"`
	Family   string              `json:"family"`
}

// stOracle is the property's concrete oracle: true + clause when the observation violates C01.
func stOracle(c *stCase, o stObs) (bool, string) {
	if o.Accepted {
		by := []string{}
		for _, r := range stSigningRoots(c.Cfg) {
			for _, k := range c.Ledger[o.Identity] {
				if k == r {
					by = append(by, r)
				}
			}
		}
		if len(by) == 0 {
			who := c.Ledger[o.Identity]
			return true, fmt.Sprintf("returned assertion (NameID %q, ID %s) whose identity-bearing content was signed by no certificate that trust configuration %s names as trusted (trusted: %v; the harness signed that content with: %v)", o.NameID, o.RetID, c.Trust, stSigningRoots(c.Cfg), who)
		}
		if c.Class == "MustReject" {
			return true, "accepted a message in which no assertion is covered by a trusted signature"
		}
		return false, ""
	}
	if c.Class == "MustAccept" {
		what := o.Err
		if o.Panic != "" {
			what = "panic: " + strings.SplitN(o.Panic, "\n", 2)[0]
		}
		return true, "untouched IdP message with a trusted covering signature rejected: " + what
	}
	return false, ""
}

func stReplayMap(c *stCase, o stObs) map[string]any {
	b, _ := json.Marshal(c)
	var m map[string]any
	json.Unmarshal(b, &m)
	m["xml"] = string(c.Doc)
	m["observed"] = o
	return m
}

func stEntries(art string, h byte, all bool) []string {
	if art != "none" {
		// the two artifact entry points: the SOAP reply handed over as bytes, or fetched by the SP itself
		if all {
			return []string{"artifact", "artifact-http"}
		}
		if h%2 == 0 {
			return []string{"artifact"}
		}
		return []string{"artifact-http"}
	}
	if all {
		return []string{"xml", "post"}
	}
	if h%2 == 0 {
		return []string{"xml"}
	}
	return []string{"post"}
}

func TestC01(t *testing.T) {
	rep := NewReport("C01")
	defer rep.Finish(t)
	rep.Rule = "every document emitted by spec/SigTree.tla (final abstract tree of a base IdP message after <= K attacker productions) is built concretely from the tree (genuine nodes and signatures copied from a message the harness signed with goxmldsig, forged nodes with another identity, attacker signatures made with the attacker's / the encryption-only key bottom-up, KeyInfo written as the SEQUENCE the tree gives - X509Data elements with several certificates in order (the signer's, any other known one, an element that holds none, X509SubjectName), KeyValue elements, or no KeyInfo -, for artifact deliveries the SOAP envelope built from the tree too (soap:Header / second soap:Body / siblings holding forged, copied or moved ArtifactResponse / Response / Assertion elements before and after the signed one), optional encryption to the SP certificate, seed-chosen comment / white-space / prefix variants; assertions carry the ACCEPTABILITY the tree gives them: besides the message the attacker holds assertions the IdP genuinely signed that this SP refuses - B1 issued for another service provider (Recipient / audience, which of them chosen by the seed), B2 three days old - and places sequences of them and of forged assertions (acceptable apart from the missing signature, or not even that), plaintext or encrypted to the SP, before, after or instead of the message's assertion; a KeyInfo may hold the attacker's LOOK-ALIKE certificate, made at run time: his key, subject and SubjectKeyIdentifier copied from a trusted certificate that carries that extension (idp1k, a second certificate of the IdP key made at run time, which the SP holds in its metadata, pinned or by fingerprint and the IdP then sends)) and run through ParseXMLResponse, ParseResponse (POST), ParseXMLArtifactResponse or ParseResponse with SAMLart (the SP fetches the SOAP reply itself over sp.HTTPClient) on a ServiceProvider configured as the run's TRUST CONFIGURATION says (the table of configurations is emitted by the specification: key descriptors of the IdP metadata with use / EncryptionMethod / several certificates / several role descriptors / unparsable certificates, pinned IDPCertificate, IDPCertificateFingerprint + algorithm - the configured string being the complete fingerprint, the empty string, or an abbreviation of the fingerprint of the trusted / of the attacker's own certificate -, each crossed with what the metadata lists at the same time; seed-chosen line-wrapped certificates and metadata passed through XML); the verdict is compared with the model's, and the returned assertion's identity-bearing content with the ledger of what the harness signed: it must have been signed with a key in TrustedKeys(configuration) as the statement defines it (pinned => only the pinned certificate, fingerprint => only a certificate with that fingerprint - an empty or abbreviated string is the fingerprint of no certificate -, else the signing-use certificates of the metadata; a signature verifies under a certificate when it was made with the key that certificate certifies; nothing a message carries or resembles adds to the set); non-trivial = MustAccept or MustReject by the statement"
	oldNow := saml.TimeNow
	defer func() { saml.TimeNow = oldNow }()
	now := c02Now.Add(time.Duration(seedVal()%1000) * time.Hour)
	saml.TimeNow = func() time.Time { return now }
	oldRand := saml.RandReader
	defer func() { saml.RandReader = oldRand }()
	saml.RandReader = stConstReader{} // the ID of the SP's ArtifactResolve request (entry artifact-http)
	bases := &stBases{now: now, m: map[string]*stBase{}}

	cfgs := stLoadTrustCfgs(rep)
	if rep.Broken != "" {
		return
	}
	if msg := stCheckGeneratedCerts(); msg != "" {
		rep.Break("run-time certificates: %s", msg)
		return
	}
	// vector files: the attack exploration under a few trust configurations, and the trust configurations
	// (every one of them x the IdP's signing key) under one attacker step / two steps of the key family
	// and the SOAP envelope of the artifact back channel under one configuration of each kind
	fams := []stFamily{{file: "vectors.ndjson", name: "tree"}, {file: "vectors_tc.ndjson", name: "trustcfg", allRunsUpTo: 0, share: 12},
		{file: "vectors_env.ndjson", name: "envelope", allRunsUpTo: 0, share: 2},
		// sibling sequences (other IdP-signed assertions that are not acceptable here, forged ones)
		{file: "vectors_sib.ndjson", name: "siblings", allRunsUpTo: 0, share: 2}}
	if thorough() {
		fams = []stFamily{{file: "vectors.ndjson", name: "tree", allRunsUpTo: 1, share: 3}, {file: "vectors3.ndjson", name: "tree", allRunsUpTo: 1, share: 3},
			{file: "vectorsim.ndjson", name: "tree", allRunsUpTo: 1, share: 3},
			{file: "vectors_tc.ndjson", name: "trustcfg", allRunsUpTo: 0, share: 3}, {file: "vectors_tc2.ndjson", name: "trustcfg", allRunsUpTo: 0, share: 6},
			{file: "vectors_env.ndjson", name: "envelope", allRunsUpTo: 1, share: 1}, {file: "vectors_env2.ndjson", name: "envelope", allRunsUpTo: 1, share: 2},
			{file: "vectors_sib.ndjson", name: "siblings", allRunsUpTo: 1, share: 1}, {file: "vectors_siba.ndjson", name: "siblings", allRunsUpTo: 0, share: 2},
			{file: "vectors_sib2.ndjson", name: "siblings", allRunsUpTo: 1, share: 2}}
	}
	seen := map[string]bool{}
	var vecs []*stVec
	perFile := map[string]int{}
	for fi := range fams {
		f := &fams[fi]
		for _, l := range loadLines(t, f.file) {
			v := &stVec{}
			if err := json.Unmarshal(l, v); err != nil {
				rep.Break("bad vector in %s: %v", f.file, err)
				return
			}
			v.T.normalise()
			h := f.name + v.treeHash()
			if seen[h] {
				continue
			}
			seen[h] = true
			v.fam = f
			for _, run := range v.Runs {
				if cfgs[run.T] == nil {
					rep.Break("vector in %s uses trust configuration %q that no TCFG line defines", f.file, run.T)
					return
				}
			}
			vecs = append(vecs, v)
			perFile[f.file]++
		}
	}
	if len(vecs) == 0 {
		rep.Break("no vectors")
		return
	}
	rep.Extra["c01_distinct_documents"] = perFile

	var mu sync.Mutex
	stats := map[string]int{}
	bump := func(k string) { mu.Lock(); stats[k]++; mu.Unlock() }
	perCfg := map[string]map[string]int{}
	bumpCfg := func(c *stCase, o stObs) {
		mu.Lock()
		defer mu.Unlock()
		m := perCfg[c.Trust]
		if m == nil {
			m = map[string]int{}
			perCfg[c.Trust] = m
		}
		m[c.Class]++
		if o.Accepted {
			m["accepted"]++
		} else {
			m["rejected"]++
		}
		kind := stCfgKind(c.Cfg)
		stats["trustkind_"+kind+"_"+c.Class]++
		stats["entry_"+c.Entry+"_"+c.Class]++
		stats["family_"+c.Family+"_evaluations"]++
		if c.Class == "MustReject" {
			if kind == "fingerprint" && c.Cfg.Clean && stOutsiderListsTrusted(c.Tree, c.Cfg) {
				stats["fingerprint_outsider_signature_whose_keyinfo_also_lists_the_trusted_certificate"]++
			}
			// counted by what the vector REQUIRES, never by what was observed
			if kind == "fingerprint" && (c.Cfg.Fmt == "empty" || c.Cfg.Fmt == "prefix") && len(c.Cfg.Trusted) == 0 {
				if stOutsiderSendsOwnCert(c.Tree) {
					stats["fingerprint_string_"+c.Cfg.Fmt+"_names_no_idp_certificate_outsider_signs_and_sends_his_own_certificate"]++
				}
			}
			if stUnverifiedResponseBeforeVerified(c.Tree) {
				stats["envelope_other_response_before_the_signed_artifactresponse"]++
			}
			// counted by what the vector REQUIRES, never by what was observed
			if (kind == "metadata" || kind == "pinned") && stTrusts(c.Cfg, "Kidp1k") && stOutsiderSendsLookalike(c.Tree) {
				stats["lookalike_on_an_outsiders_signature_while_the_imitated_certificate_is_trusted_by_"+kind]++
			}
		}
		if stTrusts(c.Cfg, stModelCertOf(c.GKey)) && stSignedUnacceptableThenForged(c.Tree) {
			stats["siblings_signed_unacceptable_then_forged_acceptable_signature_required"]++
		}
		if c.Class == "MustReject" && c.Cfg.Pin != "-" && c.GKey != stKeyNameOr(c.Cfg.Pin) && stListedForSigning(c.Cfg, c.GKey) && c.Family == "trustcfg" {
			stats["pinned_but_signed_by_a_key_the_metadata_lists"]++
		}
	}
	sampleEvery := len(vecs)/5 + 1

	parallel(len(vecs), func(i int) {
		v := vecs[i]
		th := v.treeHash()
		hb := []byte(th)[0]
		hb2 := []byte(th)[1] // chooses the entry point independently of the share of configurations
		// quick tier: a sampled share of the artifact-delivered documents
		if !thorough() && v.fam.name == "tree" && v.B.Art != "none" && v.N == 2 && hb%3 != 0 {
			bump("skipped_artifact_quick")
			return
		}
		lookDoc := stHasKeyInfoItem(v.T, "Klook")
		rng := newRand("c01/" + v.fam.name + th)
		reps := 1
		if v.N == 0 {
			reps = 3 // pristine, then two with concrete variants
		}
		for rr := 0; rr < reps; rr++ {
			var vr stVariants
			var cv stCfgVariant
			if v.N > 0 || rr > 0 {
				vr = stPickVariants(rng)
				cv = stPickCfgVariant(rng)
			}
			docs := map[string][]byte{}
			rends := map[string]*stRender{}
			for ri, run := range v.Runs {
				// documents with few attacker steps run under every configuration of their file; deeper ones
				// under a share of them (rotating with the document hash, so that every configuration sees that
				// share of the documents)
				// (a document that sends the look-alike certificate also runs under every configuration that
				// trusts the certificate it imitates)
				cfg := cfgs[run.T]
				if v.N > v.fam.allRunsUpTo && v.fam.share > 1 && (int(hb)+ri)%v.fam.share != 0 && !(lookDoc && stTrusts(cfg, "Kidp1k")) {
					continue
				}
				g := stKeyName(run.G)
				b := bases.get(v.B, g)
				if docs[g] == nil {
					var p bool
					var msg string
					p, msg = safely(func() { docs[g], rends[g] = stDocument(v, b, vr, newRand(fmt.Sprintf("c01/%s/%d", th, rr))) })
					if p {
						rep.Break("cannot build document %s: %s", th, msg)
						return
					}
				}
				for _, entry := range stEntries(v.B.Art, hb2+byte(ri), thorough() && v.N <= 1 && (v.fam.name != "trustcfg" || v.N == 0)) {
					c := &stCase{Key: th, Entry: entry, Trust: run.T, Cfg: cfg, CfgVar: cv, GKey: g, Layout: v.B.String(), Class: run.Cls, Pred: run.V,
						Doc: docs[g], Ledger: b.ledger.flat(), Now: now.Format(time.RFC3339Nano), Variants: vr, Tree: v.T, Family: v.fam.name}
					if (vr.any() || cv.any()) && c.Class == "MustAccept" {
						c.Class = "DontCare" // the statement demands acceptance of the message as sent, under the configuration as modelled, only
					}
					o := stCall(cfg, cv, entry, c.Doc)
					stJudge(rep, c, o, bump)
					bumpCfg(c, o)
					if i%sampleEvery == 0 && ri == 0 && rr == 0 {
						rep.Sample(map[string]any{"base": v.B, "steps": v.N, "tree": v.T, "trust": run.T, "trusted_keys": cfg.Trusted, "gkey": g, "entry": entry,
							"class": c.Class, "predicted": run.V, "predicted_step": run.Step, "real_accepted": o.Accepted, "real_err": o.Err, "bytes": len(c.Doc)})
					}
				}
			}
			for _, r := range rends {
				if r != nil {
					mu.Lock()
					stats["attacker_signatures_made"] += r.attSigs
					stats["attacker_encryptions_made"] += r.encMade
					mu.Unlock()
				}
			}
		}
	})
	mu.Lock()
	rep.Extra["c01_trust_configurations"] = perCfg
	for _, kind := range []string{"metadata", "pinned", "fingerprint"} {
		if stats["trustkind_"+kind+"_MustAccept"] == 0 || stats["trustkind_"+kind+"_MustReject"] == 0 {
			rep.Break("vacuous: no MustAccept or no MustReject case under a %s trust configuration", kind)
		}
	}
	if stats["pinned_but_signed_by_a_key_the_metadata_lists"] == 0 {
		rep.Break("vacuous: no message signed by a key that the metadata lists while another certificate is pinned")
	}
	if stats["fingerprint_outsider_signature_whose_keyinfo_also_lists_the_trusted_certificate"] == 0 {
		rep.Break("vacuous: no outsider's signature whose KeyInfo lists several certificates, the trusted one among them, under a fingerprint configuration")
	}
	for _, f := range []string{"empty", "prefix"} {
		if stats["fingerprint_string_"+f+"_names_no_idp_certificate_outsider_signs_and_sends_his_own_certificate"] == 0 {
			rep.Break("vacuous: no MustReject document signed by the outsider with his own certificate in KeyInfo under a fingerprint configuration whose string (%s) is the complete fingerprint of no IdP certificate", f)
		}
	}
	for _, kind := range []string{"metadata", "pinned"} {
		if stats["lookalike_on_an_outsiders_signature_while_the_imitated_certificate_is_trusted_by_"+kind] == 0 {
			rep.Break("vacuous: no MustReject document with an outsider's signature whose KeyInfo sends the look-alike certificate under a %s configuration that trusts the certificate it imitates", kind)
		}
	}
	if stats["siblings_signed_unacceptable_then_forged_acceptable_signature_required"] == 0 {
		rep.Break("vacuous: no unsigned Response in which an assertion the IdP signed with a trusted key, but not acceptable to this SP, is processed before a forged acceptable one")
	}
	if stats["envelope_other_response_before_the_signed_artifactresponse"] == 0 {
		rep.Break("vacuous: no SOAP envelope in which another Response precedes the signed ArtifactResponse")
	}
	for _, e := range []string{"xml", "post", "artifact", "artifact-http"} {
		if stats["entry_"+e+"_MustAccept"] == 0 || stats["entry_"+e+"_MustReject"] == 0 {
			rep.Break("vacuous: no MustAccept or no MustReject case through entry point %s", e)
		}
	}
	mu.Unlock()

	if cfgs["T1"] == nil || cfgs["T2"] == nil {
		rep.Break("trust configurations T1 / T2 are not defined by any TCFG line")
		return
	}
	stExtraFamilies(rep, bases, cfgs, bump)

	mu.Lock()
	rep.Extra["c01_stats"] = stats
	mu.Unlock()
	if rep.Classes["MustAccept"] == 0 || rep.Classes["MustReject"] == 0 {
		rep.Break("vacuous: no MustAccept or no MustReject cases")
	}
	if stats["accepted_with_ledger_content"] == 0 {
		rep.Break("vacuous: the real code accepted nothing")
	}
}

// stFamily: one vector file and how its documents are spread over the run configurations it lists
type stFamily struct {
	file        string
	name        string // "tree": attack exploration; "trustcfg": the trust-configuration dimension
	allRunsUpTo int    // documents with at most this many attacker steps run under every configuration
	share       int    // deeper ones under 1/share of them
}

// stOutsiderListsTrusted: some signature in the tree was made by an outsider's key and its KeyInfo holds several
// certificates, one of them trusted under the configuration
// stOutsiderSendsOwnCert: a Signature made with the attacker's key whose KeyInfo begins with his own certificate
func stOutsiderSendsOwnCert(n *stNode) bool {
	if n == nil {
		return false
	}
	if n.K == "Sig" && n.Key == "Katt" {
		for _, g := range n.Ki {
			for _, it := range g {
				if it == "rsa" || it == "subj" {
					continue
				}
				if it == "self" || it == "Katt" {
					return true
				}
				break
			}
			if len(g) > 0 && g[0] != "rsa" && g[0] != "subj" {
				break
			}
		}
	}
	for _, ch := range n.Ch {
		if stOutsiderSendsOwnCert(ch) {
			return true
		}
	}
	return false
}

func stOutsiderListsTrusted(n *stNode, c *stTrustCfg) bool {
	if n == nil {
		return false
	}
	if n.K == "Sig" && (n.Key == "Katt" || n.Key == "Kenc") {
		certs, trusted := 0, false
		for _, g := range n.Ki {
			for _, it := range g {
				if it != "rsa" && it != "subj" {
					certs++
				}
				for _, t := range c.Trusted {
					if it == t {
						trusted = true
					}
				}
			}
		}
		if certs > 1 && trusted {
			return true
		}
	}
	for _, ch := range n.Ch {
		if stOutsiderListsTrusted(ch, c) {
			return true
		}
	}
	return false
}

// stUnverifiedResponseBeforeVerified: a SOAP envelope in which an element named Response stands, in document order,
// before the ArtifactResponse that is the only one in the only Body and carries a genuine signature
func stUnverifiedResponseBeforeVerified(n *stNode) bool {
	if n == nil || n.K != "Env" {
		return false
	}
	seenResp := false
	var walk func(x *stNode, inBody bool) bool
	walk = func(x *stNode, inBody bool) bool {
		switch x.K {
		case "Resp":
			seenResp = true
		case "ArtResp":
			if inBody && seenResp {
				for _, ch := range x.Ch {
					if ch.K == "Sig" && ch.Cov == "T0" {
						return true
					}
				}
			}
		case "EncAssn":
			return false
		}
		for _, ch := range x.Ch {
			if walk(ch, x.K == "Body") {
				return true
			}
		}
		return false
	}
	return walk(n, false)
}

// stHasKeyInfoItem: some Signature's KeyInfo holds that item
func stHasKeyInfoItem(n *stNode, item string) bool {
	if n == nil {
		return false
	}
	for _, g := range n.Ki {
		for _, it := range g {
			if it == item {
				return true
			}
		}
	}
	for _, ch := range n.Ch {
		if stHasKeyInfoItem(ch, item) {
			return true
		}
	}
	return false
}

// stOutsiderSendsLookalike: a signature made with the attacker's key whose first KeyInfo certificate is the
// look-alike (his key, subject and SubjectKeyIdentifier of Kidp1k)
func stOutsiderSendsLookalike(n *stNode) bool {
	if n == nil {
		return false
	}
	if n.K == "Sig" && n.Key == "Katt" {
		for _, g := range n.Ki {
			for _, it := range g {
				if it == "rsa" || it == "subj" {
					continue
				}
				if it == "Klook" {
					return true
				}
				goto next
			}
		}
	}
next:
	for _, ch := range n.Ch {
		if stOutsiderSendsLookalike(ch) {
			return true
		}
	}
	return false
}

// stSignedUnacceptableThenForged: a Response in the SAML namespace without Signature child (and not inside a
// signed ArtifactResponse), among whose candidates in PROCESSING order - the plaintexts of its EncryptedAssertion
// children first, then its Assertion children - an assertion the IdP signed (untouched, signature in place) that
// is not acceptable to this SP comes before a forged unsigned one that is acceptable
func stSignedUnacceptableThenForged(n *stNode) bool {
	if n == nil {
		return false
	}
	hasSig := func(x *stNode) bool {
		for _, ch := range x.Ch {
			if ch.K == "Sig" {
				return true
			}
		}
		return false
	}
	if n.K == "ArtResp" && hasSig(n) {
		return false
	}
	if n.K == "Resp" && n.Ns && !hasSig(n) {
		var cand []*stNode
		for _, ch := range n.Ch {
			if ch.K == "EncAssn" && ch.Ns && len(ch.Ch) == 1 {
				cand = append(cand, ch.Ch[0])
			}
		}
		for _, ch := range n.Ch {
			if ch.K == "Assn" && ch.Ns {
				cand = append(cand, ch)
			}
		}
		vouched := false
		for _, a := range cand {
			if a.K != "Assn" || !a.Ns {
				continue
			}
			if a.Org == "g" && !a.Ed && a.Acc != "" && len(a.Ch) == 1 && a.Ch[0].K == "Sig" && a.Ch[0].Ns && a.Ch[0].Key == "G" && a.Ch[0].Cov == a.ID && stKIAsSent(a.Ch[0].Ki) {
				vouched = true
			} else if vouched && a.Org == "f" && a.Acc == "" && !hasSig(a) {
				return true
			}
		}
	}
	for _, ch := range n.Ch {
		if ch.K != "EncAssn" && ch.K != "Sig" && stSignedUnacceptableThenForged(ch) {
			return true
		}
	}
	return false
}

// stModelCertOf: the model name of a harness certificate
func stModelCertOf(harness string) string {
	for _, m := range []string{"Kidp1", "Kidp1k", "Kidp2", "Kenc", "Katt", "Klook"} {
		if stKeyName(m) == harness {
			return m
		}
	}
	return harness
}

func stCfgKind(c *stTrustCfg) string {
	switch {
	case c.Pin != "-" && c.Fp == "-" && c.Alg == "-":
		return "pinned"
	case c.Pin == "-" && c.Fp != "-":
		return "fingerprint"
	case c.Pin == "-" && c.Fp == "-" && c.Alg == "-":
		return "metadata"
	}
	return "mixed"
}

func stKeyNameOr(model string) string {
	if stIsCert(model) {
		return stKeyName(model)
	}
	return model
}

// stListedForSigning: the metadata of the configuration lists that key in a signing-use descriptor
func stListedForSigning(c *stTrustCfg, gkey string) bool {
	for _, kd := range c.Md {
		if kd.Use == "signing" || kd.Use == "" {
			for _, x := range kd.Certs {
				if stIsCert(x) && stKeyName(x) == gkey {
					return true
				}
			}
		}
	}
	return false
}

// stJudge applies the oracle, the classes and the drift comparison to one observation.
func stJudge(rep *Report, c *stCase, o stObs, bump func(string)) {
	key := fmt.Sprintf("C01:%s:%s:%s-g=%s:%s", c.Entry, c.Trust, c.Layout, c.GKey, c.Key)
	rep.Eval(c.Class, key)
	rep.Trace(1)
	if o.Accepted {
		bump("accepted")
	} else {
		bump("rejected")
	}
	if bad, clause := stOracle(c, o); bad {
		rep.Violation(key, clause, stReplayMap(c, o))
		return
	}
	if o.Accepted {
		bump("accepted_with_ledger_content")
	}
	if o.Panic != "" {
		rep.DriftCase(key, "panic on a document the property does not require to be accepted", o.Panic)
		return
	}
	if c.Pred != "" && (c.Pred == "accept") != o.Accepted {
		rep.DriftCase(key, "model predicted "+c.Pred, map[string]any{"observed": o, "tree": c.Tree, "variants": c.Variants, "family": c.Family})
	}
}

// ---------------------------------------------------------------------------
// documents outside TLC's grammar

var stUnstableTokens = []struct{ name, elem, attr, text, raw string }{
	{name: "colon-root", raw: "<x::Root/>"},
	{name: "colon-elem", elem: "<x::E/>"},
	{name: "colon-elem-close", elem: "<x:E xmlns:x=\"urn:x\"></x::E>"},
	{name: "colon-attr", attr: ` ::attr="x"`},
	{name: "colon-attr-2", attr: ` a::b="x"`},
	{name: "empty-prefix-decl", attr: ` xmlns:="urn:x"`},
	{name: "leading-colon-elem", elem: "<:E/>"},
	{name: "trailing-colon-elem", elem: "<E:/>"},
	{name: "cdata-end-in-text", text: "]]>"},
	{name: "double-dash-comment", elem: "<!-- a -- b -->"},
	{name: "comment-dash-end", elem: "<!-- a --->"},
	{name: "nul-in-text", text: "a\x00b"},
	{name: "nul-in-attr", attr: " nul=\"a\x00b\""},
	{name: "directive", elem: "<!DOCTYPE x [<!ENTITY e \"v\">]>"},
	{name: "directive-nested", elem: "<!x <!-- > --> y>"},
	{name: "procinst-target-colon", elem: "<?x::y z?>"},
	{name: "xmlns-prefix-elem", elem: "<xmlns:E/>"},
	{name: "attr-no-value", attr: " novalue"},
	{name: "invalid-utf8", text: "a\xffb"},
	{name: "benign-comment", elem: "<!-- fine -->"},
	{name: "benign-cdata", elem: "<x><![CDATA[ fine ]]></x>"},
	{name: "benign-procinst", elem: "<?target data?>"},
}

// stInsert places a token into a serialised element: as a child right after the start tag of the root,
// as an attribute of the root, as text, before or after the root.
func stInsert(doc []byte, tok struct{ name, elem, attr, text, raw string }, where string) ([]byte, bool) {
	s := string(doc)
	i := strings.Index(s, "<") // root start (documents here have no prolog)
	j := strings.Index(s[i:], ">") + i
	frag := tok.elem
	if frag == "" {
		frag = tok.text
	}
	switch where {
	case "raw":
		if tok.raw == "" {
			return nil, false
		}
		return []byte(tok.raw), true
	case "attr":
		if tok.attr == "" {
			return nil, false
		}
		return []byte(s[:j] + tok.attr + s[j:]), true
	case "child":
		if frag == "" {
			return nil, false
		}
		return []byte(s[:j+1] + frag + s[j+1:]), true
	case "before":
		if tok.elem == "" {
			return nil, false
		}
		return []byte(tok.elem + s), true
	case "after":
		if frag == "" && tok.raw == "" {
			return nil, false
		}
		if frag == "" {
			frag = tok.raw
		}
		return []byte(s + frag), true
	}
	panic(where)
}

func stEtreeParses(b []byte) bool {
	d := etree.NewDocument()
	return d.ReadFromBytes(b) == nil && d.Root() != nil
}

// stExtraFamilies: round-trip-unstable tokens at top level and inside re-encrypted plaintexts (the real
// xml-roundtrip-validator is the instrument that classifies them), and prefix re-binding used by an
// inert element elsewhere in the document.
func stExtraFamilies(rep *Report, bases *stBases, cfgs map[string]*stTrustCfg, bump func(string)) {
	now := bases.now
	spec := stBaseSpec{SigA: true, Art: "none"} // Response unsigned, Assertion signed: the token can sit outside every digest
	b := bases.get(spec, "idp1")
	respDoc := docBytes(b.doc)
	var signedAssn []byte
	{
		a := b.assn.Copy()
		a.InsertChildAt(stChildByTag(a, "Issuer").Index()+1, b.sigs["A0"].Copy())
		signedAssn = docBytes(a)
	}
	distinguishing := 0
	tokensTried := 0
	var distinguishingNames []string
	run := func(name, where string, top []byte, validated []byte, family string) {
		tokensTried++
		xrvRejects := xrv.Validate(bytes.NewReader(validated)) != nil
		etreeOK := stEtreeParses(validated)
		if xrvRejects && etreeOK {
			distinguishing++
			distinguishingNames = append(distinguishingNames, family+":"+name+":"+where)
		}
		cls := "DontCare"
		if xrvRejects {
			cls = "MustReject"
		}
		for _, trust := range []string{"T1", "T2"} {
			c := &stCase{Key: hashKey(family + name + where), Entry: "xml", Trust: trust, Cfg: cfgs[trust], GKey: "idp1", Layout: spec.String() + "+" + family + ":" + name + ":" + where,
				Class: cls, Pred: "", Doc: top, Ledger: b.ledger.flat(), Now: now.Format(time.RFC3339Nano), Family: family}
			o := stCall(cfgs[trust], stCfgVariant{}, "xml", top)
			if o.Accepted {
				bump(family + "_accepted")
			} else {
				bump(family + "_rejected")
			}
			if cls == "MustReject" && o.Accepted {
				key := fmt.Sprintf("C01:xml:%s:%s:%s", trust, family, name+"-"+where)
				rep.Eval(cls, key)
				rep.Violation(key, "accepted a document (or decrypted plaintext) that the XML round-trip validator rejects: encoding/xml and etree may read it differently", stReplayMap(c, o))
				continue
			}
			stJudge(rep, c, o, bump)
		}
	}
	for _, tok := range stUnstableTokens {
		for _, where := range []string{"raw", "attr", "child", "before", "after"} {
			// (a) top level: the token in / around the unsigned Response
			if d, ok := stInsert(respDoc, tok, where); ok {
				run(tok.name, where, d, d, "unstable-top")
			}
			// (b) inside a re-encrypted plaintext: the attacker encrypts the signed assertion plus the token to the SP
			if p, ok := stInsert(signedAssn, tok, where); ok {
				r := b.resp.Copy()
				r.InsertChildAt(stChildByTag(r, "Status").Index()+1, stEncryptTo(p, key("sp").Cert))
				run(tok.name, where, docBytes(r), p, "unstable-plaintext")
			}
		}
	}
	rep.Extra["c01_roundtrip"] = map[string]any{
		"token_documents": tokensTried, "validator_rejects_but_etree_parses": distinguishing, "which": distinguishingNames,
		"meaning": "inputs on which keeping vs dropping the round-trip validation could differ on this toolchain (0 = the two are observationally equivalent here)"}

	// prefix re-binding: an inert element elsewhere in the document USES the saml / samlp / ds prefix bound to
	// another namespace (elementToBytes collects prefixes document-wide); oracle only, no prediction
	for _, layout := range []stBaseSpec{{SigA: true, Art: "none"}, {SigR: true, Art: "none"}, {SigA: true, SigR: true, Art: "none"}, {SigA: true, Enc: true, Art: "none"}} {
		bb := bases.get(layout, "idp1")
		for _, pfx := range []string{"saml", "samlp", "ds", "xs", ""} {
			for _, pos := range []string{"first", "last", "wrap"} {
				root := bb.doc.Copy()
				var inert *etree.Element
				if pfx == "" {
					inert = etree.NewElement("Note")
					inert.CreateAttr("xmlns", "urn:evil:rebound")
				} else {
					inert = etree.NewElement(pfx + ":Note")
					inert.CreateAttr("xmlns:"+pfx, "urn:evil:rebound")
				}
				switch pos {
				case "first":
					root.InsertChildAt(0, inert)
				case "last":
					root.AddChild(inert)
				case "wrap":
					// the genuine assertion-ish child moves inside the inert element: it is no direct child any more
					var a *etree.Element
					if a = stChildByTag(root, "Assertion"); a == nil {
						a = stChildByTag(root, "EncryptedAssertion")
					}
					root.RemoveChild(a)
					inert.AddChild(a)
					root.AddChild(inert)
				}
				d := docBytes(root)
				cls := "DontCare"
				for _, trust := range []string{"T1", "T2"} {
					c := &stCase{Key: hashKey("rebind" + layout.String() + pfx + pos), Entry: "xml", Trust: trust, Cfg: cfgs[trust], GKey: "idp1",
						Layout: layout.String() + "+rebind:" + pfx + ":" + pos, Class: cls, Pred: "", Doc: d, Ledger: bb.ledger.flat(),
						Now: now.Format(time.RFC3339Nano), Family: "prefix-rebind"}
					o := stCall(cfgs[trust], stCfgVariant{}, "xml", d)
					if o.Accepted {
						bump("prefix-rebind_accepted")
					} else {
						bump("prefix-rebind_rejected")
					}
					stJudge(rep, c, o, bump)
				}
			}
		}
	}
}

// ---------------------------------------------------------------------------
// replay

func init() {
	registerReplay("C01", func(t *testing.T, raw []byte) (bool, string) {
		var c stCase
		if err := json.Unmarshal(raw, &c); err != nil {
			t.Fatal(err)
		}
		now, _ := time.Parse(time.RFC3339Nano, c.Now)
		saml.TimeNow = func() time.Time { return now }
		oldRand := saml.RandReader
		defer func() { saml.RandReader = oldRand }()
		saml.RandReader = stConstReader{}
		if c.Cfg == nil {
			t.Fatal("replay file without trust configuration")
		}
		o := stCall(c.Cfg, c.CfgVar, c.Entry, c.Doc)
		bad, clause := stOracle(&c, o)
		if !bad && c.Class == "MustReject" && o.Accepted {
			bad, clause = true, "accepted a MustReject document"
		}
		keys := []string{}
		for d, ks := range c.Ledger {
			keys = append(keys, d+"<-"+strings.Join(ks, "+"))
		}
		sort.Strings(keys)
		return bad, fmt.Sprintf("accepted=%v nameID=%q identity=%s err=%q ledger=%v %s", o.Accepted, o.NameID, o.Identity, o.Err, keys, clause)
	})
}
