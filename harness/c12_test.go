package harness

import (
	"bufio"
	"encoding/base64"
	"encoding/hex"
	"encoding/json"
	"encoding/xml"
	"fmt"
	"net/http"
	"net/url"
	"os"
	"path/filepath"
	"regexp"
	"sort"
	"strings"
	"sync"
	"testing"
	"time"

	"github.com/beevik/etree"

	"github.com/crewjam/saml"
)

// C12: what the SP emits is recoverable from its wire form; the relay state
// round-trips; this library's IdP accepts every AuthnRequest; IDs are fresh.
// Abstract cases come from spec/SPEmit.tla (families relay / nameid / config).

type spemitFinding struct {
	Key    string `json:"key"`
	Clause string `json:"clause"`
}

type c12Result struct {
	Findings  []spemitFinding `json:"findings"`
	Flags     *spemitFlags    `json:"flags,omitempty"`
	Idp       *spemitIdpFlags `json:"idp,omitempty"`
	ID        string          `json:"id"`
	Wire      string          `json:"wire"`
	Unescaped bool            `json:"relay_state_unescaped"`
	Err       string          `json:"err,omitempty"`
	Detail    []string        `json:"detail,omitempty"`
	// middleware path: HTTP status of the response, and what differs from the model's choice of binding (drift)
	Status         int    `json:"http_status,omitempty"`
	BindingDiffers string `json:"binding_differs,omitempty"`
}

var c12Fixed = time.Date(2024, 5, 17, 9, 30, 0, 0, time.UTC)

var spemitIDRe = regexp.MustCompile(`^id-[0-9a-f]{32,}$`)

// breaking classes, in the order used to name the root cause
func c12OffendingClass(relay []string) string {
	for _, c := range relay {
		switch c {
		case "amp", "hash", "plus", "pct", "semicolon":
			return c
		}
	}
	for _, c := range relay {
		if c != "plain" && spemitRunLen(c) == 0 {
			return c
		}
	}
	return "none"
}

func c12RunCase(v *spemitVec, c *spemitConc) c12Result {
	s := spemitSP(v, c)
	e := spemitEmit(s, v, c)
	js, jv, differs := spemitAdoptEmission(s, v, e)
	res := c12Judge(js, jv, c, e)
	res.Status, res.BindingDiffers = e.Status, differs
	return res
}

// c12Judge decodes one emission (redirect URL, POST form, or - binding "element" - the serialised element)
// and compares it with what was configured / given.
func c12Judge(s *saml.ServiceProvider, v *spemitVec, c *spemitConc, e *spemitEmission) c12Result {
	var res c12Result
	kb := v.In.Kind + "-" + v.In.Binding
	rest := strings.TrimPrefix(v.caseID(), kb+":")
	var raw []spemitFinding // consequences; may be folded into one root-cause finding
	add := func(slug, clause string) {
		raw = append(raw, spemitFinding{Key: "C12:" + kb + ":" + slug + ":" + rest, Clause: clause})
	}
	if e.Panic != "" {
		res.Err = e.Panic
		add("panic", "creating the message panicked: "+strings.SplitN(e.Panic, "\n", 2)[0])
		res.Findings = raw
		return res
	}
	if e.Err != nil || !e.Produced {
		res.Err = fmt.Sprint(e.Err)
		add("not-produced", "the SP produced no message for a valid configuration: "+res.Err)
		res.Findings = raw
		return res
	}
	samlName := "SAMLRequest"
	if v.In.Kind == "logoutresp" {
		samlName = "SAMLResponse"
	}
	// where the message was sent: the idpURL given to Make* (scheme, host, path; its own query)
	endpoint := c.DestURL
	if endpoint == "" { // replay files written before round 3
		endpoint = spemitEndpoint(spemitLocations[spemitSvc(v.In.Kind)]["first"], c.Query)
	}
	endpointBase, _, _, _ := spemitSplitURL(endpoint)
	fl := &spemitFlags{}
	res.Flags = fl
	var payload []byte
	var idpReq *http.Request
	var idpReqErr error
	delivered := "" // the URL the user agent is sent to, without what the binding added

	if v.In.Binding == "element" {
		res.Wire = string(e.XML)
		payload = e.XML
		fl.NSAML, fl.SamlNamed, fl.RelayRT, fl.Existing, fl.SigParams, fl.SignedExact, fl.Delivered = 1, true, true, true, true, true, true
	} else if v.In.Binding == "redirect" {
		res.Wire = e.URL
		base, rawQuery, _, _ := spemitSplitURL(e.URL)
		fl.Delivered = base == endpointBase
		if !fl.Delivered {
			add("endpoint", fmt.Sprintf("redirect goes to %q, the message was made for %q", base, endpointBase))
		}
		ps := spemitParseQuery(rawQuery)
		delivered = spemitEndpoint(base, spemitForeignRaw(ps))
		fl.NSAML = len(spemitNamed(ps, "SAMLRequest")) + len(spemitNamed(ps, "SAMLResponse"))
		mine := spemitNamed(ps, samlName)
		fl.SamlNamed = len(mine) == 1
		if fl.NSAML != 1 || !fl.SamlNamed {
			add("saml-param-count", fmt.Sprintf("the redirect URL carries %d SAMLRequest/SAMLResponse parameters (%d named %s), exactly one is required", fl.NSAML, len(mine), samlName))
		}
		if fl.SamlNamed {
			if !mine[0].OK {
				add("payload", samlName+" does not percent-decode")
			} else if z, err := base64.StdEncoding.DecodeString(mine[0].Value); err != nil {
				add("payload", samlName+" is not base64: "+err.Error())
			} else if x, err := spemitInflate(z); err != nil {
				add("payload", samlName+" does not inflate: "+err.Error())
			} else {
				payload = x
			}
		}
		rs := spemitNamed(ps, "RelayState")
		fl.NRelay = len(rs)
		switch {
		case len(rs) == 1:
			fl.RelayRT = rs[0].OK && rs[0].Value == c.Relay
		case len(rs) == 0:
			fl.RelayRT = c.Relay == ""
		}
		if len(rs) > 1 {
			add("relaystate-count", fmt.Sprintf("%d RelayState parameters in the redirect URL", len(rs)))
		} else if !fl.RelayRT {
			got := "<absent>"
			if len(rs) == 1 {
				got = fmt.Sprintf("%q (decodable=%v)", rs[0].Value, rs[0].OK)
			}
			add("relaystate-roundtrip", fmt.Sprintf("relay state %q comes back as %s", c.Relay, got))
		}
		fl.Existing = spemitForeign(ps) == spemitSortedPairs(c.QueryPairs)
		if !fl.Existing {
			add("existing-query", fmt.Sprintf("parameters besides the binding's own are %q, the endpoint's query was %q", spemitForeign(ps), spemitSortedPairs(c.QueryPairs)))
		}
		alg, sg := spemitNamed(ps, "SigAlg"), spemitNamed(ps, "Signature")
		if v.In.Kind == "authn" && c.MethodURI != "" {
			fl.SigParams = len(alg) == 1 && len(sg) == 1 && alg[0].Value == c.MethodURI
			d := spemitCheckDetached(rawQuery, samlName, c.Relay != "", s.Certificate.PublicKey)
			fl.SignedExact = d.Present && d.Shape == "" && d.ExactErr == nil
		} else {
			fl.SigParams = len(alg) == 0 && len(sg) == 0
			fl.SignedExact = true
		}
		if v.In.Kind == "authn" {
			idpReq, idpReqErr = http.NewRequest("GET", e.URL, nil)
		}
		res.Unescaped = v.In.Kind == "authn" && c.Relay != "" && url.QueryEscape(c.Relay) != c.Relay &&
			strings.Contains(e.URL, "RelayState="+c.Relay)
	} else {
		res.Wire = string(e.Form)
		f, err := spemitParseForm(e.Form)
		if err != nil || f == nil {
			add("form", "the POST form does not tokenize: "+fmt.Sprint(err))
			res.Findings = raw
			return res
		}
		fl.Existing = f.Action == endpoint
		if !fl.Existing {
			add("endpoint", fmt.Sprintf("form action is %q, the message was made for %q", f.Action, endpoint))
		}
		actionBase, _, _, _ := spemitSplitURL(f.Action)
		fl.Delivered = actionBase == endpointBase
		delivered = f.Action
		if !strings.EqualFold(f.Method, "post") {
			add("form", "form method is "+f.Method)
		}
		var mine, rs []string
		for _, fld := range f.Fields {
			switch fld[0] {
			case "SAMLRequest", "SAMLResponse":
				fl.NSAML++
				if fld[0] == samlName {
					mine = append(mine, fld[1])
				}
			case "RelayState":
				rs = append(rs, fld[1])
			}
		}
		fl.SamlNamed = len(mine) == 1
		if fl.NSAML != 1 || !fl.SamlNamed {
			add("saml-param-count", fmt.Sprintf("the form carries %d SAMLRequest/SAMLResponse fields (%d named %s)", fl.NSAML, len(mine), samlName))
		}
		if fl.SamlNamed {
			if x, err := base64.StdEncoding.DecodeString(mine[0]); err != nil {
				add("payload", samlName+" field is not base64: "+err.Error())
			} else {
				payload = x
			}
		}
		fl.NRelay = len(rs)
		switch {
		case len(rs) == 1:
			fl.RelayRT = rs[0] == c.Relay
		case len(rs) == 0:
			fl.RelayRT = c.Relay == ""
		}
		if len(rs) > 1 {
			add("relaystate-count", fmt.Sprintf("%d RelayState fields in the form", len(rs)))
		} else if !fl.RelayRT {
			add("relaystate-roundtrip", fmt.Sprintf("relay state %q comes back as %q from the form", c.Relay, rs))
		}
		fl.SigParams, fl.SignedExact = true, true
		if v.In.Kind == "authn" && fl.SamlNamed {
			form := url.Values{"SAMLRequest": {mine[0]}}
			if len(rs) > 0 {
				form.Set("RelayState", rs[0])
			}
			idpReq, idpReqErr = http.NewRequest("POST", f.Action, strings.NewReader(form.Encode()))
			if idpReq != nil {
				idpReq.Header.Set("Content-Type", "application/x-www-form-urlencoded")
			}
		}
	}

	var root *etree.Element
	if payload != nil {
		r, err := spemitParseXML(payload)
		if err != nil {
			add("not-wellformed", "the decoded message is not well-formed XML: "+err.Error())
		} else {
			root = r
			fl.Payload = true
		}
	}
	if root != nil {
		id, bad := spemitCheckMessage(root, v, c, e.KnownID)
		res.ID = id
		if len(bad) > 0 {
			sort.Strings(bad)
			fields := map[string]bool{}
			for _, b := range bad {
				fields[strings.SplitN(b, ":", 2)[0]] = true
			}
			var fs []string
			for f := range fields {
				fs = append(fs, f)
			}
			sort.Strings(fs)
			add("message:"+strings.Join(fs, "+"), "the decoded message differs from what was configured / given: "+strings.Join(bad, "; "))
		}
		if e.KnownID == "" && !spemitIDRe.MatchString(id) {
			res.Detail = append(res.Detail, "message ID has an unexpected shape: "+id)
		}
		// the library's own types must be able to read it back
		var uerr error
		switch v.In.Kind {
		case "authn":
			uerr = unmarshalStrict(payload, &saml.AuthnRequest{})
		case "logoutreq":
			uerr = unmarshalStrict(payload, &saml.LogoutRequest{})
		case "logoutresp":
			uerr = unmarshalStrict(payload, &saml.LogoutResponse{})
		}
		if uerr != nil {
			add("not-wellformed", "encoding/xml cannot read the message back: "+uerr.Error())
		}
	}

	// this library's IdP - the one that serves the URL the user agent is sent to - must parse and validate
	// every AuthnRequest
	if v.In.Kind == "authn" && v.In.Binding != "element" {
		idp := &spemitIdpFlags{}
		res.Idp = idp
		switch {
		case idpReqErr != nil || idpReq == nil:
			add("idp-rejects", "the emitted form cannot even be turned into an HTTP request: "+fmt.Sprint(idpReqErr))
		default:
			_, spMD, err := spemitPublishedCert(s)
			if spMD == nil {
				add("metadata", "SP metadata does not survive an XML round trip: "+fmt.Sprint(err))
				break
			}
			ssoURL, perr := url.Parse(delivered)
			if perr != nil {
				add("idp-rejects", fmt.Sprintf("the emitted URL %q does not parse: %v", delivered, perr))
				break
			}
			r := spemitFeedIdP(*ssoURL, spMD, idpReq)
			idp.RelayRT = r.RelayState == c.Relay
			idp.DestOK = r.Panic == "" && r.ParseErr == nil && r.ValidateErr == nil
			switch {
			case r.Panic != "":
				add("idp-rejects", "the IdP panicked on the request: "+strings.SplitN(r.Panic, "\n", 2)[0])
			case r.ParseErr != nil:
				add("idp-rejects", "NewIdpAuthnRequest failed: "+r.ParseErr.Error())
			case r.ValidateErr != nil:
				add("idp-rejects", "IdpAuthnRequest.Validate failed: "+r.ValidateErr.Error())
			default:
				idp.NSAML, idp.Payload = 1, true
				// the assertion consumer service the IdP selected is the SP's, for either result binding
				idp.AcsOK = r.ACS == spACS
				if root != nil && r.ID != res.ID {
					add("idp-request-id", fmt.Sprintf("the IdP read request ID %q, the message carries %q", r.ID, res.ID))
				}
				if r.ACS != spACS {
					add("idp-acs", fmt.Sprintf("the IdP selected ACS %q", r.ACS))
				}
			}
			if r.Panic == "" && r.ParseErr == nil && !idp.RelayRT {
				add("idp-relaystate", fmt.Sprintf("the IdP read relay state %q, %q was given", r.RelayState, c.Relay))
			}
		}
	}

	// root cause: the relay state sits unescaped in the query that AuthnRequest.Redirect assembled
	if res.Unescaped && len(raw) > 0 {
		var what []string
		for _, f := range raw {
			what = append(what, f.Clause)
		}
		res.Findings = []spemitFinding{{
			Key: "C12:authn-redirect:relaystate-unescaped:" + c12OffendingClass(v.In.Relay),
			Clause: fmt.Sprintf("relay state %q is concatenated unescaped into the redirect URL; consequences: %s",
				c.Relay, strings.Join(what, " | ")),
		}}
		return res
	}
	res.Findings = raw
	return res
}

func unmarshalStrict(b []byte, into any) error {
	return xml.Unmarshal(b, into)
}

// c12Unexplained lists the observed flags that equal neither the required nor the
// pinned prediction of the model (each named deviation may or may not be present in
// the tree under test, so flags are compared one by one).
func c12Unexplained(r *c12Result, req, pin *spemitPred) []string {
	var out []string
	if r.Flags == nil || req.Flags == nil || pin.Flags == nil {
		if (r.Flags == nil) != (req.Flags == nil) {
			out = append(out, "flags")
		}
		return out
	}
	b := func(name string, got, a, c bool) {
		if got != a && got != c {
			out = append(out, name)
		}
	}
	n := func(name string, got, a, c int) {
		if got != a && got != c {
			out = append(out, name)
		}
	}
	o, q, p := r.Flags, req.Flags, pin.Flags
	n("nSAML", o.NSAML, q.NSAML, p.NSAML)
	b("samlNamed", o.SamlNamed, q.SamlNamed, p.SamlNamed)
	b("payload", o.Payload, q.Payload, p.Payload)
	n("nRelay", o.NRelay, q.NRelay, p.NRelay)
	b("relayRT", o.RelayRT, q.RelayRT, p.RelayRT)
	b("existing", o.Existing, q.Existing, p.Existing)
	b("sigParams", o.SigParams, q.SigParams, p.SigParams)
	b("signedExact", o.SignedExact, q.SignedExact, p.SignedExact)
	b("delivered", o.Delivered, q.Delivered, p.Delivered)
	if r.Idp != nil && req.Idp != nil && pin.Idp != nil {
		b("idp.destOK", r.Idp.DestOK, req.Idp.DestOK, pin.Idp.DestOK)
		b("idp.relayRT", r.Idp.RelayRT, req.Idp.RelayRT, pin.Idp.RelayRT)
		b("idp.payload", r.Idp.Payload, req.Idp.Payload, pin.Idp.Payload)
		b("idp.acsOK", r.Idp.AcsOK, req.Idp.AcsOK, pin.Idp.AcsOK)
	}
	return out
}

func TestC12(t *testing.T) {
	rep := NewReport("C12")
	defer rep.Finish(t)
	rep.Rule = "every terminal state of spec/SPEmit.tla (relay-state and name-ID class strings over 12 character classes plus length classes, x endpoint query x kind x binding x signing, and the configuration family) is concretised with random representatives, emitted by the real Make*/Redirect/Post functions and decoded by an independent receiver (hand-written query parser, HTML tokenizer, inflate, XML); every AuthnRequest is fed to the real IdP; every sequence of MaxLen render calls on ONE message value from spec/SPEmitRenderHistory.tla (AuthnRequest: Redirect, Post, Element; LogoutRequest: Redirect, Post, Element, Bytes, Deflate; LogoutResponse: Redirect, Post, Element; value built for POST with signing, for redirect with signing, unsigned; made for the metadata's first location, another location or a URL outside the metadata) is replayed and every emission decoded and compared like a stateless case; creations under a counting RandReader are logged and validated by SPEmitTrace.tla; non-trivial = class MustAccept"
	rep.Assume("URL parsing of the receiver: fragment cut at the first '#', pairs split on '&' and the first '=', strict percent-decoding with '+' as space; raw characters outside RFC 3986 (space, quotes, non-ASCII) are passed through as lenient receivers do")
	rep.Assume("the deterministic RandReader stream is SHA-256 in counter mode; distinctness of IDs is judged on that stream and on crypto/rand")
	lines := loadLines(t, "vectors.ndjson")
	if len(lines) == 0 {
		rep.Break("no vectors")
		return
	}
	var vecs []*spemitVec
	for _, l := range lines {
		v := &spemitVec{}
		if err := json.Unmarshal(l, v); err != nil {
			rep.Break("bad vector: %v", err)
			return
		}
		vecs = append(vecs, v)
	}
	oldNow := saml.TimeNow
	saml.TimeNow = func() time.Time { return c12Fixed }
	defer func() { saml.TimeNow = oldNow }()

	reps := 2
	if thorough() {
		reps = 3
	}
	var mu sync.Mutex
	seenIDs := map[string]string{}
	cover := map[string]int{}
	for r := 0; r < reps; r++ {
		parallel(len(vecs), func(i int) {
			v := vecs[i]
			id := v.caseID()
			rng := newRand(fmt.Sprintf("c12/%s/%d", id, r))
			c := spemitConcretise(v, rng)
			res := c12RunCase(v, c)
			rep.Eval(v.Class, id)
			rep.Trace(1)
			for _, f := range res.Findings {
				rep.Violation(f.Key, f.Clause, map[string]any{"vector": v, "conc": c, "observed": res})
			}
			if res.BindingDiffers != "" {
				rep.DriftCase("C12:"+id+":binding", res.BindingDiffers, map[string]any{"observed": res})
			}
			mu.Lock()
			cover[v.In.Fam+"/"+v.In.Kind+"-"+v.In.Binding]++
			if v.In.Fam == "result" {
				cover[fmt.Sprintf("result=%s/path=%s/%s", v.result(), v.path(), v.In.Binding)]++
			}
			if res.ID != "" {
				if other, dup := seenIDs[res.ID]; dup {
					mu.Unlock()
					rep.Violation("C12:ids:duplicate", "two messages carry the same ID "+res.ID+" ("+other+" and "+id+")",
						map[string]any{"vector": v, "conc": c, "observed": res})
					mu.Lock()
				}
				seenIDs[res.ID] = id
			}
			mu.Unlock()
			if len(res.Findings) == 0 {
				if un := c12Unexplained(&res, &v.Pred.Req, &v.Pred.Pin); len(un) > 0 {
					rep.DriftCase("C12:"+id, "observed flags "+strings.Join(un, ",")+" equal neither the required nor the pinned prediction", map[string]any{"observed": res.Flags, "idp": res.Idp, "required": v.Pred.Req, "pinned": v.Pred.Pin, "wire": res.Wire})
				}
			}
			for _, d := range res.Detail {
				rep.DriftCase("C12:"+id, d, nil)
			}
			if i%1499 == 0 && r == 0 {
				w := res.Wire
				if len(w) > 300 {
					w = w[:300] + "..."
				}
				rep.Sample(map[string]any{"case": id, "relay": c.Relay, "name_id": c.NameID, "wire": w, "flags": res.Flags, "findings": len(res.Findings)})
			}
		})
	}
	rep.Extra["c12_cases_by_family"] = cover
	rep.Extra["c12_distinct_ids"] = len(seenIDs)
	for _, need := range []string{"dest/authn-redirect", "dest/authn-post", "dest/logoutreq-redirect", "dest/logoutresp-post", "relay/authn-redirect", "relay/authn-post", "relay/logoutreq-redirect", "relay/logoutreq-post",
		"relay/logoutresp-redirect", "relay/logoutresp-post", "nameid/logoutreq-redirect", "config/authn-redirect"} {
		if cover[need] == 0 {
			rep.Break("vacuous: no cases for %s", need)
		}
	}
	if rep.Classes["MustAccept"] == 0 {
		rep.Break("vacuous: no MustAccept vectors")
	}
	// the result-binding dimension: every AuthnRequest asking for the response over HTTP-Artifact / HTTP-POST, in both
	// request bindings, from the application and from the middleware, went through the IdP-side validation above
	for _, need := range []string{"result=artifact/path=direct/redirect", "result=artifact/path=direct/post", "result=artifact/path=middleware/redirect",
		"result=artifact/path=middleware/post", "result=post/path=middleware/redirect", "result=post/path=middleware/post"} {
		if cover[need] == 0 {
			rep.Break("vacuous: no cases for %s", need)
		}
	}
	// the registered configuration has no seeded deviation; a phase before this one runs TLC with AcsLookupStopsAtFirst on
	// (spec/SPEmit_C12dev.cfg) and must have produced a counterexample to IdpFindsAcs
	if c13Refuted("Invariant IdpFindsAcs is violated") {
		rep.Note("model self-test: with AcsLookupStopsAtFirst on (SPEmit_C12dev.cfg) TLC refutes IdpFindsAcs")
	} else {
		rep.Break("TLC did not refute IdpFindsAcs under the seeded deviation AcsLookupStopsAtFirst (no counterexample in the work directory): the result-binding dimension of the model is vacuous")
	}
	// histories of render calls on one MESSAGE value (spec/SPEmitRenderHistory.tla)
	c12RenderHistories(t, rep)
	c12Trace(t, rep)
}

// ---------------------------------------------------------------------------
// ID freshness: creations under a counting deterministic RandReader

type c12TraceEv struct {
	Kind   string `json:"kind"`
	Call   string `json:"call"`
	Before int64  `json:"before"`
	After  int64  `json:"after"`
	ID     string `json:"id"`
	Hex    bool   `json:"hex"`
}

var c12TraceCalls = []string{"authn:make-redirect", "authn:make-post", "authn:url", "authn:form",
	"logoutreq:make", "logoutreq:url", "logoutreq:form", "logoutresp:make", "logoutresp:url", "logoutresp:form", "artifact:make"}

// c12IDOfWire extracts the message ID from a redirect URL or a POST form.
func c12IDOfWire(urlStr string, form []byte, samlName string) (string, error) {
	var payload []byte
	if urlStr != "" {
		_, q, _, _ := spemitSplitURL(urlStr)
		ps := spemitNamed(spemitParseQuery(q), samlName)
		if len(ps) != 1 {
			return "", fmt.Errorf("%d %s parameters", len(ps), samlName)
		}
		z, err := base64.StdEncoding.DecodeString(ps[0].Value)
		if err != nil {
			return "", err
		}
		if payload, err = spemitInflate(z); err != nil {
			return "", err
		}
	} else {
		f, err := spemitParseForm(form)
		if err != nil {
			return "", err
		}
		for _, fld := range f.Fields {
			if fld[0] == samlName {
				if payload, err = base64.StdEncoding.DecodeString(fld[1]); err != nil {
					return "", err
				}
			}
		}
	}
	root, err := spemitParseXML(payload)
	if err != nil {
		return "", err
	}
	id, _ := spemitAttr(root, "ID")
	return id, nil
}

func c12Create(s *saml.ServiceProvider, call string) (id string, err error) {
	sso := func(b string) string { return s.GetSSOBindingLocation(b) }
	slo := func(b string) string { return s.GetSLOBindingLocation(b) }
	switch call {
	case "authn:make-redirect":
		r, e := s.MakeAuthenticationRequest(sso(saml.HTTPRedirectBinding), saml.HTTPRedirectBinding, saml.HTTPPostBinding)
		if e != nil {
			return "", e
		}
		return r.ID, nil
	case "authn:make-post":
		r, e := s.MakeAuthenticationRequest(sso(saml.HTTPPostBinding), saml.HTTPPostBinding, saml.HTTPPostBinding)
		if e != nil {
			return "", e
		}
		return r.ID, nil
	case "authn:url":
		u, e := s.MakeRedirectAuthenticationRequest("rs")
		if e != nil {
			return "", e
		}
		return c12IDOfWire(u.String(), nil, "SAMLRequest")
	case "authn:form":
		f, e := s.MakePostAuthenticationRequest("rs")
		if e != nil {
			return "", e
		}
		return c12IDOfWire("", f, "SAMLRequest")
	case "logoutreq:make":
		r, e := s.MakeLogoutRequest(slo(saml.HTTPRedirectBinding), "user@example.com")
		if e != nil {
			return "", e
		}
		return r.ID, nil
	case "logoutreq:url":
		u, e := s.MakeRedirectLogoutRequest("user@example.com", "rs")
		if e != nil {
			return "", e
		}
		return c12IDOfWire(u.String(), nil, "SAMLRequest")
	case "logoutreq:form":
		f, e := s.MakePostLogoutRequest("user@example.com", "rs")
		if e != nil {
			return "", e
		}
		return c12IDOfWire("", f, "SAMLRequest")
	case "logoutresp:make":
		r, e := s.MakeLogoutResponse(slo(saml.HTTPRedirectBinding), "id-abc")
		if e != nil {
			return "", e
		}
		return r.ID, nil
	case "logoutresp:url":
		u, e := s.MakeRedirectLogoutResponse("id-abc", "rs")
		if e != nil {
			return "", e
		}
		return c12IDOfWire(u.String(), nil, "SAMLResponse")
	case "logoutresp:form":
		f, e := s.MakePostLogoutResponse("id-abc", "rs")
		if e != nil {
			return "", e
		}
		return c12IDOfWire("", f, "SAMLResponse")
	case "artifact:make":
		r, e := s.MakeArtifactResolveRequest("AAQAAMh48/1oXIM+sDo7Dh2qMp1HM4IF5DaRNmDj6RdUmllwn9jJHyEgIi8=")
		if e != nil {
			return "", e
		}
		return r.ID, nil
	}
	return "", fmt.Errorf("unknown call %s", call)
}

func c12TraceSP(signing int) *saml.ServiceProvider {
	v := &spemitVec{}
	v.Cfg.Key, v.Cfg.NidFmt, v.Cfg.Force = "rsa2048", "unset", "nil"
	c := &spemitConc{EntityIDSet: true}
	switch signing {
	case 1:
		c.MethodURI = spemitMethodURI["rsa-sha256"]
	case 2:
		v.Cfg.Key, c.MethodURI = "ec256", spemitMethodURI["ecdsa-sha256"]
	}
	return spemitSP(v, c)
}

func c12Trace(t *testing.T, rep *Report) {
	n := 800
	if thorough() {
		n = 4000
	}
	stream := &spemitStream{seed: seedVal()}
	old := saml.RandReader
	saml.RandReader = stream
	defer func() { saml.RandReader = old }()
	rng := newRand("c12/trace")
	sps := []*saml.ServiceProvider{c12TraceSP(0), c12TraceSP(1), c12TraceSP(2)}
	p := filepath.Join(workDir(), "trace.ndjson")
	fh, err := os.Create(p)
	if err != nil {
		rep.Break("cannot write trace: %v", err)
		return
	}
	w := bufio.NewWriter(fh)
	short, notHex := 0, 0
	for i := 0; i < n; i++ {
		call := c12TraceCalls[rng.Intn(len(c12TraceCalls))]
		s := sps[0]
		if rng.Intn(3) == 0 {
			s = sps[1+rng.Intn(2)]
		}
		// the configured source may be any io.Reader: full reads, or short reads of 8 / 3 / 1 bytes
		stream.mu.Lock()
		stream.chunk = []int{0, 0, 8, 3, 1}[rng.Intn(5)]
		chunk := stream.chunk
		stream.mu.Unlock()
		before := stream.offset()
		var id string
		var cerr error
		if pn, msg := safely(func() { id, cerr = c12Create(s, call) }); pn {
			cerr = fmt.Errorf("panic: %s", msg)
		}
		after := stream.offset()
		if cerr != nil || id == "" {
			// the driver only performs valid calls: a message that cannot be created or recovered from its
			// wire form in the middle of a sequence of creations is behaviour of the code, not of the driver
			rep.Violation("C12:sequence:"+call+":not-recoverable",
				fmt.Sprintf("message %d of a sequence of creations (%s) is not recoverable from the wire form it emits: %v", i+1, call, cerr),
				map[string]any{"call": call, "position": i + 1, "error": fmt.Sprint(cerr)})
			continue
		}
		ev := c12TraceEv{Kind: strings.SplitN(call, ":", 2)[0], Call: call, Before: before, After: after, ID: id,
			Hex: id == "id-"+hex.EncodeToString(stream.bytes(before, after))}
		if after-before < 16 {
			short++
			rep.Violation(fmt.Sprintf("C12:ids:short-draw:%s:chunk=%d", ev.Kind, chunk),
				fmt.Sprintf("the ID of a %s was derived from only %d bytes (< 128 bits) drawn from the configured random source (source returning at most %d bytes per Read)", ev.Kind, after-before, chunk),
				map[string]any{"event": ev, "reader_chunk": chunk})
		}
		if !ev.Hex {
			notHex++
		}
		b, _ := json.Marshal(ev)
		w.Write(b)
		w.WriteByte('\n')
	}
	w.Flush()
	fh.Close()
	rep.Extra["c12_trace_events"] = n
	rep.Extra["c12_trace_short_draws"] = short
	if notHex > 0 {
		rep.DriftCase("C12:ids:format", fmt.Sprintf("%d of %d IDs are not \"id-\" + hex of exactly the bytes drawn (the model's injective encoding); consumption and distinctness are still checked by SPEmitTrace", notHex, n), nil)
	}
	// "derived from the configured random source": another stream must give other IDs
	saml.RandReader = &spemitStream{seed: seedVal() + 7919}
	idA, errA := c12Create(sps[0], "authn:make-redirect")
	saml.RandReader = &spemitStream{seed: seedVal() + 104729}
	idB, errB := c12Create(sps[0], "authn:make-redirect")
	if errA != nil || errB != nil {
		rep.Break("trace driver: %v %v", errA, errB)
	} else if idA == idB {
		rep.Violation("C12:ids:not-from-random-source", "two different random streams produced the same message ID "+idA, map[string]any{"id": idA})
	}
}

func init() {
	registerReplay("C12", func(t *testing.T, raw []byte) (bool, string) {
		var r struct {
			Vector spemitVec  `json:"vector"`
			Conc   spemitConc `json:"conc"`
			Key    string     `json:"key"`
		}
		if err := json.Unmarshal(raw, &r); err != nil {
			t.Fatal(err)
		}
		if r.Vector.In.Kind == "" {
			return false, "replay file carries no vector (trace-level finding: re-run the check)"
		}
		saml.TimeNow = func() time.Time { return c12Fixed }
		res := c12RunCase(&r.Vector, &r.Conc)
		b, _ := json.Marshal(res.Findings)
		return len(res.Findings) > 0, fmt.Sprintf("wire=%s findings=%s", res.Wire, b)
	})
}
