package harness

// C20 - systematic schedules at the granularity of store operations and registry-lock
// acquisitions (spec/IdpSched.tla).  TestC20SchedMine records, for every scenario run alone,
// its schedule points; TLC enumerates every maximal interleaving of NProcs such programs;
// TestC20Sched drives the real server along each of them: a scheduling Store wrapper and the
// lock-request hooks are the gates.

import (
	crand "crypto/rand"
	"encoding/json"
	"fmt"
	"os"
	"path/filepath"
	"reflect"
	"runtime"
	"sort"
	"strings"
	"sync"
	"sync/atomic"
	"testing"
	"time"
	"unsafe"

	"github.com/crewjam/saml"
	"github.com/crewjam/saml/samlidp"
	"io"
	"net/http"
	"net/http/httptest"
)

// ---------------------------------------------------------------------------
// scheduling Store wrapper

type c20GateStore struct {
	inner samlidp.Store
}

func c20KeyClass(k string) string {
	if strings.HasPrefix(k, "/sessions/") && len(k) > len("/sessions/") {
		return "/sessions/*"
	}
	return k
}

func (g *c20GateStore) Get(k string, v interface{}) error {
	c20SchedPark("sop:Get " + c20KeyClass(k))
	return g.inner.Get(k, v)
}
func (g *c20GateStore) Put(k string, v interface{}) error {
	c20SchedPark("sop:Put " + c20KeyClass(k))
	return g.inner.Put(k, v)
}
func (g *c20GateStore) Delete(k string) error {
	c20SchedPark("sop:Delete " + c20KeyClass(k))
	return g.inner.Delete(k)
}
func (g *c20GateStore) List(p string) ([]string, error) {
	c20SchedPark("sop:List " + p)
	return g.inner.List(p)
}

// ---------------------------------------------------------------------------
// gate scheduler (dispatch by goroutine id, so that replays can run in parallel)

type schedProc struct {
	id     int
	arrive chan string
	grant  chan struct{}
	done   chan struct{}
	at     string
	parked bool
	isDone bool
	free   atomic.Bool
	status int
	rec    *[]string // when mining: the events of this goroutine
}

var c20SchedProcs sync.Map // goid -> *schedProc

func c20SchedPark(label string) {
	v, ok := c20SchedProcs.Load(goid())
	if !ok {
		return
	}
	p := v.(*schedProc)
	if p.rec != nil {
		*p.rec = append(*p.rec, label)
		return
	}
	if p.free.Load() {
		return
	}
	p.arrive <- label
	<-p.grant
}

func c20SchedHook(ev, res string, _ *sync.RWMutex) {
	if res != "cfg" {
		return
	}
	switch ev {
	case "rlock-req", "lock-req":
		c20SchedPark(ev + ":" + res)
	case "rlock-acq", "lock-acq", "runlock", "unlock":
		if v, ok := c20SchedProcs.Load(goid()); ok {
			if p := v.(*schedProc); p.rec != nil {
				*p.rec = append(*p.rec, ev+":"+res)
			}
		}
	}
}

func (p *schedProc) await(d time.Duration) string {
	select {
	case ev := <-p.arrive:
		p.at, p.parked = ev, true
		return "parked"
	case <-p.done:
		p.isDone, p.parked = true, false
		return "done"
	case <-time.After(d):
		return "timeout"
	}
}

func (p *schedProc) release() {
	if p.parked {
		p.parked = false
		p.grant <- struct{}{}
	}
}

func c20FieldMutex(obj interface{}, field string) *sync.RWMutex {
	v := reflect.ValueOf(obj).Elem().FieldByName(field)
	if !v.IsValid() || !v.CanAddr() {
		return nil
	}
	return (*sync.RWMutex)(unsafe.Pointer(v.UnsafeAddr()))
}

// ---------------------------------------------------------------------------
// mining of schedule points

type c20SchedProg struct {
	Names []string `json:"names"`
	Ops   []c20Op  `json:"ops"`
}

func c20SchedProgramsPath() string { return filepath.Join(workDir(), "c20_sched_programs.json") }

func c20SchedMineOne(sc c20Scenario) ([]c20Op, int) {
	e := c20NewEnvWith(func(s samlidp.Store) samlidp.Store { return &c20GateStore{inner: s} })
	q := sc.Req(e)
	var rec []string
	var status int
	done := make(chan struct{})
	go func() {
		defer close(done)
		id := goid()
		c20SchedProcs.Store(id, &schedProc{rec: &rec})
		defer c20SchedProcs.Delete(id)
		status = c20Serve(e.srv, q)
	}()
	<-done
	var ops []c20Op
	for _, ev := range rec {
		switch {
		case strings.HasPrefix(ev, "sop:"):
			ops = append(ops, c20Op{K: "S", X: strings.TrimPrefix(ev, "sop:")})
		case ev == "rlock-acq:cfg":
			ops = append(ops, c20Op{K: "RLock", X: "cfg"})
		case ev == "lock-acq:cfg":
			ops = append(ops, c20Op{K: "Lock", X: "cfg"})
		case ev == "runlock:cfg":
			ops = append(ops, c20Op{K: "RUnlock", X: "cfg"})
		case ev == "unlock:cfg":
			ops = append(ops, c20Op{K: "Unlock", X: "cfg"})
		}
	}
	return ops, status
}

func TestC20SchedMine(t *testing.T) {
	rep := NewReport("C20")
	defer rep.Finish(t)
	samlidp.VerifHook = c20SchedHook
	defer func() { samlidp.VerifHook = nil }()
	var progs []c20SchedProg
	index := map[string]int{}
	for _, sc := range c20Scenarios() {
		ops, status := c20SchedMineOne(sc)
		if (status >= 500 || status == 404) && !strings.HasSuffix(sc.Name, "failwrite") {
			rep.Break("scenario %q answered %d while mining schedule points", sc.Name, status)
			return
		}
		b, _ := json.Marshal(ops)
		if i, ok := index[string(b)]; ok {
			progs[i].Names = append(progs[i].Names, sc.Name)
			continue
		}
		index[string(b)] = len(progs)
		progs = append(progs, c20SchedProg{Names: []string{sc.Name}, Ops: ops})
		rep.Eval("SchedProgram", sc.Name)
	}
	if len(progs) < 5 {
		rep.Break("only %d distinct schedule programs mined", len(progs))
		return
	}
	b, _ := json.MarshalIndent(progs, "", " ")
	os.WriteFile(c20SchedProgramsPath(), b, 0o644)
	var sb strings.Builder
	sb.WriteString("-------------------------- MODULE C20SchedPrograms --------------------------\n")
	sb.WriteString("\\* GENERATED by harness TestC20SchedMine from the real server on this run; do not edit.\n")
	sb.WriteString("SPrograms == <<\n")
	for i, p := range progs {
		sb.WriteString("  <<")
		for j, o := range p.Ops {
			if j > 0 {
				sb.WriteString(", ")
			}
			fmt.Fprintf(&sb, "[k |-> %q, x |-> %q]", o.K, o.X)
		}
		sb.WriteString(">>")
		if i < len(progs)-1 {
			sb.WriteString(",")
		}
		fmt.Fprintf(&sb, "   \\* %d: %s\n", i+1, strings.Join(p.Names, " | "))
	}
	sb.WriteString(">>\nSProgNames == <<")
	for i, p := range progs {
		if i > 0 {
			sb.WriteString(", ")
		}
		fmt.Fprintf(&sb, "%q", p.Names[0])
	}
	sb.WriteString(">>\nSSelected == {")
	first := true
	for i, p := range progs {
		if len(p.Ops) == 0 {
			continue
		}
		if !first {
			sb.WriteString(", ")
		}
		first = false
		fmt.Fprintf(&sb, "%d", i+1)
	}
	sb.WriteString("}\n=============================================================================\n")
	if err := os.WriteFile(filepath.Join(workDir(), "C20SchedPrograms.tla"), []byte(sb.String()), 0o644); err != nil {
		rep.Break("cannot write C20SchedPrograms.tla: %v", err)
	}
	for _, p := range progs {
		rep.Sample(map[string]any{"scenarios": p.Names, "schedule_points": p.Ops})
	}
	rep.Extra["sched_programs_mined"] = len(progs)
}

// ---------------------------------------------------------------------------
// replay

type c20SchedStep struct {
	P int    `json:"p"`
	A string `json:"a"`
	M string `json:"m"`
}

type c20Sched struct {
	Kind   string         `json:"kind"`
	Progs  []string       `json:"progs"`
	Assign []int          `json:"assign"`
	Sched  []c20SchedStep `json:"sched"`
	Pcs    []int          `json:"pcs"`
}

type c20SchedOutcome struct {
	Followed  bool     // the real requests took exactly the modelled steps
	Deviation string   // why not
	Hung      []string // requests that never completed
	Leaks     []string // mutexes still held when every request had returned
	Statuses  []int
	Parks     []string
}

func c20ParkLabel(o c20Op) string {
	switch o.K {
	case "S":
		return "sop:" + o.X
	case "RLock":
		return "rlock-req:cfg"
	case "Lock":
		return "lock-req:cfg"
	}
	return ""
}

const (
	c20StepWait   = 5 * time.Second
	c20FinishWait = 20 * time.Second
)

func c20RunSched(s c20Sched, progs []c20SchedProg, scen map[string]c20Scenario) c20SchedOutcome {
	e := c20NewEnvWith(func(st samlidp.Store) samlidp.Store { return &c20GateStore{inner: st} })
	cfgMu := c20FieldMutex(e.srv, "idpConfigMu")
	storeMu := c20FieldMutex(e.store, "mu")
	n := len(s.Assign)
	ps := make([]*schedProc, n)
	out := c20SchedOutcome{Followed: true, Statuses: make([]int, n)}
	deviate := func(f string, a ...any) {
		if out.Followed {
			out.Followed = false
			out.Deviation = fmt.Sprintf(f, a...)
		}
	}
	for i := 0; i < n; i++ {
		p := &schedProc{id: i + 1, arrive: make(chan string), grant: make(chan struct{}), done: make(chan struct{})}
		ps[i] = p
		q := scen[progs[s.Assign[i]-1].Names[0]].Req(e)
		ready := make(chan struct{})
		go func() {
			id := goid()
			c20SchedProcs.Store(id, p)
			defer c20SchedProcs.Delete(id)
			close(ready)
			p.arrive <- "start:"
			<-p.grant
			p.status = c20Serve(e.srv, q)
			close(p.done)
		}()
		<-ready
		p.await(c20StepWait)
	}
	// every request runs, alone, up to its first schedule point (nothing shared is touched before it)
	for _, p := range ps {
		p.release()
		if p.await(c20StepWait) == "timeout" {
			deviate("request %d does not reach its first schedule point", p.id)
		}
	}
	pc := make([]int, n)
	skipReleases := func(i int) {
		ops := progs[s.Assign[i]-1].Ops
		for pc[i] < len(ops) && (ops[pc[i]].K == "RUnlock" || ops[pc[i]].K == "Unlock") {
			pc[i]++
		}
	}
	for _, st := range s.Sched {
		if !out.Followed {
			break
		}
		i := st.P - 1
		p := ps[i]
		ops := progs[s.Assign[i]-1].Ops
		if pc[i] >= len(ops) {
			deviate("model steps request %d past its program", st.P)
			break
		}
		o := ops[pc[i]]
		switch st.A {
		case "step":
			if p.isDone || !p.parked || p.at != c20ParkLabel(o) {
				deviate("request %d (%s) is at %q where its program, mined alone, is at %q", st.P, s.Progs[i], p.where(), c20ParkLabel(o))
				break
			}
			p.release()
			if p.await(c20StepWait) == "timeout" {
				deviate("request %d (%s) does not get past %q although the model has the step enabled", st.P, s.Progs[i], c20ParkLabel(o))
				break
			}
			pc[i]++
			skipReleases(i)
		case "pend":
			if p.isDone || !p.parked || p.at != "lock-req:cfg" {
				deviate("request %d (%s) is at %q where its program is about to call Lock", st.P, s.Progs[i], p.where())
				break
			}
			p.release()
			// the pending writer becomes visible to the probe as soon as it is inside Lock()
			deadline := time.Now().Add(2 * time.Second)
			for cfgMu != nil && measureMu(cfgMu) != "write" && time.Now().Before(deadline) {
				time.Sleep(200 * time.Microsecond)
			}
			time.Sleep(2 * time.Millisecond)
		case "acq":
			if p.isDone || p.parked {
				deviate("request %d (%s) should be inside Lock() but is at %q", st.P, s.Progs[i], p.where())
				break
			}
			if p.await(c20StepWait) == "timeout" {
				deviate("request %d (%s) does not acquire the registry lock although the model has it free", st.P, s.Progs[i])
				break
			}
			pc[i]++
			skipReleases(i)
		}
		if out.Followed && cfgMu != nil {
			if got := measureMu(cfgMu); got != st.M {
				deviate("after request %d's step the registry lock measures %q, the model says %q", st.P, got, st.M)
			}
		}
	}
	if out.Followed && s.Kind == "complete" {
		for i, p := range ps {
			if !p.isDone {
				deviate("request %d (%s) has not returned at the end of a complete schedule (at %q)", i+1, s.Progs[i], p.where())
			}
		}
	}
	for _, p := range ps {
		out.Parks = append(out.Parks, fmt.Sprintf("p%d(%s)=%s", p.id, s.Progs[p.id-1], p.where()))
	}
	// whatever happened: let everything run freely now; every request must return and leave no lock behind
	for _, p := range ps {
		p.free.Store(true)
	}
	for _, p := range ps {
		p.release()
	}
	deadline := time.Now().Add(c20FinishWait)
	for _, p := range ps {
		for !p.isDone {
			left := time.Until(deadline)
			if left <= 0 {
				break
			}
			if r := p.await(left); r == "parked" {
				p.release() // parked just before it saw the free flag
			}
		}
	}
	for i, p := range ps {
		out.Statuses[i] = p.status
		if !p.isDone {
			out.Hung = append(out.Hung, s.Progs[i])
		}
	}
	if len(out.Hung) == 0 {
		if cfgMu != nil {
			if m := measureMu(cfgMu); m != "none" {
				out.Leaks = append(out.Leaks, "cfg:"+m)
			}
		}
		if storeMu != nil {
			if m := measureMu(storeMu); m != "none" {
				out.Leaks = append(out.Leaks, "store:"+m)
			}
		}
	}
	return out
}

func (p *schedProc) where() string {
	switch {
	case p.isDone:
		return "returned"
	case p.parked:
		return p.at
	}
	return "running/blocked after " + p.at
}

func TestC20Sched(t *testing.T) {
	rep := NewReport("C20")
	defer rep.Finish(t)
	b, err := os.ReadFile(c20SchedProgramsPath())
	if err != nil {
		t.Fatalf("schedule programs not mined: %v", err)
	}
	var progs []c20SchedProg
	json.Unmarshal(b, &progs)
	scen := map[string]c20Scenario{}
	for _, s := range c20Scenarios() {
		scen[s.Name] = s
	}
	lines := loadLines(t, "sched.ndjson")
	if len(lines) == 0 {
		rep.Break("TLC emitted no schedule")
		return
	}
	samlidp.VerifHook = c20SchedHook
	defer func() { samlidp.VerifHook = nil }()
	var mu sync.Mutex
	var followed, deviated, stuckModel, hangs int
	devKinds := map[string]int{}
	var devSamples []any
	parallel(len(lines), func(k int) {
		var s c20Sched
		if err := json.Unmarshal(lines[k], &s); err != nil {
			rep.Break("bad schedule line: %v", err)
			return
		}
		mu.Lock()
		tooMany := hangs >= 3
		mu.Unlock()
		if tooMany {
			return
		}
		o := c20RunSched(s, progs, scen)
		names := append([]string(nil), s.Progs...)
		sort.Strings(names)
		pk := strings.Join(names, "+")
		rep.Eval("Schedule", pk)
		rep.Trace(len(s.Sched))
		mu.Lock()
		defer mu.Unlock()
		if s.Kind == "stuck" {
			stuckModel++
		}
		if o.Followed {
			followed++
		} else {
			deviated++
			dk := pk
			if devKinds[dk] == 0 && len(devSamples) < 40 {
				devSamples = append(devSamples, map[string]any{"programs": s.Progs, "schedule": s.Sched, "deviation": o.Deviation, "statuses": o.Statuses})
			}
			devKinds[dk]++
		}
		if len(o.Hung) > 0 {
			hangs++
			rep.Violation("C20:sched:hang:"+pk, fmt.Sprintf("requests %v never complete (waited %s with every gate open) under the schedule in the replay file; state when the schedule ended: %v", o.Hung, c20FinishWait, o.Parks),
				map[string]any{"schedule": s, "parks": o.Parks, "deviation": o.Deviation})
		}
		for _, l := range o.Leaks {
			name, mode, _ := strings.Cut(l, ":")
			rep.Violation("C20:sched:lock-leak:"+name+":"+pk, fmt.Sprintf("every request has returned (statuses %v) and the %s mutex is still held (%s): every later request that needs it blocks forever", o.Statuses, name, mode),
				map[string]any{"schedule": s, "parks": o.Parks, "deviation": o.Deviation, "statuses": o.Statuses})
		}
		if s.Kind == "stuck" && o.Followed && len(o.Hung) == 0 {
			rep.DriftCase("C20:sched:stuck-not-reproduced:"+pk, "the model ends this schedule with requests blocked for good; the real requests all returned", o.Parks)
		}
	})
	rep.Extra["schedules_replayed"] = len(lines)
	rep.Extra["schedules_followed_step_by_step"] = followed
	rep.Extra["schedules_where_a_request_left_its_mined_program"] = deviated
	rep.Extra["model_stuck_schedules"] = stuckModel
	rep.Extra["deviating_program_sets"] = devKinds
	for _, d := range devSamples {
		rep.Sample(d)
	}
	if followed == 0 {
		rep.Break("no schedule could be followed step by step on the real server (gates or mining are broken)")
	}
}

// TestC20RacePairs runs every pair of scenarios (and, thorough, random triples) freely against one
// server; it is meaningful under the race detector, which is how the check runs it.  A start barrier
// and a yield at every hook and store operation spread the overlap.
func TestC20RacePairs(t *testing.T) {
	rep := NewReport("C20")
	defer rep.Finish(t)
	scs := c20Scenarios()
	rng := newRand("c20racepairs")
	// the hook only yields: it must not touch anything shared (an atomic counter here would be a
	// synchronisation event for the race detector and order the very accesses it is looking at)
	samlidp.VerifHook = func(ev, res string, mu *sync.RWMutex) { runtime.Gosched() }
	defer func() { samlidp.VerifHook = nil }()
	// the operating system fills a buffer behind the race detector's back: random bytes are copied into the
	// caller's buffer by instrumented code here, so that a buffer shared between requests is seen
	oldRand := saml.RandReader
	saml.RandReader = c20VisibleRand{}
	defer func() { saml.RandReader = oldRand }()
	type round struct{ idx []int }
	var rounds []round
	reps := 2
	if thorough() {
		reps = 6
	}
	for r := 0; r < reps; r++ {
		for i := range scs {
			for j := i; j < len(scs); j++ {
				rounds = append(rounds, round{[]int{i, j}})
			}
		}
	}
	if thorough() {
		for r := 0; r < 3000; r++ {
			rounds = append(rounds, round{[]int{rng.Intn(len(scs)), rng.Intn(len(scs)), rng.Intn(len(scs))}})
		}
	}
	hangs := 0
	for _, rd := range rounds {
		if hangs >= 2 {
			break
		}
		e := c20NewEnv()
		var names []string
		var wg sync.WaitGroup
		start := make(chan struct{})
		for _, i := range rd.idx {
			q := scs[i].Req(e)
			names = append(names, scs[i].Name)
			wg.Add(1)
			go func() { defer wg.Done(); <-start; c20Serve(e.srv, q) }()
		}
		close(start)
		done := make(chan struct{})
		go func() { wg.Wait(); close(done) }()
		sort.Strings(names)
		select {
		case <-done:
		case <-time.After(c20FinishWait):
			hangs++
			rep.Violation("C20:free-run:hang:"+strings.Join(names, "+"), fmt.Sprintf("free-running concurrent requests %v did not all complete within %s", names, c20FinishWait), map[string]any{"requests": names})
		}
		rep.Eval("FreeRun", strings.Join(names, "+"))
	}
	rep.Extra["free_running_rounds"] = len(rounds)
	// A client that uploads slowly: PUT /services/{id} (and PUT /users, /shortcuts) whose body arrives only after the OTHER
	// request has been answered.  No request may wait for a slow client of another request: the other one must
	// complete while the upload is still in flight.
	slow := 0
	for _, up := range []struct{ name, path, body string }{
		{"PUT /services/s2 (slow upload)", "/services/s2", string(spMetaXML(c20SP2, c20ACS2, true))},
		{"PUT /users/carol (slow upload)", "/users/carol", `{"name":"carol","password":"pw-carol"}`},
		{"PUT /shortcuts/c2 (slow upload)", "/shortcuts/c2", `{"service_provider":"` + c20SP1 + `"}`},
	} {
		for i := range scs {
			if hangs >= 2 {
				break
			}
			e := c20NewEnv()
			q := scs[i].Req(e)
			otherDone := make(chan struct{})
			uploadDone := make(chan struct{})
			pr, pw := io.Pipe()
			go func() {
				defer close(uploadDone)
				r, _ := http.NewRequest("PUT", idpSrvRoot+up.path, pr)
				r.RemoteAddr = "192.0.2.9:4321"
				e.srv.ServeHTTP(httptest.NewRecorder(), r)
			}()
			go func() {
				half := len(up.body) / 2
				pw.Write([]byte(up.body[:half])) // the first half arrives, then the client stalls ...
				<-otherDone                      // ... until the other request has been answered (or given up on)
				pw.Write([]byte(up.body[half:]))
				pw.Close()
			}()
			time.Sleep(5 * time.Millisecond) // let the upload reach its body read
			answered := make(chan struct{})
			go func() { defer close(answered); c20Serve(e.srv, q) }()
			select {
			case <-answered:
			case <-time.After(c20FinishWait):
				hangs++
				rep.Violation("C20:free-run:waits-for-slow-upload:"+up.name+"+"+scs[i].Name, fmt.Sprintf("request %q is not answered within %s while the body of %q is still arriving: it waits for another client's upload", scs[i].Name, c20FinishWait, up.name), map[string]any{"requests": []string{up.name, scs[i].Name}})
			}
			close(otherDone)
			select {
			case <-uploadDone:
			case <-time.After(c20FinishWait):
				hangs++
				rep.Violation("C20:free-run:hang:"+up.name+"+"+scs[i].Name, fmt.Sprintf("the upload %q never completes after %q (waited %s)", up.name, scs[i].Name, c20FinishWait), map[string]any{"requests": []string{up.name, scs[i].Name}})
			}
			<-answered
			slow++
			rep.Eval("SlowUpload", up.name+"+"+scs[i].Name)
		}
	}
	rep.Extra["slow_upload_rounds"] = slow
}

// c20VisibleRand has no state of its own (nothing that would order two readers).
type c20VisibleRand struct{}

func (c20VisibleRand) Read(p []byte) (int, error) {
	tmp := make([]byte, len(p))
	if _, err := crand.Read(tmp); err != nil {
		return 0, err
	}
	return copy(p, tmp), nil
}

func init() {
	registerReplayFor("C20", "schedule", func(t *testing.T, raw []byte) (bool, string) {
		var r struct {
			Schedule c20Sched `json:"schedule"`
		}
		if err := json.Unmarshal(raw, &r); err != nil {
			t.Fatal(err)
		}
		samlidp.VerifHook = c20SchedHook
		defer func() { samlidp.VerifHook = nil }()
		// the programs are mined again from the tree under test; assign is re-derived from the names
		scen := map[string]c20Scenario{}
		var progs []c20SchedProg
		for _, sc := range c20Scenarios() {
			scen[sc.Name] = sc
			ops, _ := c20SchedMineOne(sc)
			progs = append(progs, c20SchedProg{Names: []string{sc.Name}, Ops: ops})
		}
		s := r.Schedule
		for i, name := range s.Progs {
			for j, p := range progs {
				if p.Names[0] == name {
					s.Assign[i] = j + 1
				}
			}
		}
		o := c20RunSched(s, progs, scen)
		obs := fmt.Sprintf("followed=%v deviation=%q hung=%v leaks=%v statuses=%v", o.Followed, o.Deviation, o.Hung, o.Leaks, o.Statuses)
		return len(o.Hung) > 0 || len(o.Leaks) > 0, obs
	})
	registerReplayFor("C05", "edge", func(t *testing.T, raw []byte) (bool, string) {
		var r struct {
			Edge  c05RegEdge `json:"edge"`
			Order string     `json:"put_order"`
		}
		if err := json.Unmarshal(raw, &r); err != nil {
			t.Fatal(err)
		}
		c05RegHash()
		srv, err := c05RegServer(r.Edge.From, r.Order == "desc")
		if err != nil {
			t.Fatal(err)
		}
		md, gerr := srv.GetServiceProvider(nil, r.Edge.Act.I)
		reg := false
		for _, e := range r.Edge.From {
			reg = reg || (e == r.Edge.Act.I && e != "")
		}
		if gerr != nil || md == nil {
			return false, fmt.Sprintf("issuer %q not resolved (%v)", r.Edge.Act.I, gerr)
		}
		return !reg || md.EntityID != r.Edge.Act.I, fmt.Sprintf("issuer %q (registered as an entity ID: %v) resolved to the metadata of %q", r.Edge.Act.I, reg, md.EntityID)
	})
}
