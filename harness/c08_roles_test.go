package harness

import (
	"bytes"
	"encoding/base64"
	"encoding/json"
	"encoding/xml"
	"fmt"
	"net/http"
	"net/http/httptest"
	"strings"
	"testing"
	"time"

	"github.com/beevik/etree"

	"github.com/crewjam/saml"
)

// C08, role dimension (spec/EncRoles.tla): SP metadata with several SPSSODescriptors; the response
// must be protected with the key of the role that owns the selected assertion consumer service,
// whichever flow selected it.

type c08RoleVec struct {
	Meta []struct {
		Post bool `json:"post"`
		Enc  bool `json:"enc"`
	} `json:"meta"`
	Entry string `json:"entry"`
	Role  int    `json:"role"`
	Class string `json:"class"`
	Pred  string `json:"pred"`
}

type c08FixedSession struct{ s *saml.Session }

func (f c08FixedSession) GetSession(http.ResponseWriter, *http.Request, *saml.IdpAuthnRequest) *saml.Session {
	return f.s
}

func c08RoleACS(r int) string { return fmt.Sprintf("https://sp.example.com/role%d/acs", r) }

func TestC08Roles(t *testing.T) {
	rep := NewReport("C08")
	defer rep.Finish(t)
	rep.Rule = "every SP metadata shape of spec/EncRoles.tla (1-3 SPSSODescriptors, each with/without an HTTP-POST ACS and with/without an encryption certificate) x flow (request naming a role's ACS URL, request naming nothing, IdP-initiated launch) is registered (after an XML round trip) and run through the real ServeSSO / ServeIDPInitiated; when the role that owns the selected ACS advertises an encryption key the emitted form must not contain the assertion or any session string in clear"
	lines := loadLines(t, "roles.ndjson")
	if len(lines) == 0 {
		rep.Break("no role vectors")
		return
	}
	oldNow := saml.TimeNow
	defer func() { saml.TimeNow = oldNow }()
	now := time.Date(2024, 4, 2, 9, 0, 0, 0, time.UTC)
	saml.TimeNow = func() time.Time { return now }
	parallel(len(lines), func(i int) {
		v := &c08RoleVec{}
		if err := json.Unmarshal(lines[i], v); err != nil {
			rep.Break("bad vector: %v", err)
			return
		}
		var shape []string
		for _, r := range v.Meta {
			shape = append(shape, fmt.Sprintf("%s%s", map[bool]string{true: "post", false: "nopost"}[r.Post], map[bool]string{true: "+enc", false: ""}[r.Enc]))
		}
		key_ := "C08:roles:" + strings.Join(shape, ",") + ":" + v.Entry
		rng := newRand(key_)
		// metadata
		md := saml.EntityDescriptor{EntityID: spEntityID}
		for ri, r := range v.Meta {
			d := saml.SPSSODescriptor{SSODescriptor: saml.SSODescriptor{RoleDescriptor: saml.RoleDescriptor{ProtocolSupportEnumeration: nsProtocol}}}
			// every role publishes a signing key; an encrypting role also its encryption certificate
			d.KeyDescriptors = append(d.KeyDescriptors, saml.KeyDescriptor{Use: "signing", KeyInfo: saml.KeyInfo{X509Data: saml.X509Data{
				X509Certificates: []saml.X509Certificate{{Data: key("sp2").CertB64()}}}}})
			if r.Enc {
				d.KeyDescriptors = append(d.KeyDescriptors, saml.KeyDescriptor{Use: "encryption", KeyInfo: saml.KeyInfo{X509Data: saml.X509Data{
					X509Certificates: []saml.X509Certificate{{Data: key("sp").CertB64()}}}}})
			}
			if r.Post {
				d.AssertionConsumerServices = append(d.AssertionConsumerServices, saml.IndexedEndpoint{Binding: saml.HTTPPostBinding, Location: c08RoleACS(ri + 1), Index: 10 * (ri + 1)})
			} else {
				d.AssertionConsumerServices = append(d.AssertionConsumerServices, saml.IndexedEndpoint{Binding: saml.HTTPArtifactBinding, Location: c08RoleACS(ri+1) + "/artifact", Index: 10*(ri+1) + 1})
			}
			md.SPSSODescriptors = append(md.SPSSODescriptors, d)
		}
		raw, err := xml.Marshal(md)
		if err != nil {
			rep.Break("marshal: %v", err)
			return
		}
		reg := &saml.EntityDescriptor{}
		if err := xml.Unmarshal(raw, reg); err != nil {
			rep.Break("unmarshal: %v", err)
			return
		}
		session, m := c08Session(rng)
		idp := wsNewIdP(c07BaseCfg, wsSPP{m: map[string]*saml.EntityDescriptor{spEntityID: reg}})
		idp.SessionProvider = c08FixedSession{session}
		w := httptest.NewRecorder()
		p, msg := safely(func() {
			switch {
			case v.Entry == "idp-initiated":
				r := httptest.NewRequest("GET", "https://idp.example.com/launch", nil)
				idp.ServeIDPInitiated(w, r, spEntityID, "relay")
			default:
				acs := ""
				if strings.HasPrefix(v.Entry, "sso-url") {
					var n int
					fmt.Sscanf(v.Entry, "sso-url%d", &n)
					acs = c08RoleACS(n)
				}
				el := etree.NewElement("samlp:AuthnRequest")
				el.CreateAttr("xmlns:samlp", nsProtocol)
				el.CreateAttr("xmlns:saml", nsAssertion)
				el.CreateAttr("ID", fmt.Sprintf("id-%08x", rng.Uint32()))
				el.CreateAttr("Version", "2.0")
				el.CreateAttr("IssueInstant", now.Format("2006-01-02T15:04:05Z"))
				el.CreateAttr("Destination", idpSSOURL)
				if acs != "" {
					el.CreateAttr("AssertionConsumerServiceURL", acs)
				}
				el.CreateElement("saml:Issuer").SetText(spEntityID)
				body := "SAMLRequest=" + urlQueryEscape(base64.StdEncoding.EncodeToString(docBytes(el))) + "&RelayState=relay"
				r := httptest.NewRequest("POST", idpSSOURL, strings.NewReader(body))
				r.Header.Set("Content-Type", "application/x-www-form-urlencoded")
				idp.ServeSSO(w, r)
			}
		})
		rep.Eval(v.Class, key_)
		rep.Trace(1)
		if p {
			rep.Violation(key_+":panic", "the IdP panicked: "+strings.SplitN(msg, "\n", 2)[0], map[string]any{"vector": v})
			return
		}
		body := w.Body.String()
		xmlb, action, isForm := samlResponseInBody(body)
		obs := "error"
		leaks := []string{}
		if isForm {
			obs = "encrypted"
			hay := [][]byte{xmlb, []byte(body)}
			if bytes.Contains(xmlb, []byte("<saml:Assertion")) || bytes.Contains(xmlb, []byte(":Assertion ")) && !bytes.Contains(xmlb, []byte("EncryptedAssertion")) {
				obs = "plaintext"
			}
			for what, s := range m.all() {
				for _, h := range hay {
					if bytes.Contains(h, []byte(s)) {
						leaks = append(leaks, what)
						obs = "plaintext"
						break
					}
				}
			}
		}
		if v.Class == "MustProtect" && obs == "plaintext" {
			rep.Violation(key_+":plaintext", fmt.Sprintf("the role that owns the selected assertion consumer service (%s) advertises an encryption key, yet the response carries the assertion in clear (leaked: %v)", action, leaks),
				map[string]any{"vector": v, "action": action, "leaks": leaks, "response": string(xmlb)})
			return
		}
		if obs != v.Pred {
			rep.DriftCase(key_, "outcome differs from the model: "+obs+" vs "+v.Pred, map[string]any{"status": w.Code})
		}
		if i%17 == 0 {
			rep.Sample(map[string]any{"roles": shape, "entry": v.Entry, "class": v.Class, "observed": obs, "form_action": action})
		}
	})
}
