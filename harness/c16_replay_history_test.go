package harness

// C16 over the life of one PROCESS hosting several deployments (spec/SessionReplayHistory.tla):
// deployments A (a URL with a non-root path), B1 (other URL and key), B2 (same URL, other key), B3 (same
// key, other URL) and A's siblings Sp, Sq, Ss, Sc (A's key, scheme and host; a URL that differs from A's
// only in the path, the query, a trailing slash, the letter case of the host) are real middlewares built with
// samlsp.New from the URL records of the model that live in this test process.  A history presents
// session and tracking tokens minted by one deployment to the same or another deployment at clock
// positions before the mint, inside the lifetime and beyond it.  Whether a presentation
// authenticates is decided by (minting deployment, receiving deployment, clock position, token
// kind) alone; nothing any deployment of the process accepted earlier may change it.

import (
	"encoding/json"
	"fmt"
	"math/rand"
	"os"
	"path/filepath"
	"sort"
	"strings"
	"sync/atomic"
	"testing"
	"time"

	"github.com/golang-jwt/jwt/v4"

	"github.com/crewjam/saml"
)

type c16HistStep struct {
	By    string          `json:"by"`
	Kind  string          `json:"kind"`
	To    string          `json:"to"`
	P     string          `json:"p"`
	At    int64           `json:"at"`
	Class string          `json:"class"`
	Why   map[string]bool `json:"why"`
	Sess  c16Step         `json:"sess"`
	Trk   c16Step         `json:"trk"`
	Out   string          `json:"out"`
}

func (s c16HistStep) sym() string { return s.By + "." + s.Kind + ">" + s.To + "@" + s.P }

type c16HistFam struct {
	K1 string `json:"k1"`
	K2 string `json:"k2"`
}

// c16HistDepl is one row of the model's table of deployments: Options.URL, key (k1 | k2) and the audience =
// issuer the model's step Build (samlsp.New) gives the deployment's codecs.
type c16HistDepl struct {
	Url c16Url `json:"url"`
	Key string `json:"key"`
	Aud c16Url `json:"aud"`
}

// (Depls: in the RDEPL lines, one per family pair and group)
type c16Hist struct {
	Fam   c16HistFam             `json:"fam"`
	Grp   string                 `json:"grp"` // base: A and the B's | sib: A and its siblings
	Depls map[string]c16HistDepl `json:"depls,omitempty"`
	Steps []c16HistStep          `json:"steps"`
}

func (h *c16Hist) key() string {
	var p []string
	for _, s := range h.Steps {
		p = append(p, s.sym())
	}
	return fmt.Sprintf("C16:replay-history:%s+%s:%s", h.Fam.K1, h.Fam.K2, strings.Join(p, "|"))
}

// c16Tenants are the deployments of one group of the model for one pair of key families.
type c16Tenants struct {
	d     map[string]*c16Depl
	aud   map[string]string // the model's audience = issuer per deployment, as a string
	table map[string]c16HistDepl
	pick  int
}

// c16NewTenants builds every deployment of the model's table with samlsp.New: its key from the key class
// and the family, its Options.URL from the URL record.
func c16NewTenants(f c16HistFam, table map[string]c16HistDepl, pick int) (*c16Tenants, error) {
	t := &c16Tenants{d: map[string]*c16Depl{}, aud: map[string]string{}, table: table, pick: pick}
	if len(table) < 2 {
		return nil, fmt.Errorf("table of %d deployments", len(table))
	}
	for name, row := range table {
		fam, which := f.K1, "this"
		switch row.Key {
		case "k1":
		case "k2":
			fam, which = f.K2, "other"
		default:
			return nil, fmt.Errorf("deployment %s: key class %q", name, row.Key)
		}
		root, err := c16UrlConc(row.Url, pick)
		if err != nil {
			return nil, err
		}
		if t.aud[name], err = c16UrlConc(row.Aud, pick); err != nil {
			return nil, err
		}
		d, err := c16NewDepl(c16Cfg{Spkey: fam, Life: 3600, Cookie: "default", Url: row.Url}, which, root)
		if err != nil {
			return nil, err
		}
		t.d[name] = d
	}
	// the model's relations between the deployments must hold of the real ones (harness data only: keys and URL strings)
	for a, ra := range table {
		for b, rb := range table {
			if k, u := t.d[a].kp == t.d[b].kp, t.d[a].root == t.d[b].root; k != (ra.Key == rb.Key) || u != (ra.Url == rb.Url) {
				return nil, fmt.Errorf("deployments %s and %s: same key %v, same URL %v; the model says %v, %v", a, b, k, u, ra.Key == rb.Key, ra.Url == rb.Url)
			}
		}
	}
	return t, nil
}

type c16HistTok struct {
	str, sub string
	stmts    [][]c16ConcAttr
	authn    []string
	err      error  // the minting deployment's CreateSession / TrackRequest gave no token
	drift    string // what the mint stamped differs from the model of the mint
}

type c16HistRun struct {
	h     *c16Hist
	key   string
	ten   *c16Tenants
	rng   *rand.Rand
	uniq  string
	toks  map[string]*c16HistTok
	trace []string
	dead  bool
}

// mint creates, with the real code of the minting deployment, one token string per (deployment,
// kind) the history uses.  Strings are unique to the history: state the process keeps about one
// history's tokens cannot be confused with another's.  A mint that fails, or stamps another issuer / audience
// than the model's step Build says, is behaviour of the code under test: recorded, reported as drift in step.
func (r *c16HistRun) mint() {
	r.toks = map[string]*c16HistTok{}
	for _, s := range r.h.Steps {
		id := s.By + "." + s.Kind
		if r.toks[id] != nil {
			continue
		}
		d := r.ten.d[s.By]
		tk := &c16HistTok{}
		var err error
		if p, msg := safely(func() {
			err = r.mintOne(d, tk, s)
		}); p {
			err = fmt.Errorf("panic while minting: %s", msg)
		}
		tk.err = err
		if err == nil {
			if iss, aud, _, perr := c16PeekIdent(tk.str); perr != nil {
				tk.drift = fmt.Sprintf("what %s minted is not header.claims.signature with JSON claims: %v", s.By, perr)
			} else if want := r.ten.aud[s.By]; iss != want || aud != want {
				tk.drift = fmt.Sprintf("%s token minted by %s (Options.URL %s) carries iss %q aud %q; the model of samlsp.New (Audience = Issuer = Options.URL.String()) says %q", s.Kind, s.By, d.root, iss, aud, want)
			}
		}
		r.toks[id] = tk
	}
}

func (r *c16HistRun) mintOne(d *c16Depl, tk *c16HistTok, s c16HistStep) error {
	var err error
	if s.Kind == "session" {
		tk.sub = fmt.Sprintf("%s@%s-%s", c16SafeSubjects[r.rng.Intn(len(c16SafeSubjects))], strings.ToLower(s.By), r.uniq)
		vals := c16Pick(r.rng, c16AttrValues, 2)
		tk.stmts = [][]c16ConcAttr{{{Fn: "groups", Name: "urn:groups", Vals: []string{"admins-of-" + s.By, vals[0]}}, {Fn: "", Name: "tenant", Vals: []string{s.By}}},
			{{Fn: "mail", Name: "urn:oid:0.9.2342.19200300.100.1.3", Vals: []string{vals[1]}}}}
		tk.authn = []string{"_si-" + s.By + "-" + r.uniq}
		tk.str, err = c16Mint(d, c16BuildAssertion(&tk.sub, true, tk.stmts, tk.authn))
	} else {
		tk.str, tk.sub, err = c16MintTracking(d, r.rng)
	}
	return err
}

func c16HistErrClass(st c16Step, s c16HistStep) string {
	if st.Verdict == "accept" {
		return "accept"
	}
	switch st.Step {
	case "Claims":
		return "malformed"
	case "AlgAllowed", "Signature":
		return "signature"
	case "Times":
		if s.At < 0 {
			return "times:iat+nbf"
		}
		return "times:exp"
	}
	return "claim"
}

// step presents the history's n-th token (0-based) to its receiving deployment under the
// clock the caller has set, and judges the outcome by the statement.
func (r *c16HistRun) step(rep *Report, n int, replay func() map[string]any) {
	if r.dead {
		return
	}
	s := r.h.Steps[n]
	d, tk := r.ten.d[s.To], r.toks[s.By+"."+s.Kind]
	if tk.err != nil {
		// no clause of the statement obliges CreateSession / TrackRequest to succeed: nothing to present, drift
		r.dead = true
		rep.Eval(s.Class, fmt.Sprintf("%s#%d", r.key, n+1))
		rep.DriftCase(r.key+":mint", fmt.Sprintf("step %d: deployment %s minted no %s token to present", n+1, s.By, s.Kind), tk.err.Error())
		return
	}
	if tk.drift != "" {
		rep.DriftCase(r.key+":mint", "minted token differs from the model of the mint", tk.drift)
		tk.drift = ""
	}
	o := c16Request(d, d.cookie+"="+tk.str, nil, d.m.RequireAccount)
	trkAcc, trkPanic := c16Tracked(d, tk.sub, tk.str)
	sessCls, trkCls := c16DecodeClasses(d, tk.str)
	r.trace = append(r.trace, s.sym()+":"+o.Outcome)
	rep.Eval(s.Class, fmt.Sprintf("%s#%d", r.key, n+1))
	before := "as the first presentation of the history"
	if n > 0 {
		before = "after " + strings.Join(r.trace[:n], ", ")
	}
	what := fmt.Sprintf("step %d: the %s token minted by deployment %s, presented to deployment %s %+d s after the mint", n+1, s.Kind, s.By, s.To, s.At)
	if s.By != s.To {
		what += fmt.Sprintf(" (%s: Options.URL %s, key %s; %s: Options.URL %s, key %s)", s.By, r.ten.d[s.By].root, r.ten.table[s.By].Key, s.To, d.root, r.ten.table[s.To].Key)
	}
	switch {
	case s.Class == "MustReject" && o.Ran:
		r.dead = true
		rep.Violation(r.key, fmt.Sprintf("%s, is treated as authenticated (wrapped handler ran, subject %q exposed) although it is: %s - %s",
			what, o.Subject, c16WhyText(s.Why), before), replay())
		return
	case s.Class == "MustAccept" && !o.Ran:
		r.dead = true
		res := fmt.Sprintf("outcome %s (status %d)", o.Outcome, o.Status)
		if o.Panic != "" {
			res = "panic: " + strings.SplitN(o.Panic, "\n", 2)[0]
		}
		rep.Violation(r.key, fmt.Sprintf("%s - its own session token, strictly inside (iat, exp) - yields no session: %s - %s", what, res, before), replay())
		return
	case s.Class == "DontCare":
		// the same URL in another spelling (letter case of the host, "" against "/"): left open by the statement
	case s.Class != "MustAccept" && s.Class != "MustReject":
		rep.Break("%s: step %d has class %q", r.key, n+1, s.Class)
		return
	}
	if o.Ran {
		if o.Subject != tk.sub {
			r.dead = true
			rep.Violation(r.key+":subject", fmt.Sprintf("%s: subject exposed to the application %q differs from the assertion's %q - %s", what, o.Subject, tk.sub, before), replay())
			return
		}
		if !c16SameAttrs(o.Attrs, c16Expected(tk.stmts, tk.authn, false)) {
			r.dead = true
			rep.Violation(r.key+":attrs", fmt.Sprintf("%s: attributes exposed to the application differ from those of the assertion that created the session - %s", what, before), replay())
			return
		}
	}
	// conformance with the model beyond the statement: drift only
	switch {
	case o.Panic != "":
		rep.DriftCase(r.key, "panic", o.Panic)
	case o.Outcome != s.Out:
		rep.DriftCase(r.key, fmt.Sprintf("step %d (%s): RequireAccount %s, model %s", n+1, s.sym(), o.Outcome, s.Out), r.trace)
	case trkPanic != "":
		rep.DriftCase(r.key, "tracker panic", trkPanic)
	case trkAcc != (s.Trk.Verdict == "accept"):
		rep.DriftCase(r.key, fmt.Sprintf("step %d (%s): tracked-request codec accepted=%v, model %s at %s", n+1, s.sym(), trkAcc, s.Trk.Verdict, s.Trk.Step), r.trace)
	case sessCls != c16HistErrClass(s.Sess, s):
		rep.DriftCase(r.key, fmt.Sprintf("step %d (%s): session codec error class %s, model step %s", n+1, s.sym(), sessCls, s.Sess.Step), r.trace)
	case trkCls != c16HistErrClass(s.Trk, s):
		rep.DriftCase(r.key, fmt.Sprintf("step %d (%s): tracked-request codec error class %s, model step %s", n+1, s.sym(), trkCls, s.Trk.Step), r.trace)
	}
}

func (r *c16HistRun) replay(base time.Time, n int) map[string]any {
	return map[string]any{"replay_history": true, "kind": "replay-history", "fam": r.h.Fam, "grp": r.h.Grp, "depls": r.ten.table, "url_pick": r.ten.pick, "history": r.h.Steps,
		"step": n + 1, "observed": append([]string{}, r.trace...), "base": base.Format(time.RFC3339Nano)}
}

func c16HistUniq(i int, rng *rand.Rand) string { return fmt.Sprintf("h%d-%06x", i, rng.Intn(1<<24)) }

func TestC16ReplayHistory(t *testing.T) {
	rep := NewReport("C16")
	defer rep.Finish(t)
	rep.Rule = "every history of spec/SessionReplayHistory.tla (MaxLen presentations, clock never backwards, at least one presentation the model accepts) is replayed in order on real " +
		"middlewares living in this process - A (a URL with a non-root path), B1 (other URL and key), B2 (same URL, other key), B3 (same key, other URL) for every pair of key families of the " +
		"configuration; and A with its siblings Sp, Sq, Ss, Sc (A's key, scheme and host, a URL that differs only in the path / the query / a trailing slash / the letter case of the host; " +
		"every presentation to the minting deployment itself or between A and a sibling): " +
		"session tokens from CreateSession and tracking tokens from TrackRequest, minted per history (unique strings), presented in the session cookie to RequireAccount(handler) " +
		"(and to GetTrackedRequests) 30 s before the mint, 30 s after it and 60 s past the session lifetime.  Only a deployment's own session token inside its lifetime may authenticate, " +
		"and always does, whatever the process accepted before; the application then sees the assertion's subject and attributes"
	lines := loadLines(t, "replayhist.ndjson")
	if len(lines) == 0 {
		rep.Break("no histories")
		return
	}
	oldNow, oldJWT := saml.TimeNow, jwt.TimeFunc
	defer func() { saml.TimeNow, jwt.TimeFunc = oldNow, oldJWT }()
	seedRng := newRand("C16/replay-history")
	base := c16Now.Add(time.Duration(seedVal()%1000)*time.Hour + time.Duration(seedRng.Int63n(int64(time.Second))))
	var clock atomic.Int64 // seconds after base; changed only between the lock-step rounds
	nowFn := func() time.Time { return base.Add(time.Duration(clock.Load()) * time.Second) }
	saml.TimeNow, jwt.TimeFunc = nowFn, nowFn
	pick := seedRng.Intn(c16UrlPicks)

	type tk struct {
		f   c16HistFam
		grp string
	}
	tenants := map[tk]*c16Tenants{}
	tables := map[tk]map[string]c16HistDepl{}
	for _, l := range loadLines(t, "replaydepls.ndjson") {
		h := &c16Hist{}
		if err := json.Unmarshal(l, h); err != nil || len(h.Depls) == 0 || tables[tk{h.Fam, h.Grp}] != nil {
			rep.Break("bad or repeated table of deployments %s: %v", l, err)
			return
		}
		tables[tk{h.Fam, h.Grp}] = h.Depls
	}
	var runs []*c16HistRun
	seen := map[string]bool{}
	for _, l := range lines {
		h := &c16Hist{}
		if err := json.Unmarshal(l, h); err != nil || len(h.Steps) == 0 {
			rep.Break("bad history: %v", err)
			return
		}
		g := tk{h.Fam, h.Grp}
		h.Depls = tables[g]
		if h.Depls == nil {
			rep.Break("no table of deployments for group %q under %+v", h.Grp, h.Fam)
			return
		}
		if tenants[g] == nil {
			ten, err := c16NewTenants(h.Fam, h.Depls, pick)
			if err != nil {
				rep.Break("deployments: %v", err)
				return
			}
			tenants[g] = ten
			for n, d := range ten.d {
				if d.note != "" {
					rep.DriftCase("C16:defaults", "samlsp.New configures another default than the model of the configuration (deployment "+n+")", d.note)
				}
			}
		}
		for _, st := range h.Steps {
			if _, ok := h.Depls[st.By]; !ok {
				rep.Break("history names deployment %s, not in its table", st.By)
				return
			}
			if _, ok := h.Depls[st.To]; !ok {
				rep.Break("history names deployment %s, not in its table", st.To)
				return
			}
		}
		r := &c16HistRun{h: h, key: h.key(), ten: tenants[g]}
		if seen[r.key] {
			rep.Break("duplicate history %s", r.key)
			return
		}
		seen[r.key] = true
		r.rng = newRand(r.key)
		runs = append(runs, r)
	}
	sort.Slice(runs, func(i, j int) bool { return runs[i].key < runs[j].key })
	for i, r := range runs {
		r.uniq = c16HistUniq(i, r.rng)
	}

	// histories with the same sequence of clock positions run in lock step: the clock (a package
	// variable of golang-jwt and of saml) is moved between the rounds, never during one
	groups := map[string][]*c16HistRun{}
	var order []string
	for _, r := range runs {
		var ps []string
		for _, s := range r.h.Steps {
			ps = append(ps, fmt.Sprint(s.At))
		}
		g := strings.Join(ps, ",")
		if groups[g] == nil {
			order = append(order, g)
		}
		groups[g] = append(groups[g], r)
	}
	sort.Strings(order)
	replays := 0
	for _, g := range order {
		grp := groups[g]
		clock.Store(0)
		parallel(len(grp), func(i int) { grp[i].mint() })
		for n := range grp[0].h.Steps {
			clock.Store(grp[0].h.Steps[n].At)
			parallel(len(grp), func(i int) {
				r := grp[i]
				if n < len(r.h.Steps) {
					r.step(rep, n, func() map[string]any { return r.replay(base, n) })
				}
			})
		}
		for _, r := range grp {
			if !r.dead {
				rep.Trace(len(r.h.Steps))
				replays++
			}
		}
	}
	if s := runs[len(runs)/2]; true {
		rep.Sample(map[string]any{"key": s.key, "observed": s.trace})
	}
	rep.Extra["replay_histories"] = len(runs)
	rep.Extra["replay_histories_conforming"] = replays
	rep.Extra["clock_sequences"] = order
	urls := map[string]map[string]string{}
	sibCross := map[string]int{}
	for g, ten := range tenants {
		if urls[g.grp] == nil {
			urls[g.grp] = map[string]string{}
			for n, d := range ten.d {
				urls[g.grp][n] = d.root
			}
		}
	}
	// vacuity of the sibling dimension, counted from the histories' required classes: a fresh session token crosses
	// between A and every sibling, in both directions
	for _, r := range runs {
		for _, s := range r.h.Steps {
			if r.h.Grp == "sib" && s.Kind == "session" && s.P == "fresh" && s.By != s.To && s.Class == "MustReject" {
				sibCross[s.By+">"+s.To]++
			}
		}
	}
	for _, sname := range []string{"Sp", "Sq", "Ss"} { // (Sc is the same URL in another spelling: nothing is required of it)
		if sibCross["A>"+sname] == 0 || sibCross[sname+">A"] == 0 {
			rep.Break("vacuous: no fresh session token crosses between A and its sibling %s in both directions", sname)
		}
	}
	rep.Extra["deployment_urls"] = urls
	rep.Extra["fresh_session_tokens_crossing_between_a_and_a_sibling"] = sibCross
	// the registered configurations have the deviation AudienceIsUrlRoot off; the phase before this one runs TLC with
	// it on (spec/SessionReplayHistory_dev.cfg) and must have produced a counterexample to the cross-deployment invariant
	refuted := false
	cex, _ := filepath.Glob(filepath.Join(workDir(), "tlc_violation_*.txt"))
	for _, f := range cex {
		b, _ := os.ReadFile(f)
		if strings.Contains(string(b), "Invariant OnlyOwnFreshSessionTokens is violated") {
			refuted = true
		}
	}
	if !refuted {
		rep.Break("TLC did not refute OnlyOwnFreshSessionTokens under the deviation AudienceIsUrlRoot (no counterexample in the work directory): the URL dimension of the model is vacuous")
	} else {
		rep.Note("model self-test: with AudienceIsUrlRoot on (SessionReplayHistory_dev.cfg) TLC refutes OnlyOwnFreshSessionTokens")
	}
	rep.Assume("the clock is moved only between lock-step rounds; histories of one round run concurrently on the same four middlewares, each with token strings of its own")
	if rep.Classes["MustAccept"] == 0 || rep.Classes["MustReject"] == 0 {
		rep.Break("vacuous: no MustAccept or no MustReject presentation")
	}
}

func init() {
	registerReplayFor("C16", "replay_history", func(t *testing.T, raw []byte) (bool, string) {
		var r struct {
			Key     string                 `json:"key"`
			Fam     c16HistFam             `json:"fam"`
			Grp     string                 `json:"grp"`
			Depls   map[string]c16HistDepl `json:"depls"`
			Pick    int                    `json:"url_pick"`
			History []c16HistStep          `json:"history"`
			Base    string                 `json:"base"`
		}
		if err := json.Unmarshal(raw, &r); err != nil {
			t.Fatal(err)
		}
		base, err := time.Parse(time.RFC3339Nano, r.Base)
		if err != nil {
			t.Fatal(err)
		}
		oldNow, oldJWT := saml.TimeNow, jwt.TimeFunc
		defer func() { saml.TimeNow, jwt.TimeFunc = oldNow, oldJWT }()
		var clock int64
		nowFn := func() time.Time { return base.Add(time.Duration(clock) * time.Second) }
		saml.TimeNow, jwt.TimeFunc = nowFn, nowFn
		ten, err := c16NewTenants(r.Fam, r.Depls, r.Pick)
		if err != nil {
			t.Fatal(err)
		}
		rep := NewReport("C16")
		t.Setenv("VERIF_REPLAYS", t.TempDir())
		run := &c16HistRun{h: &c16Hist{Fam: r.Fam, Grp: r.Grp, Depls: r.Depls, Steps: r.History}, key: r.Key, ten: ten, rng: newRand(r.Key), uniq: "replay"}
		run.mint()
		for n := range r.History {
			clock = r.History[n].At
			run.step(rep, n, func() map[string]any { return nil })
		}
		return len(rep.Violations) > 0, strings.Join(run.trace, ", ")
	})
}
