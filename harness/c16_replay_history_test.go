package harness

// C16 over the life of one PROCESS hosting several deployments (spec/SessionReplayHistory.tla):
// deployments A, B1 (other URL and key), B2 (same URL, other key), B3 (same key, other URL) are
// real middlewares built with samlsp.New that live in this test process.  A history presents
// session and tracking tokens minted by one deployment to the same or another deployment at clock
// positions before the mint, inside the lifetime and beyond it.  Whether a presentation
// authenticates is decided by (minting deployment, receiving deployment, clock position, token
// kind) alone; nothing any deployment of the process accepted earlier may change it.

import (
	"encoding/json"
	"fmt"
	"math/rand"
	"sort"
	"strings"
	"sync/atomic"
	"testing"
	"time"

	"github.com/golang-jwt/jwt/v4"

	"github.com/crewjam/saml"
)

type c16HistStep struct {
	By    string          `json:"by"`
	Kind  string          `json:"kind"`
	To    string          `json:"to"`
	P     string          `json:"p"`
	At    int64           `json:"at"`
	Class string          `json:"class"`
	Why   map[string]bool `json:"why"`
	Sess  c16Step         `json:"sess"`
	Trk   c16Step         `json:"trk"`
	Out   string          `json:"out"`
}

func (s c16HistStep) sym() string { return s.By + "." + s.Kind + ">" + s.To + "@" + s.P }

type c16HistFam struct {
	K1 string `json:"k1"`
	K2 string `json:"k2"`
}

type c16Hist struct {
	Fam   c16HistFam    `json:"fam"`
	Steps []c16HistStep `json:"steps"`
}

func (h *c16Hist) key() string {
	var p []string
	for _, s := range h.Steps {
		p = append(p, s.sym())
	}
	return fmt.Sprintf("C16:replay-history:%s+%s:%s", h.Fam.K1, h.Fam.K2, strings.Join(p, "|"))
}

// c16Tenants are the four deployments of the model for one pair of key families.
type c16Tenants struct {
	d    map[string]*c16Depl
	urlB string
}

func c16NewTenants(f c16HistFam, urlB string) (*c16Tenants, error) {
	t := &c16Tenants{d: map[string]*c16Depl{}, urlB: urlB}
	for _, x := range []struct{ name, fam, which, root string }{
		{"A", f.K1, "this", spRoot}, {"B1", f.K2, "other", urlB}, {"B2", f.K2, "other", spRoot}, {"B3", f.K1, "this", urlB}} {
		d, err := c16NewDepl(c16Cfg{Spkey: x.fam, Life: 3600, Cookie: "default"}, x.which, x.root)
		if err != nil {
			return nil, err
		}
		t.d[x.name] = d
	}
	// the model's relations between the deployments must hold of the real ones
	same := func(a, b string) (key, url bool) {
		return t.d[a].kp == t.d[b].kp, t.d[a].root == t.d[b].root
	}
	for _, c := range []struct {
		a, b     string
		key, url bool
	}{{"A", "B1", false, false}, {"A", "B2", false, true}, {"A", "B3", true, false}, {"B1", "B2", true, false}, {"B1", "B3", false, true}, {"B2", "B3", false, false}} {
		if k, u := same(c.a, c.b); k != c.key || u != c.url {
			return nil, fmt.Errorf("deployments %s and %s: same key %v, same URL %v; the model says %v, %v", c.a, c.b, k, u, c.key, c.url)
		}
	}
	return t, nil
}

type c16HistTok struct {
	str, sub string
	stmts    [][]c16ConcAttr
	authn    []string
}

type c16HistRun struct {
	h     *c16Hist
	key   string
	ten   *c16Tenants
	rng   *rand.Rand
	uniq  string
	toks  map[string]*c16HistTok
	trace []string
	dead  bool
}

// mint creates, with the real code of the minting deployment, one token string per (deployment,
// kind) the history uses.  Strings are unique to the history: state the process keeps about one
// history's tokens cannot be confused with another's.
func (r *c16HistRun) mint() error {
	r.toks = map[string]*c16HistTok{}
	for _, s := range r.h.Steps {
		id := s.By + "." + s.Kind
		if r.toks[id] != nil {
			continue
		}
		d := r.ten.d[s.By]
		tk := &c16HistTok{}
		var err error
		if s.Kind == "session" {
			tk.sub = fmt.Sprintf("%s@%s-%s", c16SafeSubjects[r.rng.Intn(len(c16SafeSubjects))], strings.ToLower(s.By), r.uniq)
			vals := c16Pick(r.rng, c16AttrValues, 2)
			tk.stmts = [][]c16ConcAttr{{{Fn: "groups", Name: "urn:groups", Vals: []string{"admins-of-" + s.By, vals[0]}}, {Fn: "", Name: "tenant", Vals: []string{s.By}}},
				{{Fn: "mail", Name: "urn:oid:0.9.2342.19200300.100.1.3", Vals: []string{vals[1]}}}}
			tk.authn = []string{"_si-" + s.By + "-" + r.uniq}
			tk.str, err = c16Mint(d, c16BuildAssertion(&tk.sub, true, tk.stmts, tk.authn))
		} else {
			tk.str, tk.sub, err = c16MintTracking(d, r.rng)
		}
		if err != nil {
			return fmt.Errorf("%s mints a %s token: %v", s.By, s.Kind, err)
		}
		r.toks[id] = tk
	}
	return nil
}

func c16HistErrClass(st c16Step, s c16HistStep) string {
	if st.Verdict == "accept" {
		return "accept"
	}
	switch st.Step {
	case "Claims":
		return "malformed"
	case "AlgAllowed", "Signature":
		return "signature"
	case "Times":
		if s.At < 0 {
			return "times:iat+nbf"
		}
		return "times:exp"
	}
	return "claim"
}

// step presents the history's n-th token (0-based) to its receiving deployment under the
// clock the caller has set, and judges the outcome by the statement.
func (r *c16HistRun) step(rep *Report, n int, replay func() map[string]any) {
	if r.dead {
		return
	}
	s := r.h.Steps[n]
	d, tk := r.ten.d[s.To], r.toks[s.By+"."+s.Kind]
	o := c16Request(d, d.cookie+"="+tk.str, nil, d.m.RequireAccount)
	trkAcc, trkPanic := c16Tracked(d, tk.sub, tk.str)
	sessCls, trkCls := c16DecodeClasses(d, tk.str)
	r.trace = append(r.trace, s.sym()+":"+o.Outcome)
	rep.Eval(s.Class, fmt.Sprintf("%s#%d", r.key, n+1))
	before := "as the first presentation of the history"
	if n > 0 {
		before = "after " + strings.Join(r.trace[:n], ", ")
	}
	what := fmt.Sprintf("step %d: the %s token minted by deployment %s, presented to deployment %s %+d s after the mint", n+1, s.Kind, s.By, s.To, s.At)
	switch {
	case s.Class == "MustReject" && o.Ran:
		r.dead = true
		rep.Violation(r.key, fmt.Sprintf("%s, is treated as authenticated (wrapped handler ran, subject %q exposed) although it is: %s - %s",
			what, o.Subject, c16WhyText(s.Why), before), replay())
		return
	case s.Class == "MustAccept" && !o.Ran:
		r.dead = true
		res := fmt.Sprintf("outcome %s (status %d)", o.Outcome, o.Status)
		if o.Panic != "" {
			res = "panic: " + strings.SplitN(o.Panic, "\n", 2)[0]
		}
		rep.Violation(r.key, fmt.Sprintf("%s - its own session token, strictly inside (iat, exp) - yields no session: %s - %s", what, res, before), replay())
		return
	case s.Class != "MustAccept" && s.Class != "MustReject":
		rep.Break("%s: step %d has class %q", r.key, n+1, s.Class)
		return
	}
	if o.Ran {
		if o.Subject != tk.sub {
			r.dead = true
			rep.Violation(r.key+":subject", fmt.Sprintf("%s: subject exposed to the application %q differs from the assertion's %q - %s", what, o.Subject, tk.sub, before), replay())
			return
		}
		if !c16SameAttrs(o.Attrs, c16Expected(tk.stmts, tk.authn, false)) {
			r.dead = true
			rep.Violation(r.key+":attrs", fmt.Sprintf("%s: attributes exposed to the application differ from those of the assertion that created the session - %s", what, before), replay())
			return
		}
	}
	// conformance with the model beyond the statement: drift only
	switch {
	case o.Panic != "":
		rep.DriftCase(r.key, "panic", o.Panic)
	case o.Outcome != s.Out:
		rep.DriftCase(r.key, fmt.Sprintf("step %d (%s): RequireAccount %s, model %s", n+1, s.sym(), o.Outcome, s.Out), r.trace)
	case trkPanic != "":
		rep.DriftCase(r.key, "tracker panic", trkPanic)
	case trkAcc != (s.Trk.Verdict == "accept"):
		rep.DriftCase(r.key, fmt.Sprintf("step %d (%s): tracked-request codec accepted=%v, model %s at %s", n+1, s.sym(), trkAcc, s.Trk.Verdict, s.Trk.Step), r.trace)
	case sessCls != c16HistErrClass(s.Sess, s):
		rep.DriftCase(r.key, fmt.Sprintf("step %d (%s): session codec error class %s, model step %s", n+1, s.sym(), sessCls, s.Sess.Step), r.trace)
	case trkCls != c16HistErrClass(s.Trk, s):
		rep.DriftCase(r.key, fmt.Sprintf("step %d (%s): tracked-request codec error class %s, model step %s", n+1, s.sym(), trkCls, s.Trk.Step), r.trace)
	}
}

func (r *c16HistRun) replay(base time.Time, n int) map[string]any {
	return map[string]any{"replay_history": true, "kind": "replay-history", "fam": r.h.Fam, "url_b": r.ten.urlB, "history": r.h.Steps,
		"step": n + 1, "observed": append([]string{}, r.trace...), "base": base.Format(time.RFC3339Nano)}
}

func c16HistUniq(i int, rng *rand.Rand) string { return fmt.Sprintf("h%d-%06x", i, rng.Intn(1<<24)) }

func TestC16ReplayHistory(t *testing.T) {
	rep := NewReport("C16")
	defer rep.Finish(t)
	rep.Rule = "every history of spec/SessionReplayHistory.tla (MaxLen presentations, clock never backwards, at least one presentation the model accepts) is replayed in order on four real " +
		"middlewares living in this process - A, B1 (other URL and key), B2 (same URL, other key), B3 (same key, other URL) - for every pair of key families of the configuration: " +
		"session tokens from CreateSession and tracking tokens from TrackRequest, minted per history (unique strings), presented in the session cookie to RequireAccount(handler) " +
		"(and to GetTrackedRequests) 30 s before the mint, 30 s after it and 60 s past the session lifetime.  Only a deployment's own session token inside its lifetime may authenticate, " +
		"and always does, whatever the process accepted before; the application then sees the assertion's subject and attributes"
	lines := loadLines(t, "replayhist.ndjson")
	if len(lines) == 0 {
		rep.Break("no histories")
		return
	}
	oldNow, oldJWT := saml.TimeNow, jwt.TimeFunc
	defer func() { saml.TimeNow, jwt.TimeFunc = oldNow, oldJWT }()
	seedRng := newRand("C16/replay-history")
	base := c16Now.Add(time.Duration(seedVal()%1000)*time.Hour + time.Duration(seedRng.Int63n(int64(time.Second))))
	var clock atomic.Int64 // seconds after base; changed only between the lock-step rounds
	nowFn := func() time.Time { return base.Add(time.Duration(clock.Load()) * time.Second) }
	saml.TimeNow, jwt.TimeFunc = nowFn, nowFn
	urlB := c16OtherRoots[seedRng.Intn(len(c16OtherRoots))]

	tenants := map[c16HistFam]*c16Tenants{}
	var runs []*c16HistRun
	seen := map[string]bool{}
	for _, l := range lines {
		h := &c16Hist{}
		if err := json.Unmarshal(l, h); err != nil || len(h.Steps) == 0 {
			rep.Break("bad history: %v", err)
			return
		}
		if tenants[h.Fam] == nil {
			ten, err := c16NewTenants(h.Fam, urlB)
			if err != nil {
				rep.Break("deployments: %v", err)
				return
			}
			tenants[h.Fam] = ten
		}
		r := &c16HistRun{h: h, key: h.key(), ten: tenants[h.Fam]}
		if seen[r.key] {
			rep.Break("duplicate history %s", r.key)
			return
		}
		seen[r.key] = true
		r.rng = newRand(r.key)
		runs = append(runs, r)
	}
	sort.Slice(runs, func(i, j int) bool { return runs[i].key < runs[j].key })
	for i, r := range runs {
		r.uniq = c16HistUniq(i, r.rng)
	}

	// histories with the same sequence of clock positions run in lock step: the clock (a package
	// variable of golang-jwt and of saml) is moved between the rounds, never during one
	groups := map[string][]*c16HistRun{}
	var order []string
	for _, r := range runs {
		var ps []string
		for _, s := range r.h.Steps {
			ps = append(ps, fmt.Sprint(s.At))
		}
		g := strings.Join(ps, ",")
		if groups[g] == nil {
			order = append(order, g)
		}
		groups[g] = append(groups[g], r)
	}
	sort.Strings(order)
	replays := 0
	for _, g := range order {
		grp := groups[g]
		clock.Store(0)
		errs := make([]error, len(grp))
		parallel(len(grp), func(i int) {
			if p, msg := safely(func() { errs[i] = grp[i].mint() }); p {
				errs[i] = fmt.Errorf("panic while minting: %s", msg)
			}
		})
		for i, err := range errs {
			if err != nil {
				rep.Break("%s: %v", grp[i].key, err)
				return
			}
		}
		for n := range grp[0].h.Steps {
			clock.Store(grp[0].h.Steps[n].At)
			parallel(len(grp), func(i int) {
				r := grp[i]
				if n < len(r.h.Steps) {
					r.step(rep, n, func() map[string]any { return r.replay(base, n) })
				}
			})
		}
		for _, r := range grp {
			if !r.dead {
				rep.Trace(len(r.h.Steps))
				replays++
			}
		}
	}
	if s := runs[len(runs)/2]; true {
		rep.Sample(map[string]any{"key": s.key, "observed": s.trace})
	}
	rep.Extra["replay_histories"] = len(runs)
	rep.Extra["replay_histories_conforming"] = replays
	rep.Extra["clock_sequences"] = order
	rep.Extra["deployment_b_url"] = urlB
	rep.Assume("the clock is moved only between lock-step rounds; histories of one round run concurrently on the same four middlewares, each with token strings of its own")
	if rep.Classes["MustAccept"] == 0 || rep.Classes["MustReject"] == 0 {
		rep.Break("vacuous: no MustAccept or no MustReject presentation")
	}
}

func init() {
	registerReplayFor("C16", "replay_history", func(t *testing.T, raw []byte) (bool, string) {
		var r struct {
			Key     string        `json:"key"`
			Fam     c16HistFam    `json:"fam"`
			URLB    string        `json:"url_b"`
			History []c16HistStep `json:"history"`
			Base    string        `json:"base"`
		}
		if err := json.Unmarshal(raw, &r); err != nil {
			t.Fatal(err)
		}
		base, err := time.Parse(time.RFC3339Nano, r.Base)
		if err != nil {
			t.Fatal(err)
		}
		oldNow, oldJWT := saml.TimeNow, jwt.TimeFunc
		defer func() { saml.TimeNow, jwt.TimeFunc = oldNow, oldJWT }()
		var clock int64
		nowFn := func() time.Time { return base.Add(time.Duration(clock) * time.Second) }
		saml.TimeNow, jwt.TimeFunc = nowFn, nowFn
		ten, err := c16NewTenants(r.Fam, r.URLB)
		if err != nil {
			t.Fatal(err)
		}
		rep := NewReport("C16")
		t.Setenv("VERIF_REPLAYS", t.TempDir())
		run := &c16HistRun{h: &c16Hist{Fam: r.Fam, Steps: r.History}, key: r.Key, ten: ten, rng: newRand(r.Key), uniq: "replay"}
		if err := run.mint(); err != nil {
			t.Fatal(err)
		}
		for n := range r.History {
			clock = r.History[n].At
			run.step(rep, n, func() map[string]any { return nil })
		}
		return len(rep.Violations) > 0, strings.Join(run.trace, ", ")
	})
}
