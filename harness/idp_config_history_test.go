package harness

// C06 over the life of one IdentityProvider value (spec/IdpConfigHistory.tla): Key / Signer /
// Certificate / SignatureMethod are reassigned between responses; every response must be signed
// with the key and method of the configuration in force when it is made.

import (
	"encoding/base64"
	"encoding/json"
	"errors"
	"fmt"
	"net/http"
	"net/http/httptest"
	"strings"
	"testing"
	"time"

	"github.com/beevik/etree"

	"github.com/crewjam/saml"
)

type cfgHistStep struct {
	Cfg struct {
		Pair   string `json:"pair"`
		Src    string `json:"src"`
		Method string `json:"method"`
	} `json:"cfg"`
	Req struct {
		By     string `json:"by"`
		Method string `json:"method"`
	} `json:"req"`
	Ab bool `json:"ab"` // another user's response was cut off in mid-write just before
}

// cfgHistCutWriter is a client that goes away after part of the reply has been written.
type cfgHistCutWriter struct {
	h    http.Header
	left int
}

func (w *cfgHistCutWriter) Header() http.Header { return w.h }
func (w *cfgHistCutWriter) WriteHeader(int)     {}
func (w *cfgHistCutWriter) Write(p []byte) (int, error) {
	if w.left <= 0 {
		return 0, errors.New("write: broken pipe")
	}
	if len(p) > w.left {
		n := w.left
		w.left = 0
		return n, errors.New("write: broken pipe")
	}
	w.left -= len(p)
	return len(p), nil
}

const cfgHistOtherMarker = "carol-who-went-away"

func (s cfgHistStep) name() string {
	n := s.Cfg.Pair + "/" + s.Cfg.Src + "/" + s.Cfg.Method
	if s.Ab {
		n = "cut+" + n
	}
	return n
}

func cfgHistApply(idp *saml.IdentityProvider, s cfgHistStep) {
	k := key(s.Cfg.Pair)
	other := key(map[string]string{"idp1": "idp2", "idp2": "idp1"}[s.Cfg.Pair])
	idp.Certificate = k.Cert
	idp.Key, idp.Signer = nil, nil
	switch s.Cfg.Src {
	case "key":
		idp.Key = k.Key
	case "signer":
		idp.Signer = idprespSigner{k.RSA()}
	case "both":
		idp.Key = other.Key
		idp.Signer = idprespSigner{k.RSA()}
	}
	idp.SignatureMethod = ""
	if s.Cfg.Method != "unset" {
		idp.SignatureMethod = idprespMethodURI[s.Cfg.Method]
	}
}

func TestC06ConfigHistory(t *testing.T) {
	rep := NewReport("C06")
	defer rep.Finish(t)
	rep.Rule = "every sequence of MaxLen IdP configurations (key pair x key held as private key / external signer / signer next to another private key x signature method) of spec/IdpConfigHistory.tla is replayed on ONE IdentityProvider value, its exported fields reassigned between requests; after every reassignment a validated request is served through ServeSSO and both enveloped signatures must verify (recomputation and goxmldsig) under the certificate in force, with the method in force"
	lines := loadLines(t, "cfghist.ndjson")
	if len(lines) == 0 {
		rep.Break("no histories")
		return
	}
	oldNow := saml.TimeNow
	defer func() { saml.TimeNow = oldNow }()
	now := wsNow
	saml.TimeNow = func() time.Time { return now }
	md := saml.EntityDescriptor{}
	if err := xmlUnmarshalStrict(spMetaXML(spEntityID, spACS, false), &md); err != nil {
		rep.Break("metadata: %v", err)
		return
	}
	parallel(len(lines), func(i int) {
		var h struct {
			Steps []cfgHistStep `json:"steps"`
		}
		if err := json.Unmarshal(lines[i], &h); err != nil {
			rep.Break("bad history: %v", err)
			return
		}
		var names []string
		for _, s := range h.Steps {
			names = append(names, s.name())
		}
		hid := strings.Join(names, ">")
		rng := newRand("cfghist/" + hid)
		session, _ := c08Session(rng)
		idp := &saml.IdentityProvider{Logger: quietLogger, MetadataURL: mustURL(idpEntityID), SSOURL: mustURL(idpSSOURL),
			ServiceProviderProvider: wsSPP{m: map[string]*saml.EntityDescriptor{spEntityID: &md}}, SessionProvider: c08FixedSession{session}}
		for si, st := range h.Steps {
			cfgHistApply(idp, st)
			el := etree.NewElement("samlp:AuthnRequest")
			el.CreateAttr("xmlns:samlp", nsProtocol)
			el.CreateAttr("xmlns:saml", nsAssertion)
			el.CreateAttr("ID", fmt.Sprintf("id-%08x", rng.Uint32()))
			el.CreateAttr("Version", "2.0")
			el.CreateAttr("IssueInstant", now.Format("2006-01-02T15:04:05Z"))
			el.CreateAttr("Destination", idpSSOURL)
			el.CreateAttr("AssertionConsumerServiceURL", spACS)
			el.CreateElement("saml:Issuer").SetText(spEntityID)
			body := "SAMLRequest=" + urlQueryEscape(base64.StdEncoding.EncodeToString(docBytes(el))) + "&RelayState=relay"
			if st.Ab {
				other := *session
				other.NameID, other.UserEmail, other.UserName = cfgHistOtherMarker+"@example.com", cfgHistOtherMarker+"@example.com", cfgHistOtherMarker
				idp.SessionProvider = c08FixedSession{&other}
				ob := "SAMLRequest=" + urlQueryEscape(base64.StdEncoding.EncodeToString(docBytes(el))) + "&RelayState=" + cfgHistOtherMarker + "-relay"
				or := httptest.NewRequest("POST", idpSSOURL, strings.NewReader(ob))
				or.Header.Set("Content-Type", "application/x-www-form-urlencoded")
				safely(func() { idp.ServeSSO(&cfgHistCutWriter{h: http.Header{}, left: 200 + rng.Intn(1500)}, or) })
				idp.SessionProvider = c08FixedSession{session}
			}
			r := httptest.NewRequest("POST", idpSSOURL, strings.NewReader(body))
			r.Header.Set("Content-Type", "application/x-www-form-urlencoded")
			w := httptest.NewRecorder()
			p, msg := safely(func() { idp.ServeSSO(w, r) })
			key_ := fmt.Sprintf("C06:config-history:%s:step=%d", hid, si+1)
			replay := map[string]any{"history": h.Steps, "step": si + 1}
			rep.Eval("Response", key_)
			rep.Trace(1)
			if p {
				rep.Violation(key_+":panic", "ServeSSO panicked: "+strings.SplitN(msg, "\n", 2)[0], replay)
				return
			}
			// one form, with this session's data only
			if page := w.Body.String(); strings.Count(page, "<form") != 1 || strings.Count(page, "</html>") != 1 || !strings.HasPrefix(strings.TrimSpace(page), "<html") || strings.Contains(page, cfgHistOtherMarker) {
				replay["page_head"] = page[:min(len(page), 300)]
				rep.Violation(fmt.Sprintf("C06:config-history:%s:page", hid), fmt.Sprintf("step %d (after %v, cut-off response before it: %v): the reply is not ONE POST form for this request: %d <form, %d </html>, starts %q, carries the other user's data: %v", si+1, names[:si], st.Ab, strings.Count(page, "<form"), strings.Count(page, "</html>"), page[:min(len(page), 40)], strings.Contains(page, cfgHistOtherMarker)), replay)
				return
			}
			xmlb, _, ok := samlResponseInBody(w.Body.String())
			if !ok {
				rep.Violation(key_+":no-response", fmt.Sprintf("a valid request under configuration %s did not produce a response (status %d)", st.name(), w.Code), replay)
				return
			}
			root, err := idprespParse(xmlb)
			if err != nil {
				rep.Violation(key_+":malformed", "the emitted response is not well-formed: "+err.Error(), replay)
				return
			}
			cert := key(st.Req.By).Cert
			wantMethod := idprespMethodURI[st.Req.Method]
			problems := []string{}
			check := func(what string, e *etree.Element) {
				if e == nil {
					problems = append(problems, what+": element missing")
					return
				}
				o := idprespVerify(e, cert)
				switch {
				case !o.Present:
					problems = append(problems, what+": no enveloped signature")
				case o.RawErr != "" || o.DsigErr != "":
					problems = append(problems, fmt.Sprintf("%s: signature does not verify under the certificate in force (%s): %s / %s", what, st.Req.By, o.RawErr, o.DsigErr))
				case o.Method != wantMethod:
					problems = append(problems, fmt.Sprintf("%s: signature method %s, configured %s", what, o.Method, wantMethod))
				}
			}
			check("response", root)
			var assn *etree.Element
			for _, c := range root.ChildElements() {
				if c.Tag == "Assertion" {
					assn = c
				}
			}
			check("assertion", assn)
			if len(problems) > 0 {
				replay["response"] = string(xmlb)
				rep.Violation(fmt.Sprintf("C06:config-history:%s", hid), fmt.Sprintf("step %d (configuration %s, after %v): %s", si+1, st.name(), names[:si], strings.Join(problems, "; ")), replay)
				return
			}
		}
		if i%97 == 0 {
			rep.Sample(map[string]any{"history": hid, "verified": len(h.Steps) * 2})
		}
	})
	rep.Extra["config_histories"] = len(lines)
}
