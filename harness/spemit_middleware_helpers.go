package harness

// The middleware emission path of spec/SPEmit.tla (in.path = "middleware"): the AuthnRequest is emitted by
// samlsp.Middleware.HandleStartAuthFlow of a middleware built with samlsp.New, not by the application calling
// ServiceProvider itself.  Shared by TestC12 and TestC13.

import (
	"errors"
	"fmt"
	"net/http"
	"net/http/httptest"
	"net/url"

	"github.com/crewjam/saml"
	"github.com/crewjam/saml/samlsp"
)

// spemitTracker is a RequestTracker that hands out the relay state of the case (the relay-state classes of the
// model reach the middleware's emission through it) and records the request ID it was given.
type spemitTracker struct {
	relay string
	ids   []string
}

func (t *spemitTracker) TrackRequest(_ http.ResponseWriter, _ *http.Request, samlRequestID string) (string, error) {
	t.ids = append(t.ids, samlRequestID)
	return t.relay, nil
}

func (t *spemitTracker) StopTrackingRequest(http.ResponseWriter, *http.Request, string) error {
	return nil
}

func (t *spemitTracker) GetTrackedRequests(*http.Request) []samlsp.TrackedRequest { return nil }

func (t *spemitTracker) GetTrackedRequest(*http.Request, string) (*samlsp.TrackedRequest, error) {
	return nil, http.ErrNoCookie
}

const spemitRootURL = "https://sp.example.com/"

// spemitMiddleware builds a real middleware with samlsp.New for the configuration of the case.  What New derives
// from the key alone (the signature method) and cannot express (ForceAuthn=false, the name-ID format) is then
// set on the ServiceProvider of the returned middleware, as its documentation provides for; Middleware.Binding
// stays "" unless the case sets it explicitly.
func spemitMiddleware(s *saml.ServiceProvider, v *spemitVec, c *spemitConc) (*samlsp.Middleware, *spemitTracker, error) {
	root, err := url.Parse(spemitRootURL)
	if err != nil {
		return nil, nil, err
	}
	opts := samlsp.Options{
		URL:                   *root,
		Key:                   s.Key,
		Certificate:           s.Certificate,
		Intermediates:         s.Intermediates,
		IDPMetadata:           s.IDPMetadata,
		SignRequest:           c.MethodURI != "",
		ForceAuthn:            s.ForceAuthn != nil && *s.ForceAuthn,
		RequestedAuthnContext: s.RequestedAuthnContext,
		UseArtifactResponse:   v.result() == "artifact",
		LogoutBindings:        s.LogoutBindings,
	}
	if c.EntityIDSet {
		opts.EntityID = spEntityID
	}
	if c.Tracker == "default" {
		relay := c.Relay
		opts.RelayStateFunc = func(http.ResponseWriter, *http.Request) string { return relay }
	}
	m, err := samlsp.New(opts)
	if err != nil {
		return nil, nil, err
	}
	if m.Binding != "" {
		return nil, nil, fmt.Errorf("samlsp.New sets Middleware.Binding to %q, the model's default is \"\"", m.Binding)
	}
	m.ServiceProvider.SignatureMethod = c.MethodURI
	m.ServiceProvider.AuthnNameIDFormat = s.AuthnNameIDFormat
	m.ServiceProvider.ForceAuthn = s.ForceAuthn
	switch v.mwBinding() {
	case "default":
	case "redirect":
		m.Binding = saml.HTTPRedirectBinding
	case "post":
		m.Binding = saml.HTTPPostBinding
	default:
		return nil, nil, fmt.Errorf("unknown Middleware.Binding class %q", v.Cfg.MwBinding)
	}
	// the service provider New built must be the one the direct path uses (same URLs, key, certificate)
	sp := &m.ServiceProvider
	if sp.MetadataURL.String() != s.MetadataURL.String() || sp.AcsURL.String() != s.AcsURL.String() || sp.SloURL.String() != s.SloURL.String() ||
		sp.Key != s.Key || sp.Certificate != s.Certificate || sp.IDPMetadata != s.IDPMetadata || sp.EntityID != s.EntityID {
		return nil, nil, errors.New("the ServiceProvider of samlsp.New differs from the harness's in its URLs, key or metadata")
	}
	var tr *spemitTracker
	if c.Tracker != "default" {
		tr = &spemitTracker{relay: c.Relay}
		m.RequestTracker = tr
	}
	return m, tr, nil
}

// spemitEmitViaMiddleware drives an unauthenticated request for a protected page through the middleware and
// turns the HTTP response into an emission: 302 + Location = redirect binding, 200 + body = the auto-submit
// form of the POST binding, anything else = refused (an error and no message).
func spemitEmitViaMiddleware(s *saml.ServiceProvider, v *spemitVec, c *spemitConc) *spemitEmission {
	e := &spemitEmission{}
	if v.In.Kind != "authn" {
		e.Panic = "harness: the middleware path emits AuthnRequests only, not " + v.In.Kind
		return e
	}
	m, tr, err := spemitMiddleware(s, v, c)
	if err != nil {
		e.Panic = "harness: cannot build the middleware: " + err.Error()
		return e
	}
	e.SP = &m.ServiceProvider
	rec := httptest.NewRecorder()
	r := httptest.NewRequest("GET", spemitRootURL+"protected/page?x=1", nil)
	p, msg := safely(func() {
		if c.Entry == "RequireAccount" {
			m.RequireAccount(http.HandlerFunc(func(w http.ResponseWriter, _ *http.Request) {
				w.WriteHeader(http.StatusTeapot) // no session: must not be reached
			})).ServeHTTP(rec, r)
		} else {
			m.HandleStartAuthFlow(rec, r)
		}
	})
	if p {
		e.Panic = msg
		return e
	}
	if tr != nil && len(tr.ids) == 1 {
		e.KnownID = tr.ids[0]
	}
	e.Status = rec.Code
	body := rec.Body.Bytes()
	switch {
	case rec.Code == http.StatusFound && rec.Header().Get("Location") != "":
		e.URL, e.Binding, e.Produced = rec.Header().Get("Location"), "redirect", true
	case rec.Code == http.StatusOK && len(body) > 0:
		e.Form, e.Binding, e.Produced = body, "post", true
	default:
		e.Err = fmt.Errorf("HTTP %d: %s", rec.Code, truncate(string(body), 200))
	}
	return e
}

// spemitAdoptEmission prepares the judgement of a middleware emission: the published metadata is that of the
// middleware's ServiceProvider, and the emission is judged as what it IS - when the middleware emitted with
// another binding than the model's choice, the vector is re-targeted to the observed binding (the form of
// signature the statement requires follows the binding emitted) and the difference is reported (drift).
func spemitAdoptEmission(s *saml.ServiceProvider, v *spemitVec, e *spemitEmission) (*saml.ServiceProvider, *spemitVec, string) {
	if e.SP != nil {
		s = e.SP
	}
	if e.Binding == "" || e.Binding == v.In.Binding {
		return s, v, ""
	}
	sub := *v
	sub.In.Binding = e.Binding
	if sub.Required.Form == "detached" || sub.Required.Form == "enveloped" {
		sub.Required.Form = "enveloped"
		if e.Binding == "redirect" {
			sub.Required.Form = "detached"
		}
	}
	return s, &sub, fmt.Sprintf("the middleware emitted with the %s binding, the model's choice is %s", e.Binding, v.In.Binding)
}
