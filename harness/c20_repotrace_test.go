package harness

// C20, reverse direction on the repository's own executions (spec/RepoLockTrace.tla): the samlidp test
// suite of the tree under test is run, unedited, with the `verif` tag and a recorder in samlidp.VerifHook;
// the recorded lock history is validated by TLC in the next phase.

import (
	"bufio"
	"bytes"
	"fmt"
	"io"
	"io/fs"
	"os"
	"os/exec"
	"path/filepath"
	"strings"
	"testing"
)

// the recorder: a test file of package samlidp that exists only in the scratch copy
const c20RepoRecorder = `//go:build verif

package samlidp

import (
	"bytes"
	"fmt"
	"os"
	"runtime"
	"strconv"
	"sync"
)

var (
	verifTraceMu   sync.Mutex
	verifTraceFile *os.File
	verifTraceIDs  = map[*sync.RWMutex]int{}
)

func verifGoroutine() int {
	var b [64]byte
	f := bytes.Fields(b[:runtime.Stack(b[:], false)])
	if len(f) < 2 {
		return -1
	}
	n, _ := strconv.Atoi(string(f[1]))
	return n
}

func init() {
	p := os.Getenv("VERIF_LOCKTRACE")
	if p == "" {
		return
	}
	f, err := os.OpenFile(p, os.O_CREATE|os.O_WRONLY|os.O_APPEND, 0o644)
	if err != nil {
		panic(err)
	}
	verifTraceFile = f
	VerifHook = func(ev, res string, mu *sync.RWMutex) {
		g := verifGoroutine()
		verifTraceMu.Lock()
		defer verifTraceMu.Unlock()
		id, ok := verifTraceIDs[mu]
		if !ok {
			id = len(verifTraceIDs) + 1
			verifTraceIDs[mu] = id
		}
		fmt.Fprintf(verifTraceFile, "{\"g\":%d,\"ev\":%q,\"res\":%q,\"m\":%d}\n", g, ev, res, id)
	}
}
`

func c20CopyTree(src, dst string) error {
	return filepath.WalkDir(src, func(p string, d fs.DirEntry, err error) error {
		if err != nil {
			return err
		}
		rel, _ := filepath.Rel(src, p)
		if d.IsDir() {
			if d.Name() == ".git" {
				return filepath.SkipDir
			}
			return os.MkdirAll(filepath.Join(dst, rel), 0o755)
		}
		if !d.Type().IsRegular() {
			return nil
		}
		in, err := os.Open(p)
		if err != nil {
			return err
		}
		defer in.Close()
		out, err := os.Create(filepath.Join(dst, rel))
		if err != nil {
			return err
		}
		defer out.Close()
		_, err = io.Copy(out, in)
		return err
	})
}

func TestC20RepoSuiteTrace(t *testing.T) {
	rep := NewReport("C20")
	defer rep.Finish(t)
	rep.Rule = "the samlidp test suite of the tree under test is run unedited in a scratch copy with the verif tag and a recorder in samlidp.VerifHook (one added test file that only installs the hook); every lock operation and guarded map access of the server and the in-memory store is logged as {goroutine, event, resource, mutex}; spec/RepoLockTrace.tla (sync.RWMutex, no re-entrant requests, maps read under the mutex and written under the write lock, everything free at the end) must consume every line"
	tmp, err := os.MkdirTemp("", "verif-repotrace-")
	if err != nil {
		rep.Break("%v", err)
		return
	}
	defer os.RemoveAll(tmp)
	if err := c20CopyTree(repoPath(), tmp); err != nil {
		rep.Break("cannot copy the tree under test: %v", err)
		return
	}
	if err := os.WriteFile(filepath.Join(tmp, "samlidp", "zz_verif_recorder_test.go"), []byte(c20RepoRecorder), 0o644); err != nil {
		rep.Break("%v", err)
		return
	}
	out := filepath.Join(workDir(), "repolocks.ndjson")
	os.Remove(out)
	cmd := exec.Command("go", "test", "-tags", "verif", "-vet=off", "-count=1", "./samlidp/")
	cmd.Dir = tmp
	cmd.Env = append(os.Environ(), "VERIF_LOCKTRACE="+out, "GOFLAGS=-mod=mod", "GOPROXY=off", "GOSUMDB=off", "GOTOOLCHAIN=local")
	var buf bytes.Buffer
	cmd.Stdout, cmd.Stderr = &buf, &buf
	if err := cmd.Run(); err != nil {
		// the repository's own suite failing is behaviour of the tree under test, but not a clause of C20:
		// the lock history it left behind is validated all the same when there is one
		rep.Note("the samlidp suite did not pass with the verif tag on (%v): %s", err, lastLines(buf.String(), 5))
	}
	f, err := os.Open(out)
	if err != nil {
		rep.Break("the suite recorded no lock history (%v): %s", err, lastLines(buf.String(), 5))
		return
	}
	defer f.Close()
	n := 0
	kinds := map[string]int{}
	sc := bufio.NewScanner(f)
	for sc.Scan() {
		n++
		line := sc.Text()
		if i := strings.Index(line, `"ev":"`); i >= 0 {
			ev := line[i+6:]
			ev = ev[:strings.Index(ev, `"`)]
			kinds[ev]++
			rep.Eval("RecordedEvent", ev)
		}
	}
	if n == 0 || kinds["lock-acq"] == 0 || kinds["rlock-acq"] == 0 {
		rep.Break("the recorded history is empty or has no acquisitions (%d lines, %v)", n, kinds)
		return
	}
	rep.Trace(n)
	rep.Extra["repo_suite_lock_events"] = n
	rep.Extra["repo_suite_event_kinds"] = fmt.Sprint(kinds)
}

func lastLines(s string, k int) string {
	l := strings.Split(strings.TrimSpace(s), "\n")
	if len(l) > k {
		l = l[len(l)-k:]
	}
	return strings.Join(l, " | ")
}
