package harness

import (
	"bytes"
	"compress/flate"
	"encoding/base64"
	"encoding/json"
	"encoding/xml"
	"fmt"
	"html"
	"io"
	"log"
	"math/rand"
	"net/http"
	"net/http/httptest"
	"net/url"
	"os"
	"strconv"
	"strings"
	"sync"
	"time"

	"github.com/beevik/etree"

	"github.com/crewjam/saml"
)

// helpers for C05 (spec/IdPRequest.tla) and C06 (spec/IdPRespond.tla): registry
// shapes as real metadata, hand-built AuthnRequests, binding encodings, the IdP
// object with stub providers, and a reader for the emitted HTML form.

const (
	idpreqOtherEntityID = "https://other.example.com/entity"
	idpreqUnknownBind   = "urn:example:bindings:not-a-saml-binding"
)

// location names of the specs -> concrete URLs.  B extends A (prefix confusion),
// O belongs to the other registered SP.
var idpreqLoc = map[string]string{
	"A": "https://sp.example.com/saml/acs",
	"B": "https://sp.example.com/saml/acs2",
	"C": "HTTPS://sp.example.com/other/acs#", // upper-case scheme, empty fragment: valid, and to be used exactly as registered
	"O": "https://other.example.com/saml/acs",
}

var idpreqBinding = map[string]string{
	"POST":     saml.HTTPPostBinding,
	"Redirect": saml.HTTPRedirectBinding,
	"Artifact": saml.HTTPArtifactBinding,
	"unknown":  idpreqUnknownBind,
}

var idpreqLogger = log.New(io.Discard, "", 0)

type idpreqEP struct {
	B   string `json:"b"`
	Idx int    `json:"idx"`
	Def string `json:"def"`
	Loc string `json:"loc"`
}

type idpreqIn struct {
	Kind  string `json:"kind"`
	Enc   string `json:"enc"`
	Frame string `json:"frame"`
	Iss   string `json:"iss"`
	Dest  string `json:"dest"`
	Ver   string `json:"ver"`
	II    string `json:"ii"`
	URL   string `json:"url"`
	Idx   string `json:"idx"`
	Subj  bool   `json:"subj,omitempty"` // the request proposes a subject: <saml:Subject> with a requester-written NameID
}

// idpreqRequesterNameID is the name identifier a requester writes into its AuthnRequest: nobody's session has it.
const idpreqRequesterNameID = "admin@requester.example.com"

type idpreqVec struct {
	Mid      int64        `json:"mid"`
	Reg      [][]idpreqEP `json:"reg"`
	OtherReg [][]idpreqEP `json:"otherReg"`
	In       idpreqIn     `json:"in"`
	II       int64        `json:"ii"`
	Class    string       `json:"class"`
	Why      struct {
		Undecodable bool `json:"undecodable"`
		Stale       bool `json:"stale"`
		Version     bool `json:"version"`
		Dest        bool `json:"dest"`
		Issuer      bool `json:"issuer"`
		NoEndpoint  bool `json:"noEndpoint"`
		Open        bool `json:"open"`
	} `json:"why"`
	Adm  [][2]int `json:"adm"`
	Pred struct {
		Verdict string `json:"verdict"`
		Step    string `json:"step"`
		Sel     [2]int `json:"sel"`
	} `json:"pred"`
}

func idpreqRegKey(reg [][]idpreqEP) string {
	b, _ := json.Marshal(reg)
	return hashKey(string(b))
}

func (v *idpreqVec) caseKey() string {
	in := v.In
	if in.Kind == "idpinit" {
		return fmt.Sprintf("C05:idpinit:iss=%s:reg=%s", in.Iss, idpreqRegKey(v.Reg))
	}
	return fmt.Sprintf("C05:iss=%s:dest=%s:ver=%s:ii=%s:url=%s:idx=%s:enc=%s:frame=%s:mid=%d:reg=%s",
		in.Iss, in.Dest, in.Ver, in.II, in.URL, in.Idx, in.Enc, in.Frame, v.Mid, idpreqRegKey(v.Reg))
}

// ---------------------------------------------------------------------------
// registry: metadata built from the shape, serialised, re-parsed, registered

type idpreqExtras struct {
	AttrServices []saml.AttributeConsumingService // placed in the first descriptor
	EncCert      string                           // base64 certificate advertised for encryption ("" = none)
}

type idpreqRegistered struct {
	XML []byte
	MD  *saml.EntityDescriptor // what the provider hands to the IdP: the re-parsed metadata
}

func idpreqBuildMetadata(entityID string, reg [][]idpreqEP, ex *idpreqExtras) (*idpreqRegistered, error) {
	md := saml.EntityDescriptor{EntityID: entityID}
	for d, eps := range reg {
		desc := saml.SPSSODescriptor{SSODescriptor: saml.SSODescriptor{RoleDescriptor: saml.RoleDescriptor{ProtocolSupportEnumeration: nsProtocol}}}
		for _, e := range eps {
			ie := saml.IndexedEndpoint{Binding: idpreqBinding[e.B], Location: idpreqLoc[e.Loc], Index: e.Idx}
			// every other endpoint also carries the optional ResponseLocation attribute of EndpointType,
			// pointing elsewhere: responses go to Location - nothing may be routed to this one
			if (e.Idx+d)%2 == 1 {
				rl := "https://elsewhere.example.net/response-location"
				ie.ResponseLocation = &rl
			}
			switch e.Def {
			case "true":
				t := true
				ie.IsDefault = &t
			case "false":
				f := false
				ie.IsDefault = &f
			}
			desc.AssertionConsumerServices = append(desc.AssertionConsumerServices, ie)
		}
		if ex != nil && d == 0 {
			desc.AttributeConsumingServices = ex.AttrServices
			if ex.EncCert != "" {
				desc.KeyDescriptors = []saml.KeyDescriptor{
					{Use: "signing", KeyInfo: saml.KeyInfo{X509Data: saml.X509Data{X509Certificates: []saml.X509Certificate{{Data: ex.EncCert}}}}},
					{Use: "encryption", KeyInfo: saml.KeyInfo{X509Data: saml.X509Data{X509Certificates: []saml.X509Certificate{{Data: ex.EncCert}}}},
						EncryptionMethods: []saml.EncryptionMethod{{Algorithm: "http://www.w3.org/2001/04/xmlenc#aes128-cbc"}}},
				}
			}
		}
		md.SPSSODescriptors = append(md.SPSSODescriptors, desc)
	}
	b, err := xml.Marshal(md)
	if err != nil {
		return nil, fmt.Errorf("marshal metadata: %v", err)
	}
	parsed := &saml.EntityDescriptor{}
	if err := xml.Unmarshal(b, parsed); err != nil {
		return nil, fmt.Errorf("re-parse metadata: %v", err)
	}
	return &idpreqRegistered{XML: b, MD: parsed}, nil
}

var idpreqMDCache sync.Map

func idpreqMetadataFor(entityID string, reg [][]idpreqEP) (*idpreqRegistered, error) {
	k := entityID + "|" + idpreqRegKey(reg)
	if v, ok := idpreqMDCache.Load(k); ok {
		return v.(*idpreqRegistered), nil
	}
	r, err := idpreqBuildMetadata(entityID, reg, nil)
	if err != nil {
		return nil, err
	}
	idpreqMDCache.Store(k, r)
	return r, nil
}

// idpreqAgrees checks that the re-parsed registry is the one the spec assumes
// (same endpoints in the same order; unknown bindings registered without location).
func idpreqAgrees(r *idpreqRegistered, reg [][]idpreqEP) string {
	if len(r.MD.SPSSODescriptors) != len(reg) {
		return "descriptor count"
	}
	for d, eps := range reg {
		got := r.MD.SPSSODescriptors[d].AssertionConsumerServices
		if len(got) != len(eps) {
			return "endpoint count"
		}
		for e, ep := range eps {
			want := idpreqLoc[ep.Loc]
			if ep.B == "unknown" {
				want = ""
			}
			g := got[e]
			def := "nil"
			if g.IsDefault != nil {
				def = strconv.FormatBool(*g.IsDefault)
			}
			if g.Binding != idpreqBinding[ep.B] || g.Location != want || g.Index != ep.Idx || def != ep.Def {
				return fmt.Sprintf("endpoint %d/%d registered as %+v", d+1, e+1, g)
			}
		}
	}
	return ""
}

type idpreqProvider map[string]*saml.EntityDescriptor

func (p idpreqProvider) GetServiceProvider(_ *http.Request, id string) (*saml.EntityDescriptor, error) {
	if md, ok := p[id]; ok && md != nil {
		return md, nil
	}
	return nil, os.ErrNotExist
}

type idpreqSessions struct{ s *saml.Session }

func (p idpreqSessions) GetSession(w http.ResponseWriter, _ *http.Request, _ *saml.IdpAuthnRequest) *saml.Session {
	if p.s == nil {
		http.Error(w, "no session", http.StatusUnauthorized)
		return nil
	}
	c := *p.s
	return &c
}

func idpreqSession() *saml.Session {
	return &saml.Session{ID: "sess-fixed", Index: "sidx-fixed", NameID: "alice@idp.example.com",
		CreateTime: time.Date(2024, 3, 10, 9, 0, 0, 0, time.UTC), ExpireTime: time.Date(2034, 3, 10, 9, 0, 0, 0, time.UTC),
		UserName: "alice", UserEmail: "alice@example.com"}
}

// the IdP's other endpoints (a complete configuration as samlidp.New makes it)
const (
	idpreqLoginURL  = "https://idp.example.com/saml/login"
	idpreqLogoutURL = "https://idp.example.com/saml/logout"
)

func idpreqNewIdP(prov saml.ServiceProviderProvider, sess saml.SessionProvider) *saml.IdentityProvider {
	k := key("idp1")
	return &saml.IdentityProvider{
		Key: k.Key, Certificate: k.Cert, Logger: idpreqLogger,
		MetadataURL: mustURL(idpEntityID), SSOURL: mustURL(idpSSOURL),
		LoginURL: mustURL(idpreqLoginURL), LogoutURL: mustURL(idpreqLogoutURL),
		ServiceProviderProvider: prov, SessionProvider: sess,
	}
}

// ---------------------------------------------------------------------------
// concretisation of the abstract request

func idpreqPick(rng *rand.Rand, alts ...string) string { return alts[rng.Intn(len(alts))] }

// idpreqNearMiss returns a string that differs from s only by case, a slash, a
// query, a missing last character, an extra suffix or surrounding white space.
func idpreqNearMiss(s string, rng *rand.Rand) string {
	switch rng.Intn(7) {
	case 0: // case of the last path letter
		i := len(s) - 1
		for i > 0 && !(s[i] >= 'a' && s[i] <= 'z') {
			i--
		}
		return s[:i] + strings.ToUpper(s[i:i+1]) + s[i+1:]
	case 1:
		return s + "/"
	case 2:
		return s + "?x=1"
	case 3:
		return s[:len(s)-1]
	case 4:
		return s + idpreqPick(rng, "2", "x", "%00", "#f")
	case 5:
		return strings.Replace(s, "https://", "HTTPS://", 1)
	default:
		return idpreqPick(rng, " "+s, s+" ")
	}
}

func idpreqInstant(now time.Time, offMs int64, rng *rand.Rand) string {
	t := now.Add(time.Duration(offMs) * time.Millisecond)
	switch rng.Intn(5) {
	case 0:
		return t.UTC().Format("2006-01-02T15:04:05.000Z")
	case 1:
		loc := time.FixedZone("", (rng.Intn(27)-13)*3600+rng.Intn(2)*1800)
		return t.In(loc).Format("2006-01-02T15:04:05.000Z07:00")
	case 2: // sub-millisecond noise that must round away
		n := time.Duration(rng.Intn(499)) * time.Microsecond
		return t.Add(n).UTC().Format("2006-01-02T15:04:05.000000Z")
	case 3:
		n := time.Duration(rng.Intn(499999)) * time.Nanosecond
		loc := time.FixedZone("", (rng.Intn(27)-13)*3600)
		return t.Add(n).In(loc).Format("2006-01-02T15:04:05.000000000Z07:00")
	default:
		return t.UTC().Format("2006-01-02T15:04:05.000")
	}
}

type idpreqConcrete struct {
	ID, RelayState string
	XML            []byte
	Method, URL    string
	Body           string
	CType          string
}

// idpreqRequestXML writes the AuthnRequest by hand; every attribute is optional.
func idpreqRequestXML(v *idpreqVec, now time.Time, rng *rand.Rand, id string) []byte {
	in := v.In
	el := etree.NewElement("samlp:AuthnRequest")
	el.CreateAttr("xmlns:samlp", nsProtocol)
	el.CreateAttr("xmlns:saml", nsAssertion)
	el.CreateAttr("ID", id)
	switch in.Ver {
	case "2.0":
		el.CreateAttr("Version", "2.0")
	case "1.1":
		el.CreateAttr("Version", idpreqPick(rng, "1.1", "1.0", "3.0", "2.1"))
	case "near":
		el.CreateAttr("Version", idpreqPick(rng, "2.0 ", " 2.0", "2", "2.00", "02.0", "2.0.0", "2,0"))
	case "empty":
		el.CreateAttr("Version", "")
	}
	switch in.II {
	case "absent":
	case "ancient":
		el.CreateAttr("IssueInstant", idpreqPick(rng, "1000-01-01T00:00:00Z", "1066-10-14T09:00:00Z", "1492-10-12T06:00:00.000Z", "1600-02-29T12:00:00+01:00", "1675-06-01T00:00:00Z", "0101-01-01T00:00:00Z"))
	case "garbage":
		el.CreateAttr("IssueInstant", idpreqPick(rng, "yesterday", "2024-13-45T99:00:00Z", "1710064800", "2024-03-10 10:00:00"))
	default:
		el.CreateAttr("IssueInstant", idpreqInstant(now, v.II, rng))
	}
	switch in.Dest {
	case "eq":
		el.CreateAttr("Destination", idpSSOURL)
	case "nearmiss":
		el.CreateAttr("Destination", idpreqNearMiss(idpSSOURL, rng))
	case "other":
		el.CreateAttr("Destination", idpreqPick(rng, "https://evil.example.net/saml/sso", idpEntityID, "https://idp.example.com/", "sso"))
	case "ownurl": // another endpoint of the same IdP
		el.CreateAttr("Destination", []string{idpreqLoginURL, idpreqLogoutURL, idpEntityID}[rng.Intn(3)])
	case "empty":
		el.CreateAttr("Destination", "")
	}
	switch in.URL {
	case "absent":
	case "empty":
		el.CreateAttr("AssertionConsumerServiceURL", "")
	case "unreg":
		el.CreateAttr("AssertionConsumerServiceURL", idpreqPick(rng, "https://evil.example.net/acs", "https://sp.example.com/", "https://sp.example.com.evil.example.net/saml/acs", "javascript:alert(1)"))
	case "nearmiss":
		target := idpreqLoc["A"]
		for _, eps := range v.Reg {
			for _, e := range eps {
				if e.B != "unknown" && rng.Intn(2) == 0 {
					target = idpreqLoc[e.Loc]
				}
			}
		}
		nm := idpreqNearMiss(target, rng)
		for _, u := range idpreqLoc { // a near miss of A must not be B
			if nm == u {
				nm = target + "/"
			}
		}
		el.CreateAttr("AssertionConsumerServiceURL", nm)
	default:
		el.CreateAttr("AssertionConsumerServiceURL", idpreqLoc[in.URL])
	}
	switch in.Idx {
	case "absent":
	case "empty":
		el.CreateAttr("AssertionConsumerServiceIndex", "")
	case "n0", "n1", "n2":
		el.CreateAttr("AssertionConsumerServiceIndex", in.Idx[1:])
	case "unknown":
		el.CreateAttr("AssertionConsumerServiceIndex", idpreqPick(rng, "7", "99", "-1", "65536", "4294967297", "18446744073709551617"))
	case "nonnum":
		el.CreateAttr("AssertionConsumerServiceIndex", idpreqPick(rng, "abc", "one", "idx", "-", "NaN"))
	case "lead0":
		el.CreateAttr("AssertionConsumerServiceIndex", idpreqPick(rng, "01", "001", "0000001"))
	case "plus":
		el.CreateAttr("AssertionConsumerServiceIndex", "+1")
	}
	if rng.Intn(2) == 0 {
		el.CreateAttr("ProtocolBinding", saml.HTTPPostBinding)
	}
	issuer := func(val string) {
		is := el.CreateElement("saml:Issuer")
		if rng.Intn(2) == 0 {
			is.CreateAttr("Format", "urn:oasis:names:tc:SAML:2.0:nameid-format:entity")
		}
		is.SetText(val)
	}
	switch in.Iss {
	case "reg":
		issuer(spEntityID)
	case "other":
		issuer(idpreqOtherEntityID)
	case "alias": // C06: a second name under which the registry knows the same SP
		issuer(spMetadata)
	case "unknown":
		if rng.Intn(2) == 0 {
			issuer(idpreqNearMiss(spEntityID, rng))
		} else {
			issuer(idpreqPick(rng, "https://evil.example.net/entity", idpEntityID, idpreqLoc["A"], "sp"))
		}
	case "empty":
		el.CreateElement("saml:Issuer")
	}
	if in.Subj {
		sub := el.CreateElement("saml:Subject")
		nid := sub.CreateElement("saml:NameID")
		if rng.Intn(2) == 0 {
			nid.CreateAttr("Format", "urn:oasis:names:tc:SAML:1.1:nameid-format:emailAddress")
		}
		nid.SetText(idpreqRequesterNameID)
	}
	if rng.Intn(2) == 0 {
		np := el.CreateElement("samlp:NameIDPolicy")
		np.CreateAttr("AllowCreate", "true")
		np.CreateAttr("Format", "urn:oasis:names:tc:SAML:2.0:nameid-format:transient")
	}
	doc := etree.NewDocument()
	doc.SetRoot(el)
	b, err := doc.WriteToBytes()
	if err != nil {
		panic(err)
	}
	return b
}

func idpreqDeflate(b []byte, level int) []byte {
	var buf bytes.Buffer
	w, err := flate.NewWriter(&buf, level)
	if err != nil {
		panic(err)
	}
	w.Write(b)
	w.Close()
	return buf.Bytes()
}

const idpreqBombSize = 11 << 20 // more than flate.go's 10 MB limit, more than net/http's form limit

func idpreqConcretise(v *idpreqVec, now time.Time, rng *rand.Rand) *idpreqConcrete {
	c := &idpreqConcrete{ID: fmt.Sprintf("id-%08x%08x", rng.Uint32(), rng.Uint32())}
	if rng.Intn(2) == 0 {
		c.RelayState = idpreqPick(rng, "rs-token", "https://sp.example.com/app?x=1&y=2", "a b+c")
	}
	c.XML = idpreqRequestXML(v, now, rng, c.ID)
	in := v.In
	doc := c.XML
	s := string(doc)
	switch in.Frame {
	case "wrongroot":
		switch rng.Intn(3) {
		case 0:
			s = strings.Replace(s, "samlp:AuthnRequest", "samlp:LogoutRequest", 1)
		case 1:
			s = strings.Replace(s, `xmlns:samlp="`+nsProtocol+`"`, `xmlns:samlp="urn:oasis:names:tc:SAML:1.0:protocol"`, 1)
		default:
			s = strings.Replace(s, "samlp:AuthnRequest", "samlp:authnrequest", 1)
		}
		doc = []byte(s)
	case "unstable":
		i := strings.Index(s, " ID=")
		switch rng.Intn(3) {
		case 0:
			s = s[:i] + ` saml::a="1"` + s[i:]
		case 1: // a child element with a double-colon name
			s = strings.Replace(s, "</samlp:AuthnRequest>", "<saml::Extra/></samlp:AuthnRequest>", 1)
		default:
			s = strings.Replace(s, "<samlp:AuthnRequest", "<samlp::AuthnRequest", 1)
		}
		doc = []byte(s)
	case "notxml":
		doc = []byte(idpreqPick(rng, "this is not XML", "SAMLRequest", `{"json":true}`, "<samlp:AuthnRequest", ""))
	case "bomb":
		doc = append(append([]byte{}, doc...), bytes.Repeat([]byte(" "), idpreqBombSize)...)
	}
	post := in.Enc == "post" || (in.Enc == "any" && rng.Intn(2) == 0)
	var payload string
	switch {
	case in.Frame == "notb64":
		payload = idpreqPick(rng, "!!! not base64 !!!", "%%%", "ab=cd*")
	case post && in.Frame == "notdeflate": // deflated although the POST binding carries plain base64
		payload = base64.StdEncoding.EncodeToString(idpreqDeflate(doc, flate.BestSpeed))
	case post:
		payload = base64.StdEncoding.EncodeToString(doc)
	case in.Frame == "notdeflate":
		payload = base64.StdEncoding.EncodeToString(doc)
	default:
		payload = base64.StdEncoding.EncodeToString(idpreqDeflate(doc, []int{flate.NoCompression, flate.BestSpeed, flate.DefaultCompression, flate.BestCompression}[rng.Intn(4)]))
	}
	q := url.Values{}
	q.Set("SAMLRequest", payload)
	if c.RelayState != "" {
		q.Set("RelayState", c.RelayState)
	}
	if post {
		c.Method, c.URL, c.Body, c.CType = "POST", idpSSOURL, q.Encode(), "application/x-www-form-urlencoded"
	} else {
		c.Method, c.URL = "GET", idpSSOURL+"?"+q.Encode()
	}
	if in.Frame == "put" {
		c.Method = idpreqPick(rng, "PUT", "DELETE", "HEAD", "PATCH", "get")
	}
	return c
}

func (c *idpreqConcrete) httpRequest() *http.Request {
	var body io.Reader
	if c.Body != "" {
		body = strings.NewReader(c.Body)
	}
	r := httptest.NewRequest("GET", c.URL, body)
	r.Method = c.Method
	if c.CType != "" {
		r.Header.Set("Content-Type", c.CType)
	}
	r.RemoteAddr = "192.0.2.7:4711"
	return r
}

// ---------------------------------------------------------------------------
// the emitted HTML form

type idpreqForm struct {
	Method, Action string
	Fields         map[string]string
}

func idpreqTagAttrs(tag string) map[string]string {
	out := map[string]string{}
	i := 0
	for i < len(tag) && tag[i] != ' ' && tag[i] != '>' {
		i++
	}
	for i < len(tag) {
		for i < len(tag) && (tag[i] == ' ' || tag[i] == '/' || tag[i] == '\n' || tag[i] == '\t') {
			i++
		}
		j := i
		for j < len(tag) && tag[j] != '=' && tag[j] != ' ' && tag[j] != '>' {
			j++
		}
		if j >= len(tag) || j == i {
			break
		}
		name := strings.ToLower(tag[i:j])
		if tag[j] != '=' {
			out[name] = ""
			i = j
			continue
		}
		j++
		if j < len(tag) && (tag[j] == '"' || tag[j] == '\'') {
			q := tag[j]
			k := strings.IndexByte(tag[j+1:], q)
			if k < 0 {
				break
			}
			if _, dup := out[name]; !dup {
				out[name] = html.UnescapeString(tag[j+1 : j+1+k])
			}
			i = j + 2 + k
		} else {
			k := j
			for k < len(tag) && tag[k] != ' ' && tag[k] != '>' {
				k++
			}
			if _, dup := out[name]; !dup {
				out[name] = html.UnescapeString(tag[j:k])
			}
			i = k
		}
	}
	return out
}

// idpreqParseForm reads the single form of the page written by WriteResponse.
func idpreqParseForm(page string) (*idpreqForm, error) {
	lower := strings.ToLower(page)
	if strings.Count(lower, "<form") != 1 {
		return nil, fmt.Errorf("%d form elements", strings.Count(lower, "<form"))
	}
	fi := strings.Index(lower, "<form")
	fe := strings.Index(lower[fi:], ">")
	end := strings.Index(lower, "</form>")
	if fe < 0 || end < 0 {
		return nil, fmt.Errorf("unterminated form")
	}
	at := idpreqTagAttrs(page[fi : fi+fe+1])
	f := &idpreqForm{Method: strings.ToLower(at["method"]), Action: at["action"], Fields: map[string]string{}}
	rest := page[fi+fe+1 : end]
	for {
		i := strings.Index(strings.ToLower(rest), "<input")
		if i < 0 {
			break
		}
		e := strings.Index(rest[i:], ">")
		if e < 0 {
			return nil, fmt.Errorf("unterminated input")
		}
		ia := idpreqTagAttrs(rest[i : i+e+1])
		if n, ok := ia["name"]; ok {
			if _, dup := f.Fields[n]; dup {
				return nil, fmt.Errorf("duplicate field %s", n)
			}
			f.Fields[n] = ia["value"]
		}
		rest = rest[i+e+1:]
	}
	return f, nil
}
