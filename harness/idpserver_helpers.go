package harness

import (
	"encoding/base64"
	"encoding/xml"
	"io"
	"log"
	"net/http"
	"net/http/httptest"
	"net/url"
	"regexp"
	"strings"

	"github.com/crewjam/saml"
	"github.com/crewjam/saml/samlidp"
)

// helpers around the bundled IdP server (samlidp), shared by C19 and C20

const idpSrvRoot = "https://idp.example.com"

var quietLogger = log.New(io.Discard, "", 0)

func newIdpSrv(store samlidp.Store) (*samlidp.Server, error) {
	k := key("idp1")
	return samlidp.New(samlidp.Options{
		URL:         url.URL{Scheme: "https", Host: "idp.example.com"},
		Key:         k.Key,
		Certificate: k.Cert,
		Logger:      quietLogger,
		Store:       store,
	})
}

// spMetaXML renders SP metadata with one POST ACS endpoint.
func spMetaXML(entityID, acs string, withEncCert bool) []byte {
	var kds []saml.KeyDescriptor
	if withEncCert {
		kds = append(kds, saml.KeyDescriptor{Use: "encryption", KeyInfo: saml.KeyInfo{X509Data: saml.X509Data{
			X509Certificates: []saml.X509Certificate{{Data: foldBase64(key("sp").CertB64())}}}}})
	}
	md := saml.EntityDescriptor{
		EntityID: entityID,
		SPSSODescriptors: []saml.SPSSODescriptor{{
			SSODescriptor: saml.SSODescriptor{RoleDescriptor: saml.RoleDescriptor{
				ProtocolSupportEnumeration: nsProtocol, KeyDescriptors: kds}},
			AssertionConsumerServices: []saml.IndexedEndpoint{{Binding: saml.HTTPPostBinding, Location: acs, Index: 1}},
		}},
	}
	b, err := xml.Marshal(md)
	if err != nil {
		panic(err)
	}
	return b
}

// foldBase64 writes base64 text the way metadata files carry certificates: lines of 64 characters.
func foldBase64(s string) string {
	var sb strings.Builder
	for i := 0; i < len(s); i += 64 {
		j := i + 64
		if j > len(s) {
			j = len(s)
		}
		sb.WriteString("\n" + s[i:j])
	}
	return sb.String() + "\n"
}

// authnRequestURL makes a redirect-binding AuthnRequest from an SP with the given entity ID.
func authnRequestURL(idpMD *saml.EntityDescriptor, entityID, acs, relay string) string {
	s := saml.ServiceProvider{EntityID: entityID, MetadataURL: mustURL(entityID), AcsURL: mustURL(acs), IDPMetadata: idpMD}
	u, err := s.MakeRedirectAuthenticationRequest(relay)
	if err != nil {
		panic(err)
	}
	return u.String()
}

type httpReq struct {
	Method, URL, Body, CType, Cookie string
}

func doHTTP(h http.Handler, q httpReq) *httptest.ResponseRecorder {
	var body io.Reader
	if q.Body != "" {
		body = strings.NewReader(q.Body)
	}
	r, err := http.NewRequest(q.Method, q.URL, body)
	if err != nil {
		panic(err)
	}
	if q.CType != "" {
		r.Header.Set("Content-Type", q.CType)
	}
	if q.Cookie != "" {
		r.Header.Set("Cookie", q.Cookie)
	}
	r.RemoteAddr = "192.0.2.1:1234"
	w := httptest.NewRecorder()
	h.ServeHTTP(w, r)
	return w
}

var reSAMLResponseField = regexp.MustCompile(`name="SAMLResponse" value="([^"]*)"`)
var reFormAction = regexp.MustCompile(`<form method="post" action="([^"]*)"`)

// samlResponseInBody extracts and decodes the SAMLResponse hidden field, if the body is a response form.
func samlResponseInBody(body string) ([]byte, string, bool) {
	m := reSAMLResponseField.FindStringSubmatch(body)
	if m == nil {
		return nil, "", false
	}
	v := strings.NewReplacer("&#43;", "+", "&#61;", "=", "&amp;", "&").Replace(m[1])
	b, err := base64.StdEncoding.DecodeString(v)
	if err != nil {
		return nil, "", false
	}
	action := ""
	if a := reFormAction.FindStringSubmatch(body); a != nil {
		action = strings.NewReplacer("&amp;", "&").Replace(a[1])
	}
	return b, action, true
}

func xmlUnmarshalStrict(b []byte, v any) error { return xml.Unmarshal(b, v) }

func urlQueryEscape(s string) string { return url.QueryEscape(s) }
