package harness

import (
	"bytes"
	"crypto"
	"crypto/ecdsa"
	"crypto/ed25519"
	"crypto/hmac"
	crand "crypto/rand"
	"crypto/rsa"
	"crypto/x509"
	"encoding/base64"
	"encoding/json"
	"encoding/pem"
	"errors"
	"fmt"
	"io"
	"math/rand"
	"net/http"
	"net/http/httptest"
	"net/url"
	"sort"
	"strings"
	"sync"
	"time"

	"github.com/golang-jwt/jwt/v4"

	"github.com/crewjam/saml"
	"github.com/crewjam/saml/samlsp"
)

// C16 helpers: abstract vectors of spec/SessionToken.tla, deployments built with the
// real samlsp.New, manual JWT assembly (hostile algorithms, claim variations, string
// mutations) and observation through RequireAccount / RequireAttribute / GetTrackedRequests.

const (
	c16Absent       = int64(-999999999) // SessionToken.tla: Absent
	c16CustomCookie = "c16sess"
	c16TrkLife      = 90
)

// c16Url is an Options.URL as the record of class strings of spec/SessionTokenUrl.tla:
// host sp | SP (same origin, other letter case) | sp2 (another origin), path "" | / | /wiki | /wiki/ |
// /payroll | /payroll/, query "" | t=a | t=b.  The zero value is the bare origin https://sp.example.com.
type c16Url struct {
	Host  string `json:"host"`
	Path  string `json:"path"`
	Query string `json:"query"`
}

func (u c16Url) norm() c16Url {
	if u.Host == "" {
		u.Host = "sp"
	}
	return u
}
func (u c16Url) bare() bool { return u.norm() == c16Url{Host: "sp"} }
func (u c16Url) none() bool { return u.Host == "-" } // NoUrl: a token assembled by hand
func (u c16Url) key() string {
	u = u.norm()
	if u.Query != "" {
		return u.Host + u.Path + "?" + u.Query
	}
	return u.Host + u.Path
}

var c16PathNames = [][2]string{{"wiki", "payroll"}, {"app", "api"}, {"tenants/acme", "tenants/umbrella"}}
var c16HostCases = []string{"SP.example.com", "sp.Example.com", "SP.EXAMPLE.COM"}
var c16OtherOrigins = []string{"https://sp2.example.com", "http://sp.example.com", "https://sp.example.com:8443", "https://sp.example.org"}
var c16QueryNames = []string{"tenant", "t", "realm"}

const c16UrlPicks = 3 * 3 * 4 * 3

// c16UrlConc turns a URL record into a string; pick (0 <= pick < c16UrlPicks) chooses the concrete names of
// the path, the spelling of the host, the other origin and the name of the query parameter.  For one pick the
// mapping is injective, so records that differ in one component give strings that differ in that component only.
func c16UrlConc(u c16Url, pick int) (string, error) {
	u = u.norm()
	names, hostCase, origin, qn := c16PathNames[pick%3], c16HostCases[(pick/3)%3], c16OtherOrigins[(pick/9)%4], c16QueryNames[(pick/36)%3]
	var out string
	switch u.Host {
	case "sp":
		out = spRoot
	case "SP":
		out = "https://" + hostCase
	case "sp2":
		out = origin
	default:
		return "", fmt.Errorf("URL record %+v: host class %q", u, u.Host)
	}
	switch u.Path {
	case "", "/":
		out += u.Path
	case "/wiki", "/wiki/":
		out += "/" + names[0] + u.Path[len("/wiki"):]
	case "/payroll", "/payroll/":
		out += "/" + names[1] + u.Path[len("/payroll"):]
	default:
		return "", fmt.Errorf("URL record %+v: path class %q", u, u.Path)
	}
	switch u.Query {
	case "":
	case "t=a", "t=b":
		out += "?" + qn + "=" + u.Query[2:]
	default:
		return "", fmt.Errorf("URL record %+v: query class %q", u, u.Query)
	}
	// what net/url makes of it must be the string itself: Options.URL.String() is what the model calls UrlString
	if p, err := url.Parse(out); err != nil || p.String() != out {
		return "", fmt.Errorf("URL record %+v: %q does not survive url.Parse + String (%v)", u, out, err)
	}
	return out, nil
}

func c16MustUrl(u c16Url, pick int) string {
	s, err := c16UrlConc(u, pick)
	if err != nil {
		panic(err)
	}
	return s
}

// Life is JWTSessionCodec.MaxAge (the session lifetime), CookieSecs CookieSessionProvider.MaxAge and
// CookieAge its class relative to the lifetime: equal | longer | shorter | zero ("" = equal: a
// configuration written down by hand in the history tests).  Url is Options.URL.
type c16Cfg struct {
	Spkey      string `json:"spkey"`
	Life       int64  `json:"life"`
	Cookie     string `json:"cookie"`
	CookieAge  string `json:"cookieAge,omitempty"`
	CookieSecs int64  `json:"cookieSecs"`
	Url        c16Url `json:"url"`
}

func (c c16Cfg) separated() bool { return c.CookieAge != "" && c.CookieAge != "equal" }

// cookieMaxAge is the cookie provider's MaxAge in seconds.
func (c c16Cfg) cookieMaxAge() int64 {
	if c.separated() {
		return c.CookieSecs
	}
	return c.Life
}

func (c c16Cfg) String() string {
	s := fmt.Sprintf("%s/%d/%s", c.Spkey, c.Life, c.Cookie)
	if c.separated() {
		s += "/cookie=" + c.CookieAge
	}
	if !c.Url.bare() {
		s += "/url=" + c.Url.key()
	}
	return s
}

// c16CfgSane: the class and the number of seconds the model states for the cookie agree.
func c16CfgSane(c c16Cfg) error {
	ok := false
	switch c.CookieAge {
	case "", "equal":
		ok = c.CookieAge == "" || c.CookieSecs == c.Life
	case "longer":
		ok = c.CookieSecs > c.Life && c.CookieSecs > 0
	case "shorter":
		ok = c.CookieSecs < c.Life && c.CookieSecs > 0
	case "zero":
		ok = c.CookieSecs == 0 && c.Life != 0
	}
	if !ok {
		return fmt.Errorf("configuration %s: cookie age class %q with cookieSecs=%d, life=%d", c, c.CookieAge, c.CookieSecs, c.Life)
	}
	return nil
}

// c16CkText renders a Max-Age attribute value of the model (c16Absent = no attribute).
func c16CkText(v int64) string {
	if v == c16Absent {
		return ""
	}
	return fmt.Sprint(v)
}

type c16Tok struct {
	Src      string `json:"src"`
	Kind     string `json:"kind"`
	Alg      string `json:"alg"`
	Key      string `json:"key"`
	Iss      string `json:"iss"`
	Aud      string `json:"aud"`
	Audform  string `json:"audform"`
	Iat      int64  `json:"iat"`
	Nbf      int64  `json:"nbf"`
	Exp      int64  `json:"exp"`
	Marker   string `json:"marker"`
	Mutation string `json:"mutation"`
	Slot     string `json:"slot"`
	Age      int64  `json:"age"`
	By       string `json:"by"` // minted: this | otherKey | otherURL | sibPath | sibQuery | sibSlash | sibCase
	// the shape of the request the token is presented in (GET without further headers everywhere except in the
	// family RequestShapes); slot "none" = the request carries no session cookie at all
	Req c16Shape `json:"req"`
}

// c16Shape is the request shape of a presentation: method x header set (none | preflight = Access-Control-Request-Method
// + Origin | xrw = X-Requested-With).
type c16Shape struct {
	Method string `json:"method"`
	Hdr    string `json:"hdr"`
}

func (s c16Shape) plain() bool {
	return (s.Method == "GET" || s.Method == "") && (s.Hdr == "none" || s.Hdr == "")
}
func (s c16Shape) String() string {
	if s.Method == "" {
		return "GET+none"
	}
	return s.Method + "+" + s.Hdr
}

var c16Methods = []string{"GET", "HEAD", "POST", "PUT", "DELETE", "OPTIONS"}
var c16HdrSets = []string{"none", "preflight", "xrw"}

// c16ShapeHeaders concretises a header-set class (the concrete values are chosen by the seed).
func c16ShapeHeaders(s c16Shape, rng *rand.Rand) (map[string]string, error) {
	pick := func(xs ...string) string {
		if rng == nil {
			return xs[0]
		}
		return xs[rng.Intn(len(xs))]
	}
	okM := false
	for _, m := range c16Methods {
		okM = okM || m == s.Method
	}
	if !okM && s.Method != "" {
		return nil, fmt.Errorf("unknown request method class %q", s.Method)
	}
	switch s.Hdr {
	case "", "none":
		return map[string]string{}, nil
	case "preflight":
		h := map[string]string{"Access-Control-Request-Method": pick("GET", "POST", "PUT", "DELETE", "PATCH"),
			"Origin": pick("https://app.example.org", "https://evil.example", "null", "http://localhost:3000")}
		if pick("", "x") != "" {
			h["Access-Control-Request-Headers"] = pick("content-type", "authorization, x-requested-with")
		}
		return h, nil
	case "xrw":
		return map[string]string{"X-Requested-With": pick("XMLHttpRequest", "fetch")}, nil
	}
	return nil, fmt.Errorf("unknown request header class %q", s.Hdr)
}

func c16ShapeText(v *c16Vec, hdrs map[string]string) string {
	if v.In.Req.plain() {
		return ""
	}
	var ks []string
	for k, x := range hdrs {
		ks = append(ks, k+": "+x)
	}
	sort.Strings(ks)
	what := ""
	if v.In.Req.Method == "OPTIONS" && v.In.Req.Hdr == "preflight" {
		what = " (the shape of a CORS preflight)"
	}
	return fmt.Sprintf(" - the request is %s with headers [%s]%s; the statement makes no exception for any request method or header",
		v.In.Req.Method, strings.Join(ks, "; "), what)
}

func c16IsSibling(by string) bool { return strings.HasPrefix(by, "sib") }

type c16Step struct {
	Verdict string `json:"verdict"`
	Step    string `json:"step"`
}

type c16Vec struct {
	Cfg   c16Cfg          `json:"cfg"`
	In    c16Tok          `json:"in"`
	Class string          `json:"class"`
	Why   map[string]bool `json:"why"`
	Pred  struct {
		Sess c16Step `json:"sess"`
		Out  string  `json:"out"`
		Trk  c16Step `json:"trk"`
	} `json:"pred"`
	// step NewCodecs of the model: the minting deployment's Options.URL, the audience = issuer its codec stamps
	// into the token and the audience = issuer this deployment's codecs require (NoUrl where there is none)
	Mint struct {
		Url c16Url `json:"url"`
		Aud c16Url `json:"aud"`
		Own c16Url `json:"own"`
	} `json:"mint"`
}

type c16Attr struct {
	Fn   string   `json:"fn"`
	Name string   `json:"name"`
	Vals []string `json:"vals"`
}

type c16Gate struct {
	Name  string `json:"name"`
	Value string `json:"value"`
	Admit bool   `json:"admit"`
	Class string `json:"class"`
}

type c16MapIn struct {
	Subject string      `json:"subject"`
	Stmts   [][]c16Attr `json:"stmts"`
	Authn   []string    `json:"authn"`
}

type c16MapVec struct {
	Cfg   c16Cfg   `json:"cfg"`
	In    c16MapIn `json:"in"`
	Class string   `json:"class"`
	Pred  struct {
		Subj           string              `json:"subj"`
		Claims         map[string][]string `json:"claims"`
		Exp            int64               `json:"exp"`      // token end, seconds after the mint
		CkMaxAge       int64               `json:"ckMaxAge"` // Max-Age attribute of the Set-Cookie (c16Absent = none)
		Aud            c16Url              `json:"aud"`      // audience = issuer the codec stamps
		Gates          []c16Gate           `json:"gates"`
		NoSessionAdmit bool                `json:"noSessionAdmit"`
	} `json:"pred"`
}

// part "life" of SessionToken.tla: an assertion in which the IdP states ends of its own, and the
// age at which the minted token comes back
type c16LifeIn struct {
	Subject string      `json:"subject"`
	Stmts   [][]c16Attr `json:"stmts"`
	Authn   []string    `json:"authn"` // SessionIndex symbol per AuthnStatement, "" = absent
	Sna     []string    `json:"sna"`   // position of its SessionNotOnOrAfter
	Cond    string      `json:"cond"`  // position of Conditions/@NotOnOrAfter
	Scd     string      `json:"scd"`   // position of SubjectConfirmationData/@NotOnOrAfter
	Age     int64       `json:"age"`
}

type c16LifeVec struct {
	Cfg   c16Cfg          `json:"cfg"`
	In    c16LifeIn       `json:"in"`
	Class string          `json:"class"`
	Why   map[string]bool `json:"why"`
	At    struct {        // the ends in seconds after the mint (c16Absent = not stated)
		Sna  []int64 `json:"sna"`
		Cond int64   `json:"cond"`
		Scd  int64   `json:"scd"`
	} `json:"at"`
	Pred struct {
		Out      string              `json:"out"`
		Exp      int64               `json:"exp"`
		CkMaxAge int64               `json:"ckMaxAge"` // Max-Age attribute of the Set-Cookie (c16Absent = none)
		Aud      c16Url              `json:"aud"`      // audience = issuer the codec stamps
		Subj     string              `json:"subj"`
		Claims   map[string][]string `json:"claims"`
	} `json:"pred"`
}

func c16LifeKey(v *c16LifeVec) string {
	var as []string
	for i, s := range v.In.Authn {
		if s == "" {
			s = "-"
		}
		as = append(as, s+"/"+v.In.Sna[i])
	}
	return fmt.Sprintf("C16:life:%s:authn=[%s]:cond=%s:scd=%s:age=%d", v.Cfg, strings.Join(as, ","), v.In.Cond, v.In.Scd, v.In.Age)
}

// c16LifeEnds are the concrete instants the IdP states, derived from the vector's offsets.
type c16LifeEnds struct {
	Sna  []*time.Time `json:"session_not_on_or_after"`
	Cond *time.Time   `json:"conditions_not_on_or_after"`
	Scd  *time.Time   `json:"subject_confirmation_not_on_or_after"`
}

func c16LifeEndsOf(v *c16LifeVec, mintSec int64, rng *rand.Rand) c16LifeEnds {
	at := func(off int64) *time.Time {
		if off == c16Absent {
			return nil
		}
		t := time.Unix(mintSec+off, rng.Int63n(int64(time.Second))).UTC()
		return &t
	}
	var e c16LifeEnds
	for _, off := range v.At.Sna {
		e.Sna = append(e.Sna, at(off))
	}
	e.Cond, e.Scd = at(v.At.Cond), at(v.At.Scd)
	return e
}

// c16LifeAssertion adds the IdP-stated ends to an assertion built by c16BuildAssertion.
func c16LifeAssertion(a *saml.Assertion, e c16LifeEnds, mintSec int64, recipient string) *saml.Assertion {
	mint := time.Unix(mintSec, 0).UTC()
	a.IssueInstant = mint.Add(-2 * time.Second)
	for i := range a.AuthnStatements {
		a.AuthnStatements[i].AuthnInstant = mint.Add(-5 * time.Second)
		if i < len(e.Sna) && e.Sna[i] != nil {
			t := *e.Sna[i]
			a.AuthnStatements[i].SessionNotOnOrAfter = &t
		}
	}
	if e.Cond != nil {
		a.Conditions = &saml.Conditions{NotBefore: mint.Add(-time.Minute), NotOnOrAfter: *e.Cond}
	} else if mintSec%2 == 0 {
		a.Conditions = &saml.Conditions{NotBefore: mint.Add(-time.Minute)}
	}
	if e.Scd != nil && a.Subject != nil {
		a.Subject.SubjectConfirmations = []saml.SubjectConfirmation{{Method: "urn:oasis:names:tc:SAML:2.0:cm:bearer",
			SubjectConfirmationData: &saml.SubjectConfirmationData{NotOnOrAfter: *e.Scd, Recipient: recipient}}}
	} else if a.Subject != nil && mintSec%3 == 0 {
		a.Subject.SubjectConfirmations = []saml.SubjectConfirmation{{Method: "urn:oasis:names:tc:SAML:2.0:cm:bearer",
			SubjectConfirmationData: &saml.SubjectConfirmationData{Recipient: recipient}}}
	}
	return a
}

func c16LifeText(v *c16LifeVec) string {
	var p []string
	for i, s := range v.In.Sna {
		if s != "none" {
			p = append(p, fmt.Sprintf("AuthnStatement %d SessionNotOnOrAfter = issue %+d s", i+1, v.At.Sna[i]))
		}
	}
	if v.In.Cond != "none" {
		p = append(p, fmt.Sprintf("Conditions NotOnOrAfter = issue %+d s", v.At.Cond))
	}
	if v.In.Scd != "none" {
		p = append(p, fmt.Sprintf("SubjectConfirmationData NotOnOrAfter = issue %+d s", v.At.Scd))
	}
	txt := "the assertion states no end"
	if len(p) > 0 {
		txt = strings.Join(p, ", ")
	}
	if v.Cfg.separated() {
		txt += fmt.Sprintf("; session codec MaxAge %d s, cookie provider MaxAge %d s (%s)", v.Cfg.Life, v.Cfg.CookieSecs, v.Cfg.CookieAge)
	}
	return txt
}

// ---------------------------------------------------------------------------
// keys of abstract cases

var c16Base = c16Tok{Src: "crafted", Kind: "session", Alg: "configured", Key: "this", Iss: "eq", Aud: "eq",
	Audform: "str", Iat: -1, Nbf: -1, Exp: 100000, Marker: "true", Mutation: "none", Slot: "named"}

func c16T(v int64) string {
	if v == c16Absent {
		return "absent"
	}
	return fmt.Sprint(v)
}

// c16TokKey names a token vector by its configuration and its deviations from the
// base token (crafted) or by its mint parameters (minted).
func c16TokKey(v *c16Vec) string {
	t, b := v.In, c16Base
	p := []string{"C16:tok", v.Cfg.String(), t.Src}
	add := func(n, val string) { p = append(p, n+"="+val) }
	if t.Src == "minted" {
		add("kind", t.Kind)
		if t.Kind == "tracking" {
			add("audform", t.Audform)
		}
		if t.Key != "this" {
			add("key", t.Key)
		}
		if c16IsSibling(t.By) {
			add("by", t.By)
		} else if t.Iss != "eq" {
			add("url", "other")
		}
		add("age", fmt.Sprint(t.Age))
	} else {
		if t.Kind != b.Kind {
			add("kind", t.Kind)
		}
		if t.Alg != b.Alg {
			add("alg", t.Alg)
		}
		if t.Key != b.Key {
			add("key", t.Key)
		}
		if t.Iss != b.Iss {
			add("iss", t.Iss)
		}
		if t.Aud != b.Aud {
			add("aud", t.Aud)
		}
		if t.Audform != b.Audform {
			add("audform", t.Audform)
		}
		if t.Iat != b.Iat {
			add("iat", c16T(t.Iat))
		}
		if t.Nbf != b.Nbf {
			add("nbf", c16T(t.Nbf))
		}
		if t.Exp != b.Exp {
			add("exp", c16T(t.Exp))
		}
		if t.Marker != b.Marker {
			add("marker", t.Marker)
		}
	}
	if t.Mutation != "none" {
		add("mut", t.Mutation)
	}
	if t.Slot != "named" {
		add("slot", t.Slot)
	}
	if !t.Req.plain() {
		add("req", t.Req.String())
	}
	return strings.Join(p, ":")
}

func c16MapKey(v *c16MapVec) string {
	b, _ := json.Marshal(v.In)
	return "C16:map:" + v.Cfg.String() + ":" + hashKey(string(b))
}

// ---------------------------------------------------------------------------
// deployments (real middlewares)

type c16Depl struct {
	m       *samlsp.Middleware
	kp      *KeyPair
	root    string // Options.URL as given
	base    string // scheme, host and path of root without trailing slash and query: where requests are sent
	cookie  string // configured session cookie name
	cfg     c16Cfg
	onError *int64
	note    string // what samlsp.New's defaults gave that the model of the configuration does not say (drift)
}

// at is the URL of a request to this deployment.
func (d *c16Depl) at(path string) string { return d.base + path }

func c16KeyName(spkey, which string) string {
	switch {
	case spkey == "RSA" && which == "this":
		return "sp"
	case spkey == "RSA":
		return "sp2"
	case which == "this":
		return "ec256"
	default:
		return "ec256b"
	}
}

const c16OnErrorHeader = "X-C16-Onerror"

func c16NewDepl(cfg c16Cfg, which, root string) (*c16Depl, error) {
	kp := key(c16KeyName(cfg.Spkey, which))
	opts := samlsp.Options{
		URL:         mustURL(root),
		Key:         kp.Key,
		Certificate: kp.Cert,
		IDPMetadata: idpMetadata([]keyUse{{"signing", key("idp1").CertB64()}}),
	}
	name := "token"
	if cfg.Cookie == "custom" {
		opts.CookieName = c16CustomCookie
		name = c16CustomCookie
	}
	m, err := samlsp.New(opts)
	if err != nil {
		return nil, err
	}
	note := ""
	if !cfg.separated() {
		// the session lifetime of the configuration is set on the default provider's codec (and cookie).  What
		// samlsp.New chooses when nothing is said is behaviour of the code under test: the model takes one hour
		// for it, another value is recorded (drift), the deployment gets the lifetime its vectors state
		sess, ok := m.Session.(samlsp.CookieSessionProvider)
		if !ok {
			return nil, fmt.Errorf("default session provider is %T", m.Session)
		}
		codec, ok := sess.Codec.(samlsp.JWTSessionCodec)
		if !ok {
			return nil, fmt.Errorf("default session codec is %T", sess.Codec)
		}
		if codec.MaxAge != time.Hour || sess.MaxAge != time.Hour {
			note = fmt.Sprintf("samlsp.New's defaults: session codec MaxAge %v, cookie MaxAge %v; the model of the default configuration says 1h for both", codec.MaxAge, sess.MaxAge)
		}
		codec.MaxAge = time.Duration(cfg.Life) * time.Second
		sess.Codec = codec
		sess.MaxAge = codec.MaxAge
		m.Session = sess
	}
	if cfg.separated() {
		// the two durations separated: the session provider is built by hand, the way a deployment does that
		// wants a persistent (or a browser-session) cookie around a token with its own lifetime
		method := jwt.SigningMethod(jwt.SigningMethodRS256)
		if cfg.Spkey == "ECDSA" {
			method = jwt.SigningMethodES256
		}
		m.Session = samlsp.CookieSessionProvider{
			Name:     name,
			Domain:   opts.URL.Host,
			HTTPOnly: true,
			Secure:   opts.URL.Scheme == "https",
			SameSite: opts.CookieSameSite,
			MaxAge:   time.Duration(cfg.CookieSecs) * time.Second,
			Codec: samlsp.JWTSessionCodec{
				SigningMethod: method,
				Audience:      opts.URL.String(),
				Issuer:        opts.URL.String(),
				MaxAge:        time.Duration(cfg.Life) * time.Second,
				Key:           kp.Key,
			},
		}
	}
	// the deployment has the two durations of its configuration (fields only: no code under test runs)
	if sess, ok := m.Session.(samlsp.CookieSessionProvider); !ok {
		return nil, fmt.Errorf("session provider is %T", m.Session)
	} else if codec, ok := sess.Codec.(samlsp.JWTSessionCodec); !ok {
		return nil, fmt.Errorf("session codec is %T", sess.Codec)
	} else if codec.MaxAge != time.Duration(cfg.Life)*time.Second || sess.MaxAge != time.Duration(cfg.cookieMaxAge())*time.Second {
		return nil, fmt.Errorf("deployment %s built with codec MaxAge %v and cookie MaxAge %v", cfg, codec.MaxAge, sess.MaxAge)
	}
	m.OnError = func(w http.ResponseWriter, _ *http.Request, _ error) {
		w.Header().Set(c16OnErrorHeader, "1")
		http.Error(w, http.StatusText(http.StatusForbidden), http.StatusForbidden)
	}
	base := opts.URL
	base.RawQuery, base.ForceQuery = "", false
	base.Path, base.RawPath = strings.TrimRight(base.Path, "/"), ""
	return &c16Depl{m: m, kp: kp, root: root, base: base.String(), cookie: name, cfg: cfg, note: note}, nil
}

type c16Env struct {
	mu    sync.Mutex
	depls map[string]*c16Depl
}

func (e *c16Env) depl(cfg c16Cfg, which, root string) *c16Depl {
	k := cfg.String() + "|" + which + "|" + root
	e.mu.Lock()
	defer e.mu.Unlock()
	if d, ok := e.depls[k]; ok {
		return d
	}
	d, err := c16NewDepl(cfg, which, root)
	if err != nil {
		panic(err)
	}
	if e.depls == nil {
		e.depls = map[string]*c16Depl{}
	}
	e.depls[k] = d
	return d
}

// strings that are "another" issuer / audience in a token assembled by hand: unrelated and near misses.
// (Deployments with another URL are URL records of the model: another origin - c16OtherOrigins - or a sibling
// that differs in the path, the query, a trailing slash or the letter case of the host.)
var c16OtherRoots = []string{"https://sp2.example.com", "https://sp.example.com/", "http://sp.example.com",
	"https://sp.example.com:8443", "https://sp.example.com/app", "https://sp.example.org"}
var c16OtherStrings = append([]string{"https://SP.example.com", "https://sp.example.co", "https://sp.example.com.evil.org",
	"sp.example.com", "https://idp.example.com/saml/metadata", " https://sp.example.com", "https://sp.example.com ", "*"}, c16OtherRoots...)

// ---------------------------------------------------------------------------
// assertions

var c16SafeSubjects = []string{"alice", "user-17", "u.name_x", "ZXhhbXBsZQ", "B0B", "a1-b2.c3_d4", "00042"}
var c16AnySubjects = []string{"alice@example.com", "CN=Alice Example,O=Org", "_transient-5f1c", "ålice ünïcode", "a b  c", "<s>&\"'", "日本語ユーザー"}
var c16AttrNames = []string{"uid", "mail", "eduPersonAffiliation", "urn:oid:1.3.6.1.4.1.5923.1.1.1.7", "groups", "Groups",
	"http://schemas.xmlsoap.org/claims/Group", "displayName", "cn", "memberOf", "role", "département", "属性", "urn:oid:0.9.2342.19200300.100.1.1", "group s"}
var c16AttrValues = []string{"admin", "Admin", "staff", "users", "alice@example.com", "a b", " lead", "trail ", "x,y", "<b>&\"'</b>",
	"日本語", "ADMIN", "administrators", "adm", "0", "true", "cn=admins,ou=groups,dc=example,dc=com", "line1\nline2", "tab\there", " sep", "{\"j\":1}"}

func c16Pick(rng *rand.Rand, pool []string, n int) []string {
	idx := rng.Perm(len(pool))
	out := make([]string, n)
	for i := 0; i < n; i++ {
		out[i] = pool[idx[i]]
	}
	return out
}

type c16ConcAttr struct {
	Fn, Name string
	Vals     []string
}

func c16BuildAssertion(nameID *string, withSubject bool, stmts [][]c16ConcAttr, authn []string) *saml.Assertion {
	a := &saml.Assertion{ID: "id-c16", Version: "2.0", Issuer: saml.Issuer{Value: idpEntityID}}
	if withSubject {
		a.Subject = &saml.Subject{}
		if nameID != nil {
			a.Subject.NameID = &saml.NameID{Format: "urn:oasis:names:tc:SAML:2.0:nameid-format:transient", Value: *nameID}
		}
	}
	for _, st := range stmts {
		as := saml.AttributeStatement{}
		for _, at := range st {
			x := saml.Attribute{FriendlyName: at.Fn, Name: at.Name, NameFormat: "urn:oasis:names:tc:SAML:2.0:attrname-format:basic"}
			for _, v := range at.Vals {
				x.Values = append(x.Values, saml.AttributeValue{Type: "xs:string", Value: v})
			}
			as.Attributes = append(as.Attributes, x)
		}
		a.AttributeStatements = append(a.AttributeStatements, as)
	}
	for _, si := range authn {
		a.AuthnStatements = append(a.AuthnStatements, saml.AuthnStatement{SessionIndex: si})
	}
	return a
}

// c16Expected is the statement's "exactly those of the assertion": for every claim name the
// values of the attributes so named, in document order.  byName keys every attribute by its
// Name (the reading that ignores FriendlyName); friendly keys by FriendlyName when present.
func c16Expected(stmts [][]c16ConcAttr, authn []string, byName bool) map[string][]string {
	out := map[string][]string{}
	for _, st := range stmts {
		for _, at := range st {
			k := at.Fn
			if k == "" || byName {
				k = at.Name
			}
			out[k] = append(out[k], at.Vals...)
		}
	}
	out["SessionIndex"] = append(out["SessionIndex"], authn...)
	return out
}

func c16SameAttrs(a, b map[string][]string) bool {
	keys := map[string]bool{}
	for k := range a {
		keys[k] = true
	}
	for k := range b {
		keys[k] = true
	}
	for k := range keys {
		x, y := a[k], b[k]
		if len(x) != len(y) {
			return false
		}
		for i := range x {
			if x[i] != y[i] {
				return false
			}
		}
	}
	return true
}

// ---------------------------------------------------------------------------
// minting with the real code

func c16Mint(d *c16Depl, a *saml.Assertion) (string, error) {
	tok, _, err := c16MintCookie(d, a)
	return tok, err
}

// c16MintCookie mints through the deployment's session provider (the ACS path) and also returns the
// Max-Age attribute of the Set-Cookie line as written ("" = no such attribute; several are joined by "|").
func c16MintCookie(d *c16Depl, a *saml.Assertion) (token, maxAge string, err error) {
	rec := httptest.NewRecorder()
	req := httptest.NewRequest("POST", d.at("/saml/acs"), nil)
	if err := d.m.Session.CreateSession(rec, req, a); err != nil {
		return "", "", err
	}
	for _, c := range rec.Result().Cookies() {
		if c.Name != d.cookie {
			continue
		}
		var ages []string
		for _, line := range rec.Header().Values("Set-Cookie") {
			if !strings.HasPrefix(line, d.cookie+"=") {
				continue
			}
			for _, attr := range strings.Split(line, ";")[1:] {
				attr = strings.TrimSpace(attr)
				if len(attr) >= 8 && strings.EqualFold(attr[:8], "max-age=") {
					ages = append(ages, attr[8:])
				}
			}
		}
		return c.Value, strings.Join(ages, "|"), nil
	}
	return "", "", fmt.Errorf("CreateSession set no cookie named %q (Set-Cookie: %q)", d.cookie, rec.Header().Values("Set-Cookie"))
}

func c16MintTracking(d *c16Depl, rng *rand.Rand) (token, index string, err error) {
	rec := httptest.NewRecorder()
	req := httptest.NewRequest("GET", d.at("/private/"+fmt.Sprint(rng.Intn(1000))), nil)
	index, err = d.m.RequestTracker.TrackRequest(rec, req, fmt.Sprintf("id-%016x", rng.Uint64()))
	if err != nil {
		return "", "", err
	}
	for _, c := range rec.Result().Cookies() {
		if c.Name == "saml_"+index {
			return c.Value, index, nil
		}
	}
	return "", "", fmt.Errorf("TrackRequest set no cookie saml_%s", index)
}

// ---------------------------------------------------------------------------
// manual JWT assembly

func b64(b []byte) string { return base64.RawURLEncoding.EncodeToString(b) }

func c16Hash(bits string) crypto.Hash {
	switch bits {
	case "384":
		return crypto.SHA384
	case "512":
		return crypto.SHA512
	}
	return crypto.SHA256
}

// c16SignJWS signs input under a JOSE algorithm name with the standard library only.
func c16SignJWS(alg string, signer crypto.Signer, hmacKey, input []byte) ([]byte, error) {
	if alg == "none" {
		return nil, nil
	}
	if alg == "EdDSA" {
		return ed25519.Sign(signer.(ed25519.PrivateKey), input), nil
	}
	h := c16Hash(alg[2:])
	hh := h.New()
	hh.Write(input)
	digest := hh.Sum(nil)
	switch alg[:2] {
	case "RS":
		return rsa.SignPKCS1v15(nil, signer.(*rsa.PrivateKey), h, digest)
	case "PS":
		return rsa.SignPSS(crand.Reader, signer.(*rsa.PrivateKey), h, digest, &rsa.PSSOptions{SaltLength: rsa.PSSSaltLengthEqualsHash})
	case "ES":
		r, s, err := ecdsa.Sign(crand.Reader, signer.(*ecdsa.PrivateKey), digest)
		if err != nil {
			return nil, err
		}
		size := map[string]int{"256": 32, "384": 48, "512": 66}[alg[2:]]
		out := make([]byte, 2*size)
		r.FillBytes(out[:size])
		s.FillBytes(out[size:])
		return out, nil
	case "HS":
		m := hmac.New(h.New, hmacKey)
		m.Write(input)
		return m.Sum(nil), nil
	}
	return nil, fmt.Errorf("unknown alg %q", alg)
}

// c16PubBytes renders the public key the way an attacker who only has the metadata could.
func c16PubBytes(kp *KeyPair, asPEM bool, rng *rand.Rand) []byte {
	pkix, err := x509.MarshalPKIXPublicKey(kp.Key.Public())
	if err != nil {
		panic(err)
	}
	type form struct {
		typ string
		der []byte
	}
	forms := []form{{"PUBLIC KEY", pkix}, {"CERTIFICATE", kp.Cert.Raw}}
	if pk, ok := kp.Key.Public().(*rsa.PublicKey); ok {
		forms = append(forms, form{"RSA PUBLIC KEY", x509.MarshalPKCS1PublicKey(pk)})
	}
	f := forms[rng.Intn(len(forms))]
	if !asPEM {
		return f.der
	}
	b := pem.EncodeToMemory(&pem.Block{Type: f.typ, Bytes: f.der})
	if rng.Intn(2) == 0 {
		b = bytes.TrimRight(b, "\n")
	}
	return b
}

type c16Crafted struct {
	Token  string
	Sub    string
	Header string
	Claims string
	Alg    string
}

// c16Craft assembles header.claims.signature for an abstract token (before mutation).
// own is the audience = issuer the model says this deployment's codecs require (class "eq").
func c16Craft(cfg c16Cfg, t c16Tok, own string, nowSec int64, rng *rand.Rand) (c16Crafted, error) {
	root := own
	claims := map[string]any{}
	str := func(class string) (string, bool) {
		switch class {
		case "eq":
			return root, true
		case "other":
			for {
				if s := c16OtherStrings[rng.Intn(len(c16OtherStrings))]; s != root {
					return s, true
				}
			}
		}
		return "", false
	}
	if s, ok := str(t.Iss); ok {
		claims["iss"] = s
	} else if rng.Intn(3) == 0 {
		claims["iss"] = ""
	}
	if s, ok := str(t.Aud); ok {
		if t.Audform == "arr" {
			claims["aud"] = []string{s}
		} else {
			claims["aud"] = s
		}
	} else {
		switch rng.Intn(3) {
		case 0:
			claims["aud"] = ""
		case 1:
			claims["aud"] = nil
		}
	}
	for n, off := range map[string]int64{"iat": t.Iat, "nbf": t.Nbf, "exp": t.Exp} {
		if off != c16Absent {
			claims[n] = nowSec + off
		}
	}
	var sub string
	own, other := "saml-session", "saml-authn-request"
	if t.Kind == "session" {
		sub = c16SafeSubjects[rng.Intn(len(c16SafeSubjects))]
		claims["attr"] = map[string][]string{"uid": {sub}, "groups": {"staff", "admin"}, "SessionIndex": {"_si1"}}
	} else {
		own, other = other, own
		raw := make([]byte, 42)
		rng.Read(raw)
		sub = b64(raw)
		claims["id"] = fmt.Sprintf("id-%016x", rng.Uint64())
		claims["uri"] = "/private/" + fmt.Sprint(rng.Intn(1000))
	}
	claims["sub"] = sub
	switch t.Marker {
	case "true":
		claims[own] = true
	case "false":
		claims[own] = false
	case "wrongMarker":
		claims[other] = true
	}

	// algorithm and signer
	var alg string
	var signer crypto.Signer
	var hmacKey []byte
	rsaKP := key(c16KeyName("RSA", t.Key))
	ecKP := key(c16KeyName("ECDSA", t.Key))
	ownKP := key(c16KeyName(cfg.Spkey, t.Key))
	bits := []string{"256", "384", "512"}
	edKey := func() crypto.Signer {
		seed := make([]byte, ed25519.SeedSize)
		rng.Read(seed)
		return ed25519.NewKeyFromSeed(seed)
	}
	switch t.Alg {
	case "configured", "unknown":
		if cfg.Spkey == "RSA" {
			alg = "RS256"
		} else {
			alg = "ES256"
		}
		signer = ownKP.Key
	case "otherHash":
		pfx := "RS"
		if cfg.Spkey == "ECDSA" {
			pfx = "ES"
		}
		alg = pfx + bits[1+rng.Intn(2)]
		signer = ownKP.Key
	case "pss":
		alg = "PS" + bits[rng.Intn(3)]
		signer = rsaKP.Key
	case "otherFamily":
		switch {
		case rng.Intn(4) == 0:
			alg, signer = "EdDSA", edKey()
		case cfg.Spkey == "RSA":
			alg, signer = "ES256", ecKP.Key
		default:
			alg, signer = "RS"+bits[rng.Intn(3)], rsaKP.Key
		}
	case "none":
		alg = "none"
	case "hsPem", "hsDer":
		alg = "HS" + bits[rng.Intn(3)]
		hmacKey = c16PubBytes(ownKP, t.Alg == "hsPem", rng)
	default:
		return c16Crafted{}, fmt.Errorf("alg class %q", t.Alg)
	}
	header := map[string]any{"typ": "JWT", "alg": alg}
	if t.Alg == "unknown" {
		switch rng.Intn(7) {
		case 0:
			header["alg"] = strings.ToLower(alg)
		case 1:
			header["alg"] = alg[:4] + "7"
		case 2:
			delete(header, "alg")
		case 3:
			header["alg"] = 256
		case 4:
			header["alg"] = alg + " "
		case 5:
			header["alg"] = ""
		default:
			header["alg"] = []string{alg}
		}
	}
	hb, _ := json.Marshal(header)
	cb, err := json.Marshal(claims)
	if err != nil {
		return c16Crafted{}, err
	}
	input := b64(hb) + "." + b64(cb)
	sig, err := c16SignJWS(alg, signer, hmacKey, []byte(input))
	if err != nil {
		return c16Crafted{}, err
	}
	return c16Crafted{Token: input + "." + b64(sig), Sub: sub, Header: string(hb), Claims: string(cb), Alg: alg}, nil
}

// c16Mutate applies a string-level mutation to a finished token.
func c16Mutate(tok, mutation string, rng *rand.Rand) (string, error) {
	parts := strings.Split(tok, ".")
	if len(parts) != 3 {
		return "", fmt.Errorf("token to mutate has %d segments", len(parts))
	}
	reJSON := func(seg string, f func(m map[string]any)) (string, error) {
		raw, err := base64.RawURLEncoding.DecodeString(seg)
		if err != nil {
			return "", err
		}
		var m map[string]any
		dec := json.NewDecoder(bytes.NewReader(raw))
		dec.UseNumber()
		if err := dec.Decode(&m); err != nil {
			return "", err
		}
		f(m)
		out, err := json.Marshal(m)
		if err != nil {
			return "", err
		}
		if bytes.Equal(out, raw) {
			out, _ = json.MarshalIndent(m, "", " ")
		}
		return b64(out), nil
	}
	switch mutation {
	case "none":
		return tok, nil
	case "headerEdit":
		h, err := reJSON(parts[0], func(m map[string]any) {
			switch rng.Intn(4) {
			case 0:
				m["kid"] = "1"
			case 1:
				m["typ"] = "jwt"
			case 2:
				m["cty"] = "JWT"
			default:
				delete(m, "typ")
			}
		})
		return h + "." + parts[1] + "." + parts[2], err
	case "claimsEdit":
		c, err := reJSON(parts[1], func(m map[string]any) {
			switch rng.Intn(5) {
			case 0:
				m["sub"] = "root"
			case 1:
				if n, ok := m["exp"].(json.Number); ok {
					v, _ := n.Int64()
					m["exp"] = v + 86400
				} else {
					m["exp"] = 4102444800
				}
			case 2:
				m["attr"] = map[string][]string{"groups": {"admin", "wheel"}}
			case 3:
				m["saml-session"] = true
				delete(m, "saml-authn-request")
			default:
				m["jti"] = "x"
			}
		})
		return parts[0] + "." + c + "." + parts[2], err
	case "sigEdit":
		sig, err := base64.RawURLEncoding.DecodeString(parts[2])
		if err != nil || len(sig) == 0 {
			return "", fmt.Errorf("sigEdit: no signature bytes (%v)", err)
		}
		sig[rng.Intn(len(sig))] ^= 1 << uint(rng.Intn(8))
		return parts[0] + "." + parts[1] + "." + b64(sig), nil
	case "sigB64Tail":
		// change only the spare low bits of the last character: same signature bytes
		const abc = "ABCDEFGHIJKLMNOPQRSTUVWXYZabcdefghijklmnopqrstuvwxyz0123456789-_"
		s := parts[2]
		spare := map[int]int{2: 4, 3: 2}[len(s)%4]
		if spare == 0 {
			return "", fmt.Errorf("sigB64Tail: signature of %d characters has no spare bits", len(s))
		}
		last := strings.IndexByte(abc, s[len(s)-1])
		alt := last ^ (1 + rng.Intn(1<<uint(spare)-1))
		out := s[:len(s)-1] + string(abc[alt])
		a, _ := base64.RawURLEncoding.DecodeString(s)
		b, err := base64.RawURLEncoding.DecodeString(out)
		if err != nil || !bytes.Equal(a, b) || out == s {
			return "", fmt.Errorf("sigB64Tail: could not build an equivalent encoding")
		}
		return parts[0] + "." + parts[1] + "." + out, nil
	case "truncSig":
		if len(parts[2]) == 0 {
			return "", fmt.Errorf("truncSig: empty signature")
		}
		k := 1 + rng.Intn(min(12, len(parts[2])))
		return tok[:len(tok)-k], nil
	case "truncEmptySig":
		return parts[0] + "." + parts[1] + ".", nil
	case "truncTwoSeg":
		return parts[0] + "." + parts[1], nil
	case "truncMid":
		cut := 1 + rng.Intn(len(parts[0])+len(parts[1]))
		s := tok[:cut]
		if rng.Intn(3) == 0 {
			s = parts[0]
		}
		return s, nil
	case "extraSegment":
		switch rng.Intn(4) {
		case 0:
			return tok + ".", nil
		case 1:
			return tok + "." + parts[2], nil
		case 2:
			return parts[0] + "." + tok, nil
		default:
			return parts[0] + "." + parts[1] + ".." + parts[2], nil
		}
	case "empty":
		return "", nil
	case "garbage":
		g := []string{"!!!.###.$$$", "a.b.c", "%%%." + parts[1] + "." + parts[2], "*." + parts[1] + "." + parts[2],
			parts[0] + "=." + parts[1] + "." + parts[2], "bearer." + parts[1] + "." + parts[2]}
		return g[rng.Intn(len(g))], nil
	}
	return "", fmt.Errorf("unknown mutation %q", mutation)
}

// c16PeekClaims decodes the claims segment without verifying anything (harness sanity checks).
func c16PeekClaims(tok string) (map[string]any, error) {
	parts := strings.Split(tok, ".")
	if len(parts) != 3 {
		return nil, fmt.Errorf("%d segments", len(parts))
	}
	raw, err := base64.RawURLEncoding.DecodeString(parts[1])
	if err != nil {
		return nil, err
	}
	var m map[string]any
	dec := json.NewDecoder(bytes.NewReader(raw))
	dec.UseNumber()
	return m, dec.Decode(&m)
}

// c16PeekIdent reads iss and aud (a string, or an array joined by "|") of a token without verifying anything.
func c16PeekIdent(tok string) (iss, aud string, audIsString bool, err error) {
	m, err := c16PeekClaims(tok)
	if err != nil {
		return "", "", false, err
	}
	iss, _ = m["iss"].(string)
	switch a := m["aud"].(type) {
	case string:
		aud, audIsString = a, true
	case []any:
		var p []string
		for _, x := range a {
			p = append(p, fmt.Sprint(x))
		}
		aud = strings.Join(p, "|")
	}
	return iss, aud, audIsString, nil
}

// ---------------------------------------------------------------------------
// observation through the public surface

type c16Obs struct {
	Ran        bool                `json:"ran"`
	Status     int                 `json:"status"`
	Outcome    string              `json:"outcome"` // handler | flow | onerror | forbidden | other
	Subject    string              `json:"subject,omitempty"`
	Attrs      map[string][]string `json:"attrs,omitempty"`
	First      map[string]string   `json:"first,omitempty"`
	SessionTyp string              `json:"session_type,omitempty"`
	Panic      string              `json:"panic,omitempty"`
}

var c16Decoys = []string{"_ga=GA1.2.3", "lang=en", "saml_decoy=x", "theme=dark", "Token2=abc.def.ghi"}

func c16CookieHeader(name, value string, rng *rand.Rand) string {
	cs := []string{name + "=" + value}
	if rng != nil {
		for _, d := range c16Decoys {
			if rng.Intn(3) == 0 {
				if rng.Intn(2) == 0 {
					cs = append(cs, d)
				} else {
					cs = append([]string{d}, cs...)
				}
			}
		}
	}
	return strings.Join(cs, "; ")
}

// c16Request runs one GET request carrying the cookie header through wrap(recording handler).
func c16Request(d *c16Depl, cookieHeader string, firstOf []string, wrap func(http.Handler) http.Handler) c16Obs {
	return c16RequestShaped(d, "GET", nil, cookieHeader, firstOf, wrap)
}

// c16RequestShaped: the same with the request's method and further headers given.
func c16RequestShaped(d *c16Depl, method string, hdrs map[string]string, cookieHeader string, firstOf []string, wrap func(http.Handler) http.Handler) c16Obs {
	var o c16Obs
	if method == "" {
		method = "GET"
	}
	h := http.HandlerFunc(func(w http.ResponseWriter, r *http.Request) {
		o.Ran = true
		s := samlsp.SessionFromContext(r.Context())
		o.SessionTyp = fmt.Sprintf("%T", s)
		if c, ok := s.(samlsp.JWTSessionClaims); ok {
			o.Subject = c.Subject
			o.Attrs = map[string][]string(c.Attributes)
		} else if sa, ok := s.(samlsp.SessionWithAttributes); ok {
			o.Attrs = map[string][]string(sa.GetAttributes())
		}
		if len(firstOf) > 0 {
			o.First = map[string]string{}
			for _, n := range firstOf {
				o.First[n] = samlsp.AttributeFromContext(r.Context(), n)
			}
		}
		w.WriteHeader(http.StatusOK)
	})
	rec := httptest.NewRecorder()
	var body io.Reader
	if method == "POST" || method == "PUT" {
		body = strings.NewReader("k=v")
	}
	req := httptest.NewRequest(method, d.at("/private/page"), body)
	if body != nil {
		req.Header.Set("Content-Type", "application/x-www-form-urlencoded")
	}
	for k, x := range hdrs {
		req.Header.Set(k, x)
	}
	if cookieHeader != "" {
		req.Header.Set("Cookie", cookieHeader)
	}
	if p, msg := safely(func() { wrap(h).ServeHTTP(rec, req) }); p {
		o.Panic = msg
	}
	o.Status = rec.Code
	switch {
	case o.Ran:
		o.Outcome = "handler"
	case rec.Header().Get(c16OnErrorHeader) != "":
		o.Outcome = "onerror"
	case rec.Code == http.StatusFound && strings.HasPrefix(rec.Header().Get("Location"), idpSSOURL):
		o.Outcome = "flow"
	case rec.Code == http.StatusOK && strings.Contains(rec.Body.String(), "SAMLRequest"):
		o.Outcome = "flow"
	case rec.Code == http.StatusForbidden:
		o.Outcome = "forbidden"
	default:
		o.Outcome = "other"
	}
	return o
}

// c16Tracked presents the token to the request tracker under NamePrefix + sub.
func c16Tracked(d *c16Depl, sub, token string) (accepted bool, panicked string) {
	req := httptest.NewRequest("POST", d.at("/saml/acs"), nil)
	req.Header.Set("Cookie", "saml_"+sub+"="+token)
	p, msg := safely(func() {
		for _, tr := range d.m.RequestTracker.GetTrackedRequests(req) {
			if tr.Index == sub {
				accepted = true
			}
		}
	})
	if p {
		return false, msg
	}
	return accepted, ""
}

func c16WhyText(why map[string]bool) string {
	txt := map[string]string{
		"otherKey": "signed by another key", "otherAlg": "another algorithm than the configured one",
		"notSession": "not a session token (tracking token / session marker claim false or absent)",
		"expired":    "expired by a second or more", "notYet": "not yet valid by a second or more",
		"tooOld":   "issued by this SP's CreateSession longer ago than the configured session lifetime (the session codec's MaxAge)",
		"otherAud": "audience different or absent", "otherIss": "issuer different or absent",
		"altered": "truncated or altered token string",
		"noToken": "none at all: the request carries no session cookie",
	}
	var out []string
	for k, v := range why {
		if v {
			out = append(out, txt[k])
		}
	}
	sort.Strings(out)
	return strings.Join(out, "; ")
}

// ---------------------------------------------------------------------------
// failing step, observed as the structured class of the error the public codecs return
// (jwt.ValidationError bit flags; message texts are never looked at)

func c16ErrClass(err error) string {
	if err == nil {
		return "accept"
	}
	var ve *jwt.ValidationError
	if !errors.As(err, &ve) {
		return "claim" // audience / issuer / marker: plain errors of the codec
	}
	switch {
	case ve.Errors&jwt.ValidationErrorMalformed != 0:
		return "malformed"
	case ve.Errors&jwt.ValidationErrorUnverifiable != 0:
		return "unverifiable"
	case ve.Errors&jwt.ValidationErrorSignatureInvalid != 0:
		return "signature"
	}
	var f []string
	if ve.Errors&jwt.ValidationErrorExpired != 0 {
		f = append(f, "exp")
	}
	if ve.Errors&jwt.ValidationErrorIssuedAt != 0 {
		f = append(f, "iat")
	}
	if ve.Errors&jwt.ValidationErrorNotValidYet != 0 {
		f = append(f, "nbf")
	}
	if len(f) == 0 {
		return "validation"
	}
	return "times:" + strings.Join(f, "+")
}

// c16PredErrClass is the error class the model's failing step corresponds to.
func c16PredErrClass(st c16Step, t c16Tok) string {
	if st.Verdict == "accept" {
		return "accept"
	}
	switch st.Step {
	case "Segments", "Header", "Claims":
		return "malformed"
	case "AlgLookup":
		return "unverifiable"
	case "AlgAllowed", "Signature":
		return "signature"
	case "Times":
		var f []string
		if t.Exp != c16Absent && t.Exp <= 0 {
			f = append(f, "exp")
		}
		if t.Iat != c16Absent && t.Iat > 0 {
			f = append(f, "iat")
		}
		if t.Nbf != c16Absent && t.Nbf > 0 {
			f = append(f, "nbf")
		}
		return "times:" + strings.Join(f, "+")
	case "Audience", "Issuer", "Marker", "Index":
		return "claim"
	}
	return "?" + st.Step
}

// c16DecodeClasses calls the two public codecs of the deployment directly.
func c16DecodeClasses(d *c16Depl, token string) (sess, trk string) {
	sess, trk = "n/a", "n/a"
	safely(func() {
		if sp, ok := d.m.Session.(samlsp.CookieSessionProvider); ok {
			_, err := sp.Codec.Decode(token)
			sess = c16ErrClass(err)
		}
	})
	safely(func() {
		if rt, ok := d.m.RequestTracker.(samlsp.CookieRequestTracker); ok {
			_, err := rt.Codec.Decode(token)
			trk = c16ErrClass(err)
		}
	})
	return
}
