#!/usr/bin/env python3
"""Applies the 'verified green-suite' changes named in properties.jsonl (why_tests_cant) one at a
time in a scratch worktree and runs the property's quick check against each (VERIF_REPO).
Stores /verif/seeded/<prop>-listed-<name>/{patch.diff,meta.json}.  usage: listed_mutants.py [Cnn ...]"""
import json, os, subprocess, sys, shutil
ENV = dict(os.environ, GOFLAGS="-mod=mod", GOPROXY="off", GOSUMDB="off", GOTOOLCHAIN="local")
M = [
 ("C02","cond-nooa-no-skew","service_provider.go","assertion.Conditions.NotOnOrAfter.Add(MaxClockSkew).Before(now)","assertion.Conditions.NotOnOrAfter.Before(now)"),
 ("C02","conf-nooa-no-skew","service_provider.go","subjectConfirmation.SubjectConfirmationData.NotOnOrAfter.Add(MaxClockSkew).Before(now)","subjectConfirmation.SubjectConfirmationData.NotOnOrAfter.Before(now)"),
 ("C02","notbefore-double-skew","service_provider.go","assertion.Conditions.NotBefore.Add(-MaxClockSkew).After(now)","assertion.Conditions.NotBefore.Add(-2 * MaxClockSkew).After(now)"),
 ("C02","resp-ii-double","service_provider.go","if response.IssueInstant.Add(MaxIssueDelay).Before(now) {\n\t\t\treturn nil, fmt.Errorf(\"response IssueInstant expired","if response.IssueInstant.Add(2 * MaxIssueDelay).Before(now) {\n\t\t\treturn nil, fmt.Errorf(\"response IssueInstant expired"),
 ("C02","assn-ii-plus-skew","service_provider.go","if assertion.IssueInstant.Add(MaxIssueDelay).Before(now) {","if assertion.IssueInstant.Add(MaxIssueDelay + MaxClockSkew).Before(now) {"),
 ("C02","first-confirmation-only","service_provider.go","\t\tif subjectConfirmation.SubjectConfirmationData.NotOnOrAfter.Add(MaxClockSkew).Before(now) {\n\t\t\treturn fmt.Errorf(\"assertion SubjectConfirmationData is expired\")\n\t\t}\n","\t\tif subjectConfirmation.SubjectConfirmationData.NotOnOrAfter.Add(MaxClockSkew).Before(now) {\n\t\t\treturn fmt.Errorf(\"assertion SubjectConfirmationData is expired\")\n\t\t}\n\t\tbreak\n"),
 ("C03","recipient-prefix","service_provider.go","if subjectConfirmation.SubjectConfirmationData.Recipient != sp.AcsURL.String() {","if !strings.HasPrefix(sp.AcsURL.String(), subjectConfirmation.SubjectConfirmationData.Recipient) {"),
 ("C03","audience-prefix","service_provider.go","if audienceRestriction.Audience.Value == audience {","if strings.HasPrefix(audienceRestriction.Audience.Value, audience) {"),
 ("C03","destination-prefix","service_provider.go","if response.Destination != currentURL.String() && response.Destination != sp.AcsURL.String() {","if !strings.HasPrefix(response.Destination, currentURL.String()) && !strings.HasPrefix(response.Destination, sp.AcsURL.String()) {"),
 ("C03","empty-assertion-issuer","service_provider.go","if assertion.Issuer.Value != sp.IDPMetadata.EntityID {","if assertion.Issuer.Value != \"\" && assertion.Issuer.Value != sp.IDPMetadata.EntityID {"),
 ("C04","irt-prefix","service_provider.go","\t\t\tif response.InResponseTo == possibleRequestID {","\t\t\tif strings.HasPrefix(possibleRequestID, response.InResponseTo) {"),
 ("C04","empty-outstanding-accepts","service_provider.go","\trequestIDvalid := false\n\tif sp.AllowIDPInitiated {","\trequestIDvalid := len(possibleRequestIDs) == 0\n\tif sp.AllowIDPInitiated {"),
 ("C05","freshness-tenfold","identity_provider.go","if req.Request.IssueInstant.Add(MaxIssueDelay).Before(req.Now) {","if req.Request.IssueInstant.Add(10 * MaxIssueDelay).Before(req.Now) {"),
 ("C06","recipient-from-request","identity_provider.go","\t\t\t\t\t\tRecipient:    req.ACSEndpoint.Location,","\t\t\t\t\t\tRecipient:    firstSet(req.Request.AssertionConsumerServiceURL, req.ACSEndpoint.Location),"),
 ("C16","no-valid-methods","samlsp/session_jwt.go","\tparser := jwt.Parser{\n\t\tValidMethods: []string{c.SigningMethod.Alg()},\n\t}\n\tclaims := JWTSessionClaims{}","\tparser := jwt.Parser{}\n\tclaims := JWTSessionClaims{}"),
 ("C16","no-session-marker","samlsp/session_jwt.go","\tif !claims.SAMLSession {\n\t\treturn nil, errors.New(\"expected saml-session\")\n\t}\n","\tif !claims.SAMLSession {\n\t\t_ = errors.New(\"expected saml-session\")\n\t}\n"),
 ("C17","tracking-lifetime-x1000","samlsp/new.go","\t\tMaxAge:        saml.MaxIssueDelay,\n\t\tKey:           opts.Key,","\t\tMaxAge:        saml.MaxIssueDelay * 1000,\n\t\tKey:           opts.Key,"),
 ("C18","signature-optional","service_provider.go","\tif err := sp.validateSignature(doc.Root()); err != nil {\n\t\tretErr.PrivateErr = err\n\t\treturn retErr\n\t}\n\n\tvar resp LogoutResponse\n\tif err := unmarshalElement(doc.Root(), &resp); err != nil {\n\t\tretErr.PrivateErr = err\n\t\treturn retErr\n\t}\n\treturn sp.validateLogoutResponse(&resp)\n}\n\n// ValidateLogoutResponseRedirect","\tif err := sp.validateSignature(doc.Root()); err != nil && err != errSignatureElementNotPresent {\n\t\tretErr.PrivateErr = err\n\t\treturn retErr\n\t}\n\n\tvar resp LogoutResponse\n\tif err := unmarshalElement(doc.Root(), &resp); err != nil {\n\t\tretErr.PrivateErr = err\n\t\treturn retErr\n\t}\n\treturn sp.validateLogoutResponse(&resp)\n}\n\n// ValidateLogoutResponseRedirect"),
 ("C18","destination-unchecked","service_provider.go","\tif resp.Destination != sp.SloURL.String() {\n\t\treturn fmt.Errorf(\"`Destination` does not match SloURL (expected %q)\", sp.SloURL.String())\n\t}\n",""),
 ("C19","session-expiry-ignored","samlidp/session.go","\t\tif saml.TimeNow().After(session.ExpireTime) {\n\t\t\ts.sendLoginForm(w, req, \"\")\n\t\t\treturn nil\n\t\t}\n",""),
 ("C19","no-hash-no-compare","samlidp/session.go","[]byte(r.PostForm.Get(\"password\"))); err != nil {","[]byte(r.PostForm.Get(\"password\"))); err != nil && len(user.HashedPassword) > 0 {"),
 ("C10","digestmethod-ignored","xmlenc/pubkey.go","\t\t\te.DigestMethod = digestMethod\n","\t\t\t_ = digestMethod\n\t\t\te.DigestMethod = SHA1\n"),
 ("C11","min-padding-unchecked","xmlenc/cbc.go","\tif paddingBytes < 1 {\n\t\treturn nil, errors.New(\"padding must be at least one byte\")\n\t}\n",""),
 ("C08","cert-error-plaintext","identity_provider.go","\tcertBuf, err := req.getSPEncryptionCert()\n\tif err == os.ErrNotExist {","\tcertBuf, err := req.getSPEncryptionCert()\n\tif err != nil {"),
 ("C14","responselocation-unchecked","metadata.go","\tif m.ResponseLocation != \"\" {\n\t\tm.ResponseLocation, err = checkEndpointLocation(m.Binding, m.ResponseLocation)\n\t\tif err != nil {\n\t\t\treturn err\n\t\t}\n\t}\n",""),
 ("C20","get-unlocked","samlidp/memory_store.go","\tvhook(\"rlock-req\", \"store\", &s.mu)\n\ts.mu.RLock()\n\tvhook(\"rlock-acq\", \"store\", &s.mu)\n\tdefer s.mu.RUnlock()\n\tdefer vhook(\"runlock\", \"store\", &s.mu)\n\n\tvhook(\"read\", \"data\", &s.mu)\n\tv, ok := s.data[key]","\tvhook(\"read\", \"data\", &s.mu)\n\tv, ok := s.data[key]"),
 ("C13","logout-response-unsigned","service_provider.go","\tif sp.SignatureMethod != \"\" {\n\t\tif err := sp.SignLogoutResponse(&response); err != nil {\n\t\t\treturn nil, err\n\t\t}\n\t}\n\treturn &response, nil","\treturn &response, nil"),
 ("C12","long-relaystate-dropped","service_provider.go","\tquery.Set(\"SAMLRequest\", w.String())\n\tif relayState != \"\" {","\tquery.Set(\"SAMLRequest\", w.String())\n\tif relayState != \"\" && len(relayState) <= 80 {"),
]
def sh(cmd, cwd=None, env=None, timeout=3600):
    p = subprocess.run(cmd, shell=True, cwd=cwd, env=env or ENV, stdout=subprocess.PIPE, stderr=subprocess.STDOUT, text=True, timeout=timeout)
    return p.returncode, p.stdout
want = set(sys.argv[1:])
for prop, name, f, old, new in M:
    if want and prop not in want and (prop + ":" + name) not in want:
        continue
    wt = "/tmp/lm-%s-%s" % (prop, name)
    sh("git -C /repo worktree remove --force " + wt); shutil.rmtree(wt, ignore_errors=True)
    sh("git -C /repo worktree add --detach " + wt)
    try:
        p = os.path.join(wt, f); s = open(p).read()
        if s.count(old) != 1:
            print(prop, name, "PATTERN NOT FOUND (%d)" % s.count(old)); continue
        open(p, "w").write(s.replace(old, new))
        sh("gofmt -w " + f, cwd=wt)
        rc, out = sh("go build ./... && go vet ./... >/dev/null 2>&1; go build ./...", cwd=wt)
        if rc != 0:
            # unused import after the edit: let goimports-free fix by removing nothing; report
            print(prop, name, "BUILD FAILED", out[-300:]); continue
        rc_s, out_s = sh("go test -vet=off -count=1 ./...", cwd=wt)
        _, diff = sh("git diff", cwd=wt)
        rc, out = sh("./vcheck.sh %s quick" % prop, cwd="/verif", env=dict(ENV, VERIF_REPO=wt), timeout=7200)
        vio = [l for l in out.splitlines() if l.startswith("VIOLATION")]
        d = "/verif/seeded/%s-listed-%s" % (prop, name); os.makedirs(d, exist_ok=True)
        open(os.path.join(d, "patch.diff"), "w").write(diff)
        open(os.path.join(d, "README.md"), "w").write("%s listed change (properties.jsonl, why_tests_cant): %s\n" % (prop, name.replace("-", " ")))
        json.dump({"property": prop, "name": "listed-" + name, "source": "properties.jsonl why_tests_cant", "confirmed": rc_s == 0,
                   "suite_passes_with_mutant": rc_s == 0, "demo_fails_with_mutant": None, "demo_passes_without": None,
                   "checks": {prop: {"tier": "quick", "exit": rc, "violations": len(vio), "first": [v[:300] for v in vio[:2]]}}, "detected": rc == 1},
                  open(os.path.join(d, "meta.json"), "w"), indent=1)
        print(prop, name, "suite_ok=%s" % (rc_s == 0), "check_exit=%d" % rc, "violations=%d" % len(vio))
    finally:
        sh("git -C /repo worktree remove --force " + wt); shutil.rmtree(wt, ignore_errors=True)
