#!/bin/bash
# usage: run.sh  -> applies each mutant to a scratch worktree and runs the C01 quick check
set -u
WT=/tmp/c01-wt
git -C /repo worktree remove --force $WT 2>/dev/null
git -C /repo worktree add --detach $WT >/dev/null 2>&1 || exit 9
cd $WT
mut() { # name python-snippet
  name=$1; snip=$2
  git -C $WT checkout -q -- . 
  python3 - <<PY
import sys,re
p='$WT/service_provider.go'
s=open(p).read()
o=s
$snip
assert s!=o, "mutant $name did not apply"
open(p,'w').write(s)
PY
  if [ $? -ne 0 ]; then echo "MUTANT $name: NOT APPLIED"; return; fi
  (cd $WT && GOFLAGS=-mod=mod GOPROXY=off GOSUMDB=off GOTOOLCHAIN=local go build ./... ) || { echo "MUTANT $name: BUILD FAILED"; return; }
  out=$(cd /verif && VERIF_REPO=$WT VERIF_SEED=${SEED:-1} ./vcheck.sh C01 quick 2>&1)
  rc=$?
  nv=$(echo "$out" | grep -c '^VIOLATION')
  dr=$(echo "$out" | grep '^DRIFT' | sed 's/.*cases=\([0-9]*\).*/\1/')
  echo "MUTANT $name: exit=$rc violations_printed=$nv drift=${dr:-0}"
  echo "$out" | grep '^VIOLATION' | head -3 | cut -c1-400
  echo "$out" | grep -E '^(BROKEN|\.\.\.)' | head -3 | cut -c1-300
  cp /verif/.work/alt-evidence/_tmp_c01-wt/C01.json /tmp/c01-mut/ev-$name.json 2>/dev/null
}
only=${ONLY:-}
want() { [ -z "$only" ] || [[ " $only " == *" $1 "* ]]; }
want enc-as-signing && mut enc-as-signing 's=s.replace("case \"\", \"signing\":\n\t\t\t\t\tfor _, certificate","case \"\", \"signing\", \"encryption\":\n\t\t\t\t\tfor _, certificate")'
want localname && mut localname 's=s.replace("\t\tif ns != childNS {\n\t\t\tcontinue\n\t\t}\n","\t\t_ = ns\n")'
want no-xrv-plaintext && mut no-xrv-plaintext 's=s.replace("\tif err := xrv.Validate(bytes.NewReader(plaintextEl)); err != nil {\n\t\treturn nil, fmt.Errorf(\"plaintext response contains invalid XML: %s\", err)\n\t}\n","")'
want i-unmarshal-other && mut i-unmarshal-other 's=s.replace("\tvar assertion Assertion\n\tif err := unmarshalElement(assertionEl, &assertion); err != nil {\n\t\treturn nil, err\n\t}\n","\tvar assertion Assertion\n\tif err := unmarshalElement(assertionEl, &assertion); err != nil {\n\t\treturn nil, err\n\t}\n\tif p := assertionEl.Parent(); p != nil {\n\t\tvar r Response\n\t\tif err := unmarshalElement(p, &r); err == nil && r.Assertion != nil {\n\t\t\tassertion = *r.Assertion\n\t\t}\n\t}\n")'
want ii-any-descendant && mut ii-any-descendant 's=s.replace("\tsigEl, err := findChild(el, \"http://www.w3.org/2000/09/xmldsig#\", \"Signature\")\n\tif err != nil {\n\t\treturn err\n\t}\n","\tvar err error\n\tsigEl := el.FindElement(\".//Signature\")\n")'
want iii-no-atmostone && mut iii-no-atmostone 's=s.replace("\tdefault:\n\t\treturn nil, fmt.Errorf(\"expected at most one %s:%s element\", childNS, childTag)","\tdefault:\n\t\treturn children[0], nil")'
want iv-respsig-downgrade && mut iv-respsig-downgrade 's=s.replace("\t\tdefault:\n\t\t\treturn nil, responseSignatureErr\n","\t\tdefault:\n\t\t\tsignatureRequirement = signatureRequired\n")'
want v-trust-embedded && mut v-trust-embedded 's=s.replace("\tif len(certs) == 0 {\n\t\treturn fmt.Errorf(\"cannot validate signature on %s: saml config not set up properly","\tif x := el.FindElement(\"./Signature/KeyInfo/X509Data/X509Certificate\"); x != nil {\n\t\tif c, err := parseCert(x.Text()); err == nil {\n\t\t\tcerts = append(certs, c)\n\t\t}\n\t}\n\tif len(certs) == 0 {\n\t\treturn fmt.Errorf(\"cannot validate signature on %s: saml config not set up properly")'
want vi-first-only && mut vi-first-only 's=s.replace("\t\tfor _, assertionEl := range assertionEls {\n\t\t\tassertion, err := sp.parseAssertion(assertionEl, possibleRequestIDs, now, signatureRequirement)","\t\tfor i, assertionEl := range assertionEls {\n\t\t\tif i > 0 {\n\t\t\t\tsignatureRequirement = signatureNotRequired\n\t\t\t}\n\t\t\tassertion, err := sp.parseAssertion(assertionEl, possibleRequestIDs, now, signatureRequirement)")'
git -C $WT checkout -q -- .
git -C /repo worktree remove --force $WT
