#!/bin/sh
# Binding self-test: for every check that validates traces recorded from the real code against a trace
# specification, one recorded value in the middle of the trace is changed before validation
# (VERIF_CORRUPT=<field>, see cmd/vcheck corruptTrace); the trace specification must then reject the
# trace (exit 1, key <Cnn>:trace:<phase>).  Evidence and replays of these runs go to .work/alt-evidence/selftest.
# usage: ./selftest.sh [Cnn:field ...]      exit 0: every corrupted trace was rejected
cd "$(dirname "$0")"
fail=0
# <check>:<field to change>; C20 validates two recorded traces (store operations: v, the repository suite's lock history: m)
for pf in ${@:-C02:accepted C12:after C20:v C20:m C17:r.session C19:r.status}; do
  p=${pf%%:*}
  f=${pf#*:}
  out=$(VERIF_CORRUPT=$f ./vcheck.sh $p quick 2>&1)
  rc=$?
  echo "$out" | grep -E "^SELFTEST" | cut -c1-200
  if [ $rc -eq 1 ] && echo "$out" | grep -q "^VIOLATION property=$p .*key=$p:trace:"; then
    echo "SELFTEST-OK $p ($f): corrupted trace rejected"
  else
    echo "SELFTEST-FAIL $p ($f): corrupted trace not rejected (exit $rc)"
    fail=1
  fi
done
exit $fail
