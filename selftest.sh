#!/bin/sh
# Binding self-test: for every check that validates traces recorded from the real code against a trace
# specification, one recorded value in the middle of the trace is changed before validation
# (VERIF_CORRUPT=<field>, see cmd/vcheck corruptTrace); the trace specification must then reject the
# trace (exit 1, key <Cnn>:trace:<phase>).  Evidence and replays of these runs go to .work/alt-evidence/selftest.
# usage: ./selftest.sh [Cnn ...]      exit 0: every corrupted trace was rejected
cd "$(dirname "$0")"
fail=0
field_of() {
  case "$1" in
    C02) echo accepted ;;
    C12) echo after ;;
    C17) echo r.session ;;
    C19) echo r.status ;;
    C20) echo v ;;
  esac
}
for p in ${@:-C02 C12 C20 C17 C19}; do
  f=$(field_of $p)
  out=$(VERIF_CORRUPT=$f ./vcheck.sh $p quick 2>&1)
  rc=$?
  echo "$out" | grep -E "^SELFTEST" | cut -c1-200
  if [ $rc -eq 1 ] && echo "$out" | grep -q "^VIOLATION property=$p .*key=$p:trace:"; then
    echo "SELFTEST-OK $p: corrupted trace rejected"
  else
    echo "SELFTEST-FAIL $p: corrupted trace not rejected (exit $rc)"
    fail=1
  fi
done
exit $fail
