#!/usr/bin/env python3
"""Prints the markdown table of seeded changes from seeded/*/meta.json (for DESIGN.md §21)."""
import json, glob, os
rows = []
for f in sorted(glob.glob('/verif/seeded/*/meta.json')):
    m = json.load(open(f))
    d = os.path.basename(os.path.dirname(f))
    checks = m.get('checks', {})
    caught = [p for p, c in checks.items() if c.get('exit') == 1]
    missed = [p for p, c in checks.items() if c.get('exit') == 0]
    broken = [p for p, c in checks.items() if c.get('exit') not in (0, 1)]
    what = ''
    rd = os.path.join(os.path.dirname(f), 'README.md')
    if os.path.exists(rd):
        for line in open(rd):
            line = line.strip().lstrip('#').strip()
            if line:
                what = line[:110]
                break
    rows.append('| `%s` | %s | %s | %s | %s |' % (d, 'yes' if m.get('confirmed') else 'NO', ', '.join(caught) or '-', ', '.join(missed + broken) or '-', what.replace('|', '/')))
print('| seeded change (dir under /verif/seeded) | confirmed (suite green, demo fails with / passes without) | caught by (exit 1) | not caught by | what it is |')
print('|---|---|---|---|---|')
print('\n'.join(rows))
