#!/usr/bin/env python3
"""Regression over the seeded changes: re-runs seedcheck.py for every /verif/seeded/<Cnn>-<name>/ (not benign-*)
with the checks that caught it before (meta.json "checks" with exit 1; all recorded checks if none did) and reports
changes that were detected before and are not any more.   usage: reseed.py [Cnn ...]"""
import json, os, subprocess, sys
want = set(sys.argv[1:])
lost, still, void = [], [], []
for d in sorted(os.listdir('/verif/seeded')):
    if d.startswith('benign-') or not os.path.exists('/verif/seeded/%s/meta.json' % d) or not os.path.exists('/verif/seeded/%s/patch.diff' % d):
        continue
    m = json.load(open('/verif/seeded/%s/meta.json' % d))
    prop, name = d.split('-', 1)
    if want and prop not in want:
        continue
    was = m.get('detected')
    checks = m.get('checks') or {}
    props = [p for p, c in checks.items() if c.get('exit') == 1] or list(checks) or [prop]
    out = subprocess.run(['./seedcheck.py', prop, '/verif/seeded/' + d, name, '--props', ','.join(props)], cwd='/verif', stdout=subprocess.PIPE, stderr=subprocess.STDOUT, text=True).stdout
    last = [l for l in out.splitlines() if l.startswith('{')]
    now = json.loads(last[-1]).get('detected') if last else None
    print(d, 'was', was, 'now', now, flush=True)
    (void if now is None else still if now or not was else lost).append(d)
print('LOST:', lost)
print('VOID:', void)
print('total', len(lost) + len(still) + len(void))
sys.exit(1 if lost else 0)
