#!/usr/bin/env python3
"""Regression over the seeded changes: re-runs seedcheck.py for every /verif/seeded/<Cnn>-<name>/ (not benign-*)
with the checks that caught it before (meta.json "checks" with exit 1; all recorded checks if none did) and reports
changes that were detected before and are not any more.   usage: reseed.py [--fast] [-j N] [Cnn ...]   (--fast: keep the confirmation recorded at the same /repo HEAD)"""
import json, os, subprocess, sys
from concurrent.futures import ThreadPoolExecutor
args = sys.argv[1:]
jobs, fast = 1, []
if args[:1] == ['--fast']:
    fast, args = ['--fast'], args[1:]
if args[:1] == ['-j']:
    jobs, args = int(args[1]), args[2:]
want = set(args)
todo = []
for d in sorted(os.listdir('/verif/seeded')):
    if d.startswith('benign-') or not os.path.exists('/verif/seeded/%s/meta.json' % d) or not os.path.exists('/verif/seeded/%s/patch.diff' % d):
        continue
    m = json.load(open('/verif/seeded/%s/meta.json' % d))
    prop, name = d.split('-', 1)
    if want and prop not in want:
        continue
    checks = m.get('checks') or {}
    props = [p for p, c in checks.items() if c.get('exit') == 1] or list(checks) or [prop]
    todo.append((d, prop, name, m.get('detected'), props))
def run(t):
    d, prop, name, was, props = t
    out = subprocess.run(['./seedcheck.py', prop, '/verif/seeded/' + d, name, '--props', ','.join(props)] + fast, cwd='/verif', stdout=subprocess.PIPE, stderr=subprocess.STDOUT, text=True).stdout
    last = [l for l in out.splitlines() if l.startswith('{')]
    now = json.loads(last[-1]).get('detected') if last else None
    print(d, 'was', was, 'now', now, flush=True)
    return d, was, now
lost, still, void = [], [], []
with ThreadPoolExecutor(max_workers=jobs) as ex:
    for d, was, now in ex.map(run, todo):
        (void if now is None else still if now or not was else lost).append(d)
print('LOST:', lost)
print('VOID:', void)
print('total', len(lost) + len(still) + len(void))
sys.exit(1 if lost else 0)
