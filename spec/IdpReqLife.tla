----------------------------- MODULE IdpReqLife -----------------------------
(***************************************************************************)
(* The life of one saml.IdpAuthnRequest value after validation: the calls  *)
(* an application (or ServeSSO) makes on it - MakeAssertionEl,             *)
(* MakeResponse, PostBinding, WriteResponse - in any order, any number of  *)
(* times, with a fault injected into any call: the random source of the    *)
(* encryption step fails once, or the IdP's external signer fails at the   *)
(* first / second signature of the call.  The value caches what it     *)
(* built (AssertionEl, ResponseEl); C08 and C06 must hold for whatever is  *)
(* eventually emitted, not only for the single call ServeSSO makes.        *)
(*                                                                         *)
(* Every history up to MaxCalls calls is emitted (the history is part of   *)
(* the state) and replayed on a real IdpAuthnRequest                       *)
(* (harness/idpreq_life_test.go).                                          *)
(***************************************************************************)
EXTENDS Integers, Sequences, FiniteSets, TLC, Json

CONSTANTS MaxCalls,    \* longest history
          MaxFaults    \* how many calls of one history may have a fault armed

Calls == {"MakeAssertionEl", "MakeResponse", "PostBinding", "WriteResponse"}

VARIABLES enc,    \* the selected role of the SP advertises an encryption certificate
          bind,   \* binding of the selected assertion consumer service: "post" | "artifact"
          aEl,    \* req.AssertionEl: "nil" | "plain" | "enc"
          rEl,    \* what req.ResponseEl carries: "nil" | "plain" | "enc"
          made,   \* "validated": the value comes from NewIdpAuthnRequest + Validate; "assembled": the application put it together
                  \* itself (its own IdP-initiated handler) - registered metadata and endpoint set, SPSSODescriptor left nil
          hist    \* <<[c, f, fired, out, content]>>: call, fault armed (none / enc / sig1 / sig2), whether it fired, outcome ok / err / form, content of the form
vars == <<enc, bind, aEl, rEl, made, hist>>

\* An assembled value without descriptor cannot say whether the SP wants encryption: the code dereferences the nil
\* descriptor in MakeAssertion (a panic - nothing leaves the IdP); reading "no descriptor" as "no encryption key" would
\* put the assertion of an SP that advertises a key on the wire in clear
Init == /\ enc \in BOOLEAN /\ bind \in {"post", "artifact"}
        /\ aEl = "nil" /\ rEl = "nil"
        /\ \/ made = "validated" /\ hist = <<>>
           \/ made = "assembled" /\ hist = << [c |-> "MakeAssertion", f |-> "none", fired |-> FALSE, out |-> "panic", content |-> "none"] >>

\* Faults (one-shot, armed for one call): "enc" - the random source of the encryption step fails; "sig1" / "sig2" -
\* the first / second signature operation of the call fails (an external crypto.Signer that errors once).
Faults == {"none", "enc", "sig1", "sig2"}

\* MakeAssertionEl on the current value: signs the assertion (first signature of the call), then encrypts it
MkA(F) == IF F = "sig1" THEN [ok |-> FALSE, a |-> aEl, fired |-> TRUE]
          ELSE IF enc THEN (IF F = "enc" THEN [ok |-> FALSE, a |-> aEl, fired |-> TRUE] ELSE [ok |-> TRUE, a |-> "enc", fired |-> FALSE])
          ELSE [ok |-> TRUE, a |-> "plain", fired |-> FALSE]
\* MakeResponse: builds the assertion element only if none is cached, then signs the response
MkR(F) == IF aEl = "nil"
            THEN LET x == MkA(F) IN
                 IF ~x.ok THEN [ok |-> FALSE, a |-> aEl, r |-> rEl, fired |-> TRUE]
                 ELSE IF F = "sig2" THEN [ok |-> FALSE, a |-> x.a, r |-> rEl, fired |-> TRUE]   \* the assertion element stays cached
                 ELSE [ok |-> TRUE, a |-> x.a, r |-> x.a, fired |-> FALSE]
            ELSE IF F = "sig1" THEN [ok |-> FALSE, a |-> aEl, r |-> rEl, fired |-> TRUE]
                 ELSE [ok |-> TRUE, a |-> aEl, r |-> aEl, fired |-> FALSE]
\* PostBinding / WriteResponse: build the response only if none is cached
Post(F) == LET m == IF rEl = "nil" THEN MkR(F) ELSE [ok |-> TRUE, a |-> aEl, r |-> rEl, fired |-> FALSE]
           IN IF ~m.ok THEN [out |-> "err", a |-> m.a, r |-> m.r, content |-> "none", fired |-> m.fired]
              ELSE IF bind # "post" THEN [out |-> "err", a |-> m.a, r |-> m.r, content |-> "none", fired |-> m.fired]
              ELSE [out |-> "form", a |-> m.a, r |-> m.r, content |-> m.r, fired |-> m.fired]

Call(c, F) ==
  /\ made = "validated"
  /\ Len(hist) < MaxCalls
  /\ F = "enc" => enc               \* that fault is a failure of the encryption step
  /\ F # "none" => Cardinality({ k \in DOMAIN hist : hist[k].f # "none" }) < MaxFaults
  /\ LET res == CASE c = "MakeAssertionEl" -> LET a == MkA(F) IN [out |-> IF a.ok THEN "ok" ELSE "err", a |-> a.a, r |-> rEl, content |-> "none", fired |-> a.fired]
                  [] c = "MakeResponse"    -> LET m == MkR(F) IN [out |-> IF m.ok THEN "ok" ELSE "err", a |-> m.a, r |-> m.r, content |-> "none", fired |-> m.fired]
                  [] OTHER                 -> Post(F)
     IN /\ aEl' = res.a /\ rEl' = res.r
        /\ hist' = Append(hist, [c |-> c, f |-> F, fired |-> res.fired, out |-> res.out, content |-> res.content])
  /\ UNCHANGED <<enc, bind, made>>

Next == \E c \in Calls, F \in Faults : Call(c, F)
Spec == Init /\ [][Next]_vars

(******************************** properties *******************************)
Last == hist[Len(hist)]
\* C08: whatever is emitted for an SP with an encryption key is encrypted - at any point of any history
NeverInClear == hist # <<>> /\ Last.out = "form" /\ enc => Last.content = "enc"
\* no cached element is ever in clear for such an SP (the stronger, inductive form)
NoClearCache == enc => aEl # "plain" /\ rEl # "plain"
\* C06 (as the code has it): a form is emitted only towards an HTTP-POST endpoint
FormOnlyToPost == hist # <<>> /\ Last.out = "form" => bind = "post"
\* a call in which a fault fired fails and never leaves a response behind; the only thing it may leave is the
\* finished assertion element (when the response signature failed after the assertion had been built)
FailedCallIsNoop == [][ hist' # hist /\ hist'[Len(hist')].fired =>
                          /\ hist'[Len(hist')].out = "err" /\ rEl' = rEl
                          /\ (aEl' # aEl => hist'[Len(hist')].f = "sig2" /\ aEl = "nil") ]_vars
\* the cached response is built around the cached assertion element (both signed: no state of this model holds an
\* unsigned element - the harness verifies both signatures of everything that is emitted)
Coherent == rEl # "nil" => rEl = aEl

Emit == hist # <<>> => PrintT(<<"HIST", ToJson([enc |-> enc, bind |-> bind, made |-> made, hist |-> hist])>>)
=============================================================================
