----------------------------- MODULE IdpReqLife -----------------------------
(***************************************************************************)
(* The life of one saml.IdpAuthnRequest value after validation: the calls  *)
(* an application (or ServeSSO) makes on it - MakeAssertionEl,             *)
(* MakeResponse, PostBinding, WriteResponse - in any order, any number of  *)
(* times, with a failure of the encryption step injected into any call     *)
(* (the random source of xmlenc fails once).  The value caches what it     *)
(* built (AssertionEl, ResponseEl); C08 and C06 must hold for whatever is  *)
(* eventually emitted, not only for the single call ServeSSO makes.        *)
(*                                                                         *)
(* Every history up to MaxCalls calls is emitted (the history is part of   *)
(* the state) and replayed on a real IdpAuthnRequest                       *)
(* (harness/idpreq_life_test.go).                                          *)
(***************************************************************************)
EXTENDS Integers, Sequences, FiniteSets, TLC, Json

CONSTANT MaxCalls

Calls == {"MakeAssertionEl", "MakeResponse", "PostBinding", "WriteResponse"}

VARIABLES enc,    \* the selected role of the SP advertises an encryption certificate
          bind,   \* binding of the selected assertion consumer service: "post" | "artifact"
          aEl,    \* req.AssertionEl: "nil" | "plain" | "enc"
          rEl,    \* what req.ResponseEl carries: "nil" | "plain" | "enc"
          hist    \* <<[c, f, fired, out, content]>>: call, fault armed, fault hit the encryption step, outcome ok / err / form, content of the form
vars == <<enc, bind, aEl, rEl, hist>>

Init == /\ enc \in BOOLEAN /\ bind \in {"post", "artifact"}
        /\ aEl = "nil" /\ rEl = "nil" /\ hist = <<>>

\* MakeAssertionEl on the current value: <<ok, new aEl>>
MkA(f) == IF enc THEN (IF f THEN <<FALSE, aEl>> ELSE <<TRUE, "enc">>) ELSE <<TRUE, "plain">>
\* MakeResponse: builds the assertion element only if none is cached
MkR(f) == LET a == IF aEl = "nil" THEN MkA(f) ELSE <<TRUE, aEl>>
          IN IF a[1] THEN [ok |-> TRUE, a |-> a[2], r |-> a[2]] ELSE [ok |-> FALSE, a |-> aEl, r |-> rEl]
\* PostBinding / WriteResponse: build the response only if none is cached
Post(f) == LET m == IF rEl = "nil" THEN MkR(f) ELSE [ok |-> TRUE, a |-> aEl, r |-> rEl]
           IN IF ~m.ok THEN [out |-> "err", a |-> m.a, r |-> m.r, content |-> "none"]
              ELSE IF bind # "post" THEN [out |-> "err", a |-> m.a, r |-> m.r, content |-> "none"]
              ELSE [out |-> "form", a |-> m.a, r |-> m.r, content |-> m.r]

\* does this call reach the encryption step in the current state ?
Encrypts(c) == enc /\ CASE c = "MakeAssertionEl" -> TRUE
                        [] c = "MakeResponse"    -> aEl = "nil"
                        [] OTHER                 -> rEl = "nil" /\ aEl = "nil"

Call(c, f) ==
  /\ Len(hist) < MaxCalls
  /\ f => enc                       \* the fault is a failure of the encryption step
  /\ LET res == CASE c = "MakeAssertionEl" -> LET a == MkA(f) IN [out |-> IF a[1] THEN "ok" ELSE "err", a |-> a[2], r |-> rEl, content |-> "none"]
                  [] c = "MakeResponse"    -> LET m == MkR(f) IN [out |-> IF m.ok THEN "ok" ELSE "err", a |-> m.a, r |-> m.r, content |-> "none"]
                  [] OTHER                 -> Post(f)
     IN /\ aEl' = res.a /\ rEl' = res.r
        /\ hist' = Append(hist, [c |-> c, f |-> f, fired |-> f /\ Encrypts(c), out |-> res.out, content |-> res.content])
  /\ UNCHANGED <<enc, bind>>

Next == \E c \in Calls, f \in BOOLEAN : Call(c, f)
Spec == Init /\ [][Next]_vars

(******************************** properties *******************************)
Last == hist[Len(hist)]
\* C08: whatever is emitted for an SP with an encryption key is encrypted - at any point of any history
NeverInClear == hist # <<>> /\ Last.out = "form" /\ enc => Last.content = "enc"
\* no cached element is ever in clear for such an SP (the stronger, inductive form)
NoClearCache == enc => aEl # "plain" /\ rEl # "plain"
\* C06 (as the code has it): a form is emitted only towards an HTTP-POST endpoint
FormOnlyToPost == hist # <<>> /\ Last.out = "form" => bind = "post"
\* a failed call changes nothing, so a retry starts from the same state
FailedCallIsNoop == [][ hist' # hist /\ hist'[Len(hist')].fired => hist'[Len(hist')].out = "err" /\ aEl' = aEl /\ rEl' = rEl ]_vars

Emit == hist # <<>> => PrintT(<<"HIST", ToJson([enc |-> enc, bind |-> bind, hist |-> hist])>>)
=============================================================================
