\* Not a registered phase.  The step machine with the dereferences that were unguarded on the
\* pinned tree: TLC refutes NoPanic - the design-level counterexamples that the harness
\* reproduces on the real code (fixes/C09.md).
CONSTANTS
  Tier = "q"
  Unguarded = {"AssnSubjectNil", "ConfDataNil", "ConditionsNil", "PlainRootNil", "LogoutRootNil", "LogoutIssuerNil", "AuthnIssuerNil", "EncCertIndex"}
  Unwrapped = {}
  DepthRestore = "nobound"
  ContextDropped = FALSE
  CloseFailure = "logged"
INIT Init
NEXT Next
INVARIANTS
  NoPanic
CHECK_DEADLOCK TRUE
