CONSTANTS
  SPs = {"A", "B"}
  AllowInit = {"B"}
  MaxResps = 3
  MaxTicks = 4
  Depth = 60
INIT SInit
NEXT SNext
INVARIANTS
  SessionImpliesAuthenticated
  EmitBehaviour
CHECK_DEADLOCK FALSE
