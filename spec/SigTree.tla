------------------------------ MODULE SigTree ------------------------------
(***************************************************************************)
(* C01 - the service provider returns an assertion only if a trusted IdP   *)
(* key signed its content.                                                 *)
(*                                                                         *)
(* Documents are small labelled trees.  A base message (what the IdP       *)
(* really sent: Response signed / Assertion signed / both / neither,       *)
(* plaintext or encrypted assertion, browser delivery or artifact          *)
(* resolution with a signed / unsigned ArtifactResponse) is handed to an   *)
(* attacker who holds Katt and Kenc (a key the IdP publishes with          *)
(* use="encryption" only) and applies up to K productions of a grammar     *)
(* that generalises the nine XSW permutations of the repository's tests.   *)
(* Every reachable tree is a document; on every document the SP's parsing  *)
(* (service_provider.go parseArtifactResponse / parseResponse /            *)
(* parseAssertion / validateSignature on top of goxmldsig 1.4.0 Validate)  *)
(* is evaluated for every run configuration (trust configuration x key     *)
(* the IdP signed with).                                                   *)
(*                                                                         *)
(* The SP's TRUST CONFIGURATION is a dimension of its own (section "trust  *)
(* configurations"): the key descriptors of sp.IDPMetadata (use, Encryp-   *)
(* tionMethod children, certificates per descriptor, role descriptor), the *)
(* pinned IDPCertificate, IDPCertificateFingerprint (+Algorithm, format).  *)
(* The machine derives its roots from it in the code's order               *)
(* (validateSignature / getIDPSigningCerts / getCertBasedOnFingerprint);   *)
(* the properties use TrustedKeys(cfg), written from the statement.        *)
(*                                                                         *)
(* A Signature's KeyInfo is a SEQUENCE: X509Data elements in order, each   *)
(* with its items in order (certificates, an X509Certificate element that  *)
(* holds none, an X509SubjectName), and KeyValue elements.  Which of the   *)
(* certificates the SP looks at (getCertBasedOnFingerprint: the first      *)
(* ./Signature/KeyInfo/X509Data/X509Certificate), which become roots and   *)
(* which one goxmldsig verifies with (X509Certificates[0] of the Signature *)
(* it found) are steps of Verify in the code's order.                      *)
(*                                                                         *)
(* For the artifact entry points (ParseXMLArtifactResponse, ParseResponse  *)
(* with SAMLart) the SOAP ENVELOPE is part of the attacker-controlled      *)
(* document: soap:Envelope / soap:Header / soap:Body are nodes, and every  *)
(* lookup of the machine (Body in Envelope, ArtifactResponse in Body,      *)
(* Response in the verified ArtifactResponse) says WHICH element it finds. *)
(*                                                                         *)
(* ACCEPTABILITY (validateAssertion) is an attribute of an assertion node: *)
(* acc = "ok" | "notForThisSP" (Recipient / audience of another service    *)
(* provider) | "expired" (an old login).  The attacker holds, besides the  *)
(* message, assertions the IdP GENUINELY signed that this SP does not      *)
(* accept (B1: issued for another SP, B2: expired) and places sequences of  *)
(* them and of forged assertions next to / instead of the assertion of the *)
(* message (production Siblings).  parseAssertion is three stages in the   *)
(* code's order - signature (when still required), unmarshal,              *)
(* validateAssertion - and the loop over the candidates passes the         *)
(* requirement BY VALUE: what one assertion's signature proves says        *)
(* nothing about its siblings.  The properties do not read acc: whatever   *)
(* is returned must be covered by a trusted signature.                     *)
(*                                                                         *)
(* CERTIFICATES are more than keys: a certificate has a public key         *)
(* (CertKey), a subject (Subj) and possibly a SubjectKeyIdentifier (Ski).  *)
(* Kidp1k is a certificate for the key of Kidp1 that carries a key         *)
(* identifier; Klook is a LOOK-ALIKE made by the attacker: his own key,    *)
(* subject and key identifier copied from Kidp1k (both are public).  The   *)
(* machine compares CERTIFICATES with the roots (goxmldsig: Equal) and     *)
(* verifies under the certificate's KEY; the properties ask for a          *)
(* signature that verifies under the key of a certificate in               *)
(* TrustedKeys(cfg), which is read from the SP configuration only.         *)
(*                                                                         *)
(* Deviations (constant): names of deliberate departures of the MACHINE    *)
(* from the code, {} in every registered configuration.  Switching one on  *)
(* gives the model-level image of a defect, and TLC then refutes the       *)
(* invariants of the Properties section (SigTree_C01m_*.cfg):              *)
(*  - FingerprintAnyCert: getCertBasedOnFingerprint accepts when ANY       *)
(*    certificate in KeyInfo has the fingerprint; all of them become roots *)
(*  - FingerprintPrefixMatch: the configured fingerprint string and the   *)
(*    computed one are compared over the length of the shorter one only:   *)
(*    an empty / abbreviated string matches (SigTree_C01m_fpprefix.cfg)    *)
(*  - ResponseFromDocumentRoot: the Response handed to parseResponse is    *)
(*    the first element named Response in the DOCUMENT, not the child of   *)
(*    the ArtifactResponse whose signature was verified                    *)
(*  - SignedSiblingVouches: an assertion signature that verified switches  *)
(*    the requirement off for the assertions processed after it (even when *)
(*    validateAssertion then rejects the signed one)                       *)
(*  - LookalikeRoot: validateSignature appends the first KeyInfo           *)
(*    certificate to the roots when a root has the same subject and the    *)
(*    same non-empty SubjectKeyIdentifier                                  *)
(*                                                                         *)
(* Named deviations from the code:                                         *)
(*  - FunctionalMachine: the SP side is deterministic, so its stages are   *)
(*    operators composed in code order (RespSig, Fields, ActOnRespSig,     *)
(*    EncLoop, PlainLoop, ParseAssertion) instead of pc-actions; the       *)
(*    actions of this module are the attacker's productions.               *)
(*  - AttackerSignsLast: an attacker signature (cov = "self") is computed  *)
(*    after all other edits, bottom-up, over the element it finally sits   *)
(*    in, with Reference = that element's ID.                              *)
(*  - WellShaped: every ds:Signature has one SignedInfo / SignatureValue   *)
(*    and one Reference (validateShape never fails).                       *)
(*  - FieldsValid: forged and edited elements carry valid Destination,     *)
(*    InResponseTo, instants, issuer, recipient, audience (they are public *)
(*    knowledge) - what decides is the signature logic alone.  (Siblings   *)
(*    also makes forged assertions that are NOT acceptable: acc says so.)  *)
(*                                                                         *)
(* node = [k, id, org, ed, ns, acc, ch, key, ref, cov, ki]                 *)
(*   k   : Resp | Assn | Sig | Obj | Wrap | EncAssn | ArtResp              *)
(*         | Env | Body | Hdr (soap:Envelope, soap:Body, soap:Header)      *)
(*   id  : "R0" "A0" "T0" (IDs of the base message) | "X1" "X2" (attacker) *)
(*         "X3" (the Response inside a forged ArtifactResponse)            *)
(*         "B1" "B2" (other assertions the IdP signed, see OrigOther)      *)
(*         | "-" (element without ID)                                      *)
(*   org : "g" genuine identity content / genuine ciphertext / genuine     *)
(*         signature;  "f" forged (attacker made)                          *)
(*   ed  : a signed field was edited after signing                         *)
(*   ns  : the element is in the namespace its name suggests               *)
(*   acc : (Assn) what validateAssertion says about it: "ok" |             *)
(*         "notForThisSP" | "expired"                                      *)
(*   Sig : key in {"G" (the IdP's signing key of this run), Katt, Kenc},   *)
(*         ref = referenced ID, cov = "R0"|"A0"|"T0"|"B1"|"B2" (genuine    *)
(*         signature made over that element as the IdP sent it) | "self",  *)
(*         ki = the KeyInfo: <<>> (no KeyInfo element) or a sequence of    *)
(*         groups; a group is <<"rsa">> (a KeyValue / RSAKeyValue element) *)
(*         or the items of one X509Data element in order:                  *)
(*         "self" (the signer's own certificate, as sent) | "other"        *)
(*         (attacker certificate on a genuine signature / trusted          *)
(*         certificate on an attacker one) | "Kidp1" "Kidp2" "Katt" "Kenc" *)
(*         "Kidp1k" "Klook" (that certificate, whoever signed; Klook = the *)
(*         look-alike) | "bad" (an X509Certificate                         *)
(*         element that holds no certificate) | "subj" (X509SubjectName)   *)
(***************************************************************************)
EXTENDS Integers, Sequences, FiniteSets, TLC, Json, IOUtils

CONSTANTS K,          \* attacker steps
          MaxNodes,   \* tree size bound
          BaseSet,    \* base messages explored
          RunCfgSeq,  \* sequence of [t |-> trust configuration (record, see TC), g |-> IdP signing key]
          Prods,      \* productions the attacker uses (a subset of AllProds: the family explored)
          KISet,      \* KeyInfo variants the attacker writes
          EnvWhereSet,\* where in the SOAP envelope the attacker places elements (a subset of EnvWheres)
          SibSeqSet,  \* the sequences of assertions the attacker places next to / instead of the message's (Siblings)
          Deviations, \* named departures of the machine from the code that are switched on ({} when registered)
          EmitMin,    \* documents with fewer attacker steps are not emitted (simulation: they are covered exhaustively)
          EmitFrom,   \* documents with n >= EmitFrom are emitted only when Chk(doc) = VERIF_SEED modulo EmitMod
          EmitMod

VARIABLES base, doc, n
vars == <<base, doc, n>>

Min(S) == CHOOSE x \in S : \A y \in S : x <= y

----------------------------------------------------------------------------
(* trees                                                                   *)

Node(k, id, org, ch) == [k |-> k, id |-> id, org |-> org, ed |-> FALSE, ns |-> TRUE, acc |-> "ok", ch |-> ch,
                         key |-> "-", ref |-> "-", cov |-> "-", ki |-> <<>>]
\* a KeyInfo with one X509Data holding one item
KI1(x)         == << <<x>> >>
AsSent         == KI1("self")
GSig(e)        == [Node("Sig", "-", "g", <<>>) EXCEPT !.key = "G", !.ref = e, !.cov = e, !.ki = AsSent]
ASig(key, ki)  == [Node("Sig", "-", "f", <<>>) EXCEPT !.key = key, !.ref = "", !.cov = "self", !.ki = ki]
Obj(ch)        == Node("Obj", "-", "f", ch)
Wrap(ch)       == Node("Wrap", "-", "f", ch)
EncF(ch)       == Node("EncAssn", "-", "f", ch)
\* the SOAP envelope of the artifact back channel
SoapKinds      == {"Env", "Body", "Hdr"}
Env(ch)        == Node("Env", "-", "g", ch)
Body(ch)       == Node("Body", "-", "g", ch)
Body2(ch)      == Node("Body", "-", "f", ch)
Hdr(ch)        == Node("Hdr", "-", "f", ch)
InsertAt(s, i, x) == SubSeq(s, 1, i - 1) \o <<x>> \o SubSeq(s, i, Len(s))

RECURSIVE At(_, _), ReplaceSeq(_, _, _), Size(_), Paths(_), AllPaths(_), PreOrder(_), PreKids(_, _),
          Norm(_), StripSigs(_), Chk(_)

At(t, p) == IF p = <<>> THEN t ELSE At(t.ch[Head(p)], Tail(p))

\* replace the node at p (p non-empty) by the sequence s of nodes
ReplaceSeq(t, p, s) ==
  IF Len(p) = 1 THEN [t EXCEPT !.ch = SubSeq(@, 1, p[1] - 1) \o s \o SubSeq(@, p[1] + 1, Len(@))]
  ELSE [t EXCEPT !.ch[p[1]] = ReplaceSeq(@, Tail(p), s)]
RemoveAt(t, p) == ReplaceSeq(t, p, <<>>)
SetAt(t, p, x) == IF p = <<>> THEN x ELSE ReplaceSeq(t, p, <<x>>)

Size(t) == (IF t.k \in SoapKinds THEN 0 ELSE 1)      \* the bound is on the SAML content
         + (IF t.ch = <<>> THEN 0
            ELSE LET RECURSIVE S(_)
                     S(i) == IF i > Len(t.ch) THEN 0 ELSE Size(t.ch[i]) + S(i + 1)
                 IN S(1))

\* paths the attacker can address: ciphertext is opaque
Paths(t) == {<<>>} \cup (IF t.k = "EncAssn" THEN {}
                         ELSE UNION { { <<i>> \o q : q \in Paths(t.ch[i]) } : i \in 1..Len(t.ch) })
AllPaths(t) == {<<>>} \cup UNION { { <<i>> \o q : q \in AllPaths(t.ch[i]) } : i \in 1..Len(t.ch) }

\* all paths in document order; what is inside an EncryptedAssertion is not visible as elements
PreKids(t, i) == IF i > Len(t.ch) THEN <<>>
                 ELSE LET sub == PreOrder(t.ch[i])
                      IN [j \in 1..Len(sub) |-> <<i>> \o sub[j]] \o PreKids(t, i + 1)
PreOrder(t) == << <<>> >> \o (IF t.k = "EncAssn" THEN <<>> ELSE PreKids(t, 1))

\* AttackerSignsLast: an attacker signature references the element it sits in
Norm(t) == [t EXCEPT !.ch = [i \in 1..Len(t.ch) |->
              LET c == Norm(t.ch[i])
              IN IF c.k = "Sig" /\ c.cov = "self" THEN [c EXCEPT !.ref = IF t.id = "-" THEN "" ELSE t.id] ELSE c]]

\* the element without anything that sits under a Signature (outside every digest, and
\* outside what xml.Unmarshal reads into the identity fields)
StripSigs(t) == [t EXCEPT !.ch = LET keep == SelectSeq(t.ch, LAMBDA c : c.k # "Sig")
                                 IN [i \in 1..Len(keep) |-> StripSigs(keep[i])]]

\* structural checksum used only to thin out the emission of the deepest level
KCode(k) == CASE k = "Resp" -> 1 [] k = "Assn" -> 2 [] k = "Sig" -> 3 [] k = "Obj" -> 4
              [] k = "Wrap" -> 5 [] k = "EncAssn" -> 6 [] k = "ArtResp" -> 7
              [] k = "Env" -> 8 [] k = "Body" -> 9 [] k = "Hdr" -> 10
Chk(t) == LET RECURSIVE S(_)
              S(i) == IF i > Len(t.ch) THEN 0 ELSE ((i + 2) * Chk(t.ch[i]) + S(i + 1)) % 7919
          IN (KCode(t.k) * 31 + (IF t.org = "g" THEN 3 ELSE 5) + (IF t.ed THEN 7 ELSE 0) + (IF t.ns THEN 0 ELSE 11)
              + (IF t.id = "X1" THEN 13 ELSE 0) + (IF t.ki = AsSent THEN 17 ELSE IF t.ki = <<>> THEN 19 ELSE 23 + 3 * Len(t.ki) + Len(t.ki[1]))
              + (IF t.key = "Kenc" THEN 29 ELSE 0) + (IF t.acc = "ok" THEN 0 ELSE IF t.acc = "expired" THEN 41 ELSE 43)
              + (IF t.id \in {"B1", "B2"} THEN 47 ELSE 0) + 37 * S(1)) % 7919

----------------------------------------------------------------------------
(* base messages: what the IdP signed, in signing order A0, R0, T0 *)

OrigA(b) == Node("Assn", "A0", "g", IF b.sigA THEN <<GSig("A0")>> ELSE <<>>)
Payload(b) == IF b.enc THEN Node("EncAssn", "-", "g", <<OrigA(b)>>) ELSE OrigA(b)
OrigR(b) == Node("Resp", "R0", "g", (IF b.sigR THEN <<GSig("R0")>> ELSE <<>>) \o <<Payload(b)>>)
OrigT(b) == Node("ArtResp", "T0", "g", (IF b.art = "signed" THEN <<GSig("T0")>> ELSE <<>>) \o <<OrigR(b)>>)
\* browser delivery: the Response is the document; artifact resolution: the SOAP envelope is
BaseDoc(b) == IF b.art = "none" THEN OrigR(b) ELSE Env(<<Body(<<OrigT(b)>>)>>)
\* What the attacker holds besides the message: assertions the IdP GENUINELY signed (with the signing key of
\* this run) that this SP does not accept now - B1 was issued for another service provider (Recipient /
\* audience), B2 is an old login (expired).  Whoever ever received an assertion from the IdP has such material.
OtherIDs     == {"B1", "B2"}
OtherAcc(e)  == IF e = "B1" THEN "notForThisSP" ELSE "expired"
OrigOther(e) == [Node("Assn", e, "g", <<GSig(e)>>) EXCEPT !.acc = OtherAcc(e)]
Orig(b, e) == CASE e = "A0" -> OrigA(b) [] e = "R0" -> OrigR(b) [] e = "T0" -> OrigT(b) [] e \in OtherIDs -> OrigOther(e)
\* what a genuine signature covers: the base element without that signature
Covered(b, e) == LET o == Orig(b, e) IN [o EXCEPT !.ch = Tail(@)]

AllBases == [sigR : BOOLEAN, sigA : BOOLEAN, enc : BOOLEAN, art : {"none", "unsigned", "signed"}]
B(r, a, e, t) == [sigR |-> r, sigA |-> a, enc |-> e, art |-> t]
\* the bases explored one attacker step deeper in the thorough tier: Response-signed, Assertion-signed and
\* both-signed plaintext deliveries to the browser endpoints and the encrypted Assertion-signed and both-signed
\* layouts (the artifact deliveries are reached at that depth by the simulation configuration)
ArtBases == { b \in AllBases : b.art # "none" }
DeepBases == { B(TRUE, FALSE, FALSE, "none"), B(FALSE, TRUE, FALSE, "none"), B(TRUE, TRUE, FALSE, "none"),
               B(FALSE, TRUE, TRUE, "none"), B(TRUE, TRUE, TRUE, "none") }

----------------------------------------------------------------------------
(* trust configurations *)

\* certificates that exist; "bad" stands for a string that is no certificate, "-" for "not set".
\* A certificate is more than a key.  Kidp1k: another certificate for the KEY of Kidp1, with the subject of
\* Kidp1 and a SubjectKeyIdentifier extension (the stored certificates have none).  Klook: made by the attacker
\* - HIS key, subject and SubjectKeyIdentifier copied from Kidp1k (both are public: they are in the metadata).
Certs == {"Kidp1", "Kidp1k", "Kidp2", "Kenc", "Katt", "Klook"}
Parses(x) == x \in Certs
CertKey(x) == CASE x = "Kidp1k" -> "Kidp1" [] x = "Klook" -> "Katt" [] OTHER -> x     \* whose public key it certifies
Subj(x)    == IF x \in {"Kidp1", "Kidp1k", "Klook"} THEN "idp1" ELSE x               \* RawSubject
Ski(x)     == IF x \in {"Kidp1k", "Klook"} THEN "ski1" ELSE "-"                      \* SubjectKeyId ("-" = no extension)
Range(s) == { s[i] : i \in 1..Len(s) }
RECURSIVE Flat(_)
Flat(ss) == IF ss = <<>> THEN <<>> ELSE Head(ss) \o Flat(Tail(ss))

\* a KeyDescriptor of sp.IDPMetadata: use attribute ("" = omitted), EncryptionMethod children present,
\* its X509Certificate elements in order, the IDPSSODescriptor (role) it sits in
KD(use, em, certs, role) == [use |-> use, em |-> em, certs |-> certs, role |-> role]
S(certs)  == KD("signing", FALSE, certs, 1)
U(certs)  == KD("", FALSE, certs, 1)
E(certs)  == KD("encryption", FALSE, certs, 1)
EM(certs) == KD("encryption", TRUE, certs, 1)

\* the configuration of one ServiceProvider (sp.IDPMetadata is always present: it supplies the entity ID):
\*   md  : key descriptors of the metadata, in document order
\*   pin : IDPCertificate ("-" | certificate | "bad")
\*   fp  : the certificate whose fingerprint is in IDPCertificateFingerprint ("-" = not set)
\*   alg : IDPCertificateFingerprintAlgorithm ("-" | "sha1" | "sha256" | "sha512")
\*   fmt : WHAT STRING is configured: "canon" (the complete fingerprint of fp: upper-case hex, colons, computed
\*         with alg) | "lower" (lower-case hex) | "otheralg" (computed with the other supported algorithm) |
\*         "empty" (the empty string - a pointer to "", an unset variable handed over; fp is then only a place
\*         holder) | "prefix" (abbreviated: a non-empty PROPER prefix of the canonical fingerprint of fp, long
\*         enough that no other certificate of the model starts with it).  fp may be "Katt" here: the string is
\*         then an abbreviation of the fingerprint of the attacker's own certificate (for a short abbreviation
\*         the attacker mints certificates until one fits; the harness takes the one he already has)
TC(name, md, pin, fp, alg, fmt) == [name |-> name, md |-> md, pin |-> pin, fp |-> fp, alg |-> alg, fmt |-> fmt]
MdOnly(name, md)        == TC(name, md, "-", "-", "-", "canon")
Pinned(name, pin, md)   == TC(name, md, pin, "-", "-", "canon")
Fingerp(name, fp, alg, md) == TC(name, md, "-", fp, alg, "canon")

SupportedAlgs == {"sha256", "sha512"}           \* fingerprint(): everything else is "unknown algorithm"

Ok(rs) == [err |-> FALSE, roots |-> rs]
Err    == [err |-> TRUE, roots |-> <<>>]

\* getIDPSigningCerts: over all IDPSSODescriptors and their KeyDescriptors, the certificates of those with
\* use "signing" or without use; none => error; every one of them must parse
SigningCertSeq(md) == Flat([i \in 1..Len(md) |-> IF md[i].use \in {"", "signing"} THEN md[i].certs ELSE <<>>])
GetIDPSigningCerts(md) ==
  LET cs == SigningCertSeq(md)
  IN IF cs = <<>> THEN Err                                            \* "cannot find any signing certificate"
     ELSE IF \E i \in 1..Len(cs) : ~Parses(cs[i]) THEN Err           \* base64 / x509.ParseCertificate
     ELSE Ok(cs)

\* the signer's certificate (what he sends as KeyInfo): the IdP's of this run, or the outsider's own
KeyOf(s, c)  == IF s.key = "G" THEN c.g ELSE s.key
Attacker(k)  == k \in {"Katt", "Kenc"}

\* KeyInfo: the X509Certificate elements of a KeyInfo in document order (over all its X509Data children;
\* a KeyValue and an X509SubjectName are no X509Certificate element), and what each of them holds
KVGroup         == <<"rsa">>
IsCertItem(x)   == x \notin {"rsa", "subj"}
KICertItems(ki) == SelectSeq(Flat(ki), IsCertItem)
CertName(x, s, c) == IF x = "self" THEN KeyOf(s, c)
                     ELSE IF x = "other" THEN (IF Attacker(KeyOf(s, c)) THEN "Kidp1" ELSE "Katt")
                     ELSE x
\* the certificates Signature s carries when its KeyInfo is ki
CertsOf(ki, s, c) == LET xs == KICertItems(ki) IN [i \in 1..Len(xs) |-> CertName(xs[i], s, c)]
HasCert(s)      == KICertItems(s.ki) # <<>>                          \* an X509Certificate element is there

----------------------------------------------------------------------------
(* validateSignature + goxmldsig.Validate:  "ok" | "absent" | "error" *)

TagSigs(e)    == { i \in 1..Len(e.ch) : e.ch[i].k = "Sig" }           \* etree path ./Signature (tag only)
DirectSigs(e) == { i \in TagSigs(e) : e.ch[i].ns }                    \* findChild by namespace

\* goxmldsig findSignature: the first ds:Signature in document order ANYWHERE below the element whose
\* Reference is "" or "#"+ID (<<>> when there is none, else <<path>>); ciphertext hides what it contains
RECURSIVE FindSig(_, _), FindSigFrom(_, _, _)
FindSigFrom(t, id, i) ==
  IF i > Len(t.ch) THEN <<>>
  ELSE LET c == t.ch[i]
       IN IF c.k = "Sig" /\ c.ns /\ c.ref \in {"", id} THEN << <<i>> >>
          ELSE LET r == FindSig(c, id)
               IN IF r # <<>> THEN << <<i>> \o r[1] >> ELSE FindSigFrom(t, id, i + 1)
FindSig(t, id) == IF t.k = "EncAssn" THEN <<>> ELSE FindSigFrom(t, id, 1)
\* the same search written over the document-order list of all paths (checked equal by FindSigAgrees)
SigPathsPre(e) == SelectSeq(PreOrder(e), LAMBDA p : p # <<>> /\ At(e, p).k = "Sig" /\ At(e, p).ns)
FindSigSlow(e) == LET ps  == SigPathsPre(e)
                      hit == { j \in 1..Len(ps) : At(e, ps[j]).ref \in {"", e.id} }
                  IN IF hit = {} THEN <<>> ELSE << ps[Min(hit)] >>

\* a KeyInfo that names the signer's own certificate explicitly is, under this run, the KeyInfo as it was
\* sent (the same bytes): not a change of what an enclosing signature covers
RECURSIVE SameKI(_, _)
SameKI(t, c) == LET ki == t.ki
                    me == KeyOf(t, c)
                IN [t EXCEPT !.ki = IF t.k # "Sig" THEN ki
                                    ELSE [g \in 1..Len(ki) |-> [j \in 1..Len(ki[g]) |-> IF ki[g][j] = me THEN "self" ELSE ki[g][j]]],
                             !.ch = [i \in 1..Len(t.ch) |-> SameKI(t.ch[i], c)]]
NamesCerts == \E ki \in KISet : Range(Flat(ki)) \cap Certs # {}
DigestOK(e, p, s, c) == IF s.cov = "self" THEN Len(p) = 1           \* AttackerSignsLast
                        ELSE LET d == RemoveAt(e, p)                \* e detached, that Signature removed
                             IN (IF NamesCerts THEN SameKI(d, c) ELSE d) = Covered(base, s.cov)

\* the etree path ./Signature/KeyInfo/X509Data/X509Certificate from element e (tags only, any namespace):
\* the certificates of ALL its Signature children, in document order
PathCerts(e, c) == LET sigs == SelectSeq([i \in 1..Len(e.ch) |-> i], LAMBDA i : e.ch[i].k = "Sig")
                   IN Flat([j \in 1..Len(sigs) |-> CertsOf(e.ch[sigs[j]].ki, e.ch[sigs[j]], c)])
\* the comparison of the configured string with the computed fingerprint of certificate x: string EQUALITY -
\* an empty or abbreviated string equals no fingerprint.
\* (deviation FingerprintPrefixMatch: compared over the length of the shorter string only - the empty string
\* "matches" every certificate, an abbreviation every certificate whose fingerprint starts with it)
FpMatches(t, x) == IF "FingerprintPrefixMatch" \in Deviations
                   THEN t.fmt = "empty" \/ (t.fmt \in {"canon", "prefix"} /\ x = t.fp)
                   ELSE t.fmt = "canon" /\ x = t.fp

\* getCertBasedOnFingerprint(el): the FIRST element of that path is parsed, hashed with the configured
\* algorithm and compared with the configured string; that one certificate is the only root
CertByFingerprint(t, e, c) ==
  LET xs == PathCerts(e, c)
  IN IF xs = <<>> THEN Err                                            \* "no certificate present"
     ELSE IF "FingerprintAnyCert" \in Deviations
     THEN \* (deviation) every certificate of the path is parsed and hashed; ANY match accepts, ALL are roots
          IF \E i \in 1..Len(xs) : ~Parses(xs[i]) THEN Err
          ELSE IF t.alg \notin SupportedAlgs THEN Err
          ELSE IF ~ \E i \in 1..Len(xs) : FpMatches(t, xs[i]) THEN Err
          ELSE Ok(xs)
     ELSE LET x == xs[1]
          IN IF ~Parses(x) THEN Err                                   \* parseCert
             ELSE IF t.alg \notin SupportedAlgs THEN Err              \* "fingerprint, unknown algorithm"
             ELSE IF ~FpMatches(t, x) THEN Err                        \* "fingerprint mismatch"
             ELSE Ok(<<x>>)

\* validateSignature, selection of the roots, in the code's order: three guarded branches, then "no certs"
CodeRoots(t, e, c) ==
  LET noFp == t.fp = "-" /\ t.alg = "-"
      b1 == noFp /\ t.pin = "-"                                       \* metadata certificates
      b2 == t.fp # "-" /\ t.alg # "-" /\ t.pin = "-"                  \* fingerprint
      b3 == noFp /\ t.pin # "-"                                       \* pinned certificate
      r1 == GetIDPSigningCerts(t.md)
      r2 == CertByFingerprint(t, e, c)
  IN IF b1 /\ r1.err THEN Err
     ELSE IF b2 /\ r2.err THEN Err
     ELSE IF b3 /\ ~Parses(t.pin) THEN Err                            \* parseCert(*sp.IDPCertificate)
     ELSE LET certs == (IF b2 THEN r2.roots ELSE IF b1 THEN r1.roots ELSE <<>>)
                       \o (IF b3 THEN <<t.pin>> ELSE <<>>)            \* certs = append(certs, cert)
          IN IF certs = <<>> THEN Err ELSE Ok(certs)                  \* "saml config not set up properly"

\* MemoryX509CertificateStore.Roots: what CodeRoots selected from the SP configuration, nothing else.
\* (deviation LookalikeRoot: the first certificate of the path ./Signature/KeyInfo/X509Data/X509Certificate is
\* appended when it "looks like a reissue" of a root - same subject, same non-empty SubjectKeyIdentifier)
RootsUsed(rs, e, c) ==
  LET xs == PathCerts(e, c)
  IN IF /\ "LookalikeRoot" \in Deviations /\ xs # <<>> /\ Parses(xs[1])
        /\ \E i \in 1..Len(rs) : Ski(rs[i]) # "-" /\ Ski(rs[i]) = Ski(xs[1]) /\ Subj(rs[i]) = Subj(xs[1])
     THEN rs \o <<xs[1]>> ELSE rs

Verify(e, c) ==
  IF DirectSigs(e) = {} THEN "absent"
  ELSE IF Cardinality(DirectSigs(e)) > 1 THEN "error"                 \* "expected at most one"
  ELSE
    LET cr == CodeRoots(c.t, e, c)
        certKids == { i \in TagSigs(e) : HasCert(e.ch[i]) }
        \* KeyInfo without X509Certificate is dropped from the first ./Signature
        dropped == IF certKids = {} THEN Min(TagSigs(e)) ELSE 0
        found == FindSig(e, e.id)
    IN IF cr.err THEN "error"
       ELSE IF found = <<>> THEN "error"                              \* ErrMissingSignature
       ELSE LET roots == RootsUsed(cr.roots, e, c)                    \* MemoryX509CertificateStore.Roots (a list)
                p  == found[1]
                s  == At(e, p)
                ki == IF p = <<dropped>> THEN <<>> ELSE s.ki             \* the KeyInfo goxmldsig unmarshals
                xs == CertsOf(ki, s, c)                               \* X509Data.X509Certificates (appended over all X509Data)
                \* verifyCertificate: the certificate that has to verify the signature
                cert == IF ki = <<>> THEN (IF Len(roots) = 1 THEN roots[1] ELSE "nocert")     \* "Missing x509 Element"
                        ELSE IF xs = <<>> THEN "nocert"               \* "missing X509Certificate within KeyInfo"
                        ELSE xs[1]                                    \* X509Certificates[0] - the FIRST one, whatever follows
            IN IF cert \notin Range(roots) THEN "error"               \* verifyCertificate: the CERTIFICATE must equal a root (a "bad" one does not parse)
               ELSE IF ~DigestOK(e, p, s, c) THEN "error"                \* digest over e minus that Signature
               ELSE IF CertKey(KeyOf(s, c)) # CertKey(cert) THEN "error"   \* SignedInfo signature under that certificate's public KEY
               ELSE "ok"

----------------------------------------------------------------------------
(* the SP's step machine (FunctionalMachine) *)

Reject(step)  == [v |-> "reject", ret |-> <<>>, step |-> step]
Accept(p)     == [v |-> "accept", ret |-> p, step |-> "Return"]

\* parseAssertion, its stages in the code's order; the result names the stage that refused ("ok" = returned):
\*   SigStage      validateSignature(assertionEl) when a signature is still required
\*   Unmarshal     the element that was just verified is read into an Assertion
\*   ValidateStage validateAssertion: issuer, instants, InResponseTo, Recipient, audience - reads acc,
\*                 AFTER the signature stage (an assertion the IdP signed for somebody else gets this far)
AssnStage(a, sigReq, c) ==
  IF sigReq /\ Verify(a, c) # "ok" THEN "SigStage"
  ELSE IF ~(a.k = "Assn" /\ a.ns) THEN "Unmarshal"
  ELSE IF a.acc # "ok" THEN "ValidateStage"
  ELSE "ok"
ParseAssertion(a, sigReq, c) == AssnStage(a, sigReq, c) = "ok"

\* the two loops of parseResponse over the candidates (encrypted first, then plaintext), in order: the index of
\* the first candidate that parseAssertion returns (0 = none).  The requirement is passed to every call BY
\* VALUE: nothing that happens to one assertion changes it for the next.
\* (deviation SignedSiblingVouches: a signature stage that passed switches it off for the candidates after it)
RECURSIVE FirstGood(_, _, _, _)
FirstGood(cand, j, sigReq, c) ==
  IF j > Len(cand) THEN 0
  ELSE LET st   == AssnStage(cand[j].a, sigReq, c)
           next == IF "SignedSiblingVouches" \in Deviations /\ sigReq /\ st # "SigStage" THEN FALSE ELSE sigReq
       IN IF st = "ok" THEN j ELSE FirstGood(cand, j + 1, next, c)

KidsOf(r, kind) == SelectSeq([i \in 1..Len(r.ch) |-> i], LAMBDA i : r.ch[i].k = kind /\ r.ch[i].ns)

\* parseResponse(r at path rp, signatureRequirement)
ParseResponse(r, rp, sigReq0, c) ==
  LET rs     == IF sigReq0 THEN Verify(r, c) ELSE "skipped"           \* RespSig: evaluated first ...
      fields == r.k = "Resp" /\ r.ns                                  \* Fields: unmarshal + FieldsValid
      sigReq == sigReq0 /\ rs # "ok"                                  \* ActOnRespSig: ... acted on afterwards
      enc    == KidsOf(r, "EncAssn")                                  \* EncLoop: direct children, SAML namespace
      plain  == KidsOf(r, "Assn")                                     \* PlainLoop
      cand   == [j \in 1..Len(enc) |-> [p |-> <<enc[j], 1>>, a |-> r.ch[enc[j]].ch[1]]]
                \o [j \in 1..Len(plain) |-> [p |-> <<plain[j]>>, a |-> r.ch[plain[j]]]]
      first  == FirstGood(cand, 1, sigReq, c)
  IN IF ~fields THEN Reject("Fields")
     ELSE IF rs = "error" THEN Reject("RespSig")
     ELSE IF first = 0 THEN Reject("NoValidAssertion")
     ELSE Accept(rp \o cand[first].p)                                 \* first valid one wins

\* The lookups.  Each returns <<>> (error) or <<path>> of the element it finds.
\* findOneChild(parent, namespace, tag): the direct child of that name in that namespace, if there is exactly one
OneChild(d, pp, kind) == LET ks == KidsOf(At(d, pp), kind) IN IF Len(ks) = 1 THEN << pp \o <<ks[1]>> >> ELSE <<>>
\* etree FindElement("//Tag") - a path that starts with / is evaluated from the DOCUMENT ROOT whatever
\* element it is called on: the first element of that tag (any namespace) in document order; what is
\* inside ciphertext is no element
FirstInDocument(d, kind) == LET ps == SelectSeq(PreOrder(d), LAMBDA p : At(d, p).k = kind)
                            IN IF ps = <<>> THEN <<>> ELSE << ps[1] >>

LookupBody(d)         == OneChild(d, <<>>, "Body")                    \* findOneChild(doc.Root(), soap, "Body")
LookupArtResp(d, bp)  == OneChild(d, bp, "ArtResp")                   \* findOneChild(soapBodyEl, samlp, "ArtifactResponse")
\* the Response that is parsed: the child of the ArtifactResponse whose signature was just evaluated
LookupResponse(d, tp) == IF "ResponseFromDocumentRoot" \in Deviations THEN FirstInDocument(d, "Resp")
                         ELSE OneChild(d, tp, "Resp")                 \* findOneChild(artifactResponseEl, samlp, "Response")

Run(d, c) ==
  IF base.art = "none"
  THEN ParseResponse(d, <<>>, TRUE, c)                                \* ParseXMLResponse / ParseResponse (POST)
  ELSE \* ParseXMLArtifactResponse (also reached from ParseResponse with SAMLart, with the body of the SOAP reply)
    IF ~(d.k = "Env" /\ d.ns) THEN Reject("Envelope")                 \* root is soap:Envelope
    ELSE LET bp == LookupBody(d)
         IN IF bp = <<>> THEN Reject("OneBody")
            ELSE LET tp == LookupArtResp(d, bp[1])
                 IN IF tp = <<>> THEN Reject("OneArtifactResponse")
                    ELSE \* parseArtifactResponse: fields (FieldsValid), signature, then the Response
                      LET art == At(d, tp[1])
                          ts  == Verify(art, c)
                          rp  == LookupResponse(d, tp[1])
                      IN IF ~(art.k = "ArtResp" /\ art.ns) THEN Reject("ArtFields")      \* unmarshal into ArtifactResponse
                         ELSE IF ts = "error" THEN Reject("ArtSig")
                         ELSE IF rp = <<>> THEN Reject("OneResponse")
                         ELSE ParseResponse(At(d, rp[1]), rp[1], ts = "absent", c)

----------------------------------------------------------------------------
(* the attacker *)

Edit(d2) == /\ Size(d2) <= MaxNodes
            /\ doc' = Norm(d2)
            /\ doc' # doc
            /\ n' = n + 1
            /\ UNCHANGED base

NoSigs(t) == [t EXCEPT !.ch = SelectSeq(@, LAMBDA c : c.k # "Sig")]
FirstSig(t) == Min(TagSigs(t))

\* CopyForge: an attacker-made element of the same kind, with the target's signatures copied / moved / without
Forged(t, sameID, sigMode) ==
  LET sigs  == IF sigMode = "none" THEN <<>> ELSE SelectSeq(t.ch, LAMBDA c : c.k = "Sig")
      fa    == Node("Assn", IF sameID THEN "A0" ELSE "X2", "f", <<>>)
      inner == IF t.k = "Resp" THEN <<fa>>
               ELSE IF t.k = "ArtResp" THEN <<Node("Resp", IF sameID THEN "R0" ELSE "X3", "f", <<fa>>)>>
               ELSE <<>>
  IN Node(t.k, IF sameID THEN t.id ELSE "X1", "f", sigs \o inner)

Wheres == {"before", "after", "wrapG", "wrapGSigObj", "wrapGWrap", "fInWrapBefore", "fInGSigObj"}

Forge == \E p \in Paths(doc), sameID \in BOOLEAN, sigMode \in {"none", "copy", "move"}, w \in Wheres :
  LET t  == At(doc, p)
      f  == Forged(t, sameID, sigMode)
      t2 == IF sigMode = "move" THEN NoSigs(t) ELSE t
  IN /\ t.k \in {"Assn", "Resp"}
     /\ (sigMode # "none" => TagSigs(t) # {})
     /\ CASE w = "before"  -> p # <<>> /\ Edit(ReplaceSeq(doc, p, <<f, t2>>))
          [] w = "after"   -> p # <<>> /\ Edit(ReplaceSeq(doc, p, <<t2, f>>))
          [] w = "wrapG"   -> Edit(SetAt(doc, p, [f EXCEPT !.ch = @ \o <<t2>>]))
          [] w = "wrapGSigObj" -> /\ TagSigs(f) # {}
                                  /\ Edit(SetAt(doc, p, [f EXCEPT !.ch[FirstSig(f)].ch = @ \o <<Obj(<<t2>>)>>]))
          [] w = "wrapGWrap"   -> Edit(SetAt(doc, p, [f EXCEPT !.ch = @ \o <<Wrap(<<t2>>)>>]))
          [] w = "fInWrapBefore" -> p # <<>> /\ Edit(ReplaceSeq(doc, p, <<Wrap(<<f>>), t2>>))
          [] w = "fInGSigObj"  -> /\ TagSigs(t2) # {}
                                  /\ Edit(SetAt(doc, p, [t2 EXCEPT !.ch[FirstSig(t2)].ch = @ \o <<Obj(<<f>>)>>]))

StripSig == \E p \in Paths(doc) : p # <<>> /\ At(doc, p).k = "Sig" /\ Edit(RemoveAt(doc, p))

MoveSig == \E p \in Paths(doc) :
  /\ p # <<>> /\ At(doc, p).k = "Sig"
  /\ LET s == At(doc, p)  d1 == RemoveAt(doc, p)
     IN \E q \in Paths(d1) : /\ At(d1, q).k \notin {"Sig", "EncAssn"} \cup SoapKinds
                             /\ Edit(SetAt(d1, q, [At(d1, q) EXCEPT !.ch = <<s>> \o @]))

EditID == \E p \in Paths(doc) : /\ At(doc, p).id \in {"R0", "A0", "T0"} \cup OtherIDs
                                /\ Edit(SetAt(doc, p, [At(doc, p) EXCEPT !.id = "X1"]))

EditSignedField == \E p \in Paths(doc) :
  /\ At(doc, p).k \in {"Assn", "Resp", "ArtResp"} /\ At(doc, p).org = "g" /\ ~At(doc, p).ed
  /\ Edit(SetAt(doc, p, [At(doc, p) EXCEPT !.ed = TRUE]))

ReSign == \E p \in Paths(doc), key \in {"Katt", "Kenc"}, ki \in KISet :
  /\ At(doc, p).k \in {"Assn", "Resp", "ArtResp"}
  /\ \A i \in TagSigs(At(doc, p)) : At(doc, p).ch[i].cov # "self"
  /\ Edit(SetAt(doc, p, [At(doc, p) EXCEPT !.ch = <<ASig(key, ki)>> \o @]))

EditKeyInfo == \E p \in Paths(doc), v \in KISet :
  /\ At(doc, p).k = "Sig" /\ At(doc, p).ki # v
  /\ Edit(SetAt(doc, p, [At(doc, p) EXCEPT !.ki = v]))

DuplicateAssertion == \E p \in Paths(doc) :
  /\ p # <<>> /\ At(doc, p).k \in {"Assn", "EncAssn"}
  /\ Edit(ReplaceSeq(doc, p, <<At(doc, p), At(doc, p)>>))

RemoveUnsigned == \E p \in Paths(doc) : p # <<>> /\ At(doc, p).k \notin {"Sig"} \cup SoapKinds /\ Edit(RemoveAt(doc, p))

ReEncrypt == \E p \in Paths(doc) : p # <<>> /\ At(doc, p).k = "Assn" /\ Edit(SetAt(doc, p, EncF(<<At(doc, p)>>)))

WrongNamespace == \E p \in Paths(doc) : At(doc, p).ns /\ Edit(SetAt(doc, p, [At(doc, p) EXCEPT !.ns = FALSE]))

\* EnvPlace (artifact back channel only): the party in the middle of the back channel adds to the SOAP
\* envelope an element made from an ArtifactResponse / Response / Assertion of the message - a forged one of
\* the same kind (CopyForge: same or fresh ID, signatures none / copied / moved over), a verbatim copy, or
\* the element itself moved away - in a soap:Header before or after soap:Body (directly, inside an element
\* of a foreign namespace, or itself in a foreign namespace), as a direct child of the Envelope, inside
\* soap:Body as a sibling before or after what is there, or in a second soap:Body
EnvWheres == {"hdrBefore", "hdrAfter", "hdrBeforeNs", "hdrBeforeForeign", "envBefore", "envAfter",
              "bodyBefore", "bodyAfter", "body2Before", "body2After"}
EnvPlace == \E p \in Paths(doc), mode \in {"forge", "copy", "move"}, sameID \in BOOLEAN,
               sigMode \in {"none", "copy", "move"}, w \in EnvWhereSet :
  LET t  == At(doc, p)
      x  == IF mode = "forge" THEN Forged(t, sameID, sigMode) ELSE t
      d1 == IF mode = "move" THEN RemoveAt(doc, p)
            ELSE IF mode = "forge" /\ sigMode = "move" THEN SetAt(doc, p, NoSigs(t))
            ELSE doc
      bodies == { i \in 1..Len(d1.ch) : d1.ch[i].k = "Body" }
      bi == Min(bodies)
      top(y, i) == [d1 EXCEPT !.ch = InsertAt(@, i, y)]
  IN /\ doc.k = "Env" /\ p # <<>>
     /\ t.k \in (IF mode = "forge" THEN {"ArtResp", "Resp", "Assn"} ELSE {"ArtResp", "Resp", "Assn", "EncAssn"})
     /\ (mode # "forge" => sameID /\ sigMode = "none")               \* one representative
     /\ (sigMode # "none" => TagSigs(t) # {})
     /\ bodies # {}
     /\ CASE w = "hdrBefore"        -> Edit(top(Hdr(<<x>>), bi))
          [] w = "hdrAfter"         -> Edit(top(Hdr(<<x>>), bi + 1))
          [] w = "hdrBeforeNs"      -> Edit(top(Hdr(<< [Wrap(<<x>>) EXCEPT !.ns = FALSE] >>), bi))
          [] w = "hdrBeforeForeign" -> x.ns /\ Edit(top(Hdr(<< [x EXCEPT !.ns = FALSE] >>), bi))
          [] w = "envBefore"        -> Edit(top(x, bi))
          [] w = "envAfter"         -> Edit(top(x, bi + 1))
          [] w = "bodyBefore"       -> Edit([d1 EXCEPT !.ch[bi].ch = <<x>> \o @])
          [] w = "bodyAfter"        -> Edit([d1 EXCEPT !.ch[bi].ch = @ \o <<x>>])
          [] w = "body2Before"      -> Edit(top(Body2(<<x>>), bi))
          [] w = "body2After"       -> Edit(top(Body2(<<x>>), bi + 1))

\* Siblings: next to (before / after) or instead of an assertion of a Response the attacker places a SEQUENCE
\* of assertions, each plaintext or encrypted to the SP: "oNot" / "oExp" - B1 / B2 as the IdP signed them
\* (genuinely signed, not acceptable to this SP); "fOk" - forged, unsigned, acceptable apart from the missing
\* signature; "fNot" / "fExp" - forged and not acceptable either
SibKinds == {"oNot", "oExp", "fOk", "fNot", "fExp"}
SI(w, enc) == [w |-> w, enc |-> enc]
SibItem(w) == CASE w = "oNot" -> OrigOther("B1")
                [] w = "oExp" -> OrigOther("B2")
                [] w = "fOk"  -> Node("Assn", "X2", "f", <<>>)
                [] w = "fNot" -> [Node("Assn", "X2", "f", <<>>) EXCEPT !.acc = "notForThisSP"]
                [] w = "fExp" -> [Node("Assn", "X2", "f", <<>>) EXCEPT !.acc = "expired"]
SibNode(it) == IF it.enc THEN EncF(<<SibItem(it.w)>>) ELSE SibItem(it.w)
Siblings == \E p \in Paths(doc), sq \in SibSeqSet, w \in {"before", "after", "replace"} :
  LET t  == At(doc, p)
      ns == [i \in 1..Len(sq) |-> SibNode(sq[i])]
  IN /\ p # <<>> /\ t.k \in {"Assn", "EncAssn"}
     /\ At(doc, SubSeq(p, 1, Len(p) - 1)).k = "Resp"
     /\ Edit(ReplaceSeq(doc, p, CASE w = "before" -> ns \o <<t>> [] w = "after" -> <<t>> \o ns [] w = "replace" -> ns))

\* the sequences: all of length 1 and 2 (SibAll), and a covering subset - [signed + unacceptable, forged +
\* acceptable] and the mirror order, for both ways of being unacceptable, with either member encrypted (the
\* encrypted candidates are processed before the plaintext ones whatever the document order), two signed
\* unacceptable ones, a forged one that is unacceptable itself, and the signed unacceptable ones alone
SibItems == { SI(w, e) : w \in SibKinds, e \in BOOLEAN }
SibAll   == { <<a>> : a \in SibItems } \cup { <<a, b>> : a \in SibItems, b \in SibItems }
Pl(w) == SI(w, FALSE)
En(w) == SI(w, TRUE)
SibCover == { <<Pl("oNot")>>, <<Pl("oExp")>>, <<En("oNot")>>,
              <<Pl("oNot"), Pl("fOk")>>, <<Pl("fOk"), Pl("oNot")>>, <<Pl("oExp"), Pl("fOk")>>, <<Pl("fOk"), Pl("oExp")>>,
              <<En("oNot"), Pl("fOk")>>, <<Pl("fOk"), En("oExp")>>, <<Pl("oNot"), En("fOk")>>, <<En("oExp"), En("fOk")>>,
              <<Pl("oNot"), Pl("oExp")>>, <<Pl("oNot"), Pl("fNot")>>, <<Pl("fExp"), Pl("oExp")>> }

Init == /\ base \in BaseSet
        /\ doc = BaseDoc(base)
        /\ n = 0

\* the productions on the SAML content (every entry point) ...
TreeProds == {"Forge", "StripSig", "MoveSig", "EditID", "EditSignedField", "ReSign", "EditKeyInfo",
              "DuplicateAssertion", "RemoveUnsigned", "ReEncrypt", "WrongNamespace"}
\* ... and on the SOAP envelope of the artifact back channel
EnvProds == {"EnvPlace"}
\* ... and the sibling sequences (other IdP-signed assertions the attacker holds, forged ones)
SibProds == {"Siblings"}
AllProds == TreeProds \cup EnvProds
\* two steps around a sibling sequence: what else can be done to the signatures, the assertions and the Response
SibFamily == SibProds \cup {"StripSig", "MoveSig", "ReSign", "EditSignedField", "EditID", "DuplicateAssertion", "RemoveUnsigned", "ReEncrypt"}
\* the family that touches who signed and which certificate is named (used where the trust configuration
\* is crossed with two attacker steps)
KeyProds == {"StripSig", "ReSign", "EditKeyInfo", "EditSignedField", "ReEncrypt"}
\* KeyInfo variants.  One item: as sent, no KeyInfo, an RSAKeyValue only, the substituted certificate
KIClassic == {AsSent, <<>>, <<KVGroup>>, KI1("other")}
\* explicit certificates: the attacker names any certificate he knows of, or something that is none
KINamed   == {AsSent, <<>>, <<KVGroup>>, KI1("Kidp1"), KI1("Kidp2"), KI1("Katt"), KI1("bad")}
\* SEQUENCES: several certificates in one X509Data / in several X509Data elements, with other items.
\* "self" on a signature the attacker made is the OUTSIDER's certificate, on a genuine one the IdP's:
\*   [outsider, trusted] [trusted, outsider] [trusted, trusted-other] duplicates, a certificate plus an
\*   RSAKeyValue (either order), two X509Data, an X509Data without certificate first, one that is none behind
KISeq     == { << <<"self", "Kidp1">> >>, << <<"Kidp1", "self">> >>, << <<"self", "Katt">> >>, << <<"Katt", "self">> >>,
               << <<"Kidp1", "Kidp2">> >>, << <<"Kidp2", "Kidp1">> >>, << <<"self", "self">> >>,
               << <<"self">>, KVGroup >>, << KVGroup, <<"self">> >>,
               << <<"self">>, <<"Kidp1">> >>, << <<"Kidp1">>, <<"self">> >>, << <<"Katt">>, <<"Kidp1">> >>,
               << <<"subj">>, <<"self">> >>, << <<"self", "bad">> >>, << <<"Kenc", "Kidp1", "Katt">> >> }
\* the LOOK-ALIKE certificate (attacker's key, subject and SubjectKeyIdentifier of Kidp1k): alone, and in front of
\* the certificate it imitates
KILook    == { KI1("Klook"), << <<"Klook", "Kidp1k">> >> }
KIAll     == KINamed \cup KISeq \cup KILook
\* the sequences that are crossed with a second attacker step (two steps of the key family)
KICross   == KINamed \cup { << <<"self", "Kidp1">> >>, << <<"Kidp1", "self">> >>, << <<"Katt">>, <<"Kidp1">> >>, << <<"self">>, KVGroup >> }

Next == /\ n < K
        /\ \/ "Forge" \in Prods /\ Forge
           \/ "StripSig" \in Prods /\ StripSig
           \/ "MoveSig" \in Prods /\ MoveSig
           \/ "EditID" \in Prods /\ EditID
           \/ "EditSignedField" \in Prods /\ EditSignedField
           \/ "ReSign" \in Prods /\ ReSign
           \/ "EditKeyInfo" \in Prods /\ EditKeyInfo
           \/ "DuplicateAssertion" \in Prods /\ DuplicateAssertion
           \/ "RemoveUnsigned" \in Prods /\ RemoveUnsigned
           \/ "ReEncrypt" \in Prods /\ ReEncrypt
           \/ "WrongNamespace" \in Prods /\ WrongNamespace
           \/ "EnvPlace" \in Prods /\ EnvPlace
           \/ "Siblings" \in Prods /\ Siblings

Spec == Init /\ [][Next]_vars

----------------------------------------------------------------------------
(* Properties - written from the statement of C01 only.                     *)

RunCfgs == { RunCfgSeq[i] : i \in 1..Len(RunCfgSeq) }

\* "one of the IdP certificates the SP is configured to trust", for a trust configuration t:
\*   a pinned certificate          => only the pinned certificate;
\*   a certificate fingerprint     => only a certificate with that fingerprint;
\*   otherwise                     => the signing-use certificates of the IdP metadata (use="signing", or use
\*                                    omitted = both uses) - never one published for encryption only.
\* Nothing that is not a certificate is a key.  (Where both a pinned certificate and a fingerprint are set the
\* statement does not say which wins: the union is used, which can only make the check more lenient.)
\* "A certificate with that fingerprint": the configured string IS the fingerprint of the certificate.  A string
\* that is the complete fingerprint of no certificate - the empty string, an abbreviation - names nothing: no
\* certificate "has" it, and whoever may pick the certificate that "starts with" it picks the trust root.  So
\* the empty string trusts nothing, and an abbreviation never makes a certificate trusted that is not an IdP
\* certificate (the attacker's own).  For an abbreviation of an IdP certificate's fingerprint the lenient reading
\* is kept, as for the other ways of writing that certificate's fingerprint differently (lower case, other
\* algorithm): content the IdP signed with that key may be returned or not (never MustAccept: not Clean),
\* everything else is untrusted.
\* TrustedKeys(t) reads the SP configuration and nothing else - no part of a message, no resemblance.
MdSigningUse(md) == UNION { Range(md[i].certs) : i \in { j \in 1..Len(md) : md[j].use \in {"signing", ""} } }
AttackerCerts == {"Katt", "Klook"}                                   \* made by the attacker for his own key
FpNamed(t) == IF t.fp = "-" \/ t.fmt = "empty" THEN {}
              ELSE IF t.fmt = "prefix" THEN {t.fp} \ AttackerCerts
              ELSE {t.fp}
TrustedKeys(t) == Certs \cap (IF t.pin # "-" \/ t.fp # "-" THEN {t.pin} \cup FpNamed(t) ELSE MdSigningUse(t.md))
\* "an XML signature verifying UNDER one of the IdP certificates the SP is configured to trust": made with the
\* private key that belongs to the public key of such a certificate
VerifiesUnderTrusted(k, t) == \E x \in TrustedKeys(t) : CertKey(x) = CertKey(k)

\* a configuration under which the statement's "genuine messages are accepted" reading applies: exactly one
\* way of naming the trusted certificate, everything in it is a certificate, the fingerprint is written the
\* way the library documents (algorithm it supports, upper-case hex with colons).  Anything else: DontCare.
AllCertsParse(md) == \A i \in 1..Len(md) : \A j \in 1..Len(md[i].certs) : Parses(md[i].certs[j])
Clean(t) == /\ AllCertsParse(t.md)
            /\ \/ t.pin = "-" /\ t.fp = "-" /\ t.alg = "-"
               \/ Parses(t.pin) /\ t.fp = "-" /\ t.alg = "-"
               \/ t.pin = "-" /\ Parses(t.fp) /\ t.alg \in SupportedAlgs /\ t.fmt = "canon"

\* element e carries a signature by a configured signing certificate that covers e as it is now
\* (compared without what sits under Signature elements)
TrustedCover(e, c) ==
  /\ e.k \in {"Assn", "Resp", "ArtResp"}
  /\ \E i \in 1..Len(e.ch) : LET s == e.ch[i]
                             IN /\ s.k = "Sig" /\ s.ns /\ s.cov \in {"A0", "R0", "T0"} \cup OtherIDs
                                /\ VerifiesUnderTrusted(KeyOf(s, c), c.t)
                                /\ StripSigs(e) = StripSigs(Orig(base, s.cov))

\* the assertion at path p is IdP content covered by a trusted signature placed on itself
\* or on an enclosing Response / ArtifactResponse
Trusted(d, p, c) ==
  LET a == At(d, p)
  IN /\ a.k = "Assn" /\ a.org = "g" /\ ~a.ed
     /\ \E m \in 0..Len(p) :
          LET q == SubSeq(p, 1, m)
          IN /\ TrustedCover(At(d, q), c)
             /\ (m < Len(p) => At(d, q).k \in {"Resp", "ArtResp"})
             /\ \A m2 \in (m + 1)..Len(p) : At(d, SubSeq(p, 1, m2)).k # "Sig"    \* not under a Signature of q

Untouched == n = 0
MustAccept(c) == Untouched /\ Clean(c.t) /\ c.g \in TrustedKeys(c.t) /\ (base.sigR \/ base.sigA \/ base.art = "signed")
MustReject(c) == ~ \E p \in AllPaths(doc) : Trusted(doc, p, c)
\* the same, computed by one descent (cov = covered by a trusted signature on an enclosing Response /
\* ArtifactResponse with no Signature element in between); equality with MustReject is checked by
\* MustRejectAgrees in the quick configuration
RECURSIVE AnyTrusted(_, _, _)
AnyTrusted(t, cov, c) ==
  LET here == TrustedCover(t, c)
  IN \/ t.k = "Assn" /\ t.org = "g" /\ ~t.ed /\ (cov \/ here)
     \/ \E i \in 1..Len(t.ch) :
          AnyTrusted(t.ch[i], IF t.k = "Sig" THEN FALSE ELSE IF t.k \in {"Resp", "ArtResp"} THEN (cov \/ here) ELSE cov, c)
MustRejectFast(c) == ~AnyTrusted(doc, FALSE, c)
Class(c) == IF MustAccept(c) THEN "MustAccept" ELSE IF MustRejectFast(c) THEN "MustReject" ELSE "DontCare"

\* the machine's answer and the statement's class for one run configuration
Pred(c) == LET r == Run(doc, c)
           IN [t |-> c.t.name, g |-> c.g, cls |-> Class(c), v |-> r.v, ret |-> r.ret, step |-> r.step]
Idx == 1..Len(RunCfgSeq)
\* (evaluation strategy, no part of the statement)  Many run configurations are the same to every operator
\* above: the machine reads a configuration only through CodeRoots - GetIDPSigningCerts(t.md), t.pin, t.fp,
\* t.alg, t.fmt - and g; the properties read it only through TrustedKeys(t), Clean(t) and g.  Machine and
\* class are evaluated once per class of configurations with the same projection (the first of the class,
\* Reps) and copied to the others; PredsPlain is the definition, ProjSound (checked by hand in
\* SigTree_C01c.cfg, see fixes/C01c.md) says the two agree.
Proj(c) == [r1 |-> GetIDPSigningCerts(c.t.md), pin |-> c.t.pin, fp |-> c.t.fp, alg |-> c.t.alg, fmt |-> c.t.fmt,
            tk |-> TrustedKeys(c.t), clean |-> Clean(c.t), g |-> c.g]      \* (VerifiesUnderTrusted reads tk)
Projs  == TLCEval([i \in Idx |-> Proj(RunCfgSeq[i])])
RepIdx == TLCEval([i \in Idx |-> Min({ j \in Idx : Projs[j] = Projs[i] })])
Reps   == { i \in Idx : RepIdx[i] = i }
PredsPlain == [i \in Idx |-> Pred(RunCfgSeq[i])]
Preds      == LET rp == TLCEval([i \in Reps |-> Pred(RunCfgSeq[i])])      \* TLCEval: evaluated once, eagerly
              IN TLCEval([i \in Idx |-> [rp[RepIdx[i]] EXCEPT !.t = RunCfgSeq[i].t.name]])
ProjSound  == Preds = PredsPlain

\* "whenever the API returns an assertion, its identity-bearing content was covered by a trusted signature"
OnlySignedContentOn(ps) == \A i \in Reps : ps[i].v = "accept" => Trusted(doc, ps[i].ret, RunCfgSeq[i])
RejectsUntrustedOn(ps)  == \A i \in Reps : ps[i].cls = "MustReject" => ps[i].v = "reject"
AcceptsGenuineOn(ps)    == \A i \in Reps : ps[i].cls = "MustAccept" => ps[i].v = "accept"

\* "no ... re-encryption ... makes it return any other content": encrypting a plaintext assertion to the SP
\* never yields other content, and where nothing above the assertion is signed (the ciphertext is then
\* outside every digest) and it is the only candidate, verdict and returned assertion are unchanged
RECURSIVE PlainAssnPaths(_)      \* plaintext SAML assertions that are children of a Response
PlainAssnPaths(t) ==
  IF t.k = "EncAssn" THEN {}
  ELSE UNION { (IF t.k = "Resp" /\ t.ch[i].k = "Assn" /\ t.ch[i].ns THEN {<<i>>} ELSE {})
               \cup { <<i>> \o q : q \in PlainAssnPaths(t.ch[i]) } : i \in 1..Len(t.ch) }
EncryptionTransparentOn(ps) ==
  \A p \in PlainAssnPaths(doc) :
      LET d2  == SetAt(doc, p, EncF(<<At(doc, p)>>))
          par == At(doc, SubSeq(p, 1, Len(p) - 1))
          bare == /\ \A m \in 0..(Len(p) - 1) : TagSigs(At(doc, SubSeq(p, 1, m))) = {}
                  /\ Len(KidsOf(par, "Assn")) + Len(KidsOf(par, "EncAssn")) = 1
      IN \A i \in Reps :
           LET r1 == ps[i]
               r2 == Run(d2, RunCfgSeq[i])
           IN /\ (r2.v = "accept" => Trusted(d2, r2.ret, RunCfgSeq[i]))
              /\ (bare => /\ r2.v = r1.v
                          /\ (r1.v = "accept" => At(d2, r2.ret) = At(doc, r1.ret)))

OnlySignedContent     == OnlySignedContentOn(Preds)
RejectsUntrusted      == RejectsUntrustedOn(Preds)
AcceptsGenuine        == AcceptsGenuineOn(Preds)
EncryptionTransparent == EncryptionTransparentOn(Preds)

----------------------------------------------------------------------------
(* emission: the FINAL abstract tree with the prediction per run configuration *)

RECURSIVE J(_)
J(t) == IF t.k = "Sig"
        THEN [k |-> "Sig", ns |-> t.ns, key |-> t.key, ref |-> t.ref, cov |-> t.cov, ki |-> t.ki,
              ch |-> [i \in 1..Len(t.ch) |-> J(t.ch[i])]]
        ELSE [k |-> t.k, id |-> t.id, org |-> t.org, ed |-> t.ed, ns |-> t.ns, acc |-> t.acc,
              ch |-> [i \in 1..Len(t.ch) |-> J(t.ch[i])]]

Seed == IF "VERIF_SEED" \in DOMAIN IOEnv THEN atoi(IOEnv.VERIF_SEED) ELSE 1
Sampled == n >= EmitMin /\ (n < EmitFrom \/ Chk(doc) % EmitMod = Seed % EmitMod)
EmitOn(ps) == Sampled => PrintT(<<"VEC", ToJson([prop |-> "C01", b |-> base, n |-> n, t |-> J(doc), runs |-> ps])>>)
Emit == EmitOn(Preds)

\* the four properties and the emission with the machine evaluated once per document (same meaning as
\* listing them separately; used where the state space is large)
MustRejectAgrees == \A c \in RunCfgs : MustReject(c) = MustRejectFast(c)
FindSigAgrees    == \A p \in Paths(doc) : FindSig(At(doc, p), At(doc, p).id) = FindSigSlow(At(doc, p))

AllProps == LET ps == Preds
            IN /\ OnlySignedContentOn(ps) /\ RejectsUntrustedOn(ps) /\ AcceptsGenuineOn(ps)
               /\ EncryptionTransparentOn(ps) /\ EmitOn(ps)

----------------------------------------------------------------------------
(* the trust configurations explored *)

K1 == <<"Kidp1">>
K2 == <<"Kidp2">>
K1k == <<"Kidp1k">>                                                   \* the certificate of that key WITH a SubjectKeyIdentifier
\* what sp.IDPMetadata lists
Md(m) == CASE m = "none"   -> <<>>                                    \* no KeyDescriptor at all
           [] m = "s1"     -> <<S(K1)>>                               \* one signing key
           [] m = "u1"     -> <<U(K1)>>                               \* use omitted
           [] m = "s2"     -> <<S(K2)>>                               \* ANOTHER key
           [] m = "s1s2e"  -> <<S(K1), S(K2), E(<<"Kenc">>)>>         \* several signing keys + an encryption-only key
           [] m = "s12"    -> <<S(<<"Kidp1", "Kidp2">>)>>             \* several certificates in one descriptor
           [] m = "u1s2"   -> <<U(K1), S(K2)>>
           [] m = "s1/s2"  -> <<S(K1), KD("signing", FALSE, K2, 2)>>  \* two IDPSSODescriptors
           [] m = "s1e2"   -> <<S(K1), E(K2)>>                        \* use="encryption" without EncryptionMethod
           [] m = "s1em2"  -> <<S(K1), EM(K2)>>                       \* use="encryption" with EncryptionMethod children
           [] m = "e1"     -> <<E(K1)>>                               \* nothing but an encryption-use key
           [] m = "em1"    -> <<EM(K1)>>
           [] m = "s1s1"   -> <<S(K1), S(K1)>>                        \* the same certificate twice
           [] m = "s0s1"   -> <<S(<<>>), S(K1)>>                      \* a descriptor without certificate
           [] m = "s0"     -> <<S(<<>>)>>
           [] m = "bad"    -> <<S(<<"bad">>)>>                        \* an unparsable certificate
           [] m = "s1bad"  -> <<S(K1), S(<<"bad">>)>>
           [] m = "s1ebad" -> <<S(K1), E(<<"bad">>)>>
           [] m = "s2bad"  -> <<S(K2), S(<<"bad">>)>>
           [] m = "s1k"    -> <<S(K1k)>>                              \* one signing key whose certificate carries a key identifier
           [] m = "s1ks2e" -> <<S(K1k), S(K2), E(<<"Kenc">>)>>        \* several signing keys, one of them with a key identifier

\* (1) certificates from the IdP metadata
MdNames == <<"none", "s1", "u1", "s2", "s1s2e", "s12", "u1s2", "s1/s2", "s1e2", "s1em2", "e1", "em1",
             "s1s1", "s0s1", "s0", "bad", "s1bad", "s1ebad", "s2bad">>
TMd == [i \in 1..Len(MdNames) |-> MdOnly("md:" \o MdNames[i], Md(MdNames[i]))]
\* (2) pinned certificate Kidp1, crossed with what the metadata lists at the same time: nothing, the same key,
\*     another key, the same and another, another for encryption, an unparsable one; an unparsable pinned one
TPin == << Pinned("pin1:md=none", "Kidp1", Md("none")), Pinned("pin1:md=s1", "Kidp1", Md("s1")),
           Pinned("pin1:md=s2", "Kidp1", Md("s2")),     Pinned("pin1:md=s1s2e", "Kidp1", Md("s1s2e")),
           Pinned("pin1:md=u1s2", "Kidp1", Md("u1s2")), Pinned("pin1:md=s2bad", "Kidp1", Md("s2bad")),
           Pinned("pin1:md=bad", "Kidp1", Md("bad")),
           Pinned("pinbad:md=none", "bad", Md("none")), Pinned("pinbad:md=s1", "bad", Md("s1")),
           Pinned("pinbad:md=s1s2e", "bad", Md("s1s2e")) >>
\* (3) fingerprint of Kidp1's certificate, per algorithm, crossed the same way; written differently; mixed settings
TFp == << Fingerp("fp1-sha256:md=none", "Kidp1", "sha256", Md("none")), Fingerp("fp1-sha256:md=s1", "Kidp1", "sha256", Md("s1")),
          Fingerp("fp1-sha256:md=s2", "Kidp1", "sha256", Md("s2")),     Fingerp("fp1-sha256:md=s1s2e", "Kidp1", "sha256", Md("s1s2e")),
          Fingerp("fp1-sha256:md=bad", "Kidp1", "sha256", Md("bad")),
          Fingerp("fp1-sha512:md=none", "Kidp1", "sha512", Md("none")), Fingerp("fp1-sha512:md=s1", "Kidp1", "sha512", Md("s1")),
          Fingerp("fp1-sha512:md=s2", "Kidp1", "sha512", Md("s2")),     Fingerp("fp1-sha512:md=s2bad", "Kidp1", "sha512", Md("s2bad")),
          Fingerp("fp1-sha1:md=none", "Kidp1", "sha1", Md("none")),     Fingerp("fp1-sha1:md=s1", "Kidp1", "sha1", Md("s1")),
          Fingerp("fp1-sha1:md=s2", "Kidp1", "sha1", Md("s2")),
          TC("fp1-sha256-lower:md=s1", Md("s1"), "-", "Kidp1", "sha256", "lower"),
          TC("fp1-sha256-otheralg:md=s2", Md("s2"), "-", "Kidp1", "sha256", "otheralg"),
          TC("fp1-noalg:md=s1", Md("s1"), "-", "Kidp1", "-", "canon"),           \* fingerprint without algorithm
          TC("alg-nofp:md=s1", Md("s1"), "-", "-", "sha256", "canon"),           \* algorithm without fingerprint
          TC("pin1+fp1-sha256:md=s1", Md("s1"), "Kidp1", "Kidp1", "sha256", "canon"),   \* both ways at once
          TC("pin1+fp2-sha256:md=s2", Md("s2"), "Kidp1", "Kidp2", "sha256", "canon") >>
\* (3b) WHAT STRING is configured as the fingerprint, besides the complete one of Kidp1 (right when the IdP signs
\*      with Kidp1, wrong when it signs with Kidp2 - the configurations above): the empty string, an
\*      abbreviation of Kidp1's fingerprint, an abbreviation of the fingerprint of the attacker's certificate
TFpStr == << TC("fpempty-sha256:md=s1", Md("s1"), "-", "Kidp1", "sha256", "empty"),
             TC("fp1pfx-sha256:md=none", Md("none"), "-", "Kidp1", "sha256", "prefix"),
             TC("fpattpfx-sha256:md=s1", Md("s1"), "-", "Katt", "sha256", "prefix"),
             TC("fpattpfx-sha512:md=none", Md("none"), "-", "Katt", "sha512", "prefix") >>
TrustCfgs == TMd \o TPin \o TFp
\* (4) the trusted certificate carries a SubjectKeyIdentifier extension (what openssl and most CAs emit), and the
\*     IdP sends that certificate: from the metadata (one / several signing keys), pinned (the metadata lists
\*     nothing / another key), by fingerprint
TSki == << MdOnly("md:s1k", Md("s1k")), MdOnly("md:s1ks2e", Md("s1ks2e")),
           Pinned("pin1k:md=none", "Kidp1k", Md("none")), Pinned("pin1k:md=s2", "Kidp1k", Md("s2")),
           Fingerp("fp1k-sha256:md=none", "Kidp1k", "sha256", Md("none")) >>
TrustCfgsAll == TrustCfgs \o TSki \o TFpStr

\* every trust configuration x the key the IdP signs with
RECURSIVE BothKeys(_)
BothKeys(ts) == IF ts = <<>> THEN <<>>
                ELSE << [t |-> Head(ts), g |-> "Kidp1"], [t |-> Head(ts), g |-> "Kidp2"] >> \o BothKeys(Tail(ts))
ByName(nm) == LET i == CHOOSE j \in 1..Len(TrustCfgsAll) : TrustCfgsAll[j].name = nm IN TrustCfgsAll[i]
\* the configurations of (4): the IdP signs with the key of Kidp1 and sends Kidp1k, or signs with Kidp2; and the two
\* mixed runs - same key, but the certificate the IdP sends is not the one the SP holds
RECURSIVE SkiKeys(_)
SkiKeys(ts) == IF ts = <<>> THEN <<>>
               ELSE << [t |-> Head(ts), g |-> "Kidp1k"], [t |-> Head(ts), g |-> "Kidp2"] >> \o SkiKeys(Tail(ts))
RunsSki   == SkiKeys(TSki) \o << [t |-> TSki[1], g |-> "Kidp1"], [t |-> TMd[2], g |-> "Kidp1k"] >>     \* md:s1k, md:s1
\* the configurations of (3b), the IdP signing with Kidp1 (under a string that names no certificate the key
\* the IdP uses makes no difference).  (Order: the quick tier's harness spreads the one-step documents over
\* the run indices with a rotation that leaves some residues thin; the first two land on well-served ones.)
RunsFpStr == << [t |-> TFpStr[1], g |-> "Kidp1"], [t |-> TFpStr[3], g |-> "Kidp1"], [t |-> TFpStr[2], g |-> "Kidp1"],
                [t |-> TFpStr[4], g |-> "Kidp1"] >>
RunsTrust == BothKeys(TrustCfgs) \o RunsSki \o RunsFpStr
ASSUME TSki[1].name = "md:s1k" /\ TMd[2].name = "md:s1"

\* the four configurations the attack exploration has always used, under their old names
T1  == [ByName("md:s1") EXCEPT !.name = "T1"]
T2  == [ByName("md:s1s2e") EXCEPT !.name = "T2"]
FP  == [ByName("fp1-sha256:md=none") EXCEPT !.name = "FP"]
\* the pinned / fingerprinted certificate while the metadata lists ANOTHER signing key
PINX == ByName("pin1:md=s2")
FPX  == ByName("fp1-sha256:md=s2")

RunsQuick    == << [t |-> T1, g |-> "Kidp1"], [t |-> T2, g |-> "Kidp1"], [t |-> T2, g |-> "Kidp2"] >>
RunsDeep     == RunsQuick \o << [t |-> FP, g |-> "Kidp1"] >>
RunsThorough == RunsQuick \o << [t |-> T1, g |-> "Kidp2"], [t |-> FP, g |-> "Kidp1"], [t |-> FPX, g |-> "Kidp2"],
                                [t |-> PINX, g |-> "Kidp1"], [t |-> PINX, g |-> "Kidp2"] >>
\* two attacker steps of the key family under the configurations in which two sources of certificates meet
\* the envelope family: what the lookups find does not depend on the trust configuration; it is crossed
\* with one configuration of each kind
RunsEnv      == RunsDeep \o << [t |-> PINX, g |-> "Kidp1"] >>
\* the look-alike family (model-level mutation test of LookalikeRoot)
RunsLook     == SkiKeys(TSki)
\* the fingerprint configurations (for the model-level mutation test of FingerprintAnyCert)
RunsFp       == BothKeys(<< ByName("fp1-sha256:md=none"), ByName("fp1-sha512:md=s2") >>)
RunsCross    == BothKeys(<< ByName("pin1:md=s2"), ByName("pin1:md=s1s2e"), ByName("fp1-sha256:md=s2"), ByName("fp1-sha512:md=s1"),
                            ByName("md:s12"), ByName("md:u1s2"), ByName("md:s1e2"), ByName("md:s1s1"), ByName("md:s1/s2") >>)

\* the table of the configurations of this run, for the harness: what to configure, and TrustedKeys / Clean
CfgJ(t) == [name |-> t.name, md |-> t.md, pin |-> t.pin, fp |-> t.fp, alg |-> t.alg, fmt |-> t.fmt,
            trusted |-> TrustedKeys(t), clean |-> Clean(t)]
ASSUME \A i \in 1..Len(RunCfgSeq) : PrintT(<<"TCFG", ToJson(CfgJ(RunCfgSeq[i].t))>>)
=============================================================================
