--------------------------- MODULE TimeDurCarry ---------------------------
(***************************************************************************)
(* C15, lemmas over unbounded integers (Apalache).                         *)
(*                                                                         *)
(* spec/TimeDur.tla never holds a nanosecond total (TLC integers are 32    *)
(* bit): a duration is the record [h, m, s, f].  These lemmas justify that *)
(* representation for ALL magnitudes, not only the enumerated ones:        *)
(*   Recompose  the code's / and % decomposition of a total recomposes to  *)
(*              the total, with m, s < 60 and f < 10^9;                    *)
(*   Injective  two in-range records with the same total are the same      *)
(*              record (so "back = d" on records is "back = d" on int64);  *)
(*   Carry      the carry normalisation DUnmarshal applies to hours,       *)
(*              minutes >= 60 and seconds >= 60 yields the record of the   *)
(*              accumulated total.                                         *)
(***************************************************************************)
EXTENDS Integers

VARIABLES
  \* @type: Int;
  ns,
  \* @type: Int;
  h1,
  \* @type: Int;
  m1,
  \* @type: Int;
  s1,
  \* @type: Int;
  f1,
  \* @type: Int;
  h2,
  \* @type: Int;
  m2,
  \* @type: Int;
  s2,
  \* @type: Int;
  f2

Sec  == 1000000000
Min  == 60 * Sec
Hour == 60 * Min
Total(h, m, s, f) == h * Hour + m * Min + s * Sec + f
InRange(h, m, s, f) == h >= 0 /\ m >= 0 /\ m < 60 /\ s >= 0 /\ s < 60 /\ f >= 0 /\ f < Sec

\* (ns) an arbitrary magnitude; (h1..f1) an arbitrary in-range record;
\* (h2, m2, s2, f2) arbitrary un-normalised components as a duration string carries them
Init == /\ ns \in Nat
        /\ h1 \in Nat /\ m1 \in 0..59 /\ s1 \in 0..59 /\ f1 \in Nat /\ f1 < Sec
        /\ h2 \in Nat /\ m2 \in Nat /\ s2 \in Nat /\ f2 \in Nat /\ f2 < Sec
Next == UNCHANGED <<ns, h1, m1, s1, f1, h2, m2, s2, f2>>

\* Duration.MarshalText: h = d / Hour, m = d % Hour / Minute, s = d % Minute / Second, ns = d % Second
Recompose ==
  LET h == ns \div Hour   m == (ns % Hour) \div Min   s == (ns % Min) \div Sec   f == ns % Sec
  IN InRange(h, m, s, f) /\ Total(h, m, s, f) = ns

Injective ==
  Total(h1, m1, s1, f1) = ns =>
    /\ h1 = ns \div Hour /\ m1 = (ns % Hour) \div Min /\ s1 = (ns % Min) \div Sec /\ f1 = ns % Sec

\* DUnmarshal: mins = mi + ss \div 60; hours = hh + mins \div 60; record (hours, mins % 60, ss % 60, f)
Carry ==
  LET mins == m2 + s2 \div 60
      hours == h2 + mins \div 60
  IN /\ InRange(hours, mins % 60, s2 % 60, f2)
     /\ Total(hours, mins % 60, s2 % 60, f2) = Total(h2, m2, s2, f2)

Lemmas == Recompose /\ Injective /\ Carry
=============================================================================
