CONSTANTS
  MaxLen = 3
  CrossKinds = TRUE
  Seeded = {}
INIT Init
NEXT Next
INVARIANTS
  EmissionsOfAVerify
  SharedOnlyConfiguration
  OpenOnlyAfterConfigEdit
  Emit
CHECK_DEADLOCK FALSE
