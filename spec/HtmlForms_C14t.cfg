CONSTANTS
  MaxLen = 3
  Parts = {"form", "meta"}
  Escaper = "html"
  PrefixCheckOnly = FALSE
  ForeignNamespaceUnchecked = FALSE
  Descs = {"IDPSSODescriptor", "SPSSODescriptor", "AuthnAuthorityDescriptor", "PDPDescriptor", "AttributeAuthorityDescriptor"}
  BaseCases = TRUE
  NsSet = {"mdPrefix", "selfPrefix", "ancestorPrefix", "selfDefault", "foreignPrefix", "foreignSelf", "foreignDefault", "noNs", "noNsFrame", "undeclared"}
  NsWide = TRUE
  ChecksFirstAttribute = FALSE
  AttrForms = {"plainThenForeign", "foreignThenPlain", "foreignOnly"}
INIT Init
NEXT Next
INVARIANTS
  StructurePreserved
  ScriptUrlsNeverInAction
  SurvivorsSafe
  RejectsHostile
  AcceptsGood
  UnknownBlanked
  AllReachASlice
  Emit
CHECK_DEADLOCK FALSE
