CONSTANTS
  K = 1
  MaxNodes = 12
  BaseSet <- AllBases
  RunCfgSeq <- RunsFpStr
  Prods <- KeyProds
  KISet <- KIAll
  EnvWhereSet <- EnvWheres
  SibSeqSet <- SibCover
  Deviations = {"FingerprintPrefixMatch"}
  EmitMin = 9
  EmitFrom = 9
  EmitMod = 1
INIT Init
NEXT Next
INVARIANTS
  AllProps
CHECK_DEADLOCK FALSE
