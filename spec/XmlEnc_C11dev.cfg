\* The two seeded behaviours of round 5 (named deviations MgfErrorSlicesIdentifier, RetrievalMethod = "xpath") are
\* switched on in the run of the required design: TLC must REFUTE Total - cause by cause (run with -continue) -
\* or the check breaks: the identifier-class and reference-graph dimensions are not vacuous.
\* Round 8: DevSeeded5 also holds GcmAsCbc (aes256-gcm registered with a CBC value); TLC must refute GcmTamperRejected
\* on the sample of family gcmid.
CONSTANTS
  Family = "C11dev"
  Dev <- DevPinned
  ReqDev <- DevSeeded5
INIT Init
NEXT Next
INVARIANTS
  TypeOK
  NoIdentifierSlice
  NoPathPanic
  NoUnboundedRecursion
  GcmTamperRejected
CHECK_DEADLOCK FALSE
