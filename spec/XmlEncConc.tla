------------------------------ MODULE XmlEncConc ------------------------------
(***************************************************************************)
(* C10, "decrypting what the package encrypted returns the plaintext", when *)
(* ciphertexts are decrypted CONCURRENTLY.  xmlenc.Decrypt finds the        *)
(* decrypter of an algorithm identifier in ONE package-level registry       *)
(* (decrypt.go:60-64 decrypters[algorithm]; pubkey.go init(): OAEP(),       *)
(* OAEP_SHA256(), PKCS1v15()), and the RSA decrypter carries a DigestMethod *)
(* field that RSA.Decrypt SETS from the message (pubkey.go:119-131) before  *)
(* it USES it (xmlenc11: the MGF check pubkey.go:133-143; then the unwrap   *)
(* :146).  Select-digest and use-digest are separate steps.  In the         *)
(* required design the field they go through belongs to the call (Decrypt   *)
(* has a value receiver: it works on a copy of the registered value); under *)
(* the named deviation SharedDecrypterState it is the field of the          *)
(* registered value itself (a pointer receiver, a registry of pointers):    *)
(* one variable per algorithm identifier for all calls in flight.           *)
(*                                                                         *)
(* Calls decrypt good ciphertexts - every EncryptedKey is wrapped with the  *)
(* digest (and, xmlenc11, the MGF1 over the digest) it names - in every     *)
(* assignment of ciphertexts to calls and every interleaving of their       *)
(* steps.  EachDecrypts: every call returns its plaintext.  TLC proves it   *)
(* for per-call state (XmlEncConc.cfg) and refutes it for the deviation     *)
(* (XmlEncConc_dev.cfg: two calls on the same key transport naming          *)
(* different digests); the harness decrypts a fixed set of good ciphertexts *)
(* of mixed digests on many goroutines through xmlenc.Decrypt and checks    *)
(* EachDecrypts on what they returned (harness/c10_concurrent_test.go).     *)
(***************************************************************************)
EXTENDS Integers, FiniteSets, TLC

CONSTANTS Calls,                  \* the decryptions in flight
          SharedDecrypterState    \* named deviation: the DigestMethod field written and read is the registered value's

OaepAlgs == {"rsa-oaep-mgf1p", "rsa-oaep11"}
Algs == OaepAlgs \cup {"rsa-1_5"}
Digests == {"sha1", "sha256", "sha512"}
\* a good ciphertext: key transport, the digest its ds:DigestMethod names ("none": no such element), and what the key was
\* wrapped with - the same digest; under xmlenc11 rsa-oaep the xenc11:MGF element names MGF1 over that digest
Msgs == { [alg |-> a, dm |-> d] : a \in OaepAlgs, d \in Digests } \cup { [alg |-> "rsa-1_5", dm |-> "none"] }
\* pubkey.go init(): the values registered carry the DigestMethod their constructors set
Configured(a) == IF a = "rsa-1_5" THEN "none" ELSE "sha256"

VARIABLES reg,   \* algorithm -> DigestMethod field of the REGISTERED decrypter (process-wide)
          msg,   \* call -> the ciphertext it decrypts
          pc,    \* call -> "lookup" | "select" | "mgf" | "unwrap" | "done"
          loc,   \* call -> DigestMethod field of the call's own copy of the decrypter ("unset" before the lookup)
          res    \* call -> "none" | "plaintext" | "error"
vars == <<reg, msg, pc, loc, res>>

Init == /\ reg = [a \in Algs |-> Configured(a)]
        /\ msg \in [Calls -> Msgs]
        /\ pc = [p \in Calls |-> "lookup"] /\ loc = [p \in Calls |-> "unset"] /\ res = [p \in Calls |-> "none"]

\* the DigestMethod field the steps of call p go through
Field(p) == IF SharedDecrypterState THEN reg[msg[p].alg] ELSE loc[p]
SetField(p, d) == IF SharedDecrypterState THEN reg' = [reg EXCEPT ![msg[p].alg] = d] /\ UNCHANGED loc
                                          ELSE loc' = [loc EXCEPT ![p] = d] /\ UNCHANGED reg
Finish(p, r) == res' = [res EXCEPT ![p] = r] /\ pc' = [pc EXCEPT ![p] = "done"]

\* decrypt.go:60-64  decrypters[algorithm] ; decrypter.Decrypt(key, el): a value receiver copies the registered value
Lookup(p) == /\ pc[p] = "lookup"
             /\ loc' = [loc EXCEPT ![p] = IF SharedDecrypterState THEN @ ELSE reg[msg[p].alg]]
             /\ pc' = [pc EXCEPT ![p] = "select"] /\ UNCHANGED <<reg, msg, res>>
\* pubkey.go:119-131  e.DigestMethod = the digest ds:DigestMethod names; SHA-1 when there is no such element
Select(p) == /\ pc[p] = "select"
             /\ SetField(p, IF msg[p].dm = "none" THEN "sha1" ELSE msg[p].dm)
             /\ pc' = [pc EXCEPT ![p] = IF msg[p].alg = "rsa-oaep11" THEN "mgf" ELSE "unwrap"] /\ UNCHANGED <<msg, res>>
\* pubkey.go:133-143  xmlenc11 rsa-oaep: the MGF the message names must be MGF1 over e.DigestMethod's hash
Mgf(p) == /\ pc[p] = "mgf"
          /\ IF Field(p) = msg[p].dm THEN pc' = [pc EXCEPT ![p] = "unwrap"] /\ UNCHANGED res
                                     ELSE Finish(p, "error")       \* "algorithm is not implemented: ...#mgf1<digest>"
          /\ UNCHANGED <<reg, msg, loc>>
\* pubkey.go:146  keyDecrypter(e, ...): rsa.DecryptOAEP(e.DigestMethod.Hash(), ...) / DecryptPKCS1v15
Unwrap(p) == /\ pc[p] = "unwrap"
             /\ Finish(p, IF msg[p].alg = "rsa-1_5" \/ Field(p) = msg[p].dm THEN "plaintext" ELSE "error")   \* "crypto/rsa: decryption error"
             /\ UNCHANGED <<reg, msg, loc>>

Next == \E p \in Calls : Lookup(p) \/ Select(p) \/ Mgf(p) \/ Unwrap(p)
Spec == Init /\ [][Next]_vars

TypeOK == /\ reg \in [Algs -> Digests \cup {"none"}] /\ msg \in [Calls -> Msgs]
          /\ pc \in [Calls -> {"lookup", "select", "mgf", "unwrap", "done"}]
          /\ loc \in [Calls -> Digests \cup {"none", "unset"}] /\ res \in [Calls -> {"none", "plaintext", "error"}]
\* C10: every good ciphertext is decrypted, whatever else is being decrypted at the same time
EachDecrypts == \A p \in Calls : pc[p] = "done" => res[p] = "plaintext"
\* the required design: a decryption leaves no trace in what other decryptions read
RegistryUntouched == \A a \in Algs : reg[a] = Configured(a)
=============================================================================
