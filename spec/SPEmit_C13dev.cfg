\* The seeded deviation HandsConfiguredBinding is on (samlsp.Middleware.HandleStartAuthFlow hands Middleware.Binding,
\* not the binding it chose, to MakeAuthenticationRequest): TLC must REFUTE CarriesSignature - with Middleware.Binding
\* left at its default and an IdP that offers HTTP-POST only the request goes out through Post() unsigned (the check
\* breaks when TLC does not refute it).  RefusesMismatch falls the same way (SPEmit_C13dev2.cfg).
CONSTANTS
  Family = "C13dev"
  IdBytes = 20
  MaxSeq = 6
  Seeded = {"HandsConfiguredBinding"}
INIT Init
NEXT Next
INVARIANTS
  MiddlewareEmitsChosen
  CarriesSignature
CHECK_DEADLOCK FALSE
