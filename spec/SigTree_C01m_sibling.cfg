CONSTANTS
  K = 1
  MaxNodes = 14
  BaseSet <- AllBases
  RunCfgSeq <- RunsEnv
  Prods <- SibProds
  KISet <- KIClassic
  EnvWhereSet <- EnvWheres
  SibSeqSet <- SibCover
  Deviations = {"SignedSiblingVouches"}
  EmitMin = 9
  EmitFrom = 9
  EmitMod = 1
INIT Init
NEXT Next
INVARIANTS
  AllProps
CHECK_DEADLOCK FALSE
