CONSTANTS
  Family = "C16t"
  EnforceMethods = TRUE
  EnforceSessMarker = TRUE
  EnforceTrkMarker = TRUE
INIT Init
NEXT Next
INVARIANTS
  OnlyMintedSessionTokensAuthenticate
  FreshMintedSessionAuthenticates
  AuthenticatedImpliesGenuine
  NoSessionStartsFlow
  ExactlyOneOutcome
  TrackerRefusesSessionTokens
  ExposesExactlyTheAssertion
  GateOnlyWithValue
  EmitTok
  EmitMap
CHECK_DEADLOCK FALSE
