\* Not a registered phase.  handleArtifactRequest building the back-channel request without the
\* context of the incoming request: TLC refutes NoHang with a stalled artifact resolution endpoint,
\* a client without a timeout of its own and a request context that ends (fixes/C09c.md).
CONSTANTS
  Tier = "q"
  Unguarded = {}
  Unwrapped = {}
  DepthRestore = "parent"
  ContextDropped = TRUE
  CloseFailure = "logged"
INIT Init
NEXT Next
INVARIANTS
  NoHang
CHECK_DEADLOCK TRUE
