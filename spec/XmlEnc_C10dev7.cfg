\* Round 7: the two seeded behaviours (named deviations UnwrapNeedsPrecomputed: a key that was never precomputed is
\* refused; OaepExactFitRefused: a session key that fills the room OAEP leaves exactly is refused) are switched on in the
\* run of the required design over families "rsakey" and "modulus" alone: TLC must REFUTE ShapeRoundTrip and
\* ExactFitRoundTrip (run with -continue) or the check breaks: the two dimensions of the recipient's key are not vacuous.
\* RefusesUnwrappable must still hold.
CONSTANTS
  Family = "C10dev7"
  Dev <- DevPinned
  ReqDev <- DevSeeded7
INIT Init
NEXT Next
INVARIANTS
  TypeOK
  OneOutcome
  RefusesUnwrappable
  ShapeRoundTrip
  ExactFitRoundTrip
CHECK_DEADLOCK FALSE
