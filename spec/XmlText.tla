------------------------------- MODULE XmlText -------------------------------
(***************************************************************************)
(* Pure operators: XML text as sequences of character CLASSES, the escape  *)
(* tables of the writers involved and the normalisation tables of the      *)
(* parsers involved.  No variables; EXTENDed by WebSSO.                    *)
(*                                                                         *)
(* A value is a sequence of classes.  Its serialised ("wire") form is a    *)
(* sequence of items <<class, form>>, form being                           *)
(*     "raw"  the characters themselves                                    *)
(*     "ent"  a predefined entity for the class's markup character         *)
(*            (&lt; &gt; &amp; &quot; &apos;)                              *)
(*     "ref"  a numeric character reference (&#xD; &#xA; &#x9;)            *)
(*     "repl" U+FFFD written in place of a character XML cannot carry      *)
(***************************************************************************)
EXTENDS Integers, Sequences, FiniteSets

\* classes XML 1.0 can represent (every character matches the Char production)
Representable == {"plain", "lt", "gt", "amp", "dquote", "squote", "CR", "LF", "TAB", "space",
                  "cdataEnd",      \* the three characters ]]>
                  "commentStart",  \* <!--  (also <![CDATA[ and <?xml as concretisations)
                  "nonBMP",        \* U+10000..U+10FFFF
                  "u2028",         \* U+2028 / U+2029 (line separators of XML 1.1, ordinary characters in XML 1.0)
                  "NEL"}           \* U+0085
\* characters outside Char: C0 controls, U+FFFE / U+FFFF, ill-formed UTF-8.  The property
\* quantifies over "any characters XML can represent": these are excluded (DontCare).
Unrepresentable == {"xmlInvalid"}
Alphabet == Representable \cup Unrepresentable

Contexts == {"text", "attr"}     \* element content | double-quoted attribute value

\* the markup character a class contains, if any
Markup(c) == CASE c \in {"lt", "commentStart"} -> "lt"
               [] c \in {"gt", "cdataEnd"}     -> "gt"
               [] c = "amp"    -> "amp"
               [] c = "dquote" -> "dquote"
               [] c = "squote" -> "squote"
               [] OTHER        -> "none"

(****************************** requirements ******************************)
\* XML 1.0 (5th ed.): what a writer must NOT emit raw if every conforming parser is to
\* report the value unchanged.
\*   2.4   "<" and "&" never appear literally in content or attribute values; ">" must be
\*         escaped in the string "]]>" in content.
\*   3.1   the delimiting quote cannot appear in the attribute value.
\*   2.11  a literal CR (and CR LF) is translated to LF before parsing.
\*   3.3.3 a literal TAB / LF (/ CR) in an attribute value is normalised to a space.
MustNotBeRaw(ctx, c) ==
  IF c \in Unrepresentable THEN TRUE
  ELSE IF ctx = "text"
    THEN Markup(c) \in {"lt", "amp"} \/ c = "cdataEnd" \/ c = "CR"
    ELSE Markup(c) \in {"lt", "amp", "dquote"} \/ c \in {"TAB", "LF", "CR"}

(******************************** writers *********************************)
\* Canonical XML 1.0 section 2.3 (inherited unchanged by Exclusive C14N):
\*   text nodes:  & < > -> &amp; &lt; &gt;     #xD -> &#xD;
\*   attributes:  & < " -> &amp; &lt; &quot;   #x9 #xA #xD -> &#x9; &#xA; &#xD;
C14NForm(ctx, c) ==
  IF c \in Unrepresentable THEN "repl"      \* (etree replaces them; a c14n of such a tree is not defined)
  ELSE IF ctx = "text"
    THEN IF Markup(c) \in {"amp", "lt", "gt"} THEN "ent" ELSE IF c = "CR" THEN "ref" ELSE "raw"
    ELSE IF Markup(c) \in {"amp", "lt", "dquote"} THEN "ent"
         ELSE IF c \in {"TAB", "LF", "CR"} THEN "ref" ELSE "raw"

\* beevik/etree v1.5.0 escapeString, mode escapeNormal (the default WriteSettings), same table
\* for text and attribute values:  & < > ' " -> entities; TAB LF CR written raw;
\* characters outside Char -> U+FFFD.
EtreeDefaultForm(ctx, c) ==
  IF c \in Unrepresentable THEN "repl"
  ELSE IF Markup(c) # "none" THEN "ent" ELSE "raw"

\* etree escapeString, modes escapeCanonicalText / escapeCanonicalAttr
\* (WriteSettings.CanonicalText / CanonicalAttrVal):
\*   text: & < > entities, ' " raw, CR -> &#xD;, TAB LF raw
\*   attr: & < " entities, > ' raw, TAB LF CR -> references
EtreeCanonicalForm(ctx, c) ==
  IF c \in Unrepresentable THEN "repl"
  ELSE IF ctx = "text"
    THEN IF Markup(c) \in {"amp", "lt", "gt"} THEN "ent" ELSE IF c = "CR" THEN "ref" ELSE "raw"
    ELSE IF Markup(c) \in {"amp", "lt", "dquote"} THEN "ent"
         ELSE IF c \in {"TAB", "LF", "CR"} THEN "ref" ELSE "raw"

\* the writer of the REQUIRED pipeline: escapes every markup character in both contexts and
\* writes every character a parser would normalise as a reference (a superset of the canonical
\* table: it also escapes ">" in attribute values, see RejectsCdataEndInAttr below)
SafeForm(ctx, c) ==
  IF c \in Unrepresentable THEN "repl"
  ELSE IF Markup(c) # "none" THEN "ent"
  ELSE IF c = "CR" \/ (ctx = "attr" /\ c \in {"TAB", "LF"}) THEN "ref" ELSE "raw"

Writers == {"c14n", "safe", "etreeDefault", "etreeCanonicalText", "etreeCanonical"}
WriterForm(w, ctx, c) == CASE w = "c14n"               -> C14NForm(ctx, c)
                           [] w = "safe"               -> SafeForm(ctx, c)
                           [] w = "etreeDefault"       -> EtreeDefaultForm(ctx, c)
                           \* WriteSettings{CanonicalText: true}: canonical text, default attribute values
                           [] w = "etreeCanonicalText" -> IF ctx = "text" THEN EtreeCanonicalForm(ctx, c) ELSE EtreeDefaultForm(ctx, c)
                           \* WriteSettings{CanonicalText: true, CanonicalAttrVal: true}
                           [] w = "etreeCanonical"     -> EtreeCanonicalForm(ctx, c)

\* a character outside Char is written as U+FFFD by every writer here: from then on the octets ARE a
\* literal U+FFFD (class "repl"), whatever the writer
Write(w, ctx, v) == [i \in 1..Len(v) |-> IF WriterForm(w, ctx, v[i]) = "repl" THEN <<"repl", "raw">>
                                          ELSE <<v[i], WriterForm(w, ctx, v[i])>>]
Forms(wire)      == [i \in 1..Len(wire) |-> wire[i][2]]

(******************************** parsers *********************************)
\* "xml10": a conforming XML 1.0 processor.
\* "go":    encoding/xml (used by etree and by xml.Unmarshal), with two named deviations:
\*   NoAttrValueNormalisation  literal TAB / LF in an attribute value are reported as they are
\*                             (end-of-line handling of 2.11 is applied: CR -> LF);
\*   RejectsCdataEndInAttr     a literal "]]>" is a syntax error in attribute values too
\*                             ("unescaped ]]> not in CDATA section"), although XML 1.0 only
\*                             forbids it in content.
Parsers == {"xml10", "go"}

ParseItem(p, ctx, it) ==
  LET c == it[1] f == it[2] IN
  IF f \in {"ent", "ref"} THEN c               \* references are never normalised
  ELSE IF c = "CR" THEN (IF ctx = "attr" /\ p = "xml10" THEN "space" ELSE "LF")
  ELSE IF c \in {"TAB", "LF"} /\ ctx = "attr" /\ p = "xml10" THEN "space"
  ELSE c

\* not well-formed for this parser
ParseRejects(p, ctx, wire) ==
  \E i \in 1..Len(wire) :
     \/ wire[i] = <<"cdataEnd", "raw">> /\ (ctx = "text" \/ p = "go")
     \/ wire[i][2] = "raw" /\ Markup(wire[i][1]) \in {"lt", "amp"}
     \/ wire[i][2] = "raw" /\ Markup(wire[i][1]) = "dquote" /\ ctx = "attr"

\* per input item: "same" (reported unchanged) | "LF" | "space" (what it becomes) | "drop"
\* (2.11: the CR of a literal CR LF pair disappears)
RECURSIVE ParseMapFrom(_, _, _, _)
ParseMapFrom(p, ctx, wire, i) ==
  IF i > Len(wire) THEN <<>>
  ELSE IF /\ wire[i] = <<"CR", "raw">>
          /\ i < Len(wire) /\ wire[i + 1] = <<"LF", "raw">>
         THEN <<"drop">> \o ParseMapFrom(p, ctx, wire, i + 1)
         ELSE LET r == ParseItem(p, ctx, wire[i]) IN
              <<IF r = wire[i][1] THEN "same" ELSE r>> \o ParseMapFrom(p, ctx, wire, i + 1)
ParseMap(p, ctx, wire) == ParseMapFrom(p, ctx, wire, 1)

RECURSIVE ApplyFrom(_, _, _)
ApplyFrom(wire, m, i) ==
  IF i > Len(wire) THEN <<>>
  ELSE (CASE m[i] = "drop" -> <<>> [] m[i] = "same" -> <<wire[i][1]>> [] OTHER -> <<m[i]>>) \o ApplyFrom(wire, m, i + 1)
Parse(p, ctx, wire) == ApplyFrom(wire, ParseMap(p, ctx, wire), 1)

(************************ consistency of the tables ************************)
\* a writer is SAFE for (context, parser) when every representable single character it writes is
\* well-formed for that parser and read back unchanged
SafeFor(w, ctx, p) == \A c \in Representable :
                        /\ ~ParseRejects(p, ctx, Write(w, ctx, <<c>>))
                        /\ Parse(p, ctx, Write(w, ctx, <<c>>)) = <<c>>
\* ... which, for a conforming parser, is exactly "leaves nothing raw that must not be raw"
ASSUME \A w \in Writers : \A ctx \in Contexts :
          SafeFor(w, ctx, "xml10") <=> (\A c \in Representable : MustNotBeRaw(ctx, c) => WriterForm(w, ctx, c) # "raw")
\* the required writer is safe everywhere; the canonical table is safe for every conforming parser
ASSUME \A ctx \in Contexts : \A p \in Parsers : SafeFor("safe", ctx, p)
ASSUME \A ctx \in Contexts : SafeFor("c14n", ctx, "xml10") /\ SafeFor("etreeCanonical", ctx, "xml10")
\* named deviations of etree's writers (the facts the model's predictions rest on)
RawCRInText == EtreeDefaultForm("text", "CR") = "raw"
RawCRInAttr == EtreeDefaultForm("attr", "CR") = "raw"
RawWsInAttr == EtreeDefaultForm("attr", "TAB") = "raw" /\ EtreeDefaultForm("attr", "LF") = "raw"
RawGtInCanonicalAttr == EtreeCanonicalForm("attr", "cdataEnd") = "raw"
ASSUME RawCRInText /\ RawCRInAttr /\ RawWsInAttr /\ RawGtInCanonicalAttr
ASSUME ~SafeFor("etreeDefault", "text", "go") /\ ~SafeFor("etreeDefault", "attr", "go")            \* CR
ASSUME SafeFor("etreeCanonicalText", "text", "go") /\ ~SafeFor("etreeCanonicalText", "attr", "go") \* CR in attributes remains
ASSUME SafeFor("etreeCanonical", "text", "go") /\ ~SafeFor("etreeCanonical", "attr", "go")         \* "]]>" in attributes breaks
\* NoAttrValueNormalisation hides RawWsInAttr from this library's own SP
ASSUME \A c \in {"TAB", "LF"} : Parse("go", "attr", Write("etreeDefault", "attr", <<c>>)) = <<c>>
                               /\ Parse("xml10", "attr", Write("etreeDefault", "attr", <<c>>)) = <<"space">>

(******************************** strings *********************************)
SeqsUpTo(S, n) == UNION { [1..k -> S] : k \in 0..n }
HasClass(v, c) == \E i \in 1..Len(v) : v[i] = c
AllRepresentable(v) == \A i \in 1..Len(v) : v[i] \in Representable
=============================================================================
