CONSTANTS
  Tier = "q"
  PointerReceiverMarshaller <- NoDeviation
  Families <- AllFamilies
INIT TInit
NEXT TNext
CONSTRAINT HighWater
POSTCONDITION Accepted
CHECK_DEADLOCK FALSE
