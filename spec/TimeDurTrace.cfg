CONSTANTS
  Tier = "q"
  PointerReceiverMarshaller <- NoDeviation
  NestingBound = 1000
  CounterCountsElements = FALSE
  Families <- AllFamilies
INIT TInit
NEXT TNext
CONSTRAINT HighWater
POSTCONDITION Accepted
CHECK_DEADLOCK FALSE
