CONSTANTS
  Tier = "q"
INIT TInit
NEXT TNext
CONSTRAINT HighWater
POSTCONDITION Accepted
CHECK_DEADLOCK FALSE
