CONSTANTS
  Procs = {1, 2, 3}
  Words = 2
  UnsynchronisedSource = TRUE
INIT Init
NEXT Next
INVARIANTS
  Fresh
CHECK_DEADLOCK FALSE
