CONSTANTS
  MaxLen = 2
  Minters <- Names
  Fams <- FamsAll
  DeepLen = 3
  DeepMinters <- Names
  DeepFams <- FamsDeepT
  ProcessWideCache = FALSE
INIT Init
NEXT Next
INVARIANTS
  OnlyOwnFreshSessionTokens
  OwnFreshSessionAuthenticates
  HistoryIndependent
  Decided
  CacheUnused
  Emit
CHECK_DEADLOCK FALSE
