CONSTANTS
  MaxLen = 2
  Minters <- Names
  Fams <- FamsAll
  DeepLen = 3
  DeepMinters <- Names
  DeepFams <- FamsDeepT
  SibFams <- FamsSibT
  ProcessWideCache = FALSE
  AudienceIsUrlRoot = FALSE
INIT Init
NEXT Next
INVARIANTS
  OnlyOwnFreshSessionTokens
  OwnFreshSessionAuthenticates
  HistoryIndependent
  Decided
  CacheUnused
  Emit
  EmitDepls
CHECK_DEADLOCK FALSE
