CONSTANTS
  MaxLen = 3
  Minters <- Names
  Fams <- FamsAll
  DeepLen = 3
  DeepMinters <- Names
  DeepFams <- FamsAll
  ProcessWideCache = FALSE
INIT Init
NEXT Next
INVARIANTS
  OnlyOwnFreshSessionTokens
  OwnFreshSessionAuthenticates
  HistoryIndependent
  Decided
  CacheUnused
  Emit
CHECK_DEADLOCK FALSE
