------------------------------ MODULE EncLayouts ------------------------------
(***************************************************************************)
(* C08 - assertions for SPs that publish an encryption key never leave the *)
(* IdP in clear; on the SP side a decrypted assertion gets exactly the     *)
(* checks of a plaintext one.  D-template, two parts.                      *)
(*                                                                         *)
(* Part "idp".  The registered SP metadata is abstracted to its LAYOUT: the *)
(* sequence of KeyDescriptors of the SPSSODescriptor, each a pair          *)
(*     use  in {encryption, omitted, signing}                              *)
(*     cert in {validRSA, validEC, malformedBase64, badDER, emptyString,   *)
(*              whitespaceOnly, noX509CertificateElement}                  *)
(*     em   in the classes of EncryptionMethod lists (EMs below)           *)
(* The step machine mirrors getSPEncryptionCert (identity_provider.go:982) *)
(* statement by statement - two passes over the descriptors, then decode,  *)
(* parse, encrypt - with a Panic sink.  It is run in two instantiations:   *)
(*   impl = "required"  the selection rule the statement needs             *)
(*   impl = "actual"    the code's rule (constant Selection)               *)
(* The Properties section is checked on the required instantiation; the    *)
(* actual one predicts the real outcome of every layout, and TLC checks    *)
(* that the two differ only where a named deviation is touched.            *)
(*                                                                         *)
(* Part "sp".  An EncryptedAssertion variant x a condition class x whether *)
(* the Response itself is signed; the step machine mirrors parseResponse / *)
(* parseEncryptedAssertion / decryptElement / parseAssertion               *)
(* (service_provider.go:987-1175).                                         *)
(***************************************************************************)
EXTENDS Integers, Sequences, FiniteSets, TLC, Json

CONSTANTS MaxDesc,     \* longest layout (3)
          EmMaxDesc,   \* layouts up to this length carry every combination of EncryptionMethod lists
          EmLong,      \* TRUE: longer layouts carry every list class too, the same on all their descriptors
          LongCerts,   \* certificate classes of the descriptors of those longer layouts
          Parts,       \* subset of {"idp", "sp"}
          Selection    \* "pinned" (first pass stops at the first use="encryption" descriptor, whatever it holds)
                       \* | "fixed" (first pass skips descriptors without a non-empty first certificate)

(****************************** named deviations ****************************)
\* FirstPassTakesEmpty:   pass 1 takes X509Certificates[0].Data of the first use="encryption"
\*                        descriptor and STOPS even when that text is empty; pass 2 then only looks at
\*                        use="" descriptors, so a later valid use="encryption" certificate is never seen
\*                        and the assertion leaves in clear.
\* FirstPassIndexesBlind: pass 1 indexes X509Certificates[0] without checking the length: a
\*                        use="encryption" descriptor without X509Certificate element panics.
FirstPassTakesEmpty   == Selection = "pinned"
FirstPassIndexesBlind == Selection = "pinned"

(***************************************************************************)
(*                              Part "idp"                                 *)
(***************************************************************************)
Uses  == {"encryption", "omitted", "signing"}
\* validRSAChain: the SP's RSA certificate followed, in the same X509Data, by the certificate of its
\* issuer - the SP holds the private key of the first only
\* validRSANotYet / validRSAExpired: the SP's RSA certificate as seen by an IdP whose clock is in front of its
\* notBefore (a roll-over certificate published ahead of time, a young self-signed one and a clock a little behind) /
\* beyond its notAfter.  The SP holds the key all the same; the statement has no "no usable key, so plaintext"
Certs == {"validRSA", "validRSAChain", "validRSANotYet", "validRSAExpired", "validEC", "malformedBase64", "badDER", "emptyString",
          "whitespaceOnly", "noX509CertificateElement"}
GoodRSA(ct) == ct \in {"validRSA", "validRSAChain", "validRSANotYet", "validRSAExpired"}
\* the EncryptionMethod children of the KeyDescriptor (what the SP says it can decrypt).  The IdP
\* encrypts with aes128-cbc / rsa-oaep-mgf1p whatever is listed; no action below reads the field - a
\* descriptor advertises its key with any list, and the statement knows no fallback to plaintext
EMs == {"none",            \* no EncryptionMethod child
        "aes128cbc",       \* lists the cipher the IdP uses (next to others)
        "aes256cbcOnly",   \* lists block ciphers, not that one
        "gcmOaepOnly"}     \* lists aes128-gcm and a key transport only
Desc(u, ct, e) == [use |-> u, cert |-> ct, em |-> e]
Descs   == { Desc(u, ct, e) : u \in Uses, ct \in Certs, e \in EMs }
DescsOf(e) == { Desc(u, ct, e) : u \in Uses, ct \in LongCerts }
Layouts == UNION { [1..n -> Descs] : n \in 0..EmMaxDesc }
           \cup UNION { [1..n -> DescsOf(e)] : n \in (EmMaxDesc + 1)..MaxDesc, e \in (IF EmLong THEN EMs ELSE {"none"}) }

HasElement(d) == d.cert # "noX509CertificateElement"
\* the text of X509Certificates[0] as xml.Unmarshal delivers it ("" for an empty element)
TextEmpty(d)  == d.cert = "emptyString"

VARIABLES part, impl, pc,
          layout, i, certStr, sel, outcome,             \* idp
          spc, found, key, plain, sigReq, verdict, step \* sp
vars == <<part, impl, pc, layout, i, certStr, sel, outcome, spc, found, key, plain, sigReq, verdict, step>>
spVars == <<spc, found, key, plain, sigReq, verdict, step>>
idpVars == <<layout, i, certStr, sel, outcome>>

SelOf == IF impl = "required" THEN "fixed" ELSE Selection

\* for i, keyDescriptor := range KeyDescriptors { if Use == "encryption" { certStr = ...[0].Data; break } }
Pass1 ==
  /\ part = "idp" /\ pc = "pass1"
  /\ IF i > Len(layout)
       THEN /\ pc' = IF certStr = "none" THEN "pass2" ELSE "decode"
            /\ i' = 1 /\ UNCHANGED <<certStr, sel, outcome>>
       ELSE LET d == layout[i] IN
            IF d.use # "encryption"
              THEN i' = i + 1 /\ UNCHANGED <<pc, certStr, sel, outcome>>
            ELSE IF SelOf = "pinned"
              THEN IF ~HasElement(d)
                     THEN pc' = "done" /\ outcome' = "panic" /\ UNCHANGED <<i, certStr, sel>>    \* index out of range
                     ELSE \* takes the text, empty or not, and breaks
                          /\ certStr' = (IF TextEmpty(d) THEN "none" ELSE d.cert) /\ sel' = (IF TextEmpty(d) THEN 0 ELSE i)
                          /\ pc' = (IF TextEmpty(d) THEN "pass2" ELSE "decode") /\ i' = 1 /\ UNCHANGED outcome
              ELSE \* fixed: a descriptor without a non-empty first certificate is skipped (continue)
                   IF ~HasElement(d) \/ TextEmpty(d)
                     THEN i' = i + 1 /\ UNCHANGED <<pc, certStr, sel, outcome>>
                     ELSE certStr' = d.cert /\ sel' = i /\ pc' = "decode" /\ i' = 1 /\ UNCHANGED outcome
  /\ UNCHANGED <<part, impl, layout>> /\ UNCHANGED spVars

\* if certStr == "" { for ... if Use == "" && len(certs) != 0 && certs[0].Data != "" { certStr = ...; break } }
Pass2 ==
  /\ part = "idp" /\ pc = "pass2"
  /\ IF i > Len(layout)
       THEN pc' = "done" /\ outcome' = "plaintext" /\ UNCHANGED <<i, certStr, sel>>               \* os.ErrNotExist
       ELSE LET d == layout[i] IN
            IF d.use = "omitted" /\ HasElement(d) /\ ~TextEmpty(d)
              THEN certStr' = d.cert /\ sel' = i /\ pc' = "decode" /\ UNCHANGED <<i, outcome>>
              ELSE i' = i + 1 /\ UNCHANGED <<pc, certStr, sel, outcome>>
  /\ UNCHANGED <<part, impl, layout>> /\ UNCHANGED spVars

\* white space removed, base64.DecodeString, x509.ParseCertificate
Decode ==
  /\ part = "idp" /\ pc = "decode"
  /\ IF certStr \in {"malformedBase64", "badDER", "whitespaceOnly"}      \* "" decodes to zero bytes: not a certificate
       THEN pc' = "done" /\ outcome' = "error"
       ELSE pc' = "encrypt" /\ UNCHANGED outcome
  /\ UNCHANGED <<part, impl, layout, i, certStr, sel>> /\ UNCHANGED spVars

\* xmlenc RSA.Encrypt: only an RSA public key is accepted; fresh key and IV from RandReader
Encrypt ==
  /\ part = "idp" /\ pc = "encrypt"
  /\ pc' = "done"
  /\ outcome' = IF GoodRSA(certStr) THEN "encrypted" ELSE "error"
  /\ UNCHANGED <<part, impl, layout, i, certStr, sel>> /\ UNCHANGED spVars

(***************************************************************************)
(*                               Part "sp"                                 *)
(***************************************************************************)
Variants == {"genuine",            \* what the IdP emits
             "attackerUnsigned",   \* a party without the IdP key encrypts an unsigned assertion to the SP certificate
             "attackerResigned",   \* ... re-encrypts a captured, genuinely signed assertion
             "truncatedCipherValue", "wrongKeyEncryptedKey", "missingEncryptedData", "twoEncryptedData",
             "encKeySibling",      \* EncryptedKey next to EncryptedData instead of inside its KeyInfo
             "trailingContent"}    \* plaintext with content after the root element
Conds == {"allGood", "badRecipient", "expired", "wrongAudience", "unsigned"}
SpCases == { [variant |-> v, cond |-> cd, respSigned |-> rs] : v \in Variants, cd \in Conds, rs \in BOOLEAN }

\* the assertion inside carries the IdP's signature unless the case says otherwise
AssertionSigned(c) == c.cond # "unsigned" /\ c.variant # "attackerUnsigned"
Decryptable(c)     == c.variant \notin {"truncatedCipherValue", "wrongKeyEncryptedKey", "missingEncryptedData", "twoEncryptedData"}
CondsOK(c)         == c.cond \in {"allGood", "unsigned"}

\* validateSignature(Response): no Signature element => assertions must be signed
RespSig ==
  /\ part = "sp" /\ pc = "respSig"
  /\ sigReq' = ~spc.respSigned
  /\ pc' = "findData"
  /\ UNCHANGED <<part, impl, spc, found, key, plain, verdict, step>> /\ UNCHANGED idpVars

\* decryptElement: findOneChild(EncryptedData) - exactly one
FindData ==
  /\ part = "sp" /\ pc = "findData"
  /\ IF spc.variant \in {"missingEncryptedData", "twoEncryptedData"}
       THEN pc' = "done" /\ verdict' = "reject" /\ step' = "findOneChild" /\ UNCHANGED found
       ELSE found' = TRUE /\ pc' = "unwrap" /\ UNCHANGED <<verdict, step>>
  /\ UNCHANGED <<part, impl, spc, key, plain, sigReq>> /\ UNCHANGED idpVars

\* ./EncryptedKey sibling is unwrapped here, KeyInfo/EncryptedKey inside xmlenc.Decrypt: same RSA-OAEP step
Unwrap ==
  /\ part = "sp" /\ pc = "unwrap"
  /\ IF spc.variant = "wrongKeyEncryptedKey"
       THEN pc' = "done" /\ verdict' = "reject" /\ step' = "unwrapKey" /\ UNCHANGED key
       ELSE key' = "contentKey" /\ pc' = "decrypt" /\ UNCHANGED <<verdict, step>>
  /\ UNCHANGED <<part, impl, spc, found, plain, sigReq>> /\ UNCHANGED idpVars

\* CBC decrypt + padding + xrv.Validate + etree parse (first root element is the assertion)
DecryptData ==
  /\ part = "sp" /\ pc = "decrypt"
  /\ IF spc.variant = "truncatedCipherValue"
       THEN pc' = "done" /\ verdict' = "reject" /\ step' = "decrypt" /\ UNCHANGED plain
       ELSE plain' = "assertion" /\ pc' = "assnSig" /\ UNCHANGED <<verdict, step>>
  /\ UNCHANGED <<part, impl, spc, found, key, sigReq>> /\ UNCHANGED idpVars

\* parseAssertion: the SAME function a plaintext assertion goes through
AssnSig ==
  /\ part = "sp" /\ pc = "assnSig"
  /\ IF sigReq /\ ~AssertionSigned(spc)
       THEN pc' = "done" /\ verdict' = "reject" /\ step' = "assertionSignature"
       ELSE pc' = "conds" /\ UNCHANGED <<verdict, step>>
  /\ UNCHANGED <<part, impl, spc, found, key, plain, sigReq>> /\ UNCHANGED idpVars

CondCheck ==
  /\ part = "sp" /\ pc = "conds"
  /\ pc' = "done"
  /\ IF CondsOK(spc) THEN verdict' = "accept" /\ step' = "none"
                     ELSE verdict' = "reject" /\ step' = spc.cond
  /\ UNCHANGED <<part, impl, spc, found, key, plain, sigReq>> /\ UNCHANGED idpVars

(***************************************************************************)
NoSp == [variant |-> "n/a", cond |-> "n/a", respSigned |-> FALSE]
Init ==
  \/ /\ "idp" \in Parts /\ part = "idp" /\ impl \in {"required", "actual"}
     /\ layout \in Layouts /\ pc = "pass1" /\ i = 1 /\ certStr = "none" /\ sel = 0 /\ outcome = "none"
     /\ spc = NoSp /\ found = FALSE /\ key = "none" /\ plain = "none" /\ sigReq = FALSE /\ verdict = "none" /\ step = "none"
  \/ /\ "sp" \in Parts /\ part = "sp" /\ impl = "actual"
     /\ spc \in SpCases /\ pc = "respSig" /\ found = FALSE /\ key = "none" /\ plain = "none" /\ sigReq = FALSE
     /\ verdict = "none" /\ step = "none"
     /\ layout = <<>> /\ i = 1 /\ certStr = "none" /\ sel = 0 /\ outcome = "none"

Next == Pass1 \/ Pass2 \/ Decode \/ Encrypt \/ RespSig \/ FindData \/ Unwrap \/ DecryptData \/ AssnSig \/ CondCheck
Spec == Init /\ [][Next]_vars

(***************************************************************************)
(*                  Properties (from the statement only)                   *)
(***************************************************************************)
Done  == pc = "done"
IsIdp == part = "idp"
IsSp  == part = "sp"

\* DESIGN 14 / statement: the metadata ADVERTISES an encryption key when some descriptor usable for
\* encryption (use="encryption" or no use) contains an X509Certificate with non-empty text
AdvertisingAt(l) == { k \in 1..Len(l) : l[k].use \in {"encryption", "omitted"} /\ HasElement(l[k]) /\ ~TextEmpty(l[k]) }
Advertises(l)    == AdvertisingAt(l) # {}
IdpClass == IF Advertises(layout) THEN "MustProtect" ELSE "DontCare"

\* "the response contains the assertion only inside an EncryptedAssertion ... recoverable with the SP's
\*  private key": encrypted to one of the advertised certificates, or no response at all
Protected == \/ outcome = "error"
             \/ outcome = "encrypted" /\ sel \in AdvertisingAt(layout) /\ GoodRSA(layout[sel].cert)
NeverInClear == Done /\ IsIdp /\ impl = "required" /\ Advertises(layout) => Protected
NeverPanics  == Done /\ IsIdp /\ impl = "required" => outcome # "panic"
\* an SP with one good encryption certificate gets an encrypted assertion, wherever broken descriptors sit
GoodKeyUsed  == Done /\ IsIdp /\ impl = "required"
                /\ (\E k \in AdvertisingAt(layout) : GoodRSA(layout[k].cert))
                /\ (\A k \in AdvertisingAt(layout) : GoodRSA(layout[k].cert))
                => outcome = "encrypted"

\* the model of the code differs from the required rule only where a named deviation is touched:
\* the first use="encryption" descriptor has no (or an empty) certificate
FirstEnc(l) == IF \E k \in 1..Len(l) : l[k].use = "encryption"
                 THEN CHOOSE k \in 1..Len(l) : l[k].use = "encryption" /\ \A j \in 1..(k - 1) : l[j].use # "encryption"
                 ELSE 0
TouchesDeviation == Selection = "pinned" /\ FirstEnc(layout) # 0
                    /\ (~HasElement(layout[FirstEnc(layout)]) \/ TextEmpty(layout[FirstEnc(layout)]))
\* (an auxiliary run of the required rule on the same layout, as a function)
RECURSIVE ReqFirst(_, _, _)
ReqFirst(l, k, u) == IF k > Len(l) THEN 0
                     ELSE IF l[k].use = u /\ HasElement(l[k]) /\ ~TextEmpty(l[k]) THEN k ELSE ReqFirst(l, k + 1, u)
ReqSel(l) == IF ReqFirst(l, 1, "encryption") # 0 THEN ReqFirst(l, 1, "encryption") ELSE ReqFirst(l, 1, "omitted")
ReqOutcome(l) == IF ReqSel(l) = 0 THEN "plaintext"
                 ELSE IF GoodRSA(l[ReqSel(l)].cert) THEN "encrypted" ELSE "error"
RequiredIsReq       == Done /\ IsIdp /\ impl = "required" => outcome = ReqOutcome(layout) /\ sel = ReqSel(layout)
OnlyNamedDeviations == Done /\ IsIdp /\ impl = "actual" /\ ~TouchesDeviation => outcome = ReqOutcome(layout) /\ sel = ReqSel(layout)

\* --- SP side ---
\* "the decrypted assertion is subject to exactly the same signature and condition checks as a
\*  plaintext one": the verdict equals the verdict of the same assertion delivered in plaintext
PlainVerdict(c) == IF (c.respSigned \/ AssertionSigned(c)) /\ CondsOK(c) THEN "accept" ELSE "reject"
\* "undecryptable or malformed ciphertext is a validation failure"
SpClass == IF ~Decryptable(spc) THEN "MustReject"
           ELSE IF spc.variant = "trailingContent" THEN "DontCare"    \* rejecting a malformed plaintext is as good as reading its first root
           ELSE "MustMatchPlain"
SameChecks      == Done /\ IsSp /\ Decryptable(spc) => verdict = PlainVerdict(spc)
MalformedFails  == Done /\ IsSp /\ ~Decryptable(spc) => verdict = "reject"
\* no assertion is accepted without a trusted signature over it or over the response
NeverUnsigned   == Done /\ IsSp /\ verdict = "accept" => spc.respSigned \/ AssertionSigned(spc)
ExactlyOneVerdict == Done => IF IsIdp THEN outcome \in {"encrypted", "plaintext", "error", "panic"}
                                      ELSE verdict \in {"accept", "reject"}

(***************************** vector emission *****************************)
IdpVec == [prop |-> "C08", part |-> "idp", layout |-> layout, class |-> IdpClass,
           advertised |-> AdvertisingAt(layout), required |-> [outcome |-> ReqOutcome(layout), sel |-> ReqSel(layout)],
           pred |-> [outcome |-> outcome, sel |-> sel]]
SpVec  == [prop |-> "C08", part |-> "sp", variant |-> spc.variant, cond |-> spc.cond, respSigned |-> spc.respSigned,
           class |-> SpClass, plain |-> PlainVerdict(spc), pred |-> [verdict |-> verdict, step |-> step]]
Emit == Done /\ impl = "actual" => PrintT(<<"VEC", ToJson(IF IsIdp THEN IdpVec ELSE SpVec)>>)
=============================================================================
