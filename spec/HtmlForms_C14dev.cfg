\* The named deviation PrefixCheckOnly is on (checkEndpointLocation judges a location by the text before its
\* first colon, without parsing it as a URL): TLC must REFUTE RejectsHostile (the check breaks when it does not).
CONSTANTS
  MaxLen = 1
  Parts = {"meta"}
  Escaper = "html"
  PrefixCheckOnly = TRUE
INIT Init
NEXT Next
INVARIANTS
  RejectsHostile
CHECK_DEADLOCK FALSE
