\* The named deviation PrefixCheckOnly is on (checkEndpointLocation judges a location by the text before its
\* first colon, without parsing it as a URL): TLC must REFUTE RejectsHostile (the check breaks when it does not).
\* Base cases only (every element written with the default namespace), one descriptor type (Endpoint and IndexedEndpoint elements).
CONSTANTS
  MaxLen = 1
  Parts = {"meta"}
  Escaper = "html"
  PrefixCheckOnly = TRUE
  ForeignNamespaceUnchecked = FALSE
  Descs = {"SPSSODescriptor"}
  BaseCases = TRUE
  NsSet = {}
  NsWide = FALSE
  ChecksFirstAttribute = FALSE
  AttrForms = {}
INIT Init
NEXT Next
INVARIANTS
  RejectsHostile
CHECK_DEADLOCK FALSE
