CONSTANTS
  NameSeq <- TwoNames
  Eids = {"https://sp1.example.com/saml/metadata", "https://sp2.example.com/saml/metadata"}
  Vers = {1, 2}
  MaxLen = 5
INIT Init
NEXT Next
INVARIANTS
  OnlyCurrent
  Emit
CHECK_DEADLOCK FALSE
