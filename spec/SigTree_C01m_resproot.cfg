CONSTANTS
  K = 1
  MaxNodes = 12
  BaseSet <- ArtBases
  RunCfgSeq <- RunsEnv
  Prods <- EnvProds
  KISet <- KIClassic
  EnvWhereSet <- EnvWheres
  SibSeqSet <- SibCover
  Deviations = {"ResponseFromDocumentRoot"}
  EmitMin = 9
  EmitFrom = 9
  EmitMod = 1
INIT Init
NEXT Next
INVARIANTS
  AllProps
CHECK_DEADLOCK FALSE
