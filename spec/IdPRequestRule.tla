--------------------------- MODULE IdPRequestRule ---------------------------
(***************************************************************************)
(* Constant-level vocabulary shared by IdPRequest.tla (C05) and            *)
(* IdPRespond.tla (C06): the registered metadata of a service provider and *)
(* the endpoint-selection rule of the C05 statement, written declaratively *)
(* ("the first endpoint, in descriptor-then-document order, such that ...")*)
(* and NOT as the staged search of identity_provider.go.                   *)
(*                                                                         *)
(* A registry entry is a sequence of SPSSODescriptors; a descriptor is a   *)
(* sequence of AssertionConsumerService endpoints                          *)
(*     [b |-> binding, idx |-> index, def |-> isDefault, loc |-> name]     *)
(* with b in {"POST","Redirect","Artifact","unknown"}, def in              *)
(* {"nil","true","false"} and loc a location NAME ("A","B","C" for the     *)
(* requesting SP, "O" for the other registered SP).                        *)
(***************************************************************************)
EXTENDS Integers, Sequences, FiniteSets

None == <<0, 0>>
Browser == {"POST", "Redirect"}

\* Named fact about the registry (metadata.go checkEndpointLocation): an endpoint
\* whose binding the parser does not know is REGISTERED with an empty location.
RegLoc(ep) == IF ep.b = "unknown" THEN "none" ELSE ep.loc

Pos(reg) == UNION { { <<d, e>> : e \in DOMAIN reg[d] } : d \in DOMAIN reg }
At(reg, p) == reg[p[1]][p[2]]
Before(p, q) == p[1] < q[1] \/ (p[1] = q[1] /\ p[2] < q[2])
First(S) == IF S = {} THEN None ELSE CHOOSE p \in S : \A q \in S : p = q \/ Before(p, q)

\* what a requested index / URL denotes ------------------------------------
\* idx classes: absent | empty | n0 | n1 | n2 | unknown | nonnum | lead0 ("01") | plus ("+1")
\* url classes: absent | empty | A | B | C | O | unreg | nearmiss
\* A non-canonical spelling of 1 and an empty attribute admit two readings each;
\* the statement does not choose, so every reading is admissible.
IdxReadings(i) ==
  CASE i = "absent"  -> { [num |-> -1, req |-> FALSE] }
    [] i = "empty"   -> { [num |-> -1, req |-> FALSE], [num |-> -1, req |-> TRUE] }
    [] i = "n0"      -> { [num |-> 0, req |-> TRUE] }
    [] i = "n1"      -> { [num |-> 1, req |-> TRUE] }
    [] i = "n2"      -> { [num |-> 2, req |-> TRUE] }
    [] i = "unknown" -> { [num |-> 99, req |-> TRUE] }
    [] i = "nonnum"  -> { [num |-> -1, req |-> TRUE] }
    [] i \in {"lead0", "plus"} -> { [num |-> -1, req |-> TRUE], [num |-> 1, req |-> TRUE] }
UrlReadings(u) ==
  CASE u = "absent" -> { [loc |-> "none", req |-> FALSE] }
    [] u = "empty"  -> { [loc |-> "none", req |-> FALSE], [loc |-> "none", req |-> TRUE] }
    [] u \in {"A", "B", "C", "O"} -> { [loc |-> u, req |-> TRUE] }
    [] OTHER -> { [loc |-> "none", req |-> TRUE] }       \* unreg, nearmiss: equal to no registered location

ByIdx(reg, n) == IF n < 0 THEN None ELSE First({ p \in Pos(reg) : At(reg, p).idx = n })
ByUrl(reg, l) == IF l = "none" THEN None ELSE First({ p \in Pos(reg) : RegLoc(At(reg, p)) = l })
DefaultEP(reg) == First({ p \in Pos(reg) : At(reg, p).def = "true" /\ At(reg, p).b \in Browser })
FirstBrowserEP(reg) == First({ p \in Pos(reg) : At(reg, p).b \in Browser })

\* the statement: "chosen by the requested index, else the requested URL, else the
\* default/first browser-binding endpoint" (the last only when neither was requested)
Rule(reg, u, i) ==
  IF i.req /\ ByIdx(reg, i.num) # None THEN ByIdx(reg, i.num)
  ELSE IF u.req /\ ByUrl(reg, u.loc) # None THEN ByUrl(reg, u.loc)
  ELSE IF ~i.req /\ ~u.req
         THEN (IF DefaultEP(reg) # None THEN DefaultEP(reg) ELSE FirstBrowserEP(reg))
  ELSE None

Admissible(reg, url, idx) == { Rule(reg, u, i) : u \in UrlReadings(url), i \in IdxReadings(idx) }

\* IdP-initiated launch: a POST-binding endpoint of the registered metadata
PostEPs(reg) == { p \in Pos(reg) : At(reg, p).b = "POST" }
=============================================================================
