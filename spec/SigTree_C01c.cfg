CONSTANTS
  K = 1
  MaxNodes = 12
  BaseSet <- AllBases
  RunCfgSeq <- RunsTrust
  Prods <- AllProds
  KISet <- KINamed
  EmitMin = 0
  EmitFrom = 9
  EmitMod = 1
INIT Init
NEXT Next
INVARIANTS
  AllProps
CHECK_DEADLOCK FALSE
