CONSTANTS
  K = 1
  MaxNodes = 12
  BaseSet <- AllBases
  RunCfgSeq <- RunsTrust
  Prods <- TreeProds
  KISet <- KIAll
  EnvWhereSet <- EnvWheres
  SibSeqSet <- SibCover
  Deviations = {}
  EmitMin = 0
  EmitFrom = 9
  EmitMod = 1
INIT Init
NEXT Next
INVARIANTS
  AllProps
CHECK_DEADLOCK FALSE
