------------------------------ MODULE IdpSched ------------------------------
(***************************************************************************)
(* C20 - every interleaving of concurrent requests to the bundled IdP      *)
(* server at the granularity the property names: store operations and      *)
(* acquisitions of the registry lock.                                      *)
(*                                                                         *)
(* IdpServerConc.tla interleaves the handlers at every hook and looks for  *)
(* bad states among the *mined* programs.  A program mined from a request  *)
(* that ran alone cannot show what the request does when another request   *)
(* changes the data under it (the second of two DELETEs finds the entry    *)
(* gone).  This module therefore does not judge: it ENUMERATES.  Every     *)
(* maximal behaviour - every complete schedule and every schedule that     *)
(* ends with requests blocked for good - is emitted and the harness drives *)
(* the real server along it with a scheduling Store wrapper and the        *)
(* lock-request hooks as gates (harness/c20_sched_test.go), comparing the  *)
(* registry lock's measured state with `lockMode` after every step and     *)
(* checking at the end that every request completed and no lock is held.   *)
(*                                                                         *)
(* A program is a sequence of operations                                   *)
(*    [k |-> "S",      x |-> "Get /services/s1"]   a store operation       *)
(*    [k |-> "RLock" | "Lock" | "RUnlock" | "Unlock", x |-> "cfg"]         *)
(* S, RLock and Lock are schedule points; the releases that follow a       *)
(* schedule point happen in the same step (they cannot block and the real  *)
(* request does not stop before its next schedule point).                  *)
(***************************************************************************)
EXTENDS Integers, Sequences, FiniteSets, TLC, Json, C20SchedPrograms

CONSTANT NProcs,       \* number of concurrent requests
         Focus         \* "all": every multiset of programs; "locks": at least one program takes the registry lock

Procs == 1..NProcs

VARIABLES assign,      \* program run by each process
          pc,          \* next operation of each process
          readers,     \* readers[p]: read locks on the registry lock held by p (a bag)
          writer,      \* process holding the registry lock for writing, 0 if none
          pending,     \* processes blocked inside Lock(): they exclude new readers
          sched        \* the schedule so far: <<[p, a, m]>>, a in step / pend / acq, m the lock mode after it
vars == <<assign, pc, readers, writer, pending, sched>>

Prog(p) == SPrograms[assign[p]]
Done(p) == pc[p] > Len(Prog(p))
Cur(p)  == Prog(p)[pc[p]]
AllDone == \A p \in Procs : Done(p)

TakesLock(i) == \E j \in 1..Len(SPrograms[i]) : SPrograms[i][j].k \in {"RLock", "Lock"}
Assignments ==
  { a \in [Procs -> SSelected] :
      /\ \A p \in Procs : p < NProcs => a[p] <= a[p + 1]
      /\ Focus = "locks" => \E p \in Procs : TakesLock(a[p]) }

Init == /\ assign \in Assignments
        /\ pc = [p \in Procs |-> 1]
        /\ readers = [p \in Procs |-> 0]
        /\ writer = 0
        /\ pending = {}
        /\ sched = <<>>

NoReaders  == \A q \in Procs : readers[q] = 0
CanRLock   == writer = 0 /\ pending = {}
CanAcquire == writer = 0 /\ NoReaders

\* the releases that follow position i of program prog, applied to (rd, wr) of process p
RECURSIVE AfterReleases(_, _, _, _, _)
AfterReleases(prog, i, rd, wr, p) ==
  IF i > Len(prog) \/ prog[i].k \notin {"RUnlock", "Unlock"}
    THEN [i |-> i, rd |-> rd, wr |-> wr]
    ELSE IF prog[i].k = "RUnlock"
           THEN AfterReleases(prog, i + 1, IF rd > 0 THEN rd - 1 ELSE 0, wr, p)
           ELSE AfterReleases(prog, i + 1, rd, IF wr = p THEN 0 ELSE wr, p)

\* what a TryLock / TryRLock probe of the registry lock reports in a state
Mode(rd, wr, pend) == IF wr # 0 \/ pend # {} THEN "write"
                      ELSE IF \E q \in Procs : rd[q] > 0 THEN "read" ELSE "none"
lockMode == Mode(readers, writer, pending)

Finish(p, rd0, wr0, pend0, a) ==
  LET r   == AfterReleases(Prog(p), pc[p] + 1, rd0, wr0, p)
      rd1 == [readers EXCEPT ![p] = r.rd]
  IN /\ pc' = [pc EXCEPT ![p] = r.i]
     /\ readers' = rd1 /\ writer' = r.wr /\ pending' = pend0
     /\ sched' = Append(sched, [p |-> p, a |-> a, m |-> Mode(rd1, r.wr, pend0)])

StoreOp(p) == /\ ~Done(p) /\ Cur(p).k = "S"
              /\ Finish(p, readers[p], writer, pending, "step")
RLock(p)   == /\ ~Done(p) /\ Cur(p).k = "RLock" /\ CanRLock
              /\ Finish(p, readers[p] + 1, writer, pending, "step")
LockNow(p) == /\ ~Done(p) /\ Cur(p).k = "Lock" /\ p \notin pending /\ CanAcquire
              /\ Finish(p, readers[p], p, pending, "step")
\* the call to Lock() while the lock is busy: from now on new readers are excluded
LockPend(p) == /\ ~Done(p) /\ Cur(p).k = "Lock" /\ p \notin pending /\ ~CanAcquire
               /\ pending' = pending \cup {p}
               /\ sched' = Append(sched, [p |-> p, a |-> "pend", m |-> "write"])
               /\ UNCHANGED <<pc, readers, writer>>
LockLate(p) == /\ ~Done(p) /\ Cur(p).k = "Lock" /\ p \in pending /\ CanAcquire
               /\ Finish(p, readers[p], p, pending \ {p}, "acq")

Step(p) == (StoreOp(p) \/ RLock(p) \/ LockNow(p) \/ LockPend(p) \/ LockLate(p)) /\ UNCHANGED assign
Next == \E p \in Procs : Step(p)
Spec == Init /\ [][Next]_vars /\ \A p \in Procs : WF_vars(Step(p))

(******************************** properties *******************************)
MutualExclusion == writer # 0 => NoReaders
PendingIsBlocked == \A p \in pending : ~Done(p) /\ Cur(p).k = "Lock"
\* a finished request holds nothing
DoneHoldsNothing == \A p \in Procs : Done(p) => readers[p] = 0 /\ writer # p /\ p \notin pending
CanStep(p) == /\ ~Done(p)
              /\ \/ Cur(p).k = "S"
                 \/ Cur(p).k = "RLock" /\ CanRLock
                 \/ Cur(p).k = "Lock" /\ (p \notin pending \/ CanAcquire)
Stuck == ~AllDone /\ \A p \in Procs : ~CanStep(p)
NoStuck == ~Stuck
Completes == <>AllDone

\* every maximal behaviour is handed to the harness
Emit == (AllDone \/ Stuck) =>
          PrintT(<<"SCHED", ToJson([kind |-> IF AllDone THEN "complete" ELSE "stuck",
                                    progs |-> [p \in Procs |-> SProgNames[assign[p]]],
                                    assign |-> assign, sched |-> sched,
                                    pcs |-> pc])>>)
=============================================================================
