------------------------------ MODULE SSOSystemCore ------------------------------
(***************************************************************************)
(* Layer 3 - composition: one browser, the bundled IdP server (samlidp)    *)
(* and two independent SP deployments (samlsp middleware) that exchanged   *)
(* their real metadata, with the network in the hands of an attacker who   *)
(* may deliver, replay and misdirect messages (a response issued for one   *)
(* SP posted to the other, a request served without an IdP session, a      *)
(* message held back until it is stale, ...), and a clock.                 *)
(*                                                                         *)
(* It composes abstractions of Middleware.tla (flows, tracking cookie,     *)
(* session) and IdpServer.tla (registry, IdP session, shortcuts) and       *)
(* states the end-to-end reading of C03 / C04 / C07 / C16 / C17 / C19: an  *)
(* SP session exists only for a user the IdP authenticated, through a      *)
(* fresh response the IdP issued for THAT SP - in answer to a flow THAT    *)
(* browser started there and that is still pending, or - if and only if    *)
(* that SP opted into IdP-initiated login - any response; it ends with the *)
(* logout or its lifetime; and a faithful run of the protocol does         *)
(* establish it.                                                           *)
(* Every transition is executed on the real servers (harness/sso_test.go); *)
(* SSOSystem.tla adds the emission for TLC, SSOSystemProof.tla the TLAPS   *)
(* proof of the safety invariant for arbitrary parameters.                 *)
(*                                                                         *)
(* Time: TickShort (6 minutes) is longer than every freshness window       *)
(* (MaxIssueDelay 90 s + MaxClockSkew 180 s): requests, responses and      *)
(* pending flows (tracking cookies) go stale.  TickLong (61 minutes) is    *)
(* longer than both session lifetimes (1 h).                               *)
(***************************************************************************)
EXTENDS Integers, Sequences, FiniteSets

CONSTANTS SPs,        \* the SP deployments
          AllowInit,  \* those that opted into IdP-initiated login (AllowIDPInitiated)
          MaxResps,   \* responses in flight
          MaxTicks    \* clock steps in a behaviour

VARIABLES reg,       \* SPs whose metadata is registered at the IdP
          idpSess,   \* the browser holds a valid IdP session cookie
          flow,      \* [SPs -> "none" | "pending" | "stale" | "done"]
          reqs,      \* [SPs -> "none" | "fresh" | "stale"] the AuthnRequest in flight of each SP; can be served any number of times
          resps,     \* responses in flight: records [for, sol, fresh]; sol = "cur": answers the SP's current
                     \* flow, "old": answers a flow the browser has since replaced, "no": unsolicited
          spSess,    \* [SPs -> BOOLEAN] the browser holds a valid session at that SP
          ticks,     \* clock steps so far
          everAuth,  \* history: the IdP has authenticated the user at some point
          act, reply
vars == <<reg, idpSess, flow, reqs, resps, spSess, ticks, everAuth, act, reply>>
View == [reg |-> reg, idpSess |-> idpSess, flow |-> flow, reqs |-> reqs, resps |-> resps, spSess |-> spSess, ticks |-> ticks]

Resp(s, sol, fresh) == [for |-> s, sol |-> sol, fresh |-> fresh]

Init == /\ reg = {} /\ idpSess = FALSE /\ flow = [s \in SPs |-> "none"] /\ reqs = [s \in SPs |-> "none"] /\ resps = {}
        /\ spSess = [s \in SPs |-> FALSE] /\ ticks = 0 /\ everAuth = FALSE
        /\ act = [n |-> "Init"] /\ reply = "none"

Register(s)   == /\ s \notin reg /\ reg' = reg \cup {s}
                 /\ act' = [n |-> "Register", s |-> s] /\ reply' = "204"
                 /\ UNCHANGED <<idpSess, flow, reqs, resps, spSess, ticks, everAuth>>
Unregister(s) == /\ s \in reg /\ reg' = reg \ {s}
                 /\ act' = [n |-> "Unregister", s |-> s] /\ reply' = "204"
                 /\ UNCHANGED <<idpSess, flow, reqs, resps, spSess, ticks, everAuth>>
IdPLogin      == /\ ~idpSess /\ idpSess' = TRUE /\ everAuth' = TRUE
                 /\ act' = [n |-> "IdPLogin"] /\ reply' = "session"
                 /\ UNCHANGED <<reg, flow, reqs, resps, spSess, ticks>>
IdPLogout     == /\ idpSess /\ idpSess' = FALSE
                 /\ act' = [n |-> "IdPLogout"] /\ reply' = "204"
                 /\ UNCHANGED <<reg, flow, reqs, resps, spSess, ticks, everAuth>>
\* the browser asks SP s for a protected page without a session there
Start(s)      == /\ flow[s] \in {"none", "stale"} /\ ~spSess[s]
                 /\ flow' = [flow EXCEPT ![s] = "pending"] /\ reqs' = [reqs EXCEPT ![s] = "fresh"]
                 \* what is still in flight for s answers a request the browser no longer tracks as current
                 /\ resps' = { IF r.for = s /\ r.sol = "cur" THEN Resp(s, "old", r.fresh) ELSE r : r \in resps }
                 /\ act' = [n |-> "Start", s |-> s] /\ reply' = "redirect"
                 /\ UNCHANGED <<reg, idpSess, spSess, ticks, everAuth>>
\* ... and with one: the page is served
Visit(s)      == /\ spSess[s]
                 /\ act' = [n |-> "Visit", s |-> s] /\ reply' = "page"
                 /\ UNCHANGED <<reg, idpSess, flow, reqs, resps, spSess, ticks, everAuth>>
CanAdd(r)     == Cardinality(resps) < MaxResps \/ r \in resps
\* the AuthnRequest of SP s reaches the IdP's /sso, with the browser's IdP cookie if it has one
Serve(s)      == /\ reqs[s] # "none"
                 /\ act' = [n |-> "Serve", s |-> s]
                 /\ IF s \notin reg \/ reqs[s] = "stale" THEN reply' = "400" /\ UNCHANGED resps
                    ELSE IF ~idpSess THEN reply' = "loginform" /\ UNCHANGED resps
                    ELSE /\ CanAdd(Resp(s, "cur", TRUE))
                         /\ reply' = "response" /\ resps' = resps \cup {Resp(s, "cur", TRUE)}
                 /\ UNCHANGED <<reg, idpSess, flow, reqs, spSess, ticks, everAuth>>
\* IdP-initiated: the browser opens the IdP's shortcut for SP s (the shortcut itself always exists)
Launch(s)     == /\ act' = [n |-> "Launch", s |-> s]
                 /\ IF ~idpSess THEN reply' = "loginform" /\ UNCHANGED resps
                    ELSE IF s \notin reg THEN reply' = "404" /\ UNCHANGED resps
                    ELSE /\ CanAdd(Resp(s, "no", TRUE))
                         /\ reply' = "response" /\ resps' = resps \cup {Resp(s, "no", TRUE)}
                 /\ UNCHANGED <<reg, idpSess, flow, reqs, spSess, ticks, everAuth>>
\* a response is posted to the ACS of SP to, with to's own cookie jar
\* the response answers the flow this browser has pending at `to`
Own(r, to)     == r.for = to /\ r.sol = "cur" /\ flow[to] = "pending"
\* an SP that opted into IdP-initiated login does not examine InResponseTo at all (service_provider.go
\* validateRequestID): any fresh response issued for it is accepted, solicited or not
Accepts(r, to) == r.fresh /\ r.for = to /\ (Own(r, to) \/ to \in AllowInit)
Deliver(r, to) == /\ r \in resps
                  /\ act' = [n |-> "Deliver", r |-> r, to |-> to]
                  /\ IF Accepts(r, to)
                       \* own flow: to the page the browser asked for; otherwise (opted-in SP, middleware.go
                       \* CreateSessionFromAssertion) to the RelayState if the response carries one - a solicited
                       \* response echoes its request's - else to the configured default
                       THEN /\ reply' = IF Own(r, to) THEN "session" ELSE IF r.sol = "no" THEN "session-default" ELSE "session-relay"
                            /\ spSess' = [spSess EXCEPT ![to] = TRUE]
                            /\ flow' = IF Own(r, to) THEN [flow EXCEPT ![to] = "done"] ELSE flow
                       ELSE reply' = "403" /\ UNCHANGED <<spSess, flow>>
                  /\ UNCHANGED <<reg, idpSess, reqs, resps, ticks, everAuth>>
\* the application at SP s ends the session (the browser honours the cookie deletion)
SPLogout(s)   == /\ spSess[s]
                 /\ spSess' = [spSess EXCEPT ![s] = FALSE]
                 /\ flow' = [flow EXCEPT ![s] = IF @ = "done" THEN "none" ELSE @]
                 /\ act' = [n |-> "SPLogout", s |-> s] /\ reply' = "loggedout"
                 /\ UNCHANGED <<reg, idpSess, reqs, resps, ticks, everAuth>>
Stale(f)      == IF f = "pending" THEN "stale" ELSE f
TickShort     == /\ ticks < MaxTicks /\ ticks' = ticks + 1
                 /\ flow' = [s \in SPs |-> Stale(flow[s])]
                 /\ reqs' = [s \in SPs |-> IF reqs[s] = "fresh" THEN "stale" ELSE reqs[s]]
                 /\ resps' = { Resp(r.for, r.sol, FALSE) : r \in resps }
                 /\ act' = [n |-> "TickShort"] /\ reply' = "none"
                 /\ UNCHANGED <<reg, idpSess, spSess, everAuth>>
TickLong      == /\ ticks < MaxTicks /\ ticks' = ticks + 1
                 /\ flow' = [s \in SPs |-> IF flow[s] = "done" THEN "none" ELSE Stale(flow[s])]
                 /\ reqs' = [s \in SPs |-> IF reqs[s] = "fresh" THEN "stale" ELSE reqs[s]]
                 /\ resps' = { Resp(r.for, r.sol, FALSE) : r \in resps }
                 /\ idpSess' = FALSE /\ spSess' = [s \in SPs |-> FALSE]
                 /\ act' = [n |-> "TickLong"] /\ reply' = "none"
                 /\ UNCHANGED <<reg, everAuth>>

Next == \/ \E s \in SPs : Register(s) \/ Unregister(s) \/ Start(s) \/ Visit(s) \/ Serve(s) \/ Launch(s) \/ SPLogout(s)
        \/ IdPLogin \/ IdPLogout \/ TickShort \/ TickLong
        \/ \E r \in resps, to \in SPs : Deliver(r, to)
Spec == Init /\ [][Next]_vars

(******************************* properties ********************************)
\* an SP session only for a user the IdP authenticated ...
SessionImpliesAuthenticated == \A s \in SPs : spSess[s] => everAuth
\* ... through a fresh response issued for that very SP: answering a flow started there that is still
\* pending, or unsolicited where the SP opted in
SessionOnlyThroughOwnResponse ==
  [][ \A s \in SPs : spSess'[s] /\ ~spSess[s] =>
        /\ act'.n = "Deliver" /\ act'.to = s /\ act'.r.for = s /\ act'.r.fresh
        /\ (s \notin AllowInit => act'.r.sol = "cur" /\ flow[s] = "pending") ]_vars
\* an SP that did not opt in never gets a session from an unsolicited response
NoUnsolicitedWithoutOptIn ==
  [][ act'.n = "Deliver" /\ act'.r.sol # "cur" /\ act'.to \notin AllowInit => reply' = "403" ]_vars
\* stale messages are refused everywhere
StaleIsRefused ==
  [][ /\ (act'.n = "Deliver" /\ ~act'.r.fresh => reply' = "403")
      /\ (act'.n = "Serve" /\ reqs[act'.s] = "stale" => reply' = "400") ]_vars
\* the IdP issues responses only to an authenticated browser and only for registered SPs
ResponsesOnlyWhenEntitled ==
  [][ resps' # resps /\ act'.n \in {"Serve", "Launch"} => idpSess /\ act'.s \in reg ]_vars
\* the faithful protocol run works: registered SP, IdP session, own pending flow, no undue delay
FaithfulRunCompletes ==
  [][ act'.n = "Deliver" /\ act'.r.fresh /\ Own(act'.r, act'.to) => reply' = "session" ]_vars
\* sessions end: by the SP's logout and by their lifetime
SessionsEnd ==
  [][ /\ (act'.n = "SPLogout" => ~spSess'[act'.s])
      /\ (act'.n = "TickLong" => \A s \in SPs : ~spSess'[s]) ]_vars

=============================================================================
