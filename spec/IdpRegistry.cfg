CONSTANTS
  Names = {"alpha", "urn:e2", "zeta"}
  Eids = {"urn:e1", "urn:e2"}
INIT Init
NEXT Next
VIEW View
PROPERTIES
  OnlyKnownIssuers
  ResolvedToIssuer
  NamesAreIrrelevant
  EmitEdge
CHECK_DEADLOCK FALSE
