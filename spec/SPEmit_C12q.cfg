CONSTANTS
  Family = "C12q"
  IdBytes = 20
  MaxSeq = 6
INIT Init
NEXT Next
INVARIANTS
  ExactlyOneSAMLParam
  AtMostOneRelayState
  RelayStateRoundTrips
  ExistingQueryPreserved
  IdpRecovers
  DeliveredToDestination
  IdpAcceptsDestination
  OneStepIsFirstLocation
  MessageIntact
  SignedOctetsExact
  RefusesMismatch
  CarriesSignature
  UnsignedWhenOff
  VerifiesUnderPublished
  SignedWhateverIdpWants
  PinnedDiffersOnlyWhereNamed
  Emit
PROPERTIES
  IDsFresh
CHECK_DEADLOCK FALSE
