CONSTANTS
  Users = {"u1"}
  SvcNames = {"s1", "s2"}
  Eids = {"e1", "e2"}
  Shortcuts = {"c1"}
  MaxSess = 2
  WithFaults = TRUE
INIT Init
NEXT Next
VIEW View
INVARIANT RegistryIsImageOfStore
PROPERTIES
  AssertionOnlyIfAuthenticated
  OnlyToRegisteredNow
  DescribesUserAsAtLogin
  SessionOnlyByPassword
  ExactlyOneReply
  RestartUnobservable
  EmitEdge
CHECK_DEADLOCK FALSE
