CONSTANTS
  Tier = "t"
  PointerReceiverMarshaller <- NoDeviation
  Families <- AllFamilies
INIT Init
NEXT Next
INVARIANTS
  DurRoundTrip
  DurTextIsXsd
  DurGrammar
  DurRegexIsXsd
  InstRoundTrip
  InstGrammar
  MdFixedPoint
  MdPreserves
  EsdFixedPoint
  GeneratedReparses
  SlotsRoundTrip
  ExactlyOneOutcome
  Emit
CHECK_DEADLOCK FALSE
