CONSTANTS
  Family = "C12t"
  IdBytes = 20
  MaxSeq = 7
  Seeded = {}
INIT Init
NEXT Next
INVARIANTS
  ExactlyOneSAMLParam
  AtMostOneRelayState
  RelayStateRoundTrips
  ExistingQueryPreserved
  IdpRecovers
  DeliveredToDestination
  IdpAcceptsDestination
  IdpFindsAcs
  OneStepIsFirstLocation
  MessageIntact
  SignedOctetsExact
  RefusesMismatch
  CarriesSignature
  UnsignedWhenOff
  VerifiesUnderPublished
  SignedWhateverIdpWants
  SignedOnEveryPath
  MiddlewareEmitsChosen
  PinnedDiffersOnlyWhereNamed
  Emit
PROPERTIES
  IDsFresh
CHECK_DEADLOCK FALSE
