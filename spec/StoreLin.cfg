INIT Init
NEXT Next
CONSTRAINT HighWater
POSTCONDITION Accepted
CHECK_DEADLOCK FALSE
