\* Not a registered phase.  validateRSAKeyIfPresent with an unchecked type assertion on the public
\* key of the certificate hint: TLC refutes NoPanic with an EncryptedKey whose KeyInfo holds a
\* well-formed ECDSA / Ed25519 certificate (fixes/C09c.md).
CONSTANTS
  Tier = "q"
  Unguarded = {"HintCertKeyType"}
  Unwrapped = {}
  DepthRestore = "parent"
  ContextDropped = FALSE
  CloseFailure = "logged"
INIT Init
NEXT Next
INVARIANTS
  NoPanic
CHECK_DEADLOCK TRUE
