CONSTANTS
  K = 2
  MaxNodes = 12
  BaseSet <- AllBases
  RunCfgSeq <- RunsQuick
  EmitMin = 0
  EmitFrom = 2
  EmitMod = 8
INIT Init
NEXT Next
INVARIANTS
  OnlySignedContent
  RejectsUntrusted
  AcceptsGenuine
  EncryptionTransparent
  MustRejectAgrees
  FindSigAgrees
  Emit
CHECK_DEADLOCK FALSE
