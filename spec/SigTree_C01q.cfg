CONSTANTS
  K = 2
  MaxNodes = 12
  BaseSet <- AllBases
  RunCfgSeq <- RunsQuick
  Prods <- TreeProds
  KISet <- KIClassic
  EnvWhereSet <- EnvWheres
  SibSeqSet <- SibCover
  Deviations = {}
  EmitMin = 0
  EmitFrom = 2
  EmitMod = 12
INIT Init
NEXT Next
INVARIANTS
  AllProps
  MustRejectAgrees
  FindSigAgrees
CHECK_DEADLOCK FALSE
