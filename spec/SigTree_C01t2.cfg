CONSTANTS
  K = 2
  MaxNodes = 12
  BaseSet <- AllBases
  RunCfgSeq <- RunsThorough
  EmitMin = 0
  EmitFrom = 9
  EmitMod = 1
INIT Init
NEXT Next
INVARIANTS
  OnlySignedContent
  RejectsUntrusted
  AcceptsGenuine
  EncryptionTransparent
  MustRejectAgrees
  FindSigAgrees
  Emit
CHECK_DEADLOCK FALSE
