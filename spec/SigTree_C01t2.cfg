CONSTANTS
  K = 2
  MaxNodes = 12
  BaseSet <- AllBases
  RunCfgSeq <- RunsThorough
  Prods <- TreeProds
  KISet <- KIClassic
  EnvWhereSet <- EnvWheres
  SibSeqSet <- SibCover
  Deviations = {}
  EmitMin = 0
  EmitFrom = 9
  EmitMod = 1
INIT Init
NEXT Next
INVARIANTS
  AllProps
  MustRejectAgrees
  FindSigAgrees
CHECK_DEADLOCK FALSE
