--------------------------- MODULE SSOSystemProof ---------------------------
(***************************************************************************)
(* TLAPS: SessionImpliesAuthenticated is an invariant of SSOSystemCore for *)
(* ANY set of SPs, any AllowInit, any MaxResps and MaxTicks (TLC checks it *)
(* for two SPs, two responses in flight and one clock step).               *)
(***************************************************************************)
EXTENDS SSOSystemCore, TLAPS

\* the inductive strengthening: whatever could lead to a session presupposes an authentication
TypeOK == /\ spSess \in [SPs -> BOOLEAN]
          /\ flow \in [SPs -> {"none", "pending", "stale", "done"}]
          /\ reqs \in [SPs -> {"none", "fresh", "stale"}]

Inv == /\ TypeOK
       /\ (idpSess => everAuth)
       /\ (resps # {} => everAuth)
       /\ \A s \in SPs : spSess[s] => everAuth

THEOREM InitInv == Init => Inv
  BY DEF Init, Inv, TypeOK

THEOREM StepInv == Inv /\ [Next]_vars => Inv'
<1> SUFFICES ASSUME Inv, [Next]_vars PROVE Inv'
  OBVIOUS
<1>1. CASE UNCHANGED vars
  BY <1>1 DEF Inv, TypeOK, vars
<1>2. ASSUME NEW s \in SPs, Register(s) PROVE Inv'
  BY <1>2 DEF Inv, TypeOK, Register
<1>3. ASSUME NEW s \in SPs, Unregister(s) PROVE Inv'
  BY <1>3 DEF Inv, TypeOK, Unregister
<1>4. ASSUME NEW s \in SPs, Start(s) PROVE Inv'
  BY <1>4 DEF Inv, TypeOK, Start, Resp
<1>5. ASSUME NEW s \in SPs, Visit(s) PROVE Inv'
  BY <1>5 DEF Inv, TypeOK, Visit
<1>6. ASSUME NEW s \in SPs, Serve(s) PROVE Inv'
  BY <1>6 DEF Inv, TypeOK, Serve, Resp, CanAdd
<1>7. ASSUME NEW s \in SPs, Launch(s) PROVE Inv'
  BY <1>7 DEF Inv, TypeOK, Launch, Resp, CanAdd
<1>8. ASSUME NEW s \in SPs, SPLogout(s) PROVE Inv'
  BY <1>8 DEF Inv, TypeOK, SPLogout
<1>9. CASE IdPLogin
  BY <1>9 DEF Inv, TypeOK, IdPLogin
<1>10. CASE IdPLogout
  BY <1>10 DEF Inv, TypeOK, IdPLogout
<1>11. CASE TickShort
  BY <1>11 DEF Inv, TypeOK, TickShort, Resp, Stale
<1>12. CASE TickLong
  BY <1>12 DEF Inv, TypeOK, TickLong, Resp, Stale
<1>13. ASSUME NEW r \in resps, NEW to \in SPs, Deliver(r, to) PROVE Inv'
  BY <1>13 DEF Inv, TypeOK, Deliver, Accepts, Own
<1> QED
  BY <1>1, <1>2, <1>3, <1>4, <1>5, <1>6, <1>7, <1>8, <1>9, <1>10, <1>11, <1>12, <1>13 DEF Next


\* the action-level properties hold of every step, for arbitrary parameters
OwnResponseStep ==
  \A s \in SPs : spSess'[s] /\ ~spSess[s] =>
        /\ act'.n = "Deliver" /\ act'.to = s /\ act'.r.for = s /\ act'.r.fresh
        /\ (s \notin AllowInit => act'.r.sol = "cur" /\ flow[s] = "pending")

THEOREM OwnResponse == TypeOK /\ [Next]_vars => OwnResponseStep
<1> SUFFICES ASSUME TypeOK, [Next]_vars PROVE OwnResponseStep
  OBVIOUS
<1>1. CASE UNCHANGED vars
  BY <1>1 DEF OwnResponseStep, TypeOK, vars
<1>2. ASSUME NEW s \in SPs, Register(s) \/ Unregister(s) \/ Start(s) \/ Visit(s) \/ Serve(s) \/ Launch(s) PROVE OwnResponseStep
  BY <1>2 DEF OwnResponseStep, TypeOK, Register, Unregister, Start, Visit, Serve, Launch
<1>3. ASSUME NEW s \in SPs, SPLogout(s) PROVE OwnResponseStep
  BY <1>3 DEF OwnResponseStep, TypeOK, SPLogout
<1>4. CASE IdPLogin \/ IdPLogout
  BY <1>4 DEF OwnResponseStep, TypeOK, IdPLogin, IdPLogout
<1>5. CASE TickShort
  BY <1>5 DEF OwnResponseStep, TypeOK, TickShort
<1>6. CASE TickLong
  BY <1>6 DEF OwnResponseStep, TypeOK, TickLong
<1>7. ASSUME NEW r \in resps, NEW to \in SPs, Deliver(r, to) PROVE OwnResponseStep
  BY <1>7 DEF OwnResponseStep, TypeOK, Deliver, Accepts, Own
<1> QED
  BY <1>1, <1>2, <1>3, <1>4, <1>5, <1>6, <1>7 DEF Next

THEOREM Safety == Spec => []SessionImpliesAuthenticated
<1>1. Inv => SessionImpliesAuthenticated
  BY DEF Inv, SessionImpliesAuthenticated
<1> QED
  BY InitInv, StepInv, <1>1, PTL DEF Spec
=============================================================================
