--------------------------- MODULE SPCopyHistory ---------------------------
(***************************************************************************)
(* C04 over ServiceProvider VALUES: saml.ServiceProvider is a struct that  *)
(* applications copy (samlsp.Middleware holds one by value) and whose      *)
(* exported fields they assign.  Whether a response must answer an         *)
(* outstanding request is decided by the value that validates it - by ITS  *)
(* AllowIDPInitiated at that moment - never by what another value, or the  *)
(* same value earlier, was configured with (a validator installed on first *)
(* use that remembers its receiver; a cached decision).                    *)
(*                                                                         *)
(* Two values: `a` exists from the start, `b` is made by copying `a`       *)
(* (struct assignment) at some point, optionally with the flag set         *)
(* differently.  Steps: present a response to a value, assign a value's    *)
(* flag, copy.  Every history that ends in a presentation is replayed on   *)
(* real values (harness/c04_copy_history_test.go).                         *)
(***************************************************************************)
EXTENDS Integers, Sequences, FiniteSets, TLC, Json

CONSTANTS MaxLen, MaxPresents

Vals  == {"a", "b"}
\* what the presented message says it answers, at the Response level and in its bearer confirmation ("r/c"):
\* the one outstanding request ("answers"), an ID that is not outstanding ("other"), nothing ("absent": no
\* InResponseTo attribute; "noconf": the assertion has no SubjectConfirmation at all)
RespK == {"answers", "other", "absent"}
ConfK == {"answers", "other", "noconf"}
Kinds == { r \o "/" \o c : r \in RespK, c \in ConfK }
Solicited(k) == k \in {"answers/answers", "answers/noconf"}

VARIABLES allow,   \* value -> AllowIDPInitiated ("on" / "off"), "none" while the value does not exist
          hist
vars == <<allow, hist>>

Flags == {"on", "off"}
Init == /\ allow \in { [a |-> x, b |-> "none"] : x \in Flags }
        /\ hist = << [n |-> "init", v |-> "a", f |-> allow.a, k |-> "", r |-> ""] >>

\* the statement: without the opt-in only a response to an outstanding request is accepted; the opted-in SP of this
\* library does not examine InResponseTo at all
Verdict(v, k) == IF Solicited(k) \/ allow[v] = "on" THEN "accept" ELSE "reject"

Present(v, k) == /\ allow[v] # "none"
                 /\ Cardinality({ i \in DOMAIN hist : hist[i].n = "present" }) < MaxPresents
                 /\ hist' = Append(hist, [n |-> "present", v |-> v, f |-> allow[v], k |-> k, r |-> Verdict(v, k)])
                 /\ UNCHANGED allow
Assign(v, f)  == /\ allow[v] # "none" /\ allow[v] # f
                 /\ allow' = [allow EXCEPT ![v] = f]
                 /\ hist' = Append(hist, [n |-> "assign", v |-> v, f |-> f, k |-> "", r |-> ""])
\* b := a (struct copy), then b.AllowIDPInitiated = f
Copy(f)       == /\ allow.b = "none"
                 /\ allow' = [allow EXCEPT !.b = f]
                 /\ hist' = Append(hist, [n |-> "copy", v |-> "b", f |-> f, k |-> "", r |-> ""])

Next == /\ Len(hist) <= MaxLen
        /\ \/ \E v \in Vals, k \in Kinds : Present(v, k)
           \/ \E v \in Vals, f \in Flags : Assign(v, f)
           \/ \E f \in Flags : Copy(f)
Spec == Init /\ [][Next]_vars

\* every predicted acceptance is licensed by the validating value's own flag at that moment
OwnFlagDecides == \A i \in DOMAIN hist : hist[i].n = "present" /\ hist[i].r = "accept" => Solicited(hist[i].k) \/ hist[i].f = "on"
\* worth replaying: ends in a presentation, and something was presented before a change (copy / assign)
Interesting == /\ hist[Len(hist)].n = "present"
               /\ \E i, j \in DOMAIN hist : i < j /\ hist[i].n = "present" /\ hist[j].n \in {"copy", "assign"}
Emit == Interesting => PrintT(<<"PHIST", ToJson([steps |-> hist])>>)
=============================================================================
