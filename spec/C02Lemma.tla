------------------------------ MODULE C02Lemma ------------------------------
(***************************************************************************)
(* Unbounded-integer lemma behind C02 (checked with Apalache, length 0):   *)
(* for arbitrary integer instants and arbitrary non-negative tolerances,   *)
(* the comparisons the code performs accept exactly when the statement's   *)
(* windows hold.  TLC covers a lattice under six tolerance settings; this  *)
(* covers all integers.                                                    *)
(***************************************************************************)
EXTENDS Integers

VARIABLES
  \* @type: Int;
  now,
  \* @type: Int;
  respII,
  \* @type: Int;
  assnII,
  \* @type: Int;
  nb,
  \* @type: Int;
  nooa,
  \* @type: Int;
  conf,
  \* @type: Int;
  mid,
  \* @type: Int;
  skew

Init == /\ now \in Int /\ respII \in Int /\ assnII \in Int /\ nb \in Int /\ nooa \in Int /\ conf \in Int
        /\ mid \in Int /\ skew \in Int /\ mid >= 0 /\ skew >= 0
Next == UNCHANGED <<now, respII, assnII, nb, nooa, conf, mid, skew>>

\* service_provider.go: IssueInstant.Add(MaxIssueDelay).Before(now) etc. reject
CodeRejects == \/ respII + mid < now
               \/ assnII + mid < now
               \/ conf + skew < now
               \/ nb - skew > now
               \/ nooa + skew < now
\* the statement
Window == /\ now <= respII + mid /\ now <= assnII + mid
          /\ now >= nb - skew
          /\ now <= nooa + skew /\ now <= conf + skew
Equiv == (~CodeRejects) <=> Window
\* tolerances are exactly MaxIssueDelay / MaxClockSkew: one millisecond beyond each bound rejects
Tight == /\ (respII + mid + 1 = now => CodeRejects)
         /\ (nb - skew - 1 = now => CodeRejects)
         /\ (conf + skew + 1 = now => CodeRejects)
=============================================================================
