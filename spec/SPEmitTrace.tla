----------------------------- MODULE SPEmitTrace -----------------------------
(***************************************************************************)
(* Trace validation for the ID-freshness clause of C12.                    *)
(*                                                                         *)
(* The harness replaces saml.RandReader by a counting deterministic        *)
(* stream, performs a random sequence of message creations through the     *)
(* real Make* functions and logs one line per creation:                    *)
(*    {"kind", "call", "before", "after", "id", "hex"}                     *)
(* (stream offsets before / after the call, the ID found in the message).  *)
(* This module replays the log with SPEmit's own creation action           *)
(* SeqCreate and checks SPEmit's action property IDsFresh on it: every     *)
(* creation draws at least 16 bytes that no earlier creation used, and     *)
(* additionally that all logged ID strings are distinct.  The trace is     *)
(* accepted iff every line can be consumed (high-water mark idiom,         *)
(* DESIGN.md Appendix A.3; run with -workers 1).                           *)
(***************************************************************************)
EXTENDS SPEmit

TraceLog == ndJsonDeserialize("trace.ndjson")

VARIABLES l,      \* next line of the log
          seen    \* ID strings seen so far
tvars == <<vars, l, seen>>

TraceInit ==
  /\ cfg = BaseCfg /\ in = In("seq", "seq", "none", <<>>, <<>>)
  /\ md = MdAtCreate /\ target = NoTarget
  /\ pc = "seq" /\ rnd = 0 /\ ids = <<>> /\ msg = [kind |-> "none"]
  /\ outcome = "none" /\ sigform = "none"
  /\ wire = NoWire /\ signed = NoWire /\ recv = NoWire /\ params = NoWire
  /\ l = 1 /\ seen = {}
  /\ TLCSet(1, 0)

TraceNext ==
  /\ l <= Len(TraceLog)
  /\ LET e == TraceLog[l] IN
       /\ e.kind \in Kinds
       /\ SeqCreate(e.kind, e.before, e.after - e.before)     \* requires e.before >= rnd: no byte is reused
       /\ e.id \notin seen
       /\ seen' = seen \cup {e.id}
  /\ l' = l + 1

HighWater == TLCSet(1, IF TLCGet(1) < l THEN l ELSE TLCGet(1))
Accepted  == /\ PrintT(<<"TRACES", Len(TraceLog)>>)
             /\ TLCGet(1) = Len(TraceLog) + 1
=============================================================================
