\* Not a registered phase.  The deferred function of handleArtifactRequest turning a failure of
\* response.Body.Close() into the returned error when nothing else failed, the assertion staying:
\* TLC refutes AssertionIffNoError with a resolution that succeeded completely and a body whose
\* Close fails (fixes/C09e.md).
CONSTANTS
  Tier = "q"
  Unguarded = {}
  Unwrapped = {}
  DepthRestore = "parent"
  ContextDropped = FALSE
  CloseFailure = "returned"
INIT Init
NEXT Next
INVARIANTS
  AssertionIffNoError
CHECK_DEADLOCK TRUE
