------------------------------ MODULE C02Trace ------------------------------
(***************************************************************************)
(* Reverse direction for C02: the harness draws random instants (not on    *)
(* the lattice) and random tolerance settings, runs the real               *)
(* ParseXMLResponse and logs one line per run                              *)
(*   {mid, skew, abs: {respII, assns: [{ii, nb, nooa, confs}]},            *)
(*    accepted, ret}                                                       *)
(* This spec loads each line into the variables of C02, lets C02's own     *)
(* step machine run to its verdict (silent steps), and consumes the line   *)
(* only if the logged outcome satisfies the statement's window clauses.    *)
(* Lines whose logged verdict differs from the machine's are counted.      *)
(***************************************************************************)
EXTENDS C02

TraceLog == ndJsonDeserialize("trace.ndjson")
VARIABLES l, diffs
tvars == <<cfg, in, abs, pc, ai, cj, errs, oks, verdict, ret, step, l, diffs>>

Dummy(a) == [entry |-> "xml", idpInit |-> FALSE, artII |-> "x", respII |-> "x", assns |-> [k \in DOMAIN a.assns |-> [ii |-> "x", nb |-> "x", nooa |-> "x", confs |-> [j \in DOMAIN a.assns[k].confs |-> "x"]]]]

TInit == /\ TLCSet(1, 0) /\ l = 1 /\ diffs = 0
         /\ cfg = [mid |-> 0, skew |-> 0, delay |-> "ms"] /\ in = [entry |-> "xml", idpInit |-> FALSE, artII |-> "x", respII |-> "x", assns |-> <<>>]
         /\ abs = [artII |-> 0, respII |-> 0, assns |-> <<>>]
         /\ pc = "idle" /\ ai = 1 /\ cj = 1 /\ errs = <<>> /\ oks = <<>> /\ verdict = "none" /\ ret = 0 /\ step = "none"

Load == /\ pc = "idle" /\ l <= Len(TraceLog)
        /\ LET e == TraceLog[l] IN
             /\ cfg' = [mid |-> e.mid, skew |-> e.skew, delay |-> "ms"]
             /\ abs' = [artII |-> 0, respII |-> e.abs.respII, assns |-> e.abs.assns] /\ in' = Dummy(e.abs)
        /\ pc' = "RespII" /\ ai' = 1 /\ cj' = 1 /\ errs' = <<>> /\ oks' = <<>>
        /\ verdict' = "none" /\ ret' = 0 /\ step' = "none"
        /\ UNCHANGED <<l, diffs>>

Run == Next /\ UNCHANGED <<l, diffs>>

\* the logged outcome against the statement (not against the machine)
LineOK(e) == /\ (MustReject => ~e.accepted)
             /\ (MustAccept => e.accepted)
             /\ (e.accepted => e.ret \in DOMAIN abs.assns /\ WithinResp /\ WithinAssn(abs.assns[e.ret]))

Consume == /\ pc = "done" /\ LineOK(TraceLog[l])
           /\ l' = l + 1 /\ pc' = "idle"
           /\ diffs' = diffs + (IF (verdict = "accept") = TraceLog[l].accepted THEN 0 ELSE 1)
           /\ UNCHANGED <<cfg, in, abs, ai, cj, errs, oks, verdict, ret, step>>

TNext == Load \/ Run \/ Consume
TSpec == TInit /\ [][TNext]_tvars

HighWater == TLCSet(1, IF TLCGet(1) < l THEN l ELSE TLCGet(1))
Accepted  == /\ TLCGet(1) = Len(TraceLog) + 1
             /\ PrintT(<<"TRACES", Len(TraceLog)>>)
=============================================================================
