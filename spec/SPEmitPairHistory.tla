------------------------- MODULE SPEmitPairHistory -------------------------
(***************************************************************************)
(* C13, histories over TWO message values of one ServiceProvider.          *)
(*                                                                         *)
(* A message made by MakeAuthenticationRequest / MakeLogoutRequest /       *)
(* MakeLogoutResponse is signed when it is MADE (SignAuthnRequest for the  *)
(* POST binding :549, SignLogoutRequest :1403, SignLogoutResponse :1519:   *)
(* the digest is taken over Element() of the value as it is then) and is   *)
(* rendered AGAIN - Element() - when it is EMITTED (Post, Redirect,        *)
(* Element, Bytes, Deflate).  Between the two steps the application may    *)
(* make another message B and customise it through the pointers B holds    *)
(* (for a redirect-bound AuthnRequest that is legitimate: only the query   *)
(* string is signed, later, in Redirect):                                  *)
(*      *B.NameIDPolicy.AllowCreate = false                                *)
(*      *B.NameIDPolicy.Format = "...persistent"                           *)
(*      B.NameIDPolicy.SPNameQualifier = &q     (a field of the struct)    *)
(*      B.Issuer.Value = ...     B.NameID.Value = ...                      *)
(* The statement: the enveloped signature verifies over the EMITTED        *)
(* element.  Hence what A renders to must not depend on anything done to   *)
(* B: no memory cell reachable from A may be writable through B.           *)
(*                                                                         *)
(* Shaped like the code: a message value is a set of SLOTS (its pointer-   *)
(* typed places), each naming a heap CELL; Make* allocates a fresh cell for *)
(* every slot of the new value (&Issuer{..}, &NameIDPolicy{..}, the locals *)
(* allowCreate and nameIDFormat escape once per call :531-532, &NameID{..})*)
(* - except the two slots that hold the SERVICE PROVIDER's own pointers:   *)
(*      ForceAuthn: sp.ForceAuthn, RequestedAuthnContext:                  *)
(*      sp.RequestedAuthnContext   (:553-554)                              *)
(* Those cells belong to the application (it supplied them in the SP's     *)
(* configuration) and are shared by the SP and every request it makes: a   *)
(* write through them reconfigures the SP.  The model carries them as they *)
(* are (ConfigSlots): an emission of A after such a write is predicted not  *)
(* to verify, and the statement - which quantifies over configurations,    *)
(* not over edits of the configuration between the two steps of one        *)
(* emission - is not applied to it ("open").                               *)
(*                                                                         *)
(* Seeded deviation (constant Seeded, empty in the registered enumeration;  *)
(* TLC must REFUTE EmissionsOfAVerify when it is on):                      *)
(*    SharedPolicyPointer   the cell of NameIDPolicy.AllowCreate is one    *)
(*                          package-level variable for all requests        *)
(*                                                                         *)
(* A history: make A and B (either order), then MaxLen steps, each an EDIT *)
(* through one slot of B or a RENDER call on A.  TLC emits every maximal   *)
(* history that ends in a rendering and contains an edit; the harness      *)
(* replays it on two real values and judges every emission of A with the   *)
(* oracle of the stateless cases.                                          *)
(***************************************************************************)
EXTENDS Integers, Sequences, FiniteSets, TLC, Json

CONSTANTS MaxLen,
          CrossKinds, \* TRUE: B may be of another kind than A (thorough); FALSE: two values of one kind
          Seeded      \* names of seeded deviations switched on ({} in the registered enumeration)

Kinds == {"authn", "logoutreq", "logoutresp"}
\* A is built so that it carries an enveloped signature from its creation: an AuthnRequest for the POST binding,
\* logout messages always (signing is on throughout)
Ops(k) == CASE k = "authn"      -> {"Redirect", "Post", "Element"}
            [] k = "logoutreq"  -> {"Redirect", "Post", "Element", "Bytes", "Deflate"}
            [] k = "logoutresp" -> {"Redirect", "Post", "Element"}
AllOps == {"Redirect", "Post", "Element", "Bytes", "Deflate"}

\* the pointer-typed places of a message value a caller can write through (schema.go:36-60 :66-79 :1256-1267)
Slots(k) == CASE k = "authn"      -> {"Issuer", "NameIDPolicy", "NameIDPolicy.AllowCreate", "NameIDPolicy.Format",
                                      "ForceAuthn", "RequestedAuthnContext"}
              [] k = "logoutreq"  -> {"Issuer", "NameID"}
              [] k = "logoutresp" -> {"Issuer"}
AllSlots == UNION { Slots(k) : k \in Kinds }
\* :553-554 the request holds the SP's own pointers (set in the configuration of every history)
ConfigSlots == {"ForceAuthn", "RequestedAuthnContext"}
\* a struct cell whose fields are themselves slots: writing the struct replaces the pointers it holds
\* cells that hold a bool (*bool slots)
BoolSlots == {"NameIDPolicy.AllowCreate", "ForceAuthn"}
Nested(s) == IF s = "NameIDPolicy" THEN {"NameIDPolicy.AllowCreate", "NameIDPolicy.Format"} ELSE {}

Cell(owner, slot) == [owner |-> owner, slot |-> slot]
\* what Make* stores in slot s of the new value x ("A" | "B")
Alloc(x, s) == IF s \in ConfigSlots THEN Cell("sp", s)                                  \* the SP's pointer, copied
               ELSE IF s = "NameIDPolicy.AllowCreate" /\ "SharedPolicyPointer" \in Seeded
                 THEN Cell("pkg", s)                                                     \* one variable for all
               ELSE Cell(x, s)                                                           \* fresh per call
Made(x, k) == [s \in Slots(k) |-> Alloc(x, s)]

Owners == {"A", "B", "sp", "pkg", "app"}
Cells  == { Cell(o, s) : o \in Owners, s \in AllSlots }

VARIABLES kinds,   \* [a, b]  the kinds of the two values
          order,   \* "AB" | "BA"  which one is made first
          slotsA,  \* A's slots -> cells
          slotsB,  \* B's slots -> cells (an edit of a struct re-points the slots nested in it)
          heap,    \* cell -> its content: the number of writes so far (a bool cell: 0 as made / 1 flipped)
          snap,    \* the contents A's signature was computed over
          hist     \* the steps after the two creations
vars == <<kinds, order, slotsA, slotsB, heap, snap, hist>>

Init == /\ \E ka \in Kinds, kb \in Kinds : (CrossKinds \/ ka = kb) /\ kinds = [a |-> ka, b |-> kb]
        /\ order \in {"AB", "BA"}
        /\ slotsA = Made("A", kinds.a)
        /\ slotsB = Made("B", kinds.b)
        /\ heap = [c \in Cells |-> 0]
        /\ snap = [c \in Cells |-> 0]       \* both values are made before the first edit: A is signed over the cells as made
        /\ hist = <<>>

Reach(slots) == { slots[s] : s \in DOMAIN slots }
\* the emitted element is Element() of the value NOW; the enveloped signature is the one attached at creation
Unchanged == \A c \in Reach(slotsA) : heap[c] = snap[c]
ConfigEdited == \E s \in ConfigSlots \cap DOMAIN slotsA : heap[slotsA[s]] # snap[slotsA[s]]

\* the form of signature the statement requires of an emission of A (as in SPEmitRenderHistory: detached for
\* AuthnRequest.Redirect, enveloped otherwise), "open" once the SP's configuration cells were written
Required(op) == IF ConfigEdited THEN "open"
                ELSE IF kinds.a = "authn" /\ op = "Redirect" THEN "detached" ELSE "enveloped"
\* what the model predicts: the detached signature is computed over the octets emitted now (:322-332); the
\* enveloped one was computed over the cells as they were
Verifies(op) == IF kinds.a = "authn" /\ op = "Redirect" THEN TRUE ELSE Unchanged

\* the application writes through slot s of B: *B.<slot> = ... / B.<slot>.<field> = ...
Edit(s) ==
  /\ Len(hist) < MaxLen
  /\ s \in DOMAIN slotsB
  \* a boolean cell is flipped (a second write restores what the signature was computed over); every other write
  \* stores a value the cell did not hold before
  /\ heap' = [heap EXCEPT ![slotsB[s]] = IF s \in BoolSlots THEN 1 - @ ELSE @ + 1]
  \* the pointers a struct holds are replaced by pointers to the application's own variables
  /\ slotsB' = [t \in DOMAIN slotsB |-> IF t \in Nested(s) THEN Cell("app", t) ELSE slotsB[t]]
  /\ hist' = Append(hist, [step |-> "edit", slot |-> s, cell |-> slotsB[s].owner, op |-> "", required |-> "", verifies |-> TRUE])
  /\ UNCHANGED <<kinds, order, slotsA, snap>>

\* the application emits A
Render(op) ==
  /\ Len(hist) < MaxLen
  /\ op \in Ops(kinds.a)
  /\ hist' = Append(hist, [step |-> "render", slot |-> "", cell |-> "", op |-> op, required |-> Required(op), verifies |-> Verifies(op)])
  /\ UNCHANGED <<kinds, order, slotsA, slotsB, heap, snap>>    \* renderers read the value (SPEmitRenderHistory: ValueUnchanged)

Next == (\E s \in AllSlots : Edit(s)) \/ (\E op \in AllOps : Render(op))
Spec == Init /\ [][Next]_vars

----------------------------------------------------------------------------
(* Properties - from the statement of C13 only *)

\* every emission of A verifies under the published certificate whatever was done to B through B's own slots
EmissionsOfAVerify == \A i \in DOMAIN hist :
                        hist[i].step = "render" /\ hist[i].required # "open" => hist[i].verifies
\* model consistency: the only cells two values made by the code as it is have in common are the SP's configuration cells
SharedOnlyConfiguration == Seeded = {} => \A c \in Reach(Made("A", kinds.a)) \cap Reach(Made("B", kinds.b)) : c.owner = "sp"
\* model consistency: an emission is left open only after a write to a configuration cell A holds
OpenOnlyAfterConfigEdit == \A i \in DOMAIN hist : hist[i].step = "render" /\ hist[i].required = "open" =>
                             \E j \in 1..(i - 1) : hist[j].step = "edit" /\ hist[j].slot \in ConfigSlots /\ hist[j].slot \in Slots(kinds.a)

\* which slots of the two values name the same cell when both are made (white-box prediction, drift only)
Aliased == { s \in Slots(kinds.a) \cap Slots(kinds.b) : Alloc("A", s) = Alloc("B", s) }

Interesting == /\ Len(hist) = MaxLen
               /\ hist[MaxLen].step = "render"
               /\ \E i \in DOMAIN hist : hist[i].step = "edit"
Emit == Interesting => PrintT(<<"PAIR", ToJson([a |-> kinds.a, b |-> kinds.b, order |-> order, aliased |-> Aliased, steps |-> hist])>>)
=============================================================================
