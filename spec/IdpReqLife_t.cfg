CONSTANTS
  MaxFaults = 2
  MaxCalls = 4
INIT Init
NEXT Next
INVARIANTS
  NeverInClear
  NoClearCache
  FormOnlyToPost
  Coherent
  Emit
PROPERTIES
  FailedCallIsNoop
CHECK_DEADLOCK FALSE
