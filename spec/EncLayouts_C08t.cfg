\* C08 thorough tier.  Selection describes the tree under test:
\*   pinned tree:                                  Selection = "fixed"
\*   with fixes/C08-enc-cert-selection.patch:      Selection = "fixed"
\* (a stale setting only produces drift entries, never a verdict)
CONSTANTS
  MaxDesc = 3
  EmMaxDesc = 2
  EmLong = TRUE
  LongCerts = {"validRSA", "validRSAChain", "validRSANotYet", "validRSAExpired", "validEC", "malformedBase64", "badDER", "emptyString", "whitespaceOnly", "noX509CertificateElement"}
  Parts = {"idp", "sp"}
  Selection = "fixed"
INIT Init
NEXT Next
INVARIANTS
  NeverInClear
  NeverPanics
  GoodKeyUsed
  RequiredIsReq
  OnlyNamedDeviations
  SameChecks
  MalformedFails
  NeverUnsigned
  ExactlyOneVerdict
  Emit
CHECK_DEADLOCK FALSE
