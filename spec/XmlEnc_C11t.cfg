CONSTANTS
  Family = "C11t"
  Dev <- DevPinned
INIT Init
NEXT Next
INVARIANTS
  TypeOK
  OneOutcome
  RoundTrip
  RegistryClosure
  PrefixAgnostic
  EveryKey
  DigestByMessage
  CipherValueLength
  Total
  RejectsMalformed
  GcmTamperRejected
  BaselineDecrypts
  Emit
CHECK_DEADLOCK FALSE
