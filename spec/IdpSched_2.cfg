CONSTANTS
  NProcs = 2
  Focus = "all"
INIT Init
NEXT Next
INVARIANTS
  MutualExclusion
  PendingIsBlocked
  Emit
CHECK_DEADLOCK FALSE
