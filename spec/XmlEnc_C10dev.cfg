\* Round 6: the seeded behaviour (named deviation CtorCaptured: the key-wrapping closure of the values returned by
\* OAEP_SHA256() / OAEP_SHA512() uses the constructor's digest) is switched on in the run of the required design over
\* family "enc" alone: TLC must REFUTE RoundTrip and WrapsAsAnnounced (run with -continue) or the check
\* breaks: the encrypter-value dimension is not vacuous.  AnnouncesConfigured must still hold (the elements follow the fields).
CONSTANTS
  Family = "C10dev"
  Dev <- DevPinned
  ReqDev <- DevSeeded6
INIT Init
NEXT Next
INVARIANTS
  TypeOK
  OneOutcome
  AnnouncesConfigured
  RoundTrip
  WrapsAsAnnounced
CHECK_DEADLOCK FALSE
