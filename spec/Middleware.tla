------------------------------ MODULE Middleware ------------------------------
(***************************************************************************)
(* C17 - the samlsp middleware seen from one browser.                      *)
(*                                                                         *)
(* The middleware keeps no state of its own: everything lives in the       *)
(* browser's cookie jar (signed tracking cookies saml_<index> scoped to    *)
(* the ACS path, the signed session cookie) and in the messages in         *)
(* flight.  State:                                                         *)
(*   flows[k]  - login flow k: -1 = not started, else the tick it started  *)
(*   jar       - trk: flows whose tracking cookie the browser holds;       *)
(*               sess: user of its session cookie ("" = none)              *)
(*   net       - responses the IdP has issued: [k, x, at]; k = 0 means     *)
(*               unsolicited.  A response can be delivered any number of   *)
(*               times (replay)                                            *)
(*   clock     - ticks of 60 s; tracking tokens and responses are good     *)
(*               for 90 s (MaxIssueDelay): issued at t, good while         *)
(*               clock - t <= 1                                            *)
(* Actions = what the browser, or an attacker who controls what it sends,  *)
(* can do.  Deliver mirrors ServeACS -> GetTrackedRequests ->              *)
(* ParseResponse -> CreateSessionFromAssertion -> GetTrackedRequest /      *)
(* StopTrackingRequest -> CreateSession (samlsp/middleware.go,             *)
(* request_tracker_cookie.go, request_tracker_jwt.go).                     *)
(***************************************************************************)
EXTENDS Integers, Sequences, FiniteSets, TLC, Json

CONSTANTS NFlows, Users, MaxNet, MaxClock, MaxHostile

Flows == 1..NFlows
F(j) == "f" \o ToString(j)                 \* the authentic tracking token of flow j / the index of flow j
IsF(v) == \E j \in Flows : v = F(j)
FlowOf(v) == CHOOSE j \in Flows : v = F(j)

\* what may be presented under the cookie name saml_<index of flow i>
ViewVals == {"absent", "foreign", "session", "garbage"} \cup { F(j) : j \in Flows }

VARIABLES flows, jar, net, clock, act, reply
vars == <<flows, jar, net, clock, act, reply>>
View == [flows |-> flows, jar |-> jar, net |-> net, clock |-> clock]

NoReply == [status |-> 0, target |-> "", session |-> "", cleared |-> 0, tracked |-> 0]

Init == /\ flows = [k \in Flows |-> -1]
        /\ jar = [trk |-> {}, sess |-> ""]
        /\ net = {}
        /\ clock = 0
        /\ act = [n |-> "Init"] /\ reply = NoReply

Started(k) == flows[k] >= 0
TokOK(j)   == Started(j) /\ clock - flows[j] <= 1      \* authentic tracking token of flow j, unexpired
RespOK(r)  == clock - r.at <= 1                        \* response (and its assertion) still fresh

\* the browser asks for protected page u_k without a session: request built, tracking cookie set
StartFlow(k) ==
  /\ ~Started(k)
  /\ flows' = [flows EXCEPT ![k] = clock]
  /\ jar' = [jar EXCEPT !.trk = @ \cup {k}]
  /\ act' = [n |-> "StartFlow", k |-> k]
  /\ reply' = [NoReply EXCEPT !.status = 302, !.target = "idp", !.tracked = k]
  /\ UNCHANGED <<net, clock>>

\* the IdP answers the request of flow k for user x / issues an unsolicited response
IdPAnswer(k, x) ==
  /\ Started(k) /\ Cardinality(net) < MaxNet
  /\ [k |-> k, x |-> x, at |-> clock] \notin net
  /\ net' = net \cup {[k |-> k, x |-> x, at |-> clock]}
  /\ act' = [n |-> "IdPAnswer", k |-> k, x |-> x] /\ reply' = NoReply
  /\ UNCHANGED <<flows, jar, clock>>
IdPUnsolicited(x) ==
  /\ Cardinality(net) < MaxNet
  /\ [k |-> 0, x |-> x, at |-> clock] \notin net
  /\ net' = net \cup {[k |-> 0, x |-> x, at |-> clock]}
  /\ act' = [n |-> "IdPUnsolicited", x |-> x] /\ reply' = NoReply
  /\ UNCHANGED <<flows, jar, clock>>

\* a presentable cookie view: under each known tracking-cookie name, nothing, a token the
\* browser holds (its own or another flow's), a token with the right claims signed by another
\* deployment's key, the session token, or garbage
Presentable(view) ==
  /\ Cardinality({ i \in Flows : view[i] \notin {"absent", F(i)} }) <= MaxHostile   \* bound on the thorough tier
  /\ \A i \in Flows :
     /\ view[i] # "absent" => Started(i)                       \* the name saml_<index i> exists only once flow i started
     /\ IsF(view[i]) => FlowOf(view[i]) \in jar.trk
     /\ view[i] = "session" => jar.sess # ""
RelayStates == {"none", "evil"} \cup { F(j) : j \in { x \in Flows : Started(x) } }

\* ServeACS: request IDs outstanding = authentic, unexpired tracking tokens presented under their own name
Outstanding(view) == { j \in Flows : view[j] = F(j) /\ TokOK(j) }

\* extra = "sess-as-trk": the browser additionally presents its session token under the
\* tracking-cookie name built from the token's own subject (saml_<subject>).  The tracked-request
\* codec refuses it (marker claim), so it contributes nothing - in particular not the empty request ID.
Deliver(r, view, rs, extra) ==
  /\ r \in net /\ Presentable(view) /\ rs \in RelayStates
  /\ extra = "sess-as-trk" => jar.sess # ""
  /\ act' = [n |-> "Deliver", r |-> r, view |-> view, rs |-> rs, extra |-> extra]
  /\ LET parsed  == r.k # 0 /\ r.k \in Outstanding(view) /\ RespOK(r)      \* ParseResponse
         relayOK == rs = "none" \/ (IsF(rs) /\ FlowOf(rs) \in Outstanding(view))   \* GetTrackedRequest
     IN IF parsed /\ relayOK
          THEN /\ reply' = [status |-> 302,
                            target |-> IF rs = "none" THEN "default" ELSE "u" \o ToString(FlowOf(rs)),
                            session |-> r.x,
                            cleared |-> IF rs = "none" THEN 0 ELSE FlowOf(rs), tracked |-> 0]
               /\ jar' = [trk |-> IF rs = "none" THEN jar.trk ELSE jar.trk \ {FlowOf(rs)}, sess |-> r.x]
          ELSE /\ reply' = [NoReply EXCEPT !.status = 403]
               /\ UNCHANGED jar
  /\ UNCHANGED <<flows, net, clock>>

Tick == /\ clock < MaxClock
        /\ clock' = clock + 1
        /\ act' = [n |-> "Tick"] /\ reply' = NoReply
        /\ UNCHANGED <<flows, jar, net>>

Next == \/ \E k \in Flows : StartFlow(k)
        \/ \E k \in Flows, x \in Users : IdPAnswer(k, x)
        \/ \E x \in Users : IdPUnsolicited(x)
        \/ \E r \in net, view \in [Flows -> ViewVals], rs \in RelayStates, extra \in {"none", "sess-as-trk"} : Deliver(r, view, rs, extra)
        \/ Tick
Spec == Init /\ [][Next]_vars

(******************************* properties ********************************)
IsDeliver == act'.n = "Deliver"
Own(view, j) == view[j] = F(j) /\ TokOK(j)

\* a session is established only for a browser presenting the authentic, unexpired
\* tracking cookie of the very request the response answers
SessionOnlyForInitiator ==
  [][ reply'.session # "" => /\ IsDeliver /\ act'.r.k # 0
                             /\ Own(act'.view, act'.r.k) /\ RespOK(act'.r)
                             /\ reply'.session = act'.r.x ]_vars
\* ... and is then sent only where it originally asked to go, the tracking cookie being cleared
RedirectOnlyToRecorded ==
  [][ reply'.session # "" =>
        \/ act'.rs = "none" /\ reply'.target = "default" /\ reply'.cleared = 0
        \/ /\ IsF(act'.rs) /\ Own(act'.view, FlowOf(act'.rs))
           /\ reply'.target = "u" \o ToString(FlowOf(act'.rs)) /\ reply'.cleared = FlowOf(act'.rs) ]_vars
RefusedMeansNoSession ==
  [][ IsDeliver /\ reply'.status # 302 => reply'.session = "" /\ jar' = jar ]_vars
\* with RelayState echoed faithfully and the jar presented as it is, a fresh answer completes its own flow
Faithful(a) == /\ a.r.k # 0 /\ a.rs = F(a.r.k) /\ a.r.k \in jar.trk /\ TokOK(a.r.k) /\ RespOK(a.r)
               /\ \A j \in Flows : a.view[j] = IF j \in jar.trk THEN F(j) ELSE "absent"
FaithfulFlowsComplete ==
  [][ IsDeliver /\ Faithful(act') => /\ reply'.session = act'.r.x
                                     /\ reply'.target = "u" \o ToString(act'.r.k)
                                     /\ reply'.cleared = act'.r.k ]_vars
AfterLifetimeRefused ==
  [][ IsDeliver /\ act'.r.k # 0 /\ ~TokOK(act'.r.k) => reply'.session = "" ]_vars

EmitEdge == [][ PrintT(<<"EDGE", ToJson([from |-> View, act |-> act', reply |-> reply', to |-> View',
                                          faithful |-> (IsDeliver /\ Faithful(act'))])>>) ]_vars
=============================================================================
