CONSTANTS
  MaxLen = 4
INIT Init
NEXT Next
INVARIANTS
  OwnFlagDecides
  Emit
CHECK_DEADLOCK FALSE
