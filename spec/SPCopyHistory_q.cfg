CONSTANTS
  MaxLen = 4
  MaxPresents = 2
INIT Init
NEXT Next
INVARIANTS
  OwnFlagDecides
  Emit
CHECK_DEADLOCK FALSE
