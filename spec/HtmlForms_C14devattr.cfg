\* The named deviation ChecksFirstAttribute is on (Endpoint / IndexedEndpoint unmarshalling applies
\* checkEndpointLocation to the START ELEMENT - the first attribute whose local name is Location / ResponseLocation,
\* in place - and decodes the struct afterwards, so a later attribute of the same local name, in a foreign
\* namespace, is what the field ends up holding): TLC must REFUTE RejectsHostile (the check breaks when it does not).
\* Only the cases of the other attribute forms are enumerated: with a single attribute the deviation behaves as
\* the implementation does.
CONSTANTS
  MaxLen = 1
  Parts = {"meta"}
  Escaper = "html"
  PrefixCheckOnly = FALSE
  ForeignNamespaceUnchecked = FALSE
  Descs = {"SPSSODescriptor"}
  BaseCases = FALSE
  NsSet = {}
  NsWide = FALSE
  ChecksFirstAttribute = TRUE
  AttrForms = {"plainThenForeign", "foreignThenPlain", "foreignOnly"}
INIT Init
NEXT Next
INVARIANTS
  RejectsHostile
CHECK_DEADLOCK FALSE
