CONSTANTS
  Tier = "t"
INIT Init
NEXT Next
INVARIANTS
  TargetsSelected
  Addressed
  AudienceIsSP
  AnswersRequest
  IssuedByIdP
  OpensWithinSkew
  BearerExpiry
  SessionOnly
  BothSigned
  Emit
CHECK_DEADLOCK FALSE
