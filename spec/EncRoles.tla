------------------------------ MODULE EncRoles ------------------------------
(***************************************************************************)
(* C08, the role dimension: registered SP metadata may carry several       *)
(* SPSSODescriptors (roles).  The response goes to an assertion consumer   *)
(* service of ONE role, and the encryption key that protects it must be    *)
(* the one that role advertises - whichever flow selected the endpoint     *)
(* (request naming an ACS URL, request naming nothing, IdP-initiated       *)
(* launch).  The machine mirrors getACSEndpoint / ServeIDPInitiated        *)
(* (which record the descriptor that owns the selected endpoint) followed  *)
(* by getSPEncryptionCert on that descriptor.                              *)
(***************************************************************************)
EXTENDS Integers, Sequences, FiniteSets, TLC, Json

CONSTANT MaxRoles

Role == [post : BOOLEAN,      \* the role lists an HTTP-POST assertion consumer service
         enc  : BOOLEAN]      \* the role advertises a valid RSA encryption certificate
Metas == UNION { [1..n -> Role] : n \in 1..MaxRoles }
Entries == {"sso-default", "idp-initiated"} \cup { "sso-url" \o ToString(r) : r \in 1..MaxRoles }

VARIABLES meta, entry, pc, role, outcome
vars == <<meta, entry, pc, role, outcome>>

UrlRole(e) == CHOOSE r \in 1..MaxRoles : e = "sso-url" \o ToString(r)
IsUrl(e)   == \E r \in 1..MaxRoles : e = "sso-url" \o ToString(r)

Init == /\ meta \in Metas /\ entry \in Entries
        /\ (IsUrl(entry) => UrlRole(entry) <= Len(meta) /\ meta[UrlRole(entry)].post)   \* a request can only name a registered POST ACS
        /\ pc = "select" /\ role = 0 /\ outcome = "none"

FirstPost == IF \E r \in 1..Len(meta) : meta[r].post
               THEN CHOOSE r \in 1..Len(meta) : meta[r].post /\ \A q \in 1..(r - 1) : ~meta[q].post
               ELSE 0
\* endpoint selection records the role that owns the endpoint
Select == /\ pc = "select"
          /\ role' = IF IsUrl(entry) THEN UrlRole(entry) ELSE FirstPost
          /\ pc' = IF role' = 0 THEN "done" ELSE "encrypt"
          /\ outcome' = IF role' = 0 THEN "error" ELSE outcome
          /\ UNCHANGED <<meta, entry>>
\* the encryption certificate comes from the key descriptors of THAT role
Encrypt == /\ pc = "encrypt"
           /\ outcome' = IF meta[role].enc THEN "encrypted" ELSE "plaintext"
           /\ pc' = "done" /\ UNCHANGED <<meta, entry, role>>
Next == Select \/ Encrypt
Spec == Init /\ [][Next]_vars

Done == pc = "done"
\* statement: the metadata the response is addressed under advertises an encryption key => never in clear
MustProtect == role # 0 /\ meta[role].enc
NeverInClear == Done /\ MustProtect => outcome = "encrypted"
\* the key of another role is never a reason to send in clear, nor to encrypt to a stranger
Class == IF role = 0 THEN "DontCare" ELSE IF meta[role].enc THEN "MustProtect" ELSE "DontCare"
Emit == Done => PrintT(<<"ROLE", ToJson([meta |-> meta, entry |-> entry, role |-> role, class |-> Class, pred |-> outcome])>>)
=============================================================================
