------------------------------- MODULE C02 -------------------------------
(***************************************************************************)
(* C02 - validity windows of the SP's response validation.                 *)
(*                                                                         *)
(* Time is an integer number of milliseconds relative to "now" (= 0).      *)
(* A response carries a Response IssueInstant and 1..2 assertions, each    *)
(* with IssueInstant, Conditions NotBefore / NotOnOrAfter and 1..3 subject *)
(* confirmations with their own NotOnOrAfter.  An instant may be absent    *)
(* ("none"), which the parser reads as the zero instant (year 1).          *)
(*                                                                         *)
(* The step machine (pc) mirrors parseResponse / parseAssertion /          *)
(* validateAssertion of service_provider.go: one action per check, in the  *)
(* code's order, "first valid assertion wins, first error is reported".    *)
(* The Properties section is written from the property statement only.     *)
(***************************************************************************)
EXTENDS Integers, Sequences, FiniteSets, TLC, Json

CONSTANTS Settings,     \* set of [mid |-> ms, skew |-> ms]
          Family        \* "A" | "B" | "C" : which input family Init ranges over

\* tolerance settings used by the configurations (cfg: Settings <- QuickSettings ...)
\* delay = "ms": MaxIssueDelay is `mid` milliseconds.  delay = "max": MaxIssueDelay is the LARGEST value the setting can
\* hold (math.MaxInt64 ns, about 292 years - far beyond what TLC's integers hold).  IssueInstants are then stated relative
\* to (now - that delay): with mid = 0 every formula below is literally the same, only the concretisation differs (the
\* harness places the IssueInstants about 292 years back); the comparison must still be exact there - no saturating
\* subtraction, no overflow.  Such settings run over family A only.
QuickSettings    == { [mid |-> 90000, skew |-> 180000, delay |-> "ms"], [mid |-> 0, skew |-> 180000, delay |-> "max"] }
ThoroughSettings == { [mid |-> 90000, skew |-> 180000, delay |-> "ms"], [mid |-> 0, skew |-> 0, delay |-> "ms"],
                      [mid |-> 1, skew |-> 3600000, delay |-> "ms"], [mid |-> 3600000, skew |-> 1, delay |-> "ms"],
                      [mid |-> 7000, skew |-> 0, delay |-> "ms"], [mid |-> 0, skew |-> 7000, delay |-> "ms"],
                      [mid |-> 0, skew |-> 180000, delay |-> "max"], [mid |-> 0, skew |-> 0, delay |-> "max"] }

Now  == 0
Far  == 3600000         \* one hour
Zero == -2000000000     \* the zero instant (year 1) as seen from now: far, far in the past

Classes  == {"farIn", "in1", "on", "out1", "farOut"}
Classes2 == {"in1", "out1"}

\* offset of a class relative to its boundary; positive = outside the window
D(c) == CASE c = "farIn" -> -Far [] c = "in1" -> -1 [] c = "on" -> 0
          [] c = "out1" -> 1 [] c = "farOut" -> Far

\* absolute instants (ms from now) for a class under a tolerance setting
\*   issue instants : outside  <=>  now > II + mid      => II   = now - mid  - d
\*   not-before     : outside  <=>  now < NB - skew     => NB   = now + skew + d
\*   not-on-or-after: outside  <=>  now > NOOA + skew   => NOOA = now - skew - d
AbsII(c, s)   == IF c = "none" THEN Zero ELSE Now - s.mid - D(c)
AbsNB(c, s)   == IF c = "none" THEN Zero ELSE Now + s.skew + D(c)
AbsNOOA(c, s) == IF c = "none" THEN Zero ELSE Now - s.skew - D(c)

VARIABLES cfg,      \* tolerance setting
          in,       \* abstract input: classes
          abs,      \* the same input as absolute instants under cfg
          pc, ai, cj, errs, oks, verdict, ret, step
vars == <<cfg, in, abs, pc, ai, cj, errs, oks, verdict, ret, step>>

Assn(ii, nb, nooa, confs) == [ii |-> ii, nb |-> nb, nooa |-> nooa, confs |-> confs]

\* Family A: one assertion, one confirmation, full 5-point lattice on all five instants
InputsA == { [entry |-> "xml", idpInit |-> FALSE, artII |-> "in1", respII |-> r, assns |-> << Assn(a, nb, no, <<c>>) >>] :
               r \in Classes, a \in Classes, nb \in Classes, no \in Classes, c \in Classes }

\* Family B: 1..2 assertions x 1..3 confirmations on the reduced lattice, every position
SeqsOf(S, n) == [1..n -> S]
AssnsB == UNION { { Assn(a, nb, no, cs) : a \in Classes2, nb \in Classes2, no \in Classes2, cs \in SeqsOf(Classes2, n) } : n \in 1..3 }
\* two-assertion responses: the second assertion varies fully, the first varies in one bound
\* or one confirmation (keeps the family at a few thousand while covering every position)
B(x) == IF x = "out1" THEN 1 ELSE 0
OneOff == { a \in AssnsB : B(a.ii) + B(a.nb) + B(a.nooa)
                           + Cardinality({ j \in DOMAIN a.confs : a.confs[j] = "out1" }) <= 1 }
InputsB == { [entry |-> "xml", idpInit |-> FALSE, artII |-> "in1", respII |-> "in1", assns |-> <<a>>] : a \in AssnsB }
           \cup { [entry |-> "xml", idpInit |-> FALSE, artII |-> "in1", respII |-> "in1", assns |-> <<a, b>>] : a \in OneOff, b \in OneOff }

\* Family C: absent instants, one at a time and all together
InputsC == { [entry |-> "xml", idpInit |-> FALSE, artII |-> "in1", respII |-> r, assns |-> << Assn(a, nb, no, <<c>>) >>] :
               r \in {"in1", "none"}, a \in {"in1", "none"}, nb \in {"in1", "none"},
               no \in {"in1", "none"}, c \in {"in1", "none"} }

\* Family D: the Response travels inside an ArtifactResponse (signed: "artS", or unsigned with a signed
\* Response inside: "artU"); the inner Response's own IssueInstant still counts
InputsD == { [entry |-> e, idpInit |-> FALSE, artII |-> ai_, respII |-> r, assns |-> << Assn(a, nb, no, <<c>>) >>] :
               e \in {"artS", "artU"}, ai_ \in {"farIn", "in1", "out1"}, r \in Classes,
               a \in Classes2, nb \in Classes2, no \in Classes2, c \in Classes2 }

\* Family E: the SP is configured with AllowIDPInitiated (the windows do not depend on it), two confirmations,
\* the second one possibly not a bearer confirmation (harness: odd positions use holder-of-key / no Method)
InputsE == { [entry |-> "xml", idpInit |-> TRUE, artII |-> "in1", respII |-> r, assns |-> << Assn(a, nb, no, <<c1, c2>>) >>] :
               r \in Classes2, a \in Classes2, nb \in Classes2, no \in {"in1", "farIn"}, c1 \in Classes2, c2 \in Classes2 }

\* Family Z: an assertion whose Subject carries NO SubjectConfirmation at all (schema-valid; the library accepts it) - the
\* Conditions window and the IssueInstant bound hold for it like for any other
InputsZ == { [entry |-> "xml", idpInit |-> i, artII |-> "in1", respII |-> r, assns |-> << Assn(a, nb, no, <<>>) >>] :
               i \in BOOLEAN, r \in Classes2, a \in Classes2, nb \in Classes, no \in Classes }

Inputs == CASE Family = "A" -> InputsA [] Family = "B" -> InputsB [] Family = "C" -> InputsC
            [] Family = "AB" -> InputsA \cup InputsB [] Family = "ABC" -> InputsA \cup InputsB \cup InputsC
            [] Family = "ABCD" -> InputsA \cup InputsB \cup InputsC \cup InputsD
            [] Family = "ABCDE" -> InputsA \cup InputsB \cup InputsC \cup InputsD \cup InputsE \cup InputsZ

AbsOf(i, s) == [artII |-> AbsII(i.artII, s), respII |-> AbsII(i.respII, s),
                assns  |-> [k \in DOMAIN i.assns |->
                              [ii    |-> AbsII(i.assns[k].ii, s),
                               nb    |-> AbsNB(i.assns[k].nb, s),
                               nooa  |-> AbsNOOA(i.assns[k].nooa, s),
                               confs |-> [j \in DOMAIN i.assns[k].confs |-> AbsNOOA(i.assns[k].confs[j], s)]]]]

Init == /\ cfg \in Settings
        /\ in \in Inputs
        /\ cfg.delay = "max" => in \in InputsA
        /\ abs = AbsOf(in, cfg)
        /\ pc = (IF in.entry = "xml" THEN "RespII" ELSE "ArtII") /\ ai = 1 /\ cj = 1 /\ errs = <<>> /\ oks = <<>>
        /\ verdict = "none" /\ ret = 0 /\ step = "none"

(************************* the code, step by step *************************)
\* service_provider.go:889  artifactResponse.IssueInstant.Add(MaxIssueDelay).Before(now)
CheckArtII ==
  /\ pc = "ArtII"
  /\ IF abs.artII + cfg.mid < Now
       THEN /\ pc' = "done" /\ verdict' = "reject" /\ step' = "ArtIssueInstant"
            /\ UNCHANGED <<ai, cj, errs, oks, ret>>
       ELSE /\ pc' = "RespII" /\ UNCHANGED <<ai, cj, errs, oks, verdict, ret, step>>
  /\ UNCHANGED <<cfg, in, abs>>
\* service_provider.go:1022  response.IssueInstant.Add(MaxIssueDelay).Before(now)
CheckRespII ==
  /\ pc = "RespII"
  /\ IF abs.respII + cfg.mid < Now
       THEN /\ pc' = "done" /\ verdict' = "reject" /\ step' = "RespIssueInstant"
            /\ UNCHANGED <<ai, cj, errs, oks, ret>>
       ELSE /\ pc' = "AssnII" /\ UNCHANGED <<ai, cj, errs, oks, verdict, ret, step>>
  /\ UNCHANGED <<cfg, in, abs>>

FailAssn(why) == /\ errs' = Append(errs, why)
                 /\ ai' = ai + 1 /\ cj' = 1
                 /\ pc' = IF ai + 1 > Len(abs.assns) THEN "finish" ELSE "AssnII"
                 /\ UNCHANGED <<oks, verdict, ret, step>>

\* :1182 assertion.IssueInstant.Add(MaxIssueDelay).Before(now)
CheckAssnII ==
  /\ pc = "AssnII"
  /\ IF abs.assns[ai].ii + cfg.mid < Now
       THEN FailAssn("AssnIssueInstant")
       ELSE pc' = "Conf" /\ UNCHANGED <<ai, cj, errs, oks, verdict, ret, step>>
  /\ UNCHANGED <<cfg, in, abs>>

\* :1222 every subject confirmation: NotOnOrAfter.Add(MaxClockSkew).Before(now)
CheckConf ==
  /\ pc = "Conf"
  /\ IF cj > Len(abs.assns[ai].confs)
       THEN pc' = "CondNB" /\ UNCHANGED <<ai, cj, errs, oks, verdict, ret, step>>
       ELSE IF abs.assns[ai].confs[cj] + cfg.skew < Now
              THEN FailAssn("ConfNotOnOrAfter")
              ELSE cj' = cj + 1 /\ UNCHANGED <<pc, ai, errs, oks, verdict, ret, step>>
  /\ UNCHANGED <<cfg, in, abs>>

\* :1226 Conditions.NotBefore.Add(-MaxClockSkew).After(now)
CheckCondNB ==
  /\ pc = "CondNB"
  /\ IF abs.assns[ai].nb - cfg.skew > Now
       THEN FailAssn("CondNotBefore")
       ELSE pc' = "CondNOOA" /\ UNCHANGED <<ai, cj, errs, oks, verdict, ret, step>>
  /\ UNCHANGED <<cfg, in, abs>>

\* :1229 Conditions.NotOnOrAfter.Add(MaxClockSkew).Before(now)
CheckCondNOOA ==
  /\ pc = "CondNOOA"
  /\ IF abs.assns[ai].nooa + cfg.skew < Now
       THEN FailAssn("CondNotOnOrAfter")
       ELSE /\ oks' = Append(oks, ai) /\ ai' = ai + 1 /\ cj' = 1
            /\ pc' = IF ai + 1 > Len(abs.assns) THEN "finish" ELSE "AssnII"
            /\ UNCHANGED <<errs, verdict, ret, step>>
  /\ UNCHANGED <<cfg, in, abs>>

\* :1081-1092 first valid assertion wins, otherwise the first error is reported
Finish ==
  /\ pc = "finish"
  /\ pc' = "done"
  /\ IF oks # <<>>
       THEN verdict' = "accept" /\ ret' = oks[1] /\ step' = "none"
       ELSE verdict' = "reject" /\ ret' = 0 /\ step' = errs[1]
  /\ UNCHANGED <<cfg, in, abs, ai, cj, errs, oks>>

Next == CheckArtII \/ CheckRespII \/ CheckAssnII \/ CheckConf \/ CheckCondNB \/ CheckCondNOOA \/ Finish
Spec == Init /\ [][Next]_vars

(************************** Properties (statement) *************************)
Done == pc = "done"
HasNone == \/ in.respII = "none" \/ in.artII = "none"
           \/ \E k \in DOMAIN in.assns : \/ "none" \in {in.assns[k].ii, in.assns[k].nb, in.assns[k].nooa}
                                         \/ \E j \in DOMAIN in.assns[k].confs : in.assns[k].confs[j] = "none"

\* the three "only if" bounds of the statement, for one assertion given as absolute instants
WithinAssn(a) == /\ Now <= a.ii + cfg.mid
                 /\ Now >= a.nb - cfg.skew
                 /\ Now <= a.nooa + cfg.skew
                 /\ \A j \in DOMAIN a.confs : Now <= a.confs[j] + cfg.skew
StrictAssn(a) == /\ Now < a.ii + cfg.mid
                 /\ Now > a.nb - cfg.skew
                 /\ Now < a.nooa + cfg.skew
                 /\ \A j \in DOMAIN a.confs : Now < a.confs[j] + cfg.skew
WithinResp == Now <= abs.respII + cfg.mid
StrictResp == Now <  abs.respII + cfg.mid

MustReject == ~HasNone /\ (~WithinResp \/ \A k \in DOMAIN abs.assns : ~WithinAssn(abs.assns[k]))
ArtFresh   == in.entry = "xml" \/ Now < abs.artII + cfg.mid
\* (a response with several assertions, all of them inside, is left open: an SP may insist on exactly one)
MustAccept == ~HasNone /\ ArtFresh /\ StrictResp /\ Len(abs.assns) = 1 /\ \A k \in DOMAIN abs.assns : StrictAssn(abs.assns[k])
Class == IF MustReject THEN "MustReject" ELSE IF MustAccept THEN "MustAccept" ELSE "DontCare"

\* what the statement demands of the design
OnlyInsideWindows == Done /\ verdict = "accept" => WithinResp /\ WithinAssn(abs.assns[ret])
RejectsOutside    == Done /\ MustReject => verdict = "reject"
AcceptsInside     == Done /\ MustAccept => verdict = "accept"
ExactlyOneVerdict == Done => verdict \in {"accept", "reject"}

(***************************** vector emission *****************************)
Emit == Done => PrintT(<<"VEC", ToJson([prop |-> "C02", cfg |-> cfg, in |-> in, abs |-> abs, class |-> Class,
                                        pred |-> [verdict |-> verdict, ret |-> ret, step |-> step]])>>)
=============================================================================
