---------------------------- MODULE IdpRegistry ----------------------------
(***************************************************************************)
(* C05 (registry clause) on the provider registry the package ships: the   *)
(* bundled IdP server (samlidp.Server.GetServiceProvider).  The registry   *)
(* is keyed by service NAME (the {id} of PUT /services/{id}); a request is *)
(* resolved by the ENTITY ID in its Issuer.  Names and entity IDs are both *)
(* free-form strings, so a name may equal some provider's entity ID.       *)
(*                                                                         *)
(* State: the registry.  Actions: put / delete a service, resolve an       *)
(* issuer, and a complete SSO exchange (authenticated) that asks for the   *)
(* endpoint of entity `a` in the name of issuer `i`.  Every transition is  *)
(* executed on the real server from its source state                       *)
(* (harness/c05_registry_test.go).                                         *)
(***************************************************************************)
EXTENDS Integers, Sequences, FiniteSets, TLC, Json

CONSTANTS Names,   \* service names; some of them are also entity IDs
          Eids     \* entity IDs

Issuers == Eids \cup Names

VARIABLES reg, act, reply
vars == <<reg, act, reply>>
View == reg

Init == reg = [n \in Names |-> ""] /\ act = [n |-> "Init"] /\ reply = [k |-> "none"]

Registered(i) == \E n \in Names : reg[n] = i

Put(n, e)  == /\ reg' = [reg EXCEPT ![n] = e]
              /\ act' = [n |-> "Put", name |-> n, e |-> e] /\ reply' = [k |-> "204"]
Delete(n)  == /\ reg[n] # ""
              /\ reg' = [reg EXCEPT ![n] = ""]
              /\ act' = [n |-> "Delete", name |-> n] /\ reply' = [k |-> "204"]
\* GetServiceProvider(issuer)
Resolve(i) == /\ act' = [n |-> "Resolve", i |-> i]
              /\ reply' = IF Registered(i) THEN [k |-> "found", eid |-> i] ELSE [k |-> "notfound"]
              /\ UNCHANGED reg
\* an authenticated SSO exchange: AuthnRequest issued by i that names the ACS of entity a
SSO(i, a)  == /\ act' = [n |-> "SSO", i |-> i, a |-> a]
              /\ reply' = IF Registered(i) /\ a = i THEN [k |-> "response", aud |-> i, acs |-> i] ELSE [k |-> "rejected"]
              /\ UNCHANGED reg

Next == \/ \E n \in Names, e \in Eids : Put(n, e)
        \/ \E n \in Names : Delete(n)
        \/ \E i \in Issuers : Resolve(i)
        \/ \E i \in Issuers, a \in Eids : SSO(i, a)
Spec == Init /\ [][Next]_vars

(******************************** properties *******************************)
\* a request is processed only if its issuer is the entity ID of a registered provider ...
OnlyKnownIssuers ==
  [][ (act'.n = "Resolve" /\ reply'.k = "found") \/ (act'.n = "SSO" /\ reply'.k = "response")
        => \E n \in Names : reg[n] = act'.i ]_vars
\* ... and what it is resolved to is THAT provider: its entity ID, its endpoints
ResolvedToIssuer ==
  [][ /\ (act'.n = "Resolve" /\ reply'.k = "found" => reply'.eid = act'.i)
      /\ (act'.n = "SSO" /\ reply'.k = "response" => reply'.aud = act'.i /\ reply'.acs = act'.i) ]_vars
\* the name a service is stored under plays no part
NamesAreIrrelevant ==
  [][ act'.n = "Resolve" /\ act'.i \in Names \ Eids => reply'.k = "notfound" ]_vars

EmitEdge == [][ PrintT(<<"EDGE", ToJson([from |-> reg, act |-> act', reply |-> reply', to |-> reg'])>>) ]_vars
=============================================================================
