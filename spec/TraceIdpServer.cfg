CONSTANTS
  Users = {"u1", "u2"}
  SvcNames = {"s1", "s2"}
  Eids = {"e1", "e2"}
  Shortcuts = {"c1"}
  MaxSess = 2
  WithFaults = FALSE
INIT TInit
NEXT TNext
CONSTRAINT HighWater
POSTCONDITION Accepted
CHECK_DEADLOCK FALSE
