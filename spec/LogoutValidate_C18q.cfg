CONSTANTS
  Tier = "q"
  Unguarded = {}
INIT Init
NEXT Next
INVARIANTS
  RejectsBad
  AcceptsGood
  ValidOnlyIfSignedFreshAddressed
  Total
  Emit
CHECK_DEADLOCK FALSE
