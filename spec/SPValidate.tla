---------------------------- MODULE SPValidate ----------------------------
(***************************************************************************)
(* The service provider's response validation as a step machine, one       *)
(* action per check, in the order of service_provider.go                   *)
(* (handleArtifactRequest / parseArtifactResponse / parseResponse /        *)
(* parseAssertion / validateAssertion / validateAudienceRestriction).      *)
(*                                                                         *)
(* Strings are abstracted to their relation with the value the SP expects: *)
(*   eq | wrong | case | slash | query | prefix | suffix | empty | absent  *)
(* ("cur" for a Destination equal to the URL the response was received at  *)
(* when that differs from the ACS URL).  Request IDs are small names with   *)
(* a prefix / suffix relation to "id1".  Instants are "in" / "out".         *)
(*                                                                         *)
(* C03 (addressing) and C04 (outstanding requests) are decided on          *)
(* different input families of this one machine.  The Properties section   *)
(* is written from the property statements, not from the machine.          *)
(***************************************************************************)
EXTENDS Integers, Sequences, FiniteSets, TLC, Json

CONSTANT Family

NearMiss == {"case", "slash", "query", "prefix", "suffix", "otherhost"}
StrCls   == {"eq", "wrong"} \cup NearMiss \cup {"empty", "absent"}
IssCls   == {"eq", "wrong", "case", "slash", "prefix", "suffix", "empty", "absent"}
DestCls  == StrCls \cup {"cur"}
AudCls   == {"eq", "wrong", "case", "slash", "prefix", "suffix", "empty", "alt"}   \* alt: the SP's other identifier (metadata URL when an entity ID is set, and vice versa)
StatCls  == {"Success", "Requester", "Responder", "empty", "absent", "nocode"}
\* case: an outstanding ID in other letter case (IDs are opaque, case-sensitive strings)
IrtCls   == {"id1", "id2", "other", "pfx", "sfx", "case", "empty", "absent"}
OutIDs   == {"id1", "id2", "", "pfx", "sfx"}

\* the string an InResponseTo class denotes, as far as membership is concerned
Norm(c) == IF c \in {"empty", "absent"} THEN "" ELSE c

VARIABLES cfg, in, pc, ai, cj, sigReq, hasSig, errs, oks, verdict, ret, step, badStatus
vars == <<cfg, in, pc, ai, cj, sigReq, hasSig, errs, oks, verdict, ret, step, badStatus>>

----------------------------------------------------------------------------
(* input families *)

Conf(recip, irt, t) == [recip |-> recip, irt |-> irt, nooa |-> t, m |-> "bearer"]
ConfM(recip, irt, t, m) == [recip |-> recip, irt |-> irt, nooa |-> t, m |-> m]   \* m: bearer | hok | sv | none (no Method attribute)
\* time: the assertion's IssueInstant; cond: its Conditions window (NotBefore / NotOnOrAfter); "out" = an hour outside
\* issfmt: the Format attribute of the assertion's Issuer element - "entity" (what this library's IdP writes), "absent",
\* "other" (unspecified / persistent / ...).  The Issuer names the IdP or it does not, whatever Format it claims
Assn(signed, iss, confs, auds, t) == [signed |-> signed, iss |-> iss, issfmt |-> "entity", confs |-> confs, auds |-> auds, time |-> t, cond |-> "in"]

GoodConf == Conf("eq", "id1", "in")
GoodAssn(signed) == Assn(signed, "eq", <<GoodConf>>, <<"eq">>, "in")

\* a fully valid browser-delivered response: Response signed, assertion unsigned
Base == [entry |-> "xml", signed |-> TRUE, dest |-> "eq", rIss |-> "eq", status |-> "Success",
         rIRT |-> "id1", rTime |-> "in", assns |-> <<GoodAssn(FALSE)>>,
         art |-> [irt |-> "match", iss |-> "eq", status |-> "Success", signed |-> FALSE, time |-> "in"]]

\* noIdent: neither an entity ID nor a metadata URL is configured - the SP's identifier is the empty string
\* idpStub: the IdP is trusted by a pinned certificate and its metadata is a stub without entityID - the configured IdP
\* entity ID is the empty string, and an Issuer that names anybody is not it
BaseCfg == [eidSet |-> TRUE, noIdent |-> FALSE, idpStub |-> FALSE, audVal |-> "none", cur |-> "acs", allowIdp |-> FALSE,
            reqVal |-> "none", outstanding |-> {"id1"}]

AudSeqs == { <<"alt">>, <<"alt", "wrong">>, <<>>, <<"eq">>, <<"wrong">>, <<"prefix">>, <<"suffix">>, <<"case">>, <<"slash">>, <<"empty">>,
             <<"eq", "wrong">>, <<"wrong", "eq">>, <<"wrong", "wrong">>, <<"prefix", "suffix">>,
             <<"wrong", "prefix", "eq">>, <<"wrong", "wrong", "wrong">>, <<"eq", "eq", "eq">> }

\* single-field variations of Base (field name, value) applied by Vary
Vary(b, f, v) ==
  CASE f = "dest"   -> [b EXCEPT !.dest = v]
    [] f = "rIss"   -> [b EXCEPT !.rIss = v]
    [] f = "status" -> [b EXCEPT !.status = v]
    [] f = "aIss"   -> [b EXCEPT !.assns[1].iss = v]
    [] f = "recip"  -> [b EXCEPT !.assns[1].confs[1].recip = v]
    [] f = "auds"   -> [b EXCEPT !.assns[1].auds = v]
    [] f = "signed" -> IF v THEN b ELSE [b EXCEPT !.signed = FALSE, !.assns[1].signed = TRUE]

FieldDom(f) == CASE f = "dest" -> DestCls [] f = "rIss" -> IssCls [] f = "status" -> StatCls
                 [] f = "aIss" -> IssCls [] f = "recip" -> StrCls [] f = "auds" -> AudSeqs
Fields == {"dest", "rIss", "status", "aIss", "recip", "auds"}

Singles(b) == UNION { { Vary(b, f, v) : v \in FieldDom(f) } : f \in Fields }
Pairs(b)   == UNION { UNION { { Vary(Vary(b, f, v), g, w) : v \in FieldDom(f), w \in FieldDom(g) } : g \in Fields \ {f} } : f \in Fields }

Unsigned(b) == Vary(b, "signed", FALSE)

\* structural variations: second confirmation / second assertion, bad one in each position
TwoConfs == { [Base EXCEPT !.assns[1].confs = <<Conf(r1, "id1", "in"), Conf(r2, "id1", "in")>>] :
                r1 \in {"eq", "wrong", "prefix", "suffix"}, r2 \in {"eq", "wrong", "prefix", "suffix", "absent"} }
TwoAssns == { [Base EXCEPT !.assns = <<Assn(FALSE, i1, <<Conf(r1, "id1", "in")>>, <<a1>>, "in"),
                                        Assn(FALSE, i2, <<Conf(r2, "id1", "in")>>, <<a2>>, "in")>>] :
                i1 \in {"eq", "wrong"}, r1 \in {"eq", "prefix"}, a1 \in {"eq", "suffix"},
                i2 \in {"eq", "wrong"}, r2 \in {"eq", "prefix"}, a2 \in {"eq", "suffix"} }
\* confirmations that are not bearer confirmations are confirmations all the same
MethodConfs == { [Base EXCEPT !.assns[1].confs = <<ConfM(r, "id1", "in", m)>>] : r \in {"eq", "wrong", "otherhost", "absent"}, m \in {"hok", "sv", "none"} }
               \cup { [Base EXCEPT !.assns[1].confs = <<Conf("eq", "id1", "in"), ConfM(r, "id1", "in", m)>>] : r \in {"eq", "wrong", "absent"}, m \in {"hok", "sv", "none"} }
               \cup { [Base EXCEPT !.assns[1].confs = <<ConfM(r, "id1", "in", m), Conf("eq", "id1", "in")>>] : r \in {"eq", "wrong", "absent"}, m \in {"hok", "sv", "none"} }
NoConfs  == { [Base EXCEPT !.assns[1].confs = <<>>] }
\* a SubjectConfirmation without SubjectConfirmationData names no Recipient: it is not addressed to this SP
NoData(m) == ConfM("nodata", "absent", "in", m)
NoDataConfs == UNION { { [b EXCEPT !.assns[1].confs = <<NoData(m)>>],
                         [b EXCEPT !.assns[1].confs = <<GoodConf, NoData(m)>>],
                         [b EXCEPT !.assns[1].confs = <<NoData(m), GoodConf>>] } : m \in {"bearer", "hok", "none"}, b \in {Base, Unsigned(Base)} }
ArtC03   == { [Base EXCEPT !.entry = "artifact", !.art = [irt |-> "match", iss |-> i, status |-> s, signed |-> sg, time |-> "in"],
                           !.signed = rs, !.dest = d] :
                i \in {"eq", "wrong", "prefix", "empty", "absent"}, s \in {"Success", "Requester", "absent"},
                sg \in BOOLEAN, rs \in BOOLEAN, d \in {"eq", "wrong", "absent"} }

\* the Response inside an ArtifactResponse is examined like any other, whoever signed the envelope
ArtInner == { [Base EXCEPT !.entry = "artifact", !.art.signed = sg, !.signed = rs, !.assns[1].signed = as, !.rIss = i, !.status = st] :
                sg \in BOOLEAN, rs \in BOOLEAN, as \in BOOLEAN, i \in {"eq", "wrong", "slash", "case", "empty", "absent"},
                st \in {"Success", "Requester"} }

CfgsC03 == { [BaseCfg EXCEPT !.eidSet = e, !.audVal = a, !.cur = c, !.allowIdp = i] :
               e \in BOOLEAN, a \in {"none", "ok", "fail"}, c \in {"acs", "query", "rel"}, i \in BOOLEAN }
CfgsC03small == { BaseCfg, [BaseCfg EXCEPT !.cur = "query"], [BaseCfg EXCEPT !.cur = "rel"], [BaseCfg EXCEPT !.eidSet = FALSE],
                  [BaseCfg EXCEPT !.audVal = "ok"], [BaseCfg EXCEPT !.audVal = "fail"], [BaseCfg EXCEPT !.allowIdp = TRUE] }

\* an SP without any identifier of its own: audience restrictions that name somebody are not for it
NoIdentCfgs == { [BaseCfg EXCEPT !.eidSet = FALSE, !.noIdent = TRUE, !.allowIdp = i] : i \in BOOLEAN }
NoIdentIns  == UNION { { Vary(b, "auds", v) : v \in { <<>>, <<"wrong">>, <<"wrong", "wrong">>, <<"eq">> } } : b \in {Base, Unsigned(Base)} }
IssFmtIns == { [b EXCEPT !.assns[1].iss = i, !.assns[1].issfmt = f] : b \in {Base, Unsigned(Base)}, i \in {"eq", "wrong", "case", "prefix"}, f \in {"absent", "other"} }
StubCfgs == { [BaseCfg EXCEPT !.idpStub = TRUE, !.allowIdp = i] : i \in BOOLEAN }
StubIns  == { [b EXCEPT !.rIss = r, !.assns[1].iss = a] : b \in {Base, Unsigned(Base)}, r \in {"absent", "eq"}, a \in {"eq", "wrong", "case"} }
InitC03q == \/ /\ cfg \in NoIdentCfgs /\ in \in NoIdentIns
            \/ /\ cfg \in StubCfgs /\ in \in StubIns
            \/ /\ cfg \in {BaseCfg, [BaseCfg EXCEPT !.allowIdp = TRUE]} /\ in \in IssFmtIns
            \/ /\ cfg \in CfgsC03
               /\ in \in Singles(Base) \cup Singles(Unsigned(Base)) \cup TwoConfs \cup TwoAssns \cup NoConfs \cup NoDataConfs \cup MethodConfs
            \/ /\ cfg \in CfgsC03small
               /\ in \in Pairs(Base) \cup ArtC03 \cup ArtInner
            \/ /\ cfg \in {BaseCfg, [BaseCfg EXCEPT !.cur = "query"], [BaseCfg EXCEPT !.cur = "rel"]}
               /\ in \in Pairs(Unsigned(Base))
               /\ in.dest # "eq"        \* the pairs of the unsigned layout that involve Destination
            \/ /\ cfg \in CfgsC03small
               /\ in \in { [x EXCEPT !.entry = "post"] : x \in Singles(Base) }
InitC03t == \/ /\ cfg \in NoIdentCfgs /\ in \in NoIdentIns
            \/ /\ cfg \in StubCfgs /\ in \in StubIns
            \/ /\ cfg \in {BaseCfg, [BaseCfg EXCEPT !.allowIdp = TRUE]} /\ in \in IssFmtIns
            \/ /\ cfg \in CfgsC03
               /\ in \in Singles(Base) \cup Singles(Unsigned(Base)) \cup TwoConfs \cup TwoAssns \cup NoConfs \cup NoDataConfs \cup MethodConfs
                        \cup Pairs(Base) \cup ArtC03 \cup ArtInner
            \/ /\ cfg \in CfgsC03small
               /\ in \in Pairs(Unsigned(Base)) \cup { [x EXCEPT !.entry = "post"] : x \in Singles(Base) \cup Pairs(Base) }

\* C04 ---------------------------------------------------------------------
OutSets == SUBSET OutIDs
CfgsC04 == { [BaseCfg EXCEPT !.outstanding = o, !.allowIdp = a, !.reqVal = r] :
               o \in OutSets, a \in BOOLEAN, r \in {"none", "ok", "fail"} }
CfgsC04main == { c \in CfgsC04 : (c.allowIdp => c.reqVal = "none") }
SomeOut == { {}, {"id1"}, {""}, {"id1", "id2"}, {"id1", ""}, {"pfx"}, {"sfx"}, {"id2", "pfx", "sfx"} }

IrtOneConf  == { [Base EXCEPT !.rIRT = r, !.assns[1].confs[1].irt = c] : r \in IrtCls, c \in IrtCls }
\* an assertion without any subject confirmation: only the Response-level InResponseTo stands between
\* an empty outstanding set and acceptance
IrtNoConfs  == { [Base EXCEPT !.rIRT = r, !.assns[1].confs = <<>>] : r \in IrtCls }
IrtTwoConfs == { [Base EXCEPT !.rIRT = r, !.assns[1].confs = <<Conf("eq", c1, "in"), Conf("eq", c2, "in")>>] :
                   r \in {"id1", "absent"}, c1 \in IrtCls, c2 \in IrtCls }
IrtTwoAssns == { [Base EXCEPT !.assns = <<Assn(FALSE, "eq", <<Conf("eq", c1, "in")>>, <<"eq">>, "in"),
                                           Assn(FALSE, "eq", <<Conf("eq", c2, "in")>>, <<"eq">>, "in")>>] :
                   c1 \in {"id1", "other", "absent"}, c2 \in {"id1", "other", "absent"} }
\* artreq: the ID of the ArtifactResolve request the SP has just sent - it identifies the back-channel exchange,
\* it is not a request ID the caller declared outstanding
ArtC04 == { [Base EXCEPT !.entry = "artifact", !.art.irt = a, !.art.signed = sg, !.signed = ~sg, !.rIRT = r, !.assns[1].confs[1].irt = c] :
              a \in {"match", "old", "other", "absent"}, sg \in BOOLEAN, r \in {"id1", "other", "absent", "artreq"}, c \in {"id1", "other", "absent", "artreq"} }
\* every subject confirmation counts, whatever its Method
IrtMethodConfs ==
  { [Base EXCEPT !.assns[1].confs = <<ConfM("eq", c, "in", m)>>] : c \in IrtCls, m \in {"hok", "sv", "none"} }
  \cup { [Base EXCEPT !.assns[1].confs = <<Conf("eq", "id1", "in"), ConfM("eq", c, "in", m)>>] : c \in {"other", "pfx", "absent"}, m \in {"hok", "sv", "none"} }
  \cup { [Base EXCEPT !.assns[1].confs = <<ConfM("eq", c, "in", m), Conf("eq", "id1", "in")>>] : c \in {"other", "pfx", "absent"}, m \in {"hok", "sv", "none"} }

\* the layout in which nothing at the Response level is examined for addressing: Response unsigned
\* (assertion signed) and no Destination attribute - its InResponseTo must be checked all the same
NoDest(x) == [Unsigned(x) EXCEPT !.dest = "absent"]
InitC04q == \/ /\ cfg \in CfgsC04main /\ in \in IrtOneConf \cup IrtNoConfs
            \/ /\ cfg \in { c \in CfgsC04main : c.outstanding \in SomeOut }
               /\ in \in IrtTwoConfs \cup IrtTwoAssns \cup ArtC04 \cup IrtMethodConfs
                        \cup { [x EXCEPT !.entry = "post"] : x \in IrtOneConf }
                        \cup { Unsigned(x) : x \in IrtOneConf }
                        \cup { NoDest(x) : x \in IrtOneConf }
InitC04t == \/ /\ cfg \in CfgsC04 /\ in \in IrtOneConf \cup IrtNoConfs \cup { Unsigned(x) : x \in IrtOneConf \cup IrtNoConfs }
                                            \cup { NoDest(x) : x \in IrtOneConf \cup IrtNoConfs }
            \/ /\ cfg \in CfgsC04main
               /\ in \in IrtTwoConfs \cup IrtTwoAssns \cup ArtC04 \cup IrtMethodConfs \cup { [x EXCEPT !.entry = "post"] : x \in IrtOneConf }

\* X ("cross") -----------------------------------------------------------------
\* One deviation in EACH of the three dimensions at once - addressing (C03), request IDs (C04), instants
\* (C02: "out" is an hour outside the window) - under configurations that interact with them.  A check
\* that is skipped only in a particular combination ("no window check under AllowIDPInitiated", "no
\* request-ID check without Destination") shows up here and nowhere in the single-dimension families.
XBases == { Base, Unsigned(Base), NoDest(Base), [Base EXCEPT !.entry = "post"] }
XVals(f) == CASE f = "auds" -> { <<"eq">>, <<"wrong">>, <<"prefix">> }
              [] f = "status" -> { "Success", "Requester" }
              [] OTHER -> { "eq", "wrong", "prefix" }
XAddr(b) == UNION { { Vary(b, f, v) : v \in XVals(f) } : f \in Fields }
XIrt(b)  == { [b EXCEPT !.rIRT = r, !.assns[1].confs[1].irt = c] : r \in {"id1", "other", "absent"}, c \in {"id1", "other", "absent"} }
XTime(b) == { b, [b EXCEPT !.rTime = "out"], [b EXCEPT !.assns[1].time = "out"], [b EXCEPT !.assns[1].cond = "out"],
              [b EXCEPT !.assns[1].confs[1].nooa = "out"] }
XSet == UNION { UNION { UNION { XTime(z) : z \in XIrt(y) } : y \in XAddr(x) } : x \in XBases }
\* (the application's own audience validator, when it says yes, replaces the audience comparison - and nothing else)
CfgsXq == { [BaseCfg EXCEPT !.allowIdp = a, !.outstanding = o, !.audVal = v] : a \in BOOLEAN, o \in {{"id1"}, {}}, v \in {"none", "ok"} }
CfgsXt == { [BaseCfg EXCEPT !.allowIdp = a, !.outstanding = o, !.cur = c, !.eidSet = e, !.audVal = v] :
              a \in BOOLEAN, o \in {{"id1"}, {"id1", "id2"}, {}}, c \in {"acs", "rel"}, e \in BOOLEAN, v \in {"none", "ok"} }
InitXq == cfg \in CfgsXq /\ in \in XSet
InitXt == cfg \in CfgsXt /\ in \in XSet

InitVars == /\ pc = IF in.entry = "artifact" THEN "ArtIRT" ELSE "RespSig"
            /\ ai = 1 /\ cj = 1 /\ sigReq = TRUE /\ hasSig = FALSE
            /\ errs = <<>> /\ oks = <<>> /\ verdict = "none" /\ ret = 0 /\ step = "none" /\ badStatus = "none"

Init == /\ CASE Family = "C03q" -> InitC03q [] Family = "C03t" -> InitC03t
             [] Family = "C04q" -> InitC04q [] Family = "C04t" -> InitC04t
             [] Family = "Xq" -> InitXq [] Family = "Xt" -> InitXt
        /\ (in.dest = "cur" => cfg.cur = "query")     \* "cur" = a Destination equal to the received-at URL where that differs from the ACS URL
        /\ InitVars

----------------------------------------------------------------------------
(* the code, step by step *)

Reject(why) == /\ pc' = "done" /\ verdict' = "reject" /\ step' = why
               /\ UNCHANGED <<ai, cj, sigReq, hasSig, errs, oks, ret>>
Goto(l) == pc' = l /\ UNCHANGED <<ai, cj, sigReq, hasSig, errs, oks, verdict, ret, step>>
Keep == UNCHANGED <<cfg, in>>

\* parseArtifactResponse :885 InResponseTo must equal the ArtifactResolve just sent
ArtIRT == /\ pc = "ArtIRT" /\ Keep /\ UNCHANGED badStatus
          /\ IF in.art.irt # "match" THEN Reject("ArtInResponseTo") ELSE Goto("ArtTime")
ArtTime == /\ pc = "ArtTime" /\ Keep /\ UNCHANGED badStatus
           /\ IF in.art.time = "out" THEN Reject("ArtIssueInstant") ELSE Goto("ArtIssuer")
\* :893 Issuer optional, must match when present
ArtIssuer == /\ pc = "ArtIssuer" /\ Keep /\ UNCHANGED badStatus
             /\ IF in.art.iss \notin {"eq", "absent"} THEN Reject("ArtIssuer") ELSE Goto("ArtStatus")
ArtStatus == /\ pc = "ArtStatus" /\ Keep
             /\ IF in.art.status # "Success"
                  THEN Reject("ArtStatus") /\ badStatus' = in.art.status
                  ELSE Goto("ArtSig") /\ UNCHANGED badStatus
\* :904 a verified ArtifactResponse signature lifts the requirement from everything inside
ArtSig == /\ pc = "ArtSig" /\ Keep /\ UNCHANGED badStatus
          /\ pc' = "RespSig" /\ sigReq' = ~in.art.signed
          /\ UNCHANGED <<ai, cj, hasSig, errs, oks, verdict, ret, step>>

\* parseResponse :990 the Response signature is evaluated first, acted on later
RespSig == /\ pc = "RespSig" /\ Keep /\ UNCHANGED badStatus
           /\ hasSig' = (sigReq /\ in.signed)
           /\ pc' = "Dest"
           /\ UNCHANGED <<ai, cj, sigReq, errs, oks, verdict, ret, step>>

DestIsEmpty == in.dest \in {"empty", "absent"}
DestMatches == in.dest = "eq" \/ (in.dest = "cur")      \* "cur" is only generated when it is the received-at URL
\* :1009 Destination mandatory when signed, checked whenever present
Dest == /\ pc = "Dest" /\ Keep /\ UNCHANGED badStatus
        /\ IF (hasSig \/ ~DestIsEmpty) /\ ~DestMatches THEN Reject("Destination") ELSE Goto("ReqID")

\* :1095 validateRequestID
ReqID == /\ pc = "ReqID" /\ Keep /\ UNCHANGED badStatus
         /\ LET ok == IF cfg.reqVal # "none" THEN cfg.reqVal = "ok"
                      ELSE cfg.allowIdp \/ Norm(in.rIRT) \in cfg.outstanding
            IN IF ok THEN Goto("RespTime") ELSE Reject("InResponseTo")
RespTime == /\ pc = "RespTime" /\ Keep /\ UNCHANGED badStatus
            /\ IF in.rTime = "out" THEN Reject("RespIssueInstant") ELSE Goto("RespIssuer")
\* :1025
RespIssuer == /\ pc = "RespIssuer" /\ Keep /\ UNCHANGED badStatus
              /\ IF (IF cfg.idpStub THEN in.rIss \notin {"empty", "absent"} ELSE in.rIss \notin {"eq", "absent"})
                   THEN Reject("RespIssuer") ELSE Goto("Status")
\* :1028
Status == /\ pc = "Status" /\ Keep
          /\ IF in.status # "Success"
               THEN Reject("Status") /\ badStatus' = in.status
               ELSE Goto("SigDecide") /\ UNCHANGED badStatus
\* :1033 (signatures in this module are either absent or valid and trusted; SigTree.tla covers the rest)
SigDecide == /\ pc = "SigDecide" /\ Keep /\ UNCHANGED badStatus
             /\ sigReq' = (sigReq /\ ~in.signed)
             /\ pc' = IF Len(in.assns) = 0 THEN "finish" ELSE "AssnSig"
             /\ UNCHANGED <<ai, cj, hasSig, errs, oks, verdict, ret, step>>

FailAssn(why) == /\ errs' = Append(errs, why) /\ ai' = ai + 1 /\ cj' = 1
                 /\ pc' = IF ai + 1 > Len(in.assns) THEN "finish" ELSE "AssnSig"
                 /\ UNCHANGED <<sigReq, hasSig, oks, verdict, ret, step>>
Stay(l) == pc' = l /\ UNCHANGED <<ai, cj, sigReq, hasSig, errs, oks, verdict, ret, step>>

A == in.assns[ai]
\* parseAssertion :1157
AssnSig == /\ pc = "AssnSig" /\ Keep /\ UNCHANGED badStatus
           /\ IF sigReq /\ ~A.signed THEN FailAssn("AssnSignature") ELSE Stay("AssnTime")
AssnTime == /\ pc = "AssnTime" /\ Keep /\ UNCHANGED badStatus
            /\ IF A.time = "out" THEN FailAssn("AssnTime") ELSE Stay("AssnIssuer")
\* :1185 exact match, no "absent" escape
AssnIssuer == /\ pc = "AssnIssuer" /\ Keep /\ UNCHANGED badStatus
              /\ IF (IF cfg.idpStub THEN A.iss # "empty" ELSE A.iss # "eq") THEN FailAssn("AssnIssuer") ELSE Stay("ConfLoop")
\* :1188-1225 every confirmation: InResponseTo (unless IdP-initiated), Recipient, NotOnOrAfter
ConfLoop == /\ pc = "ConfLoop" /\ Keep /\ UNCHANGED badStatus
            /\ IF cj > Len(A.confs) THEN (IF A.cond = "out" THEN FailAssn("Conditions") ELSE Stay("Audience"))
               ELSE LET c == A.confs[cj] IN
                    IF c.recip = "nodata" THEN FailAssn("ConfNoData")
                    ELSE IF ~cfg.allowIdp /\ Norm(c.irt) \notin cfg.outstanding THEN FailAssn("ConfInResponseTo")
                    ELSE IF c.recip # "eq" THEN FailAssn("ConfRecipient")
                    ELSE IF c.nooa = "out" THEN FailAssn("ConfNotOnOrAfter")
                    ELSE cj' = cj + 1 /\ UNCHANGED <<pc, ai, sigReq, hasSig, errs, oks, verdict, ret, step>>
\* :1239 custom validator, else "no restriction or some restriction names us"
AudOK(a) == IF cfg.audVal # "none" THEN cfg.audVal = "ok"
            ELSE Len(a.auds) = 0 \/ \E k \in DOMAIN a.auds : a.auds[k] = "eq"
Audience == /\ pc = "Audience" /\ Keep /\ UNCHANGED badStatus
            /\ IF ~AudOK(A) THEN FailAssn("Audience")
               ELSE /\ oks' = Append(oks, ai) /\ ai' = ai + 1 /\ cj' = 1
                    /\ pc' = IF ai + 1 > Len(in.assns) THEN "finish" ELSE "AssnSig"
                    /\ UNCHANGED <<sigReq, hasSig, errs, verdict, ret, step>>
Finish == /\ pc = "finish" /\ Keep /\ UNCHANGED badStatus
          /\ pc' = "done"
          /\ IF oks # <<>> THEN verdict' = "accept" /\ ret' = oks[1] /\ step' = "none"
             ELSE /\ verdict' = "reject" /\ ret' = 0
                  /\ step' = IF errs # <<>> THEN errs[1] ELSE "NoAssertion"
          /\ UNCHANGED <<ai, cj, sigReq, hasSig, errs, oks>>

Next == ArtIRT \/ ArtTime \/ ArtIssuer \/ ArtStatus \/ ArtSig \/ RespSig \/ Dest \/ ReqID \/ RespTime
        \/ RespIssuer \/ Status \/ SigDecide \/ AssnSig \/ AssnTime \/ AssnIssuer \/ ConfLoop \/ Audience \/ Finish
Spec == Init /\ [][Next]_vars

----------------------------------------------------------------------------
(* Properties - from the statements of C03 and C04 *)
Done == pc = "done"
Browser == in.entry # "artifact"

\* C03 ---------------------------------------------------------------------
RespIssuerBad == IF cfg.idpStub THEN in.rIss \notin {"empty", "absent"} ELSE in.rIss \notin {"eq", "absent"}
IssBad(a)     == IF cfg.idpStub THEN a.iss # "empty" ELSE a.iss # "eq"
StatusBad     == in.status # "Success"
\* Destination: present and equal to neither URL; or absent on a signed browser-delivered Response
DestBad == \/ ~DestIsEmpty /\ ~DestMatches
           \/ DestIsEmpty /\ in.signed /\ Browser
ArtBad == ~Browser /\ (in.art.iss \notin {"eq", "absent"} \/ in.art.status # "Success")

AudBad(a)  == IF cfg.audVal # "none" THEN cfg.audVal = "fail"
              ELSE Len(a.auds) > 0 /\ \A k \in DOMAIN a.auds : a.auds[k] # "eq"
AudGood(a) == IF cfg.audVal # "none" THEN cfg.audVal = "ok"
              ELSE \A k \in DOMAIN a.auds : a.auds[k] = "eq"
AssnAddrBad(a)  == IssBad(a) \/ (\E j \in DOMAIN a.confs : a.confs[j].recip # "eq") \/ AudBad(a)
AssnAddrGood(a) == ~IssBad(a) /\ (\A j \in DOMAIN a.confs : a.confs[j].recip = "eq") /\ AudGood(a) /\ Len(a.confs) > 0

C03MustReject == RespIssuerBad \/ StatusBad \/ DestBad \/ ArtBad \/ \A k \in DOMAIN in.assns : AssnAddrBad(in.assns[k])

\* C04 ---------------------------------------------------------------------
Member(c) == Norm(c) \in cfg.outstanding
RespIrtBad == CASE cfg.reqVal = "fail" -> TRUE
                [] cfg.reqVal = "ok"   -> FALSE
                [] OTHER -> ~cfg.allowIdp /\ ~Member(in.rIRT)
AssnIrtBad(a) == cfg.reqVal = "none" /\ ~cfg.allowIdp /\ \E j \in DOMAIN a.confs : ~Member(a.confs[j].irt)
AssnIrtOpen(a) == cfg.reqVal = "ok" /\ ~cfg.allowIdp /\ \E j \in DOMAIN a.confs : ~Member(a.confs[j].irt)
ArtIrtBad == ~Browser /\ in.art.irt # "match"
C04MustReject == RespIrtBad \/ ArtIrtBad \/ \A k \in DOMAIN in.assns : AssnIrtBad(in.assns[k])

\* everything else about the message is valid (times inside, a trusted signature covers the assertion)
Covered(a) == in.signed \/ a.signed \/ (~Browser /\ in.art.signed)
TimesIn == in.rTime = "in" /\ in.art.time = "in" /\ \A k \in DOMAIN in.assns :
              in.assns[k].time = "in" /\ in.assns[k].cond = "in" /\ \A j \in DOMAIN in.assns[k].confs : in.assns[k].confs[j].nooa = "in"

\* C02, as far as this module distinguishes instants ("out" = an hour outside): the Response
\* IssueInstant, or every assertion's own IssueInstant / a confirmation's NotOnOrAfter
TimeBad == \/ in.rTime = "out"
           \/ \A k \in DOMAIN in.assns : \/ in.assns[k].time = "out" \/ in.assns[k].cond = "out"
                                          \/ \E j \in DOMAIN in.assns[k].confs : in.assns[k].confs[j].nooa = "out"

MustReject == C03MustReject \/ C04MustReject
MustAccept == /\ ~MustReject /\ TimesIn /\ Len(in.assns) = 1      \* several assertions, all good: left open (an SP may insist on exactly one)
              \* Destination is mandatory only on a signed Response: an unsigned one without the attribute satisfies the
              \* clause (an empty attribute, and a signed Response without Destination inside an ArtifactResponse, are left open)
              /\ (DestIsEmpty => in.dest = "absent" /\ ~in.signed)
              /\ \A k \in DOMAIN in.assns : /\ Covered(in.assns[k]) /\ AssnAddrGood(in.assns[k])
                                            /\ ~AssnIrtBad(in.assns[k]) /\ ~AssnIrtOpen(in.assns[k])
Class == IF MustReject THEN "MustReject" ELSE IF MustAccept THEN "MustAccept" ELSE "DontCare"

RejectsBad  == Done /\ MustReject => verdict = "reject"
AcceptsGood == Done /\ MustAccept => verdict = "accept"
\* what is returned is itself properly addressed and answers an outstanding request
ReturnedIsGood == Done /\ verdict = "accept" =>
                    /\ ~AssnAddrBad(in.assns[ret]) /\ ~AssnIrtBad(in.assns[ret])
                    /\ ~RespIssuerBad /\ ~StatusBad /\ ~DestBad /\ ~RespIrtBad
\* a non-Success status that is the first failing clause is reported as such
StatusReported == Done /\ step \in {"Status", "ArtStatus"} => badStatus # "none"
NothingWithoutOutstanding ==
  Done /\ cfg.outstanding = {} /\ ~cfg.allowIdp /\ cfg.reqVal = "none" => verdict = "reject"

Emit == Done => PrintT(<<"VEC", ToJson([prop |-> Family, cfg |-> cfg,
                                        in |-> in, class |-> Class,
                                        why |-> [c03 |-> C03MustReject, c04 |-> C04MustReject, time |-> TimeBad,
                                                 respIssuer |-> RespIssuerBad, status |-> StatusBad, dest |-> DestBad, art |-> ArtBad,
                                                 assnAddr |-> [k \in DOMAIN in.assns |-> AssnAddrBad(in.assns[k])],
                                                 assnAddrGood |-> [k \in DOMAIN in.assns |-> AssnAddrGood(in.assns[k])],
                                                 respIrt |-> RespIrtBad, artIrt |-> ArtIrtBad,
                                                 assnIrt |-> [k \in DOMAIN in.assns |-> AssnIrtBad(in.assns[k])]],
                                        pred |-> [verdict |-> verdict, ret |-> ret, step |-> step, badStatus |-> badStatus]])>>)
=============================================================================
