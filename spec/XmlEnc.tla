------------------------------- MODULE XmlEnc -------------------------------
(***************************************************************************)
(* xmlenc package of crewjam/saml: encrypters offered, decrypter registry, *)
(* the Decrypt machine.  Properties C10 (round trip / interoperation) and  *)
(* C11 (totality / rejection of malformed ciphertext).                     *)
(*                                                                         *)
(* Byte strings are symbolic: a value is [t, len, id]; a block ciphertext  *)
(* is a record saying who made it (cipher, key id, IV length emitted, body *)
(* length, final byte of the padded plaintext, which region was modified); *)
(* an RSA ciphertext says scheme / OAEP digest / MGF digest / recipient /  *)
(* payload.  Cryptographic operations are uninterpreted: a decryption      *)
(* recovers the payload iff every parameter of the decrypter equals the    *)
(* parameter the ciphertext was made with, otherwise it yields garbage     *)
(* (CBC) or fails (GCM, RSA).                                              *)
(*                                                                         *)
(* The machine is shaped like the code (xmlenc/decrypt.go, cbc.go, gcm.go, *)
(* pubkey.go): one action per check, in the code's order, with a Panic     *)
(* outcome wherever the code would slice / call crypto/cipher out of range *)
(* for the abstract lengths.  Every place where the pinned code departs    *)
(* from the W3C algorithm definitions is a NAMED DEVIATION (record Dev).   *)
(* The same machine run with no deviations (impl = "w3c") is the required  *)
(* design: the Properties section (written from the statements of C10/C11  *)
(* only) is checked by TLC on that run.  The run with the deviations of    *)
(* the pinned tree (impl = "code"), and with those that remain after the   *)
(* proposed fixes (impl = "fixed"), only PREDICT what the real code does;   *)
(* each of their terminal states is emitted as a vector with the class     *)
(* that the statement gives the case, and the harness decides about the    *)
(* real code (a real outcome matching neither prediction on a case the     *)
(* statement leaves open is drift).                                        *)
(*                                                                         *)
(* Round 3 (fixes/XmlEnc-c.md) adds two dimensions of the element AS       *)
(* WRITTEN: its lexical form (record Lex: namespace bindings, place of the *)
(* declarations, attribute order, white space and comments between child   *)
(* elements) and the content of ds:X509Data as a sequence of items         *)
(* (certificates and the hints X509IssuerSerial / X509SubjectName /        *)
(* X509SKI, in one or several X509Data elements).                          *)
(*                                                                         *)
(* Round 4 (fixes/XmlEnc-d.md) adds three dimensions: which OPTIONAL parts *)
(* of EncryptionMethod a producer writes (ds:DigestMethod, xenc11:MGF,     *)
(* xenc:OAEPparams, xenc:KeySize - absent means the W3C default), the      *)
(* VALUE of a symmetric key of the right size (table KeyParts: equal /     *)
(* zero / all-ones / weak / semi-weak DES sub-keys, parity, repeating      *)
(* patterns), and what an *rsa.PrivateKey holds in Primes / Precomputed    *)
(* (table RsaParts).                                                       *)
(*                                                                         *)
(* Round 5 (fixes/XmlEnc-e.md) adds two dimensions: the LEXICAL CLASS of   *)
(* the Algorithm identifier of xenc11:MGF (table MgfId: attribute absent / *)
(* empty / without '#' / '#' last / a short suffix / well-formed unknown / *)
(* the W3C identifiers) crossed with the DigestMethod classes, and         *)
(* ds:KeyInfo as a SEQUENCE OF ITEMS in document order (EncryptedKey,      *)
(* X509Data, ds:RetrievalMethod, ds:KeyName) with the URI classes of a     *)
(* RetrievalMethod (table RmUri) and a small REFERENCE GRAPH among         *)
(* EncryptedKey elements carrying an Id (inside the element or standing    *)
(* behind it in the enclosing element: self reference, 2-cycle, chain,     *)
(* dangling, repeated Id).                                                 *)
(*                                                                         *)
(* Round 6 (fixes/XmlEnc-f.md) adds the dimension HOW THE ENCRYPTER VALUE  *)
(* WAS OBTAINED AND CONFIGURED: an RSA encrypter is a value returned by a   *)
(* constructor (OAEP, OAEP_SHA256, OAEP_SHA512, PKCS1v15) whose exported    *)
(* fields DigestMethod and BlockCipher may then be reassigned (record Enc,  *)
(* family "enc"); Encrypt reads these fields at five sites (table EncSites) *)
(* and the required design reads, at every site, the field of the value    *)
(* that is encrypting - never what the constructor was given (named        *)
(* deviation CtorCaptured).  Concurrent decryptions over the shared        *)
(* decrypter registry are module XmlEncConc.                               *)
(*                                                                         *)
(* Round 7 (fixes/XmlEnc-g.md) makes THE RECIPIENT'S RSA KEY PAIR a        *)
(* dimension of the C10 round trip (field rsa of a case): what the          *)
(* *rsa.PrivateKey handed to Decrypt holds (table RsaParts, until now a    *)
(* C11 dimension judged for totality only) - every value that is a         *)
(* complete working key must decrypt (family "rsakey", named deviation     *)
(* UnwrapNeedsPrecomputed) - and the size of the modulus against the room  *)
(* OAEP leaves for the session key, k - 2 hLen - 2 octets: roomy / exact   *)
(* fit / one octet short per digest and block cipher (family "modulus",    *)
(* named deviation OaepExactFitRefused, invariant RefusesUnwrappable).     *)
(***************************************************************************)
EXTENDS Integers, Sequences, FiniteSets, TLC, Json

CONSTANTS Family,   \* "C10q" | "C10t" | "C11q" | "C11t" | "C11dev" | "C10dev" | "C10dev7" (refutation runs)
          Dev       \* deviations of the implementation being predicted (cfg: Dev <- DevPinned)

(****************************** algorithm table ****************************)
CBCs == {"aes128-cbc", "aes192-cbc", "aes256-cbc", "tripledes-cbc"}
BCs  == CBCs \cup {"aes128-gcm"}
\* round 8: every AES-GCM identifier XML Encryption 1.1 (section 5.2.4) defines - the identifier dimension of the GCM
\* tamper family (F8).  Whether the package registers a decrypter under it is Registered(d, a), not membership here.
GcmIds == {"aes128-gcm", "aes192-gcm", "aes256-gcm"}
KTs  == {"rsa-oaep-mgf1p", "rsa-oaep11", "rsa-1_5"}
Digests == {"sha1", "sha256", "sha512", "ripemd160"}

Uri(a) == CASE a = "aes128-cbc"     -> "http://www.w3.org/2001/04/xmlenc#aes128-cbc"
            [] a = "aes192-cbc"     -> "http://www.w3.org/2001/04/xmlenc#aes192-cbc"
            [] a = "aes256-cbc"     -> "http://www.w3.org/2001/04/xmlenc#aes256-cbc"
            [] a = "tripledes-cbc"  -> "http://www.w3.org/2001/04/xmlenc#tripledes-cbc"
            [] a = "aes128-gcm"     -> "http://www.w3.org/2009/xmlenc11#aes128-gcm"
            [] a = "aes192-gcm"     -> "http://www.w3.org/2009/xmlenc11#aes192-gcm"
            [] a = "aes256-gcm"     -> "http://www.w3.org/2009/xmlenc11#aes256-gcm"
            [] a = "rsa-oaep-mgf1p" -> "http://www.w3.org/2001/04/xmlenc#rsa-oaep-mgf1p"
            [] a = "rsa-oaep11"     -> "http://www.w3.org/2009/xmlenc11#rsa-oaep"
            [] a = "rsa-1_5"        -> "http://www.w3.org/2001/04/xmlenc#rsa-1_5"
            [] OTHER                -> ""

\* W3C XML-Encryption parameters: mode, cipher, key size, block size, IV / nonce size, tag size
W3C(a) == CASE a = "aes128-cbc"    -> [mode |-> "cbc", cipher |-> "aes",  key |-> 16, block |-> 16, iv |-> 16, tag |-> 0]
            [] a = "aes192-cbc"    -> [mode |-> "cbc", cipher |-> "aes",  key |-> 24, block |-> 16, iv |-> 16, tag |-> 0]
            [] a = "aes256-cbc"    -> [mode |-> "cbc", cipher |-> "aes",  key |-> 32, block |-> 16, iv |-> 16, tag |-> 0]
            [] a = "tripledes-cbc" -> [mode |-> "cbc", cipher |-> "3des", key |-> 24, block |-> 8,  iv |-> 8,  tag |-> 0]
            [] a = "aes128-gcm"    -> [mode |-> "gcm", cipher |-> "aes",  key |-> 16, block |-> 16, iv |-> 12, tag |-> 16]
            [] a = "aes192-gcm"    -> [mode |-> "gcm", cipher |-> "aes",  key |-> 24, block |-> 16, iv |-> 12, tag |-> 16]
            [] a = "aes256-gcm"    -> [mode |-> "gcm", cipher |-> "aes",  key |-> 32, block |-> 16, iv |-> 12, tag |-> 16]

(***************************** named deviations ****************************)
\* xmlenc/cbc.go:181          paddingBytes > len(buf)-1 : a full block of padding (empty plaintext) is refused
\* xmlenc/cbc.go:175-187      no upper bound blocksize on the padding byte (contradicted by no clause)
\* xmlenc/cbc.go:159-163      TripleDES = {keySize 8, des.NewCipher}
\* xmlenc/cbc.go:115          iv := ciphertext[:aes.BlockSize] whatever the cipher
\* xmlenc/cbc.go:111-121      no check that the body is a positive multiple of the block size
\* xmlenc/gcm.go:61           GCM plaintext is padded
\* xmlenc/gcm.go:68-74        generated nonce assigned to a shadowing variable (Seal gets nil)
\* xmlenc/gcm.go:76-77        Seal is given the zeroed output buffer, not the plaintext
\* xmlenc/gcm.go:77-81        the nonce is not written in front of the cipher value
\* xmlenc/gcm.go:122          no length check before slicing the nonce
\* xmlenc/pubkey.go:200-203   no decrypter registered for the xmlenc11 rsa-oaep URI
\* xmlenc/digest.go:33-48     SHA-256/512/RIPEMD-160 identified by non-W3C URIs (written and solely accepted)
\* xmlenc/pubkey.go:139-145   rsa-oaep-mgf1p : MGF1 digest follows DigestMethod (W3C: always SHA-1)
\* xmlenc/pubkey.go:155-184   xmlenc11 rsa-oaep : no xenc11:MGF element written / read (W3C default MGF1-SHA-1)
\* xmlenc/decrypt.go:81-84    key.(*rsa.PrivateKey) succeeds for a nil pointer and for a value without modulus / private
\*                            exponent; the key is dereferenced later (rsaKey.N.Cmp, crypto/rsa) without a check
\* xmlenc/pubkey.go:133-143   (tree with the fixes) xmlenc11 rsa-oaep: the MGF named by xenc11:MGF (default mgf1sha1) must be
\*                            MGF1 over the DigestMethod's hash - crypto/rsa is used with one hash - else "not implemented"
\* PrefixBound                element names an implementation looks up with the literal prefix the package writes
\*                            (etree path step "ds:DigestMethod" instead of "DigestMethod").  Empty in the pinned tree
\*                            and in the tree with the fixes: every FindElement path of decrypt.go / pubkey.go / cbc.go /
\*                            gcm.go is written without prefix.  See "lexical form" below.
\* AbsentDigestKeepsConfigured pubkey.go:119-122: an EncryptionMethod without ds:DigestMethod means SHA-1 (XML-Enc 5.5.2); an
\*                            implementation that instead keeps the DigestMethod its registered decrypter was configured with
\*                            (SHA-256 for OAEP() and OAEP_SHA256(), pubkey.go:200-203).  FALSE in every tree.
\* OaepParamsIgnored          pubkey.go:176: rsa.DecryptOAEP(..., nil): xenc:OAEPparams is never read, the label is always empty
\* KeyRefusal                 rules by which a cipher constructor (cbc.go:44, :106; gcm.go:46, :108) refuses keys of the
\*                            right size; {} in every tree: crypto/aes and crypto/des accept every key.  See Refuses.
\* UncheckedPrecomputed       crypto/rsa go1.23 rsa.go:651-676 decrypt: once Precompute() has run on a key (Precomputed.n set) the CRT
\*                            values Qinv, Dp, Dq are used without a check; xmlenc hands the caller's key to crypto/rsa as it is
\*                            (pubkey.go:176 / :191).  TRUE in the pinned tree and in the tree with the fixes: a panic for a key
\*                            from which one of these values has been removed.
\* ValidatesKey               an implementation that calls (*rsa.PrivateKey).Validate on the caller's key before using it
\*                            (go1.23: Validate calls prime.Cmp on every entry of Primes without a nil check).  FALSE in every tree.
\* MgfErrorSlicesIdentifier   pubkey.go:140-142: an implementation that, where it refuses the identifier of xenc11:MGF, cuts a hash name out
\*                            of it for the error text at a fixed distance behind its last '#' (identifier[LastIndex('#')+5:]) - out
\*                            of range for an identifier with fewer than four characters behind its last '#'.  FALSE in every tree.
\* RetrievalMethod            cbc.go:86 / gcm.go:91 look for ./KeyInfo/EncryptedKey only: "ignored" - a ds:RetrievalMethod is not read,
\*                            a level without inline EncryptedKey is decrypted with the caller's key ("expected key to be []byte"
\*                            for any other value).  "xpath": an implementation that, without inline EncryptedKey and with a key that
\*                            is not yet a byte string, takes the first RetrievalMethod, strips a leading '#' from its URI, pastes
\*                            the rest into the etree path //EncryptedKey[@Id='...'] (FindElement panics on a path whose filter has
\*                            an apostrophe or an opening bracket) and decrypts the element found, with the same key, without
\*                            remembering where it has been.  "ignored" in every tree.
\* CtorCaptured               pubkey.go:32-98 RSA.Encrypt reads e.BlockCipher and e.DigestMethod - the exported fields of the value it is
\*                            called on, which the constructors' documentation invites callers to reassign.  A set of pairs
\*                            <<constructor, site>> (sites: table EncSites): at that site the value returned by that constructor uses
\*                            what the CONSTRUCTOR was given (a closure over its argument, a copy made at construction) instead of
\*                            the field of the value that is encrypting.  {} in every tree: pubkey.go:44, :69-72, :73-85, :93, :98 and
\*                            the keyEncrypter closures (:190, :207, :224: e.DigestMethod.Hash() of the value handed in) read the fields.
\* UnwrapNeedsPrecomputed     (round 7; no tree) pubkey.go:151-158 RSA.unwrapKey hands the caller's *rsa.PrivateKey to crypto/rsa, which
\*                            decrypts with N, D when Precompute() was never called on the key.  TRUE: a key whose Precomputed.Dp /
\*                            Dq / Qinv is nil is refused with an error - also the complete, working keys that were built from N, E, D
\*                            and the primes and never precomputed (RsaParts(s).precomp = "none").
\* OaepExactFitRefused        (round 7; no tree) pubkey.go:93 keyEncrypter -> rsa.EncryptOAEP refuses a session key of more than
\*                            k - 2 hLen - 2 octets (k the octets of the modulus, hLen of the digest; RFC 8017 7.1.1).  TRUE: Encrypt
\*                            also refuses the key that fills that room exactly (<= written for <).
\* GcmAsCbc                   (round 8; no tree) gcm.go:138-148: a decrypter is registered under ...xmlenc11#aes256-gcm whose value is
\*                            a CBC{keySize 32} (copied from AES256CBC): the cipher value is read as IV + whole blocks + padding,
\*                            nothing is authenticated.  FALSE: only aes128-gcm is registered (the unchanged tree).
DevNone ==
  [StripOffByOne |-> FALSE, AcceptOversizePadding |-> FALSE, DesSingleKey |-> FALSE, DecIvFixed16 |-> FALSE,
   NoAlignCheck |-> FALSE, GcmPads |-> FALSE, GcmNonceShadowed |-> FALSE, GcmSealsZeros |-> FALSE,
   GcmNonceNotEmitted |-> FALSE, NoGcmLenCheck |-> FALSE, Oaep11Unregistered |-> FALSE,
   DigestEmit |-> "w3c", DigestAccept |-> {"w3c"}, MgfFollowsDigest |-> FALSE, Oaep11NoMgf |-> FALSE,
   NoKeyCompletenessCheck |-> FALSE, Oaep11MgfIsDigest |-> FALSE, PrefixBound |-> {},
   AbsentDigestKeepsConfigured |-> FALSE, OaepParamsIgnored |-> FALSE, KeyRefusal |-> {}, ValidatesKey |-> FALSE,
   UncheckedPrecomputed |-> FALSE, MgfErrorSlicesIdentifier |-> FALSE, RetrievalMethod |-> "ignored", CtorCaptured |-> {},
   UnwrapNeedsPrecomputed |-> FALSE, OaepExactFitRefused |-> FALSE, GcmAsCbc |-> FALSE]
DevPinned ==
  [StripOffByOne |-> TRUE, AcceptOversizePadding |-> TRUE, DesSingleKey |-> TRUE, DecIvFixed16 |-> TRUE,
   NoAlignCheck |-> TRUE, GcmPads |-> TRUE, GcmNonceShadowed |-> TRUE, GcmSealsZeros |-> TRUE,
   GcmNonceNotEmitted |-> TRUE, NoGcmLenCheck |-> TRUE, Oaep11Unregistered |-> TRUE,
   DigestEmit |-> "pkg", DigestAccept |-> {"pkg"}, MgfFollowsDigest |-> TRUE, Oaep11NoMgf |-> TRUE,
   NoKeyCompletenessCheck |-> TRUE, Oaep11MgfIsDigest |-> FALSE, PrefixBound |-> {},
   AbsentDigestKeepsConfigured |-> FALSE, OaepParamsIgnored |-> TRUE, KeyRefusal |-> {}, ValidatesKey |-> FALSE,
   UncheckedPrecomputed |-> TRUE, MgfErrorSlicesIdentifier |-> FALSE, RetrievalMethod |-> "ignored", CtorCaptured |-> {},
   UnwrapNeedsPrecomputed |-> FALSE, OaepExactFitRefused |-> FALSE, GcmAsCbc |-> FALSE]
\* the tree with the patches of /verif/fixes/C10-*.patch, C11-*.patch, C11b-*.patch applied
DevFixed ==
  [StripOffByOne |-> FALSE, AcceptOversizePadding |-> TRUE, DesSingleKey |-> FALSE, DecIvFixed16 |-> FALSE,
   NoAlignCheck |-> FALSE, GcmPads |-> TRUE, GcmNonceShadowed |-> TRUE, GcmSealsZeros |-> TRUE,
   GcmNonceNotEmitted |-> TRUE, NoGcmLenCheck |-> FALSE, Oaep11Unregistered |-> FALSE,
   DigestEmit |-> "w3c", DigestAccept |-> {"w3c", "pkg"}, MgfFollowsDigest |-> TRUE, Oaep11NoMgf |-> FALSE,
   NoKeyCompletenessCheck |-> FALSE, Oaep11MgfIsDigest |-> TRUE, PrefixBound |-> {},
   AbsentDigestKeepsConfigured |-> FALSE, OaepParamsIgnored |-> TRUE, KeyRefusal |-> {}, ValidatesKey |-> FALSE,
   UncheckedPrecomputed |-> FALSE, MgfErrorSlicesIdentifier |-> FALSE, RetrievalMethod |-> "ignored", CtorCaptured |-> {},
   UnwrapNeedsPrecomputed |-> FALSE, OaepExactFitRefused |-> FALSE, GcmAsCbc |-> FALSE]
\* The deviations the required design is run with: none.  XmlEnc_C11dev.cfg replaces ReqDev by DevSeeded5 - the two
\* behaviours of round 5 switched on - and TLC must then REFUTE Total (the check breaks when it does not): the two new
\* dimensions are not vacuous.
ReqDev == DevNone
DevSeeded5 == [DevNone EXCEPT !.MgfErrorSlicesIdentifier = TRUE, !.RetrievalMethod = "xpath", !.GcmAsCbc = TRUE]
\* round 6: the xmlenc11 constructors folded into a helper whose key-wrapping closure uses the helper's argument
\* (XmlEnc_C10dev.cfg, phase enc-deviation-refuted of the thorough tier: TLC must refute RoundTrip and WrapsAsAnnounced)
DevSeeded6 == [DevNone EXCEPT !.CtorCaptured = {<<"OAEP_SHA256", "wrap-digest">>, <<"OAEP_SHA512", "wrap-digest">>}]
\* round 7: the two behaviours along the dimensions "what the recipient's *rsa.PrivateKey holds" and "size of the modulus
\* against the OAEP limit" (XmlEnc_C10dev7.cfg, phase rsakey-deviation-refuted of the thorough tier: TLC must refute
\* ShapeRoundTrip and ExactFitRoundTrip)
DevSeeded7 == [DevNone EXCEPT !.UnwrapNeedsPrecomputed = TRUE, !.OaepExactFitRefused = TRUE]

(* implementation parameters under a deviation record d *)
KeySize(d, a) == IF a = "tripledes-cbc" /\ d.DesSingleKey THEN 8 ELSE W3C(a).key
Cipher(d, a)  == IF a = "tripledes-cbc" /\ d.DesSingleKey THEN "des" ELSE W3C(a).cipher
Block(a)      == W3C(a).block
IvEnc(a)      == W3C(a).block                      \* cbc.go:64 make([]byte, block.BlockSize())
IvDec(d, a)   == IF d.DecIvFixed16 THEN 16 ELSE W3C(a).block
Mode(d, a)    == IF a = "aes256-gcm" /\ d.GcmAsCbc THEN "cbc" ELSE W3C(a).mode
Registered(d, a) == a \in BCs \/ (a = "aes256-gcm" /\ d.GcmAsCbc) \/ a \in {"rsa-oaep-mgf1p", "rsa-1_5"} \/ (a = "rsa-oaep11" /\ ~d.Oaep11Unregistered)

(***************************** symbolic values *****************************)
\* v: the VALUE class of a byte string that is a symmetric key ("std": random octets), table KeyParts below
BytesV(n, id, v) == [t |-> "bytes", len |-> n, id |-> id, v |-> v]
Bytes(n, id) == BytesV(n, id, "std")
\* key value handed to Decrypt.  t is the Go type, shape what a value of that type holds:
\*   t     : bytes ([]byte) | nil (untyped nil) | rsa (*rsa.PrivateKey) | rsaval (rsa.PrivateKey, not a pointer) |
\*           rsapub (*rsa.PublicKey) | signer (a crypto.Signer / crypto.Decrypter wrapping the *rsa.PrivateKey, as a
\*           key held in a token is presented) | ecdsa (*ecdsa.PrivateKey) | ed25519 (ed25519.PrivateKey) | string
\*   shape : for t = bytes: std (random octets) | nilslice ([]byte(nil)) | a value class of table KeyParts;
\*           for t = rsa (id names the key pair, public exponent 65537) a row of table RsaParts:
\*           std       N, E, D, Primes, Precomputed (what the x509 parsers and GenerateKey return)
\*           noprecomp N, E, D, Primes            noprimes N, E, D only (a key imported by its private exponent)
\*           wrongd    N, E and a D that is not the private exponent of (N, E)
\*           nod       N, E only                   zero  &rsa.PrivateKey{}       typednil  (*rsa.PrivateKey)(nil)
\*           and the finer shapes of Primes / Precomputed (round 4)
KeyShape(t, n, id, s) == [t |-> t, len |-> n, id |-> id, shape |-> s]
KeyVal(t, n, id) == KeyShape(t, n, id, "std")
RsaHolders == {"rsa", "rsaval", "signer"}                 \* Go types whose value holds an RSA private key
\* What an *rsa.PrivateKey holds (extends the key value table of fixes/C11b.md):
\*   ptr    : "ok" | "nil" (a typed nil pointer)      n : "ok" | "nil"      d : "ok" | "wrong" | "nil"
\*   primes : "ok" the prime factors of N (two; three for the multi-prime key pair "mp3") | "nil" no slice | "empty" a
\*            slice of length 0 | "presized" a slice of the right length whose entries are all nil (make([]*big.Int, n)
\*            never filled, or wiped) | "onenil" the last entry nil | "wrong" numbers whose product is not N
\*   precomp: "kept" Precomputed as Precompute() and the x509 parsers leave it | "none" its zero value | "nodp" / "noqinv"
\*            kept, but the exported value Dp / Qinv removed (set to nil) afterwards
\*   crt    : "asis" | "nilentries" Precomputed.CRTValues holds entries whose Exp / Coeff / R are nil
RsaParts(s) ==
  LET K(ptr, n, d, primes, precomp, crt) == [ptr |-> ptr, n |-> n, d |-> d, primes |-> primes, precomp |-> precomp, crt |-> crt] IN
  CASE s = "noprecomp"    -> K("ok", "ok", "ok", "ok", "none", "asis")
    [] s = "noprimes"     -> K("ok", "ok", "ok", "nil", "none", "asis")
    [] s = "emptyprimes"  -> K("ok", "ok", "ok", "empty", "none", "asis")
    [] s = "presized"     -> K("ok", "ok", "ok", "presized", "none", "asis")
    [] s = "onenil"       -> K("ok", "ok", "ok", "onenil", "none", "asis")
    [] s = "wrongprimes"  -> K("ok", "ok", "ok", "wrong", "none", "asis")
    [] s = "wiped"        -> K("ok", "ok", "ok", "nil", "kept", "asis")         \* Primes wiped, Precomputed kept
    [] s = "wipedentries" -> K("ok", "ok", "ok", "presized", "kept", "asis")    \* entries of Primes wiped, Precomputed kept
    [] s = "crtnil"       -> K("ok", "ok", "ok", "ok", "kept", "nilentries")
    [] s = "dpnil"        -> K("ok", "ok", "ok", "ok", "nodp", "asis")           \* Precomputed.Dp = nil
    [] s = "qinvnil"      -> K("ok", "ok", "ok", "ok", "noqinv", "asis")         \* Precomputed.Qinv = nil
    [] s = "wrongd"       -> K("ok", "ok", "wrong", "nil", "none", "asis")
    [] s = "nod"          -> K("ok", "ok", "nil", "nil", "none", "asis")
    [] s = "zero"         -> K("ok", "nil", "nil", "nil", "none", "asis")
    [] s = "typednil"     -> K("nil", "nil", "nil", "nil", "none", "asis")
    [] OTHER              -> K("ok", "ok", "ok", "ok", "kept", "asis")          \* "std"
\* Shapes on which the pinned tree panicked (named deviation UncheckedPrecomputed, fixes/XmlEnc-d.md); enumerated since
\* the repair (fix commit 70f590f in /repo).
EnumerateOpenShapes == TRUE
OpenShapes == {"dpnil", "qinvnil"}
NewShapes  == {"emptyprimes", "presized", "onenil", "wrongprimes", "wiped", "wipedentries", "crtnil"}     \* round 4
              \cup (IF EnumerateOpenShapes THEN OpenShapes ELSE {})
RsaShapes  == {"std", "noprecomp", "noprimes", "wrongd", "nod", "zero", "typednil"} \cup NewShapes
\* crypto/rsa (go1.23) decrypts with Precomputed when Precompute() has filled it and with N, D otherwise; it never reads
\* Primes and never reads Precomputed.CRTValues: every shape with a modulus and the right private exponent works
Working    == { s \in RsaShapes : RsaParts(s).ptr = "ok" /\ RsaParts(s).n = "ok" /\ RsaParts(s).d = "ok"
                                    /\ RsaParts(s).precomp \in {"kept", "none"} }
Incomplete == { s \in RsaShapes : RsaParts(s).ptr = "nil" \/ RsaParts(s).n = "nil" \/ RsaParts(s).d = "nil" }
\* public half of a key value holding an RSA key: modulus identity and public exponent ("none": there is none)
HasPub(k) == k.t \in RsaHolders /\ (k.t = "rsa" => RsaParts(k.shape).n = "ok")
PubN(k) == IF HasPub(k) THEN k.id ELSE "none"
PubE(k) == IF HasPub(k) THEN "F4" ELSE "none"
NoCt == [k |-> "none"]
\* block ciphertext.  made: cbc | gcm | junk
Blk(made, cipher, kid, klen, iv, body, tag, pt, last, src, padded, mod) ==
  [k |-> "blk", made |-> made, cipher |-> cipher, kid |-> kid, klen |-> klen, iv |-> iv, body |-> body, tag |-> tag,
   pt |-> pt, last |-> last, src |-> src, padded |-> padded, mod |-> mod]
Junk == Blk("junk", "none", "none", 0, 0, 0, 0, Bytes(0, "X"), -1, "p", FALSE, "none")
\* RSA ciphertext.  scheme: oaep | pkcs1 | junk
\*   label: the OAEP label (xenc:OAEPparams) the key was wrapped with: "none" (empty) | "L"
Wrap(scheme, hash, mgf, to, payload) ==
  [k |-> "wrap", scheme |-> scheme, hash |-> hash, mgf |-> mgf, to |-> to, payload |-> payload, label |-> "none"]
NoDm == [k |-> "absent", name |-> "", uri |-> ""]
UnknownDm == [k |-> "unknown", name |-> "", uri |-> "other"]
Dm(name, uri) == [k |-> "known", name |-> name, uri |-> IF name = "sha1" THEN "both" ELSE uri]
\* element (EncryptedData or EncryptedKey).
\*   em   : "absent" | "noattr" | "unknown" | algorithm name
\*   cv   : "ok" | "nocd" | "nocv" | "badb64"        len : decoded CipherValue length
\*   dm   : ds:DigestMethod     mgf : xenc11:MGF digest name or "absent"
\*   cert : class of ds:KeyInfo/ds:X509Data (table X509 below): "absent" | key name of the embedded certificate |
\*          "garbage" | ...
\*   eks  : EncryptedKey children of KeyInfo, in document order
\*   oaepp: xenc:OAEPparams child of EncryptionMethod: "absent" | "empty" (present, no octets: the same empty label) |
\*          "label" (the octets "L")
\*   ks   : an xenc:KeySize child of EncryptionMethod is present (holding the key size the algorithm implies)
\* Every child of EncryptionMethod is optional (XML-Enc 1.1 schema: KeySize?, OAEPparams?, any##other*): absent
\* ds:DigestMethod means SHA-1, absent xenc11:MGF means MGF1 with SHA-1, absent OAEPparams the empty label.
\* Round 5:
\*   mgfid: the lexical class of the Algorithm identifier of the xenc11:MGF element (table MgfId): "none" (no MGF
\*          element) | "w3c" (http://www.w3.org/2009/xmlenc11#mgf1<mgf>) | a class that names no mask generation function
\*          (then mgf = "unnamed")
\*   id   : the Id attribute: "none" (no attribute) | "empty" (Id="") | a name
\*   ki   : ds:KeyInfo as the sequence of its items in document order (operator KiOf): <<>> stands for the order all
\*          earlier families are written in - the EncryptedKey children, then the X509Data of class cert
El(em, cv, len, ct, dm, mgf, cert, eks) ==
  [em |-> em, cv |-> cv, len |-> len, ct |-> ct, dm |-> dm, mgf |-> mgf, cert |-> cert, eks |-> eks,
   oaepp |-> "absent", ks |-> FALSE, mgfid |-> IF mgf = "absent" THEN "none" ELSE "w3c", id |-> "none", ki |-> <<>>]
DataEl(em, cv, len, ct, eks) == El(em, cv, len, ct, NoDm, "absent", "absent", eks)

\* The Algorithm identifier of xenc11:MGF as a string: what an implementation can do with it before it knows whether it
\* names anything - look for the attribute, look for a '#', cut behind it.
\*   attr : the attribute is present         hash : the identifier contains a '#'
\*   tail : how many characters stand behind its last '#' (without '#': how many it has): "0" | "1-3" | "4+"
\*   w3c  : it is one of the identifiers XML-Enc 1.1 defines (mgf1sha1 ... mgf1sha512)
MgfId(c) ==
  LET I(attr, hash, tail, w3c) == [attr |-> attr, hash |-> hash, tail |-> tail, w3c |-> w3c] IN
  CASE c = "noattr"          -> I(FALSE, FALSE, "0", FALSE)    \* <xenc11:MGF/>
    [] c = "empty"           -> I(TRUE, FALSE, "0", FALSE)     \* Algorithm=""
    [] c = "bare-short"      -> I(TRUE, FALSE, "1-3", FALSE)   \* "mgf"
    [] c = "bare-long"       -> I(TRUE, FALSE, "4+", FALSE)    \* "mgf1sha256": the local part alone
    [] c = "hash-last"       -> I(TRUE, TRUE, "0", FALSE)      \* "http://www.w3.org/2009/xmlenc11#"
    [] c = "short"           -> I(TRUE, TRUE, "1-3", FALSE)    \* "http://www.w3.org/2009/xmlenc11#mgf"
    [] c = "short-foreign"   -> I(TRUE, TRUE, "1-3", FALSE)    \* "urn:x#sha"
    [] c = "unknown"         -> I(TRUE, TRUE, "4+", FALSE)     \* "http://www.w3.org/2009/xmlenc11#mgf1sha3-256"
    [] c = "unknown-foreign" -> I(TRUE, TRUE, "4+", FALSE)     \* "http://example.com/verif/unknown#mgf1sha256"
    [] OTHER                 -> I(TRUE, TRUE, "4+", TRUE)      \* "w3c"; "none": the default identifier ...#mgf1sha1 stands in
MgfIdClasses == {"noattr", "empty", "bare-short", "bare-long", "hash-last", "short", "short-foreign", "unknown", "unknown-foreign"}

\* ds:KeyInfo as a sequence of items.  An item is [k, n, uri, to]:
\*   k = "ek"   the n-th element of eks (an inline xenc:EncryptedKey)
\*   k = "x509" the X509Data element(s) of class cert
\*   k = "name" a ds:KeyName
\*   k = "rm"   a ds:RetrievalMethod (Type = ...xmlenc#EncryptedKey) whose URI attribute has the lexical class uri and,
\*              where the class names an element, names the element whose Id is to
Item(k, n, u, to) == [k |-> k, n |-> n, uri |-> u, to |-> to]
EkIt(i) == Item("ek", i, "", "")
X5It == Item("x509", 0, "", "")
NameIt == Item("name", 0, "", "")
Rm(u, to) == Item("rm", 0, u, to)
IsRm(it) == it.k = "rm"
KiStd(eks, cert) == [i \in 1..Len(eks) |-> EkIt(i)] \o (IF cert = "absent" THEN <<>> ELSE <<X5It>>)
KiOf(e) == IF e.ki = <<>> THEN KiStd(e.eks, e.cert) ELSE e.ki
\* the URI attribute of a RetrievalMethod as a string (t: the Id of the element meant):
\*   attr    : the attribute is present             frag : it begins with '#' (a same-document reference)
\*   idtext  : what remains behind a leading '#': "to" the Id meant | "empty" nothing | "other" anything else
\*   special : the characters of XPath / etree-path syntax in it: "quote" an apostrophe, "bracket" an opening bracket
\*   denotes : where a conformant same-document dereference arrives (XML-Signature 4.4.3.2/3): "to" | "none"
RmUri(u) ==
  LET U(attr, frag, idtext, special, denotes) == [attr |-> attr, frag |-> frag, idtext |-> idtext, special |-> special, denotes |-> denotes] IN
  CASE u = "plain"    -> U(TRUE, TRUE, "to", {}, "to")                 \* "#t"
    [] u = "dangling" -> U(TRUE, TRUE, "other", {}, "none")            \* "#nobody"
    [] u = "empty"    -> U(TRUE, FALSE, "empty", {}, "none")           \* "" (the document)
    [] u = "noattr"   -> U(FALSE, FALSE, "empty", {}, "none")
    [] u = "hashonly" -> U(TRUE, TRUE, "empty", {}, "none")            \* "#"
    [] u = "bare"     -> U(TRUE, FALSE, "to", {}, "none")              \* "t": a relative reference to another resource
    [] u = "quote"    -> U(TRUE, TRUE, "other", {"quote"}, "none")     \* "#it's"  (an apostrophe is a legal URI character)
    [] u = "dquote"   -> U(TRUE, TRUE, "other", {}, "none")            \* '#t"1'
    [] u = "brackets" -> U(TRUE, TRUE, "other", {"bracket"}, "none")   \* "#t[1]"
    [] u = "xpointer" -> U(TRUE, TRUE, "other", {"quote"}, "to")       \* "#xpointer(id('t'))"
    [] u = "external" -> U(TRUE, FALSE, "other", {}, "none")           \* "http://example.com/keys.xml#t"
RmUris == {"plain", "dangling", "empty", "noattr", "hashonly", "bare", "quote", "dquote", "brackets", "xpointer", "external"}

\* X509Data classes.  The content of ds:KeyInfo/ds:X509Data is a sequence of ITEMS in document order, [kind, n, e]:
\*   a certificate (X509Certificate): kind rsa | ec | garbage (text that is not a certificate), n the identity of the
\*     modulus (name of the key pair), e the public exponent ("F4" = 65537 | "3");
\*   a hint: kind is (X509IssuerSerial) | sn (X509SubjectName) | ski (X509SKI), taken from the certificate of key pair n.
\* data: an X509Data element is present; items: its children; certs: the X509Certificate children among them, in
\* document order; ws: the base64 text is line-wrapped and indented / surrounded by white space (allowed by
\* xs:base64Binary); split: every item sits in an X509Data element of its own (KeyInfo may hold several).
Crt(kind, n, e) == [kind |-> kind, n |-> n, e |-> e]
Hint(kind, of) == Crt(kind, of, "none")
IsCrt(it) == it.kind \in {"rsa", "ec", "garbage"}
XI(items, ws, split) == [data |-> TRUE, items |-> items, certs |-> SelectSeq(items, IsCrt), ws |-> ws, split |-> split]
XD(certs, ws) == XI(certs, ws, FALSE)
X509Base(c) ==
           CASE c = "absent"  -> [data |-> FALSE, items |-> <<>>, certs |-> <<>>, ws |-> FALSE, split |-> FALSE]
             [] c = "nocert"  -> XD(<<>>, FALSE)                                   \* an X509Data element without children
             [] c = "sp"      -> XD(<<Crt("rsa", "sp", "F4")>>, FALSE)
             [] c = "sp2"     -> XD(<<Crt("rsa", "sp2", "F4")>>, FALSE)             \* other modulus, same exponent
             [] c = "sp-e3"   -> XD(<<Crt("rsa", "sp", "3")>>, FALSE)               \* same modulus, other exponent
             [] c = "sp2-e3"  -> XD(<<Crt("rsa", "sp2", "3")>>, FALSE)
             [] c = "rsa1024" -> XD(<<Crt("rsa", "rsa1024", "F4")>>, FALSE)         \* RSA key of another size
             [] c = "rsa3072" -> XD(<<Crt("rsa", "rsa3072", "F4")>>, FALSE)
             [] c = "ec256"   -> XD(<<Crt("ec", "ec256", "none")>>, FALSE)
             [] c = "garbage" -> XD(<<Crt("garbage", "none", "none")>>, FALSE)
             [] c = "sp-ws"   -> XD(<<Crt("rsa", "sp", "F4")>>, TRUE)
             [] c = "sp2-ws"  -> XD(<<Crt("rsa", "sp2", "F4")>>, TRUE)
             [] c = "sp+sp2"  -> XD(<<Crt("rsa", "sp", "F4"), Crt("rsa", "sp2", "F4")>>, FALSE)   \* two certificates
             [] c = "sp2+sp"  -> XD(<<Crt("rsa", "sp2", "F4"), Crt("rsa", "sp", "F4")>>, FALSE)
             [] c = "mp3"     -> XD(<<Crt("rsa", "mp3", "F4")>>, FALSE)            \* the three-prime key pair
CertNames == {"absent", "nocert", "sp", "sp2", "sp-e3", "sp2-e3", "rsa1024", "rsa3072", "ec256", "garbage",
              "sp-ws", "sp2-ws", "sp+sp2", "sp2+sp"}
\* hints, alone and combined with certificates: in front of them, behind them, in an X509Data of their own ("|").
\* "is+sp2" = the X509IssuerSerial of the recipient's certificate followed by the certificate of another key;
\* "is2+sn2+ski2+sp2" = what xmlsec / Shibboleth write for another recipient.
HintSeq(h) == CASE h = "is"  -> <<Hint("is", "sp")>>  [] h = "is2" -> <<Hint("is", "sp2")>>
                [] h = "sn"  -> <<Hint("sn", "sp")>>  [] h = "ski" -> <<Hint("ski", "sp")>>
                [] h = "is+sn+ski"    -> <<Hint("is", "sp"), Hint("sn", "sp"), Hint("ski", "sp")>>
                [] h = "is2+sn2+ski2" -> <<Hint("is", "sp2"), Hint("sn", "sp2"), Hint("ski", "sp2")>>
Thorough == Family \in {"C10t", "C11t"}
XHints == IF Thorough THEN {"is", "is2", "sn", "ski", "is+sn+ski", "is2+sn2+ski2"} ELSE {"is", "sn", "ski", "is2+sn2+ski2"}
XCerts == IF Thorough THEN {"sp", "sp2", "sp-e3", "ec256", "garbage", "sp+sp2", "sp2+sp", "sp2-ws"}
                      ELSE {"sp", "sp2", "sp-e3", "ec256"}
XGen == { [name |-> h, x |-> XI(HintSeq(h), FALSE, FALSE)] : h \in XHints }
        \cup UNION { { [name |-> h \o "+" \o cc, x |-> XI(HintSeq(h) \o X509Base(cc).certs, X509Base(cc).ws, FALSE)],
                       [name |-> cc \o "+" \o h, x |-> XI(X509Base(cc).certs \o HintSeq(h), X509Base(cc).ws, FALSE)],
                       [name |-> h \o "|" \o cc, x |-> XI(HintSeq(h) \o X509Base(cc).certs, X509Base(cc).ws, TRUE)],
                       [name |-> cc \o "|" \o h, x |-> XI(X509Base(cc).certs \o HintSeq(h), X509Base(cc).ws, TRUE)] }
                     : h \in XHints, cc \in XCerts }
HintNames == { g.name : g \in XGen }
X509(c) == IF c \in CertNames \cup {"mp3"} THEN X509Base(c) ELSE (CHOOSE g \in XGen : g.name = c).x

(******************************* lexical form ******************************)
\* How a producer writes an element tree as XML text.  XML-Encryption / XML-Signature fix namespace names and local
\* names, nothing else: every form below is the SAME element tree to a conformant consumer.
\*   xenc, ds, xenc11 : how the elements of http://www.w3.org/2001/04/xmlenc# (EncryptedData, EncryptedKey,
\*          EncryptionMethod, CipherData, CipherValue), http://www.w3.org/2000/09/xmldsig# (KeyInfo, DigestMethod, X509Data
\*          and its children) and http://www.w3.org/2009/xmlenc11# (MGF) are named:
\*            "pkg"     with the prefix the package itself writes (xenc: / ds: / xenc11:)
\*            "other"   with another prefix (enc: / dsig: / e11:)
\*            "default" without prefix, the namespace being the default namespace (xmlns="...")
\*   decl : where the namespace declarations stand: "self" on the first element that needs one (what the package does),
\*          "each" repeated on every element, "top" all on the element handed to Decrypt, "ancestor" on an element
\*          enclosing it (a default-namespace declaration that cannot stand there stands on the element itself)
\*   attr : "std" declarations first, then Algorithm / Id ... | "rev" the reverse order
\*   ws   : white space (line break, indentation) between the child elements of every element that has child elements
\*   cmt  : comments between the child elements
Lex(x, d, x11, decl, attr, ws, cmt) == [xenc |-> x, ds |-> d, xenc11 |-> x11, decl |-> decl, attr |-> attr, ws |-> ws, cmt |-> cmt]
LexPkg == Lex("pkg", "pkg", "pkg", "self", "std", FALSE, FALSE)
LexAll == { Lex(x, d, x11, dc, at, w, cm) : x \in {"pkg", "other", "default"}, d \in {"pkg", "other", "default"},
            x11 \in {"pkg", "other", "default"}, dc \in {"self", "each", "top", "ancestor"}, at \in {"std", "rev"},
            w \in BOOLEAN, cm \in BOOLEAN }
Uniform(l) == l.xenc = l.ds /\ l.ds = l.xenc11
Plain(l) == l.attr = "std" /\ ~l.ws /\ ~l.cmt
Busy(l) == l.attr = "rev" /\ l.ws /\ l.cmt
NonPkg(l) == Cardinality({ n \in {"xenc", "ds", "xenc11"} : l[n] # "pkg" })
\* the forms enumerated.  C10 quick: one form of binding for all three namespaces x every place of declaration, plain and
\* with {attributes reversed, white space, comments} together; every mixed binding (declared on the element, plain);
\* attribute order / white space / comments in every combination with the package's own bindings.
\* C11 quick: one form of binding x every place of declaration plain, declared on the element also busy; the mixed
\* bindings in which one namespace departs from the package's prefix.
\* C10 thorough: all uniform forms; all mixed bindings declared on the element or on an ancestor, plain and busy.
\* C11 thorough: the uniform forms plain and busy for every place of declaration, in every combination of attribute
\* order / white space / comments when declared on the element; all mixed bindings declared on the element, plain.
LexC10q == { l \in LexAll : \/ Uniform(l) /\ (Plain(l) \/ Busy(l))
                            \/ l.decl = "self" /\ Plain(l)
                            \/ Uniform(l) /\ l.xenc = "pkg" /\ l.decl = "self" }
LexC11q == { l \in LexAll : \/ Uniform(l) /\ (Plain(l) \/ (Busy(l) /\ l.decl = "self"))
                            \/ NonPkg(l) = 1 /\ l.decl = "self" /\ Plain(l) }
LexC10t == { l \in LexAll : Uniform(l) \/ (l.decl \in {"self", "ancestor"} /\ (Plain(l) \/ Busy(l))) }
LexC11t == { l \in LexAll : (Uniform(l) /\ (Plain(l) \/ Busy(l) \/ l.decl = "self")) \/ (l.decl = "self" /\ Plain(l)) }
LexForms == CASE Family = "C10q" -> LexC10q [] Family = "C11q" -> LexC11q [] Family = "C10t" -> LexC10t [] OTHER -> LexC11t
NsOf(name) == CASE name \in {"EncryptedData", "EncryptedKey", "EncryptionMethod", "CipherData", "CipherValue", "KeySize", "OAEPparams"} -> "xenc"
                [] name = "MGF" -> "xenc11"
                [] OTHER -> "ds"     \* KeyInfo, DigestMethod, X509Data, X509Certificate, X509IssuerSerial, RetrievalMethod, KeyName ...
\* The lookups of the code are etree paths (decrypt.go:56 ./EncryptionMethod, :69 ./CipherData/CipherValue,
\* :98 ./KeyInfo/X509Data/X509Certificate, :116 ./KeyInfo/X509Data/X509IssuerSerial; pubkey.go:120
\* ./EncryptionMethod/DigestMethod, :137 ./EncryptionMethod/MGF; cbc.go:86, gcm.go:91 ./KeyInfo/EncryptedKey).  A path
\* step without prefix selects the child elements of that local name whatever their prefix or default namespace, among
\* the child ELEMENTS (white space and comments are other tokens) ; Algorithm is read by name (SelectAttrValue), whatever
\* its position.  A step "p:Name" would select only elements written with the literal prefix p: a lookup named in
\* PrefixBound sees an element only in the forms that use the package's prefix for its namespace.
Sees(d, lex, name) == name \notin d.PrefixBound \/ lex[NsOf(name)] = "pkg"
\* the element as the lookups of an implementation with deviations d see it when it is written in form lex
View(d, lex, e) ==
  LET s(names) == \A n \in names : Sees(d, lex, n) IN
  [e EXCEPT !.em   = IF s({"EncryptionMethod"}) THEN @ ELSE "absent",
            !.dm   = IF s({"EncryptionMethod", "DigestMethod"}) THEN @ ELSE [k |-> "absent", name |-> "", uri |-> ""],
            !.mgf  = IF s({"EncryptionMethod", "MGF"}) THEN @ ELSE "absent",
            !.mgfid = IF s({"EncryptionMethod", "MGF"}) THEN @ ELSE "none",
            !.ki   = IF s({"KeyInfo", "RetrievalMethod"}) THEN @ ELSE SelectSeq(@, LAMBDA it : ~IsRm(it)),
            !.oaepp = IF s({"EncryptionMethod", "OAEPparams"}) THEN @ ELSE "absent",
            !.ks   = IF s({"EncryptionMethod", "KeySize"}) THEN @ ELSE FALSE,
            !.eks  = IF s({"KeyInfo", "EncryptedKey"}) THEN @ ELSE <<>>,
            !.cert = IF s({"KeyInfo", "X509Data"}) THEN @ ELSE "absent",
            !.cv   = IF @ = "ok" /\ ~s({"CipherData", "CipherValue"}) THEN "nocv" ELSE @]

PadLen(n, bs) == bs - (n % bs)

(********************* the value of a symmetric key ************************)
\* "Every key of the right size": a key is a sequence of 8-octet PARTS (3DES: the DES sub-keys K1 K2 K3; AES-128 / 192 / 256:
\* 2 / 3 / 4 parts).  A part is [src, kind, parity]; parts with the same src are the same octets; kind:
\*   random   8 random octets      zero  00 x 8      ff  FF x 8      byte  one random octet x 8
\*   weak     one of the four DES weak keys (0101010101010101 FEFEFEFEFEFEFEFE E0E0E0E0F1F1F1F1 1F1F1F1F0E0E0E0E), chosen by src
\*   semiweak one key of one of the six DES semi-weak pairs (01FE01FE01FE01FE / FE01FE01FE01FE01 ...), chosen by src;
\*   mate     the other key of the pair of src
\* parity: "odd" every octet has odd parity (the form FIPS 46-3 prescribes for DES keys) | "even" every octet has even
\*         parity | "any" as the octets fall (weak and semi-weak keys are written with odd parity; 00 and FF have even parity)
Part(src, kind, parity) == [src |-> src, kind |-> kind, parity |-> parity]
R(src) == Part(src, "random", "any")
NParts(a) == W3C(a).key \div 8
DesClasses == {"std", "odd", "even", "k1=k2", "k2=k3", "k1=k3", "k1=k2=k3", "zero", "ff", "byte", "weak", "semiweak", "semiweak-pair"}
AesClasses(a) == {"std", "zero", "ff", "byte", "rep8"} \cup (IF NParts(a) = 4 THEN {"rep16"} ELSE {})
KeyClasses(a) == IF a = "tripledes-cbc" THEN DesClasses ELSE AesClasses(a)
KeyParts(a, v) ==
  LET n == NParts(a) src(i) == <<"a", "b", "c", "d">>[i] IN
  CASE v = "std"           -> [i \in 1..n |-> R(src(i))]
    [] v = "odd"           -> [i \in 1..n |-> Part(src(i), "random", "odd")]
    [] v = "even"          -> [i \in 1..n |-> Part(src(i), "random", "even")]
    [] v = "k1=k2"         -> <<R("a"), R("a"), R("b")>>
    [] v = "k2=k3"         -> <<R("a"), R("b"), R("b")>>
    [] v = "k1=k3"         -> <<R("a"), R("b"), R("a")>>              \* two-key triple DES
    [] v = "k1=k2=k3"      -> [i \in 1..n |-> R("a")]                 \* single DES written as a 3DES key
    [] v = "rep8"          -> [i \in 1..n |-> R("a")]                 \* AES: the same 8 octets throughout
    [] v = "rep16"         -> <<R("a"), R("b"), R("a"), R("b")>>      \* AES-256: the same 16 octets twice
    [] v = "zero"          -> [i \in 1..n |-> Part("z", "zero", "any")]
    [] v = "ff"            -> [i \in 1..n |-> Part("f", "ff", "any")]
    [] v = "byte"          -> [i \in 1..n |-> Part("a", "byte", "any")]
    [] v = "weak"          -> [i \in 1..n |-> Part(src(i), "weak", "any")]
    [] v = "semiweak"      -> [i \in 1..n |-> Part(src(i), "semiweak", "any")]
    [] v = "semiweak-pair" -> <<Part("a", "semiweak", "any"), Part("a", "mate", "any"), R("c")>>
    [] OTHER               -> <<>>                                    \* "nilslice"; values that are not byte strings
\* cbc.go:44 / :106, gcm.go:46 / :108  block, err := e.cipher(key): does the constructor of an implementation with the refusal
\* rules d.KeyRefusal refuse the key value v for algorithm a?  (The W3C identifiers put no condition on a key but its size.)
Refuses(d, a, v) ==
  LET p == KeyParts(a, v) c == Cipher(d, a) des == c \in {"3des", "des"} IN
  /\ d.KeyRefusal # {} /\ p # <<>>
  /\ \/ "3des-adjacent-equal" \in d.KeyRefusal /\ c = "3des" /\ (p[1] = p[2] \/ p[2] = p[3])
     \/ "3des-any-equal" \in d.KeyRefusal /\ c = "3des" /\ (p[1] = p[2] \/ p[2] = p[3] \/ p[1] = p[3])
     \/ "des-weak" \in d.KeyRefusal /\ des /\ \E i \in DOMAIN p : p[i].kind \in {"weak", "semiweak", "mate", "zero", "ff"}
     \/ "des-parity" \in d.KeyRefusal /\ des /\ \E i \in DOMAIN p : ~(p[i].parity = "odd" \/ p[i].kind \in {"weak", "semiweak", "mate"})
     \/ "uniform" \in d.KeyRefusal /\ \A i \in DOMAIN p : p[i].kind \in {"zero", "ff", "byte"}

(******************************* case spaces *******************************)
\* ---- C10: every offered combination
KtCases == {[kt |-> "direct", dm |-> "none"]}
           \cup {[kt |-> "rsa-oaep-mgf1p", dm |-> h] : h \in Digests}          \* OAEP() x DigestMethod
           \cup {[kt |-> "rsa-oaep11", dm |-> h] : h \in {"sha256", "sha512"}} \* OAEP_SHA256(), OAEP_SHA512()
           \cup {[kt |-> "rsa-1_5", dm |-> "none"]}                            \* PKCS1v15()
PLens(a) == 0 .. (4 * W3C(a).block + 1)
\* ---- the encrypter as a VALUE (round 6).  The package offers its RSA key transports as values: a constructor returns an
\* RSA value "ready to use" whose exported fields BlockCipher and DigestMethod may be reassigned ("You can specify other
\* ciphers and digest methods by assigning to BlockCipher or DigestMethod", pubkey.go:179-183, :196-199, :213-216); a
\* BlockCipher value is an Encrypter by itself (direct key).
\*   ctor  : "OAEP" | "OAEP_SHA256" | "OAEP_SHA512" | "PKCS1v15" | "none" (a BlockCipher value used directly)
\*   setdm : "asis" (DigestMethod left as constructed) | the digest assigned to the field afterwards
\*   setbc : "asis" (BlockCipher left as constructed: AES-256-CBC) | the block cipher assigned afterwards
Ctors == {"OAEP", "OAEP_SHA256", "OAEP_SHA512", "PKCS1v15"}
CtorAlg(k) == CASE k = "OAEP" -> "rsa-oaep-mgf1p" [] k \in {"OAEP_SHA256", "OAEP_SHA512"} -> "rsa-oaep11"
                [] k = "PKCS1v15" -> "rsa-1_5" [] OTHER -> "direct"
CtorDm(k) == CASE k \in {"OAEP", "OAEP_SHA256"} -> "sha256" [] k = "OAEP_SHA512" -> "sha512" [] OTHER -> "none"   \* pubkey.go:187, :204, :221, :238
CtorBc == "aes256-cbc"                                                                                        \* pubkey.go:186, :203, :220, :237
Enc(k, sd, sb) == [ctor |-> k, setdm |-> sd, setbc |-> sb]
NoEnc == Enc("none", "asis", "asis")
\* the fields of the value when Encrypt is called on it
EncDm(e) == IF e.setdm = "asis" THEN CtorDm(e.ctor) ELSE e.setdm
EncBc(e) == IF e.setbc = "asis" THEN CtorBc ELSE e.setbc
\* the sites at which RSA.Encrypt reads a field: pubkey.go:44 e.BlockCipher.KeySize() (size of the session key), :69-72
\* e.DigestMethod -> ds:DigestMethod, :73-85 e.DigestMethod -> xenc11:MGF, :93 keyEncrypter(e, ...) -> e.DigestMethod.Hash()
\* (OAEP hash and, crypto/rsa having one hash parameter, the MGF1 hash), :98 e.BlockCipher.Encrypt
EncSites == {"keysize", "dm-element", "mgf-element", "wrap-digest", "data-cipher"}
\* how the families other than "enc" obtain the encrypter of a combination (harness: c10PkgEncrypter builds it from this)
StdEnc(kt, dm, a) == CASE kt = "rsa-oaep-mgf1p" -> Enc("OAEP", dm, a)
                       [] kt = "rsa-oaep11"     -> IF dm = "sha512" THEN Enc("OAEP_SHA512", "asis", a)
                                                   ELSE Enc("OAEP_SHA256", IF dm = "sha256" THEN "asis" ELSE dm, a)
                       [] kt = "rsa-1_5"        -> Enc("PKCS1v15", "asis", a)
                       [] OTHER                 -> NoEnc
\* XML-Enc 1.1 5.5.2 names MGF1 over SHA-1 / 224 / 256 / 384 / 512: of the digests offered, RIPEMD-160 has no MGF identifier
MgfDigests == {"sha1", "sha256", "sha512"}
\* fam "base": the three directions, everything in the package's own lexical form, the recipient's certificate embedded.
\* lex : lexical form in which the independent producer writes its element;  ki : X509Data class it embeds
\* mgfd: the digest of the MGF1 the key is wrapped with (rsa-oaep-mgf1p: SHA-1 by definition; xmlenc11 rsa-oaep: named by
\*       xenc11:MGF, what the package offers is MGF1 over the DigestMethod's hash)
\* opt : which optional parts of EncryptionMethod the INDEPENDENT PRODUCER writes (the package's own output has one form):
\*       dm / mgf "named" | "absent"; oaepp "absent" | "empty" | "label"; ks KeySize written in the data EncryptionMethod
\* kv  : the value class of the symmetric key (table KeyParts): the caller's key with a direct key; with a key transport
\*       the session key the independent producer draws (the package draws its own from RandReader: "std")
Oaep(kt) == kt \in {"rsa-oaep-mgf1p", "rsa-oaep11"}
OptStd(kt) == [dm |-> IF Oaep(kt) THEN "named" ELSE "absent", mgf |-> IF kt = "rsa-oaep11" THEN "named" ELSE "absent",
               oaepp |-> "absent", ks |-> FALSE]
StdMgf(kt, dm) == IF kt = "rsa-oaep11" THEN dm ELSE IF kt = "rsa-oaep-mgf1p" THEN "sha1" ELSE "none"
\* rsa : the RECIPIENT'S RSA KEY PAIR (round 7; a key transport only) -
\*   shape what the *rsa.PrivateKey handed to the package's Decrypt holds (table RsaParts; the certificate handed to Encrypt
\*         is the matching one, the independent implementation holds the key in its own way: "std")
\*   mod   the size of the modulus against the room OAEP leaves for the session key, k - 2 hLen - 2 octets (RFC 8017 7.1.1):
\*         "roomy" the 2048-bit harness key pair "sp" | "fit" the session key of the block cipher fills the room exactly
\*         (k = 2 hLen + 2 + key octets: 1296 bits for SHA-512 with AES-256, 464 bits for SHA-1 with AES-128) | "short" one
\*         octet less: the session key cannot be wrapped.  Such a key pair is "m<octets>"; in a C10 case the certificate
\*         name "sp" stands for the recipient's certificate, whichever key pair that is (RcptId).
Rsa(shape, mod) == [shape |-> shape, mod |-> mod]
StdRsa == Rsa("std", "roomy")
HLen(h) == CASE h \in {"sha1", "ripemd160"} -> 20 [] h = "sha256" -> 32 [] h = "sha512" -> 64 [] OTHER -> 0
FitBytes(x) == 2 * HLen(x.dm) + 2 + W3C(x.bc).key
RcptBytes(x) == CASE x.rsa.mod = "fit" -> FitBytes(x) [] x.rsa.mod = "short" -> FitBytes(x) - 1 [] OTHER -> 256
RcptId(x) == IF x.rsa.mod = "roomy" THEN "sp" ELSE "m" \o ToString(RcptBytes(x))
Case(fam, a, k, n, nn, l, x) ==
  [fam |-> fam, bc |-> a, kt |-> k.kt, dm |-> k.dm, plen |-> n, nonce |-> nn, lex |-> l, ki |-> x,
   mgfd |-> StdMgf(k.kt, k.dm), opt |-> OptStd(k.kt), kv |-> "std", enc |-> StdEnc(k.kt, k.dm, a), rsa |-> StdRsa]
C10Cases == { Case("base", a, k, n, nn, LexPkg, "sp") : a \in BCs, k \in KtCases, n \in 0..65, nn \in {"supplied", "generated"} }
\* fam "lex": direction ref2pkg only.  The independent producer writes the same ciphertexts in every lexical form and
\* with the key information conformant producers embed: the recipient's certificate, its X509IssuerSerial followed by
\* the certificate (xmlsec, Shibboleth), none.  (The package's own output has one form: it is family "base".)
C10LexBcs == IF Thorough THEN {"aes128-cbc", "aes256-cbc", "tripledes-cbc", "aes128-gcm"} ELSE {"aes128-cbc", "aes128-gcm"}
C10LexLens == IF Thorough THEN {0, 17} ELSE {17}
\* key information other than the bare certificate: with one form of binding for all namespaces, declared on the element
C10Kis(kt, l) == IF kt = "direct" THEN {"absent"}
                 ELSE IF Uniform(l) /\ Plain(l) /\ l.decl = "self" THEN {"sp", "is+sp", "absent"} ELSE {"sp"}
C10Lex == UNION { { Case("lex", a, k, n, "supplied", l, x) :
                    a \in C10LexBcs, n \in C10LexLens, x \in C10Kis(k.kt, l) } : k \in KtCases, l \in LexForms }
\* fam "opt": direction ref2pkg only.  The independent producer leaves out the parts of EncryptionMethod whose W3C default
\* is the value it means, writes an empty OAEPparams, writes KeySize.  Key transports: everything the package offers
\* (xmlenc11 rsa-oaep with SHA-1 is offered by assigning DigestMethod) and, as cases the statement leaves open, xmlenc11
\* rsa-oaep with an MGF1 digest other than the DigestMethod's and a non-empty OAEP label.
OptKts == { [kt |-> "rsa-oaep-mgf1p", dm |-> h, mgfd |-> "sha1"] : h \in Digests }
          \cup { [kt |-> "rsa-oaep11", dm |-> h, mgfd |-> h] : h \in {"sha1", "sha256", "sha512"} }
          \cup { [kt |-> "rsa-oaep11", dm |-> "sha256", mgfd |-> "sha1"], [kt |-> "rsa-oaep11", dm |-> "sha1", mgfd |-> "sha256"] }
          \cup { [kt |-> "rsa-1_5", dm |-> "none", mgfd |-> "none"], [kt |-> "direct", dm |-> "none", mgfd |-> "none"] }
\* the correct ways of writing the parameters k: a part may be left out exactly when the W3C default is the value meant
Opts(k) == { o \in [dm : {"named", "absent"}, mgf : {"named", "absent"}, oaepp : {"absent", "empty", "label"}, ks : BOOLEAN] :
               /\ (o.dm = "named" => Oaep(k.kt)) /\ (o.dm = "absent" /\ Oaep(k.kt) => k.dm = "sha1")
               /\ (o.mgf = "named" => k.kt = "rsa-oaep11") /\ (o.mgf = "absent" /\ k.kt = "rsa-oaep11" => k.mgfd = "sha1")
               /\ (o.oaepp # "absent" => Oaep(k.kt)) }
OptBcs == IF Thorough THEN BCs ELSE {"aes128-cbc", "aes128-gcm"}
OptLex == IF Thorough THEN { l \in LexAll : Uniform(l) /\ l.decl = "self" /\ (Plain(l) \/ Busy(l)) }
                      ELSE { LexPkg, Lex("other", "other", "other", "self", "std", FALSE, FALSE) }
C10Opt == UNION { { [Case("opt", a, k, 17, "supplied", l, IF k.kt = "direct" THEN "absent" ELSE "sp")
                       EXCEPT !.mgfd = k.mgfd, !.opt = o] : a \in OptBcs, l \in OptLex, o \in Opts(k) } : k \in OptKts }
\* fam "keyval": every value class of the key, for every block cipher.  Direct key: the three directions (the caller
\* supplies the key to Encrypt and to Decrypt).  Key transport: direction ref2pkg (the session key of the independent
\* producer arrives wrapped).
KvLens == IF Thorough THEN {0, 1, 7, 8, 9, 16, 17, 33} ELSE {0, 17}
C10Kv == UNION { { [Case("keyval", a, k, n, "supplied", LexPkg, "sp") EXCEPT !.kv = v] :
                   k \in {[kt |-> "direct", dm |-> "none"], [kt |-> "rsa-oaep-mgf1p", dm |-> "sha1"]}, n \in KvLens, v \in KeyClasses(a) }
                 : a \in BCs }
\* fam "enc" (round 6): directions self and pkg2ref (the independent producer has no constructors).  Every constructor x
\* DigestMethod left as constructed / reassigned to every digest x BlockCipher left as constructed / reassigned to every
\* block cipher.  The combination encrypted with is the one the FIELDS name when Encrypt is called.
EncLens == IF Thorough THEN {0, 17, 33} ELSE {17}
EncNonces == IF Thorough THEN {"supplied", "generated"} ELSE {"supplied"}
EncVals == { Enc(k, sd, sb) : k \in Ctors, sd \in {"asis"} \cup Digests, sb \in {"asis"} \cup BCs }
C10Enc == { [Case("enc", EncBc(e), [kt |-> CtorAlg(e.ctor), dm |-> EncDm(e)], n, nn, LexPkg, "sp") EXCEPT !.enc = e] :
            e \in EncVals, n \in EncLens, nn \in EncNonces }
\* fam "rsakey" (round 7): "decrypting what the package encrypted returns the plaintext" is said of the recipient's key, and
\* a key is handed to the package as an *rsa.PrivateKey value: every row of table RsaParts x every RSA key transport.  The
\* three directions; the shape is that of the value handed to the PACKAGE's Decrypt (self, ref2pkg).
RkKts == { k \in KtCases : k.kt # "direct" }
RkBcs == IF Thorough THEN {"aes128-cbc", "aes256-cbc", "aes128-gcm"} ELSE {"aes128-cbc"}
C10Rk == { [Case("rsakey", a, k, 17, "supplied", LexPkg, "sp") EXCEPT !.rsa = Rsa(s, "roomy")] :
           a \in RkBcs, k \in RkKts, s \in RsaShapes }
\* fam "modulus" (round 7): the size of the recipient's modulus against the OAEP limit, per digest and block cipher (the
\* size of the session key).  "roomy" is the control; "fit" runs the three directions; with "short" nobody can wrap the
\* session key: the package's Encrypt only (it must refuse).
ModKts == { k \in KtCases : Oaep(k.kt) }
C10Mod == { [Case("modulus", a, k, 17, "supplied", LexPkg, "sp") EXCEPT !.rsa = Rsa("std", m)] :
            a \in BCs, k \in ModKts, m \in {"roomy", "fit", "short"} }
\* (Family "C10dev": XmlEnc_C10dev.cfg runs family "enc" alone with the deviation of round 6 switched on in the required design;
\*  Family "C10dev7": XmlEnc_C10dev7.cfg runs families "rsakey" / "modulus" alone with the deviations of round 7 switched on)
C10Set == IF Family = "C10dev" THEN { x \in C10Enc : x.enc.setbc \in {"asis", "aes128-cbc"} }
          ELSE IF Family = "C10dev7" THEN { x \in C10Rk : x.bc = "aes128-cbc" } \cup C10Mod
          ELSE { x \in C10Cases : x.plen \in PLens(x.bc) } \cup C10Lex \cup C10Opt \cup C10Kv \cup C10Enc \cup C10Rk \cup C10Mod

\* ---- C11: elements an attacker can build.  Built with W3C parameters unless said otherwise.
\* data key "K" of length klen; genuine CBC body of n bytes whose final plaintext byte is p
RefCbc(a, klen, n, p) == Blk("cbc", W3C(a).cipher, "K", klen, W3C(a).iv, n, 0, Bytes(IF p >= 1 /\ p <= n THEN n - p ELSE 0, "P"), p, "p", FALSE, "none")
RefGcm(a, klen, n, mod) == Blk("gcm", "aes", "K", klen, 12, n, 16, Bytes(n, "P"), -1, "p", FALSE, mod)
\* RSA-wrapped key: scheme by kt, OAEP digest = DigestMethod (absent: SHA-1), MGF per W3C
RefHash(dm) == IF dm.k = "known" THEN dm.name ELSE "sha1"
RefMgf(kt, dm, mgf) == IF kt = "rsa-oaep-mgf1p" THEN "sha1" ELSE IF mgf = "absent" THEN "sha1" ELSE mgf
RefEK(kt, dm, mgf, cert, to, payload) ==
  El(kt, "ok", 256,
     IF kt = "rsa-1_5" THEN Wrap("pkcs1", "none", "none", to, payload)
                       ELSE Wrap("oaep", RefHash(dm), RefMgf(kt, dm, mgf), to, payload),
     dm, mgf, cert, <<>>)
StdEK(klen) == RefEK("rsa-oaep-mgf1p", Dm("sha1", "w3c"), "absent", "sp", "sp", Bytes(klen, "K"))
SpKey == KeyVal("rsa", 256, "sp")

\* representative final bytes for an aligned body of n bytes (block size bs)
PadReps(n, bs) == {p \in {0, 1, bs, bs + 1, n - 1, n, n + 1, 255} : p >= 0 /\ p <= 255}
KeyLens(a) == {W3C(a).key} \cup (IF a = "tripledes-cbc" THEN {8} ELSE {})
MaxLen(a) == W3C(a).iv + W3C(a).tag + 4 * W3C(a).block + 1

LenBlkVariants(a, klen, L) ==
  LET w == W3C(a) n == L - w.iv IN
  IF w.mode = "cbc"
    THEN IF n >= w.block /\ n % w.block = 0
           THEN { RefCbc(a, klen, n, p) : p \in PadReps(n, w.block) }
           ELSE { [Junk EXCEPT !.klen = klen] }
    ELSE IF L >= 28
           THEN { RefGcm(a, klen, L - 28, m) : m \in ({"none", "nonce", "tag"} \cup IF L > 28 THEN {"body"} ELSE {}) }
                \cup { [Junk EXCEPT !.klen = klen] }
           ELSE { [Junk EXCEPT !.klen = klen] }

\* F1: every length x final byte / modified region, direct key and RSA-wrapped key (also driven through the SP)
F1 == UNION { UNION { UNION { UNION {
        { [fam |-> "len", via |-> wk,
           el |-> DataEl(a, "ok", L, b, IF wk = "rsa" THEN <<StdEK(kl)>> ELSE <<>>),
           key |-> IF wk = "rsa" THEN SpKey ELSE KeyVal("bytes", kl, "K")] : b \in LenBlkVariants(a, kl, L) }
        : L \in 0..MaxLen(a) } : wk \in {"direct", "rsa"} } : kl \in KeyLens(a) } : a \in BCs }

\* good ciphertexts used as the base of the structural families
GoodBlk(a) == IF W3C(a).mode = "cbc" THEN RefCbc(a, W3C(a).key, 2 * W3C(a).block, 3) ELSE RefGcm(a, 16, 20, "none")
GoodLen(a) == IF W3C(a).mode = "cbc" THEN W3C(a).iv + 2 * W3C(a).block ELSE 12 + 20 + 16
GoodData(a, eks) == DataEl(a, "ok", GoodLen(a), GoodBlk(a), eks)
DirectKey(a) == KeyVal("bytes", W3C(a).key, "K")

\* F2: EncryptionMethod / CipherData structure, at the data level and at the key level
BadEm == {"absent", "noattr", "unknown"}
BadCv == {"nocd", "nocv", "badb64"}
F2 == UNION { { [fam |-> "struct", via |-> "direct", el |-> [GoodData(a, <<>>) EXCEPT !.em = e], key |-> DirectKey(a)] : e \in BadEm }
              \cup { [fam |-> "struct", via |-> "direct", el |-> [GoodData(a, <<>>) EXCEPT !.cv = v], key |-> DirectKey(a)] : v \in BadCv }
              \cup { [fam |-> "struct", via |-> "direct", el |-> [GoodData(a, <<>>) EXCEPT !.len = 0, !.ct = Junk], key |-> DirectKey(a)] }
              \cup { [fam |-> "struct", via |-> "rsa", el |-> GoodData(a, << [StdEK(W3C(a).key) EXCEPT !.em = e] >>), key |-> SpKey] : e \in BadEm }
              \cup { [fam |-> "struct", via |-> "rsa", el |-> GoodData(a, << [StdEK(W3C(a).key) EXCEPT !.cv = v] >>), key |-> SpKey] : v \in BadCv }
              \cup { [fam |-> "struct", via |-> "rsa", el |-> [GoodData(a, <<StdEK(W3C(a).key)>>) EXCEPT !.em = e], key |-> SpKey] : e \in BadEm }
              \cup { [fam |-> "struct", via |-> "rsa", el |-> [GoodData(a, <<StdEK(W3C(a).key)>>) EXCEPT !.cv = v], key |-> SpKey] : v \in BadCv }
            : a \in {"aes128-cbc", "tripledes-cbc", "aes128-gcm"} }

\* F3: key values of every Go type the API admits
\* values that are, hold or resemble the recipient's RSA key (sp), besides the standard *rsa.PrivateKey
ShapedKeys == { KeyShape("rsa", 256, "sp", s) : s \in RsaShapes \ {"std"} }
              \cup { KeyVal("rsaval", 256, "sp"), KeyVal("rsapub", 256, "sp"), KeyVal("signer", 256, "sp"),
                     KeyVal("ed25519", 64, "ed") }
KeyVals(a) == { KeyVal("bytes", n, "K") : n \in {0, W3C(a).key - 1, W3C(a).key, W3C(a).key + 1, 8, 16, 24, 32} }
              \cup { KeyVal("nil", 0, "none"), KeyVal("rsa", 256, "sp"), KeyVal("rsa", 256, "sp2"),
                     KeyVal("ecdsa", 32, "ec256"), KeyVal("string", 16, "K") }
              \cup { KeyShape("bytes", 0, "K", "nilslice") } \cup ShapedKeys
F3 == UNION { { [fam |-> "key", via |-> "direct", el |-> GoodData(a, <<>>), key |-> k] : k \in KeyVals(a) }
              \cup { [fam |-> "key", via |-> "rsa", el |-> GoodData(a, <<StdEK(W3C(a).key)>>), key |-> k] : k \in KeyVals(a) }
            : a \in BCs }
\* F3k: the shaped keys (and the standard one, the ECDSA one as controls) x every RSA key transport x EncryptedKey
\* on its own / nested in EncryptedData x valid and malformed cipher value x embedded certificate
KtEK(kt, cert) == RefEK(kt, IF kt = "rsa-1_5" THEN NoDm ELSE Dm("sha1", "w3c"), "absent", cert, "sp", Bytes(16, "K"))
JunkWrap == Wrap("junk", "none", "none", "none", Bytes(0, "X"))
EkCvVariants(ek) == { ek, [ek EXCEPT !.cv = "badb64"], [ek EXCEPT !.cv = "nocv"] }
                    \cup { [ek EXCEPT !.len = n, !.ct = JunkWrap] : n \in {0, 255, 256} }
\* (quick tier: the shapes of round 4 with the valid, the undecodable and one junk cipher value)
EkCvFor(k, ek) == IF k.t = "rsa" /\ k.shape \in NewShapes /\ ~Thorough
                    THEN { ek, [ek EXCEPT !.cv = "badb64"], [ek EXCEPT !.len = 256, !.ct = JunkWrap] }
                    ELSE EkCvVariants(ek)
F3k == UNION { UNION { { [fam |-> "kshape", via |-> "rsa", el |-> GoodData("aes128-cbc", <<ek>>), key |-> k],
                         [fam |-> "kshape", via |-> "ek", el |-> ek, key |-> k] }
                       : ek \in EkCvFor(k, KtEK(kt, cert)) }
               : kt \in KTs, cert \in {"absent", "sp", "sp-e3"},
                 k \in ShapedKeys \cup {SpKey, KeyVal("ecdsa", 32, "ec256")} }
\* F3m: a multi-prime key pair ("mp3": N = p q r, as rsa.GenerateMultiPrimeKey and PKCS #1 version 1 keys give) - three
\* primes, Precomputed.CRTValues in use - whole and in the shapes that concern Primes / Precomputed, EncryptedKey wrapped
\* to it, with its certificate, without, with the certificate of another key
Mp3Shapes == {"std", "noprecomp", "crtnil", "onenil", "presized", "emptyprimes", "wiped", "wipedentries"}
F3m == UNION { { [fam |-> "kshape", via |-> "rsa", el |-> GoodData("aes128-cbc", <<ek>>), key |-> KeyShape("rsa", 256, "mp3", sh)],
                 [fam |-> "kshape", via |-> "ek", el |-> ek, key |-> KeyShape("rsa", 256, "mp3", sh)] }
               : ek \in { RefEK(kt, IF kt = "rsa-1_5" THEN NoDm ELSE Dm("sha1", "w3c"), "absent", cert, "mp3", Bytes(16, "K")) :
                            kt \in KTs, cert \in {"absent", "mp3", "sp"} },
                 sh \in Mp3Shapes }
\* F3v: the VALUE of the symmetric key (table KeyParts): every class for every block cipher, as the caller's key and as
\* the payload of an EncryptedKey
F3v == UNION { UNION { { [fam |-> "keyvalue", via |-> "direct", el |-> GoodData(a, <<>>), key |-> KeyShape("bytes", W3C(a).key, "K", v)],
                         [fam |-> "keyvalue", via |-> "rsa",
                          el |-> GoodData(a, << [StdEK(W3C(a).key) EXCEPT !.ct.payload = BytesV(W3C(a).key, "K", v)] >>), key |-> SpKey] }
                       : v \in KeyClasses(a) } : a \in BCs }

\* F4: EncryptedKey variants
DmVariants == { NoDm, UnknownDm, Dm("sha1", "w3c"), Dm("sha256", "w3c"), Dm("sha256", "pkg"), Dm("sha512", "w3c"), Dm("ripemd160", "pkg") }
Certs == CertNames
F4a == { [fam |-> "ek", via |-> "rsa",
          el |-> GoodData("aes128-cbc", << RefEK(kt, dm, mgf, cert, to, Bytes(16, "K")) >>),
          key |-> KeyVal("rsa", 256, kn)] :
          kt \in KTs, dm \in DmVariants, mgf \in {"absent", "sha256"}, cert \in Certs, to \in {"sp", "sp2"}, kn \in {"sp", "sp2"} }
F4 == { x \in F4a : (x.el.eks[1].mgf = "absent" \/ x.el.eks[1].em = "rsa-oaep11") }
\* wrapped payloads of the wrong size, junk RSA cipher values of every interesting size
F4b == { [fam |-> "ek", via |-> "rsa", el |-> GoodData(a, << StdEK(n) >>), key |-> SpKey] :
           a \in BCs, n \in {0, 1, 8, 15, 16, 17, 24, 32} }
       \cup { [fam |-> "ek", via |-> "rsa",
               el |-> GoodData("aes128-cbc", << [StdEK(16) EXCEPT !.len = n, !.ct = Wrap("junk", "none", "none", "none", Bytes(0, "X"))] >>),
               key |-> SpKey] : n \in {0, 1, 255, 256, 257, 512} }

\* F4o: the optional parts of EncryptionMethod: DigestMethod absent / SHA-1 / SHA-256 x MGF absent / mgf1sha1 / mgf1sha256
\* (xmlenc11 rsa-oaep) x OAEPparams absent / empty / a label x KeySize in the data EncryptionMethod x certificate; the key
\* is wrapped with what the element says (absent: the W3C defaults).  KeySize also with a direct key.
OptEK(kt, dm, mgf, oaepp, cert, to, payload) ==
  LET e == RefEK(kt, dm, mgf, cert, to, payload) IN
  [e EXCEPT !.oaepp = oaepp, !.ct = IF oaepp = "label" THEN [@ EXCEPT !.label = "L"] ELSE @]
F4o == { [fam |-> "ekopt", via |-> "rsa",
          el |-> [GoodData("aes128-cbc", << OptEK(kt, dm, mgf, op, cert, "sp", Bytes(16, "K")) >>) EXCEPT !.ks = ks],
          key |-> SpKey] :
          kt \in {"rsa-oaep-mgf1p", "rsa-oaep11"}, dm \in {NoDm, Dm("sha1", "w3c"), Dm("sha256", "w3c")},
          mgf \in {"absent", "sha1", "sha256"}, op \in {"absent", "empty", "label"}, ks \in BOOLEAN, cert \in {"absent", "sp"} }
F4oSet == { x \in F4o : x.el.eks[1].mgf = "absent" \/ x.el.eks[1].em = "rsa-oaep11" }
          \cup { [fam |-> "ekopt", via |-> "rsa",
                  el |-> [GoodData("aes128-cbc", << RefEK("rsa-1_5", NoDm, "absent", cert, "sp", Bytes(16, "K")) >>) EXCEPT !.ks = TRUE],
                  key |-> SpKey] : cert \in {"absent", "sp"} }
          \cup { [fam |-> "ekopt", via |-> "direct", el |-> [GoodData(a, <<>>) EXCEPT !.ks = TRUE], key |-> DirectKey(a)] : a \in BCs }

\* F4x: X509Data as a sequence of items: hints alone, in front of / behind / beside certificates (table XGen)
F4x == { [fam |-> "ekx", via |-> "rsa",
          el |-> GoodData("aes128-cbc", << RefEK(kt, IF kt = "rsa-1_5" THEN NoDm ELSE Dm("sha1", "w3c"), "absent", cert, to, Bytes(16, "K")) >>),
          key |-> KeyVal("rsa", 256, kn)] :
          kt \in KTs, cert \in HintNames, to \in {"sp", "sp2"}, kn \in {"sp", "sp2"} }

\* F5: nested and repeated EncryptedKey elements
\* depth 2: the data key K is CBC-encrypted under K2 inside an EncryptedKey that itself carries an RSA EncryptedKey
KwCbc(a) == Blk("cbc", "aes", "K2", 16, 16, 32, 0, Bytes(W3C(a).key, "K"), 32 - W3C(a).key, "p", FALSE, "none")
Depth2(a, inner) == GoodData(a, << El("aes128-cbc", "ok", 48, KwCbc(a), NoDm, "absent", "absent", <<inner>>) >>)
BadEK == [StdEK(16) EXCEPT !.em = "unknown"]
F5 == UNION { { [fam |-> "nest", via |-> "rsa", el |-> Depth2(a, RefEK("rsa-oaep-mgf1p", Dm("sha1", "w3c"), "absent", "sp", "sp", Bytes(16, "K2"))), key |-> SpKey],
                [fam |-> "nest", via |-> "rsa", el |-> Depth2(a, RefEK("rsa-oaep-mgf1p", Dm("sha1", "w3c"), "absent", "sp2", "sp", Bytes(16, "K2"))), key |-> SpKey],
                [fam |-> "nest", via |-> "rsa", el |-> Depth2(a, BadEK), key |-> SpKey],
                \* an RSA EncryptedKey that itself contains an EncryptedKey (ignored by RSA.Decrypt)
                [fam |-> "nest", via |-> "rsa", el |-> GoodData(a, << [StdEK(W3C(a).key) EXCEPT !.eks = <<BadEK>>] >>), key |-> SpKey],
                \* repeated: the first one is used
                [fam |-> "nest", via |-> "rsa", el |-> GoodData(a, << StdEK(W3C(a).key), BadEK >>), key |-> SpKey],
                [fam |-> "nest", via |-> "rsa", el |-> GoodData(a, << BadEK, StdEK(W3C(a).key) >>), key |-> SpKey],
                [fam |-> "nest", via |-> "rsa", el |-> GoodData(a, << StdEK(W3C(a).key), StdEK(W3C(a).key) >>), key |-> SpKey] }
            : a \in {"aes128-cbc", "aes256-cbc", "tripledes-cbc", "aes128-gcm"} }

\* F4g (round 5): the identifier of xenc11:MGF as a string.  Every lexical class of table MgfId x every DigestMethod
\* class, under the 2009 key transport (the only one that reads the element); the W3C identifiers x every DigestMethod
\* class (matching and mismatching the digest); a sample under the other two key transports (which must not read it).
\* A key under an identifier that names nothing is wrapped with MGF1 over the DigestMethod's hash - what an implementation
\* that does not read the element would unwrap with.  EncryptedKey on its own ("ek") and nested in EncryptedData ("rsa").
MgfEK(kt, dm, idc, cert, payload) ==
  LET e == RefEK(kt, dm, "absent", cert, "sp", payload) IN
  [e EXCEPT !.mgf = "unnamed", !.mgfid = idc,
            !.ct = IF kt = "rsa-oaep11" THEN [@ EXCEPT !.mgf = RefHash(dm)] ELSE @]
G4Dms(via) == IF Thorough \/ via = "ek" THEN DmVariants ELSE {NoDm, Dm("sha256", "w3c")}
G4Certs == IF Thorough THEN {"absent", "sp", "sp2"} ELSE {"sp"}
G4Eks(via) == UNION { { MgfEK("rsa-oaep11", dm, idc, cert, Bytes(16, "K")) : idc \in MgfIdClasses }
                      \cup { RefEK("rsa-oaep11", dm, mgf, cert, "sp", Bytes(16, "K")) : mgf \in {"absent", "sha1", "sha256", "sha512"} }
                      : dm \in G4Dms(via), cert \in G4Certs }
                \cup { MgfEK(kt, IF kt = "rsa-1_5" THEN NoDm ELSE Dm("sha1", "w3c"), idc, "sp", Bytes(16, "K")) :
                         kt \in {"rsa-oaep-mgf1p", "rsa-1_5"}, idc \in {"noattr", "empty", "short", "unknown"} }
MgfTag(ek) == "mgf=" \o (IF ek.mgfid = "w3c" THEN "mgf1" \o ek.mgf ELSE ek.mgfid)
F4g == { [fam |-> "ekmgf", via |-> "ek", el |-> ek, key |-> SpKey, tag |-> MgfTag(ek)] : ek \in G4Eks("ek") }
       \cup { [fam |-> "ekmgf", via |-> "rsa", el |-> GoodData("aes128-cbc", <<ek>>), key |-> SpKey, tag |-> MgfTag(ek)] : ek \in G4Eks("rsa") }

\* F7 (round 5): ds:KeyInfo as a sequence of items, ds:RetrievalMethod, references among EncryptedKey elements.
\* A case has, besides the element handed to Decrypt, the EncryptedKey elements standing BEHIND it in the enclosing
\* element (sibs; the layout in which the EncryptedKey is a sibling of the EncryptedData and KeyInfo refers to it).
\*   RsaK(id, n, p): an RSA EncryptedKey with that Id carrying the n octets p for the sp key
\*   BlkK(a, id, ki, eks): a block-cipher EncryptedKey (as in F5) with that Id carrying the data key K under the key K2
RefBcs == IF Thorough THEN BCs ELSE {"aes128-cbc", "aes128-gcm"}
RsaK(id, n, p) == [RefEK("rsa-oaep-mgf1p", Dm("sha1", "w3c"), "absent", "sp", "sp", Bytes(n, p)) EXCEPT !.id = id]
BlkK(a, id, ki, eks) == [El("aes128-cbc", "ok", 48, KwCbc(a), NoDm, "absent", "absent", eks) EXCEPT !.id = id, !.ki = ki]
KData(a, ki, eks) == [GoodData(a, eks) EXCEPT !.ki = ki]
NilKey == KeyVal("nil", 0, "none")
RefKeys(a) == {SpKey, DirectKey(a), NilKey}
              \cup (IF Thorough THEN {KeyVal("string", 16, "K"), KeyVal("ecdsa", 32, "ec256"), KeyVal("bytes", 8, "K"), KeyVal("signer", 256, "sp")} ELSE {})
\* (a) every URI class, the element meant standing behind the EncryptedData or nowhere, x key value
F7a == UNION { { [fam |-> "keyinfo", via |-> "ref", el |-> KData(a, <<Rm(u, "k1")>>, <<>>), sibs |-> sb, key |-> k,
                  tag |-> "uri=" \o u \o (IF sb = <<>> THEN ":target=none" ELSE ":target=sibling")] :
                  u \in RmUris, sb \in {<<>>, <<RsaK("k1", W3C(a).key, "K")>>}, k \in RefKeys(a) }
               : a \in RefBcs }
\* (b) the items of KeyInfo in every order: RetrievalMethod in front of / behind an inline EncryptedKey, behind a KeyName,
\* in front of X509Data, two RetrievalMethods
F7bUris == IF Thorough THEN RmUris ELSE {"plain", "quote", "brackets", "dangling"}
F7b == UNION { {
          [fam |-> "keyinfo", via |-> "ref", el |-> KData(a, <<Rm(u, "k1"), EkIt(1)>>, <<StdEK(W3C(a).key)>>), sibs |-> <<>>, key |-> SpKey,
           tag |-> "items=rm+ek:uri=" \o u],
          [fam |-> "keyinfo", via |-> "ref", el |-> KData(a, <<EkIt(1), Rm(u, "k1")>>, <<StdEK(W3C(a).key)>>), sibs |-> <<>>, key |-> SpKey,
           tag |-> "items=ek+rm:uri=" \o u],
          [fam |-> "keyinfo", via |-> "ref", el |-> KData(a, <<NameIt, Rm(u, "k1")>>, <<>>), sibs |-> <<RsaK("k1", W3C(a).key, "K")>>, key |-> SpKey,
           tag |-> "items=name+rm:uri=" \o u],
          [fam |-> "keyinfo", via |-> "ref", el |-> [KData(a, <<Rm(u, "k1"), X5It>>, <<>>) EXCEPT !.cert = "sp"], sibs |-> <<RsaK("k1", W3C(a).key, "K")>>, key |-> SpKey,
           tag |-> "items=rm+x509:uri=" \o u],
          [fam |-> "keyinfo", via |-> "ref", el |-> KData(a, <<Rm("dangling", "k1"), Rm(u, "k1")>>, <<>>), sibs |-> <<RsaK("k1", W3C(a).key, "K")>>, key |-> SpKey,
           tag |-> "items=rm+rm:uri=dangling," \o u],
          [fam |-> "keyinfo", via |-> "ref", el |-> KData(a, <<Rm(u, "k1"), Rm("plain", "k1")>>, <<>>), sibs |-> <<RsaK("k1", W3C(a).key, "K")>>, key |-> SpKey,
           tag |-> "items=rm+rm:uri=" \o u \o ",plain"] }
        : a \in RefBcs, u \in F7bUris }
\* (c) reference graphs among EncryptedKey elements
Graphs(a) ==
  LET me(id) == <<Rm("plain", id)>> kl == W3C(a).key IN
  { [tag |-> "graph=self:at=sibling", el |-> KData(a, me("k1"), <<>>), sibs |-> << BlkK(a, "k1", me("k1"), <<>>) >>],
    [tag |-> "graph=self:at=inline", el |-> GoodData(a, << BlkK(a, "k1", me("k1"), <<>>) >>), sibs |-> <<>>],
    [tag |-> "graph=self:at=inline:id=empty", el |-> GoodData(a, << BlkK(a, "empty", <<Rm("hashonly", "")>>, <<>>) >>), sibs |-> <<>>],
    [tag |-> "graph=cycle2:at=sibling", el |-> KData(a, me("k1"), <<>>), sibs |-> << BlkK(a, "k1", me("k2"), <<>>), BlkK(a, "k2", me("k1"), <<>>) >>],
    [tag |-> "graph=cycle2:at=inline+sibling", el |-> GoodData(a, << BlkK(a, "k1", me("k2"), <<>>) >>), sibs |-> << BlkK(a, "k2", me("k1"), <<>>) >>],
    [tag |-> "graph=cycle2:at=nested", el |-> KData(a, me("k2"), <<>>), sibs |-> << BlkK(a, "k1", <<>>, << BlkK(a, "k2", me("k1"), <<>>) >>) >>],
    [tag |-> "graph=chain:ends=rsa", el |-> KData(a, me("k1"), <<>>), sibs |-> << BlkK(a, "k1", me("k2"), <<>>), RsaK("k2", 16, "K2") >>],
    [tag |-> "graph=chain:ends=dangling", el |-> KData(a, me("k1"), <<>>), sibs |-> << BlkK(a, "k1", me("k9"), <<>>) >>],
    [tag |-> "graph=repeated-id", el |-> KData(a, me("k1"), <<>>), sibs |-> << [BadEK EXCEPT !.id = "k1"], RsaK("k1", kl, "K") >>],
    [tag |-> "graph=self:in=rsa:at=sibling", el |-> KData(a, me("k1"), <<>>), sibs |-> << [RsaK("k1", kl, "K") EXCEPT !.ki = me("k1") \o <<X5It>>] >>],
    [tag |-> "graph=self:in=rsa:at=inline", el |-> GoodData(a, << [RsaK("k1", kl, "K") EXCEPT !.ki = <<X5It>> \o me("k1")] >>), sibs |-> <<>>] }
GraphKeys == {SpKey, NilKey} \cup (IF Thorough THEN {KeyVal("string", 16, "K"), KeyVal("ecdsa", 32, "ec256"), KeyVal("bytes", 16, "K2"), KeyVal("signer", 256, "sp")} ELSE {})
F7c == UNION { { [fam |-> "keyinfo", via |-> "ref", el |-> g.el, sibs |-> g.sibs, key |-> k, tag |-> g.tag] : g \in Graphs(a), k \in GraphKeys }
               : a \in RefBcs }
F7 == F7a \cup F7b \cup F7c

\* F8 (round 8): the IDENTIFIER dimension of "for AES-GCM any modification of the cipher value is rejected".  For every
\* AES-GCM identifier the W3C defines (key 16 / 24 / 32), registered by the package or not: a genuine cipher value made by
\* an independent implementation under the right key - body 0, 1, 20 and 36 octets - and every modification of it: one bit
\* in the nonce / body / tag, the last octet or the last 16 octets cut off, 16 octets appended (mod trunc1 / truncblk /
\* extblk: len differs from nonce + body + tag), random octets of the same length (junk), and a genuine CBC cipher value
\* of the same key (made cbc: what an unauthenticated mode would take).  Direct key.
GcmTamper(a, n) ==
  LET kl == W3C(a).key full == 12 + n + 16 IN
  { DataEl(a, "ok", full, RefGcm(a, kl, n, m), <<>>) : m \in {"none", "nonce", "tag"} \cup (IF n > 0 THEN {"body"} ELSE {}) }
  \cup { DataEl(a, "ok", full - 1, RefGcm(a, kl, n, "trunc1"), <<>>), DataEl(a, "ok", full - 16, RefGcm(a, kl, n, "truncblk"), <<>>),
         DataEl(a, "ok", full + 16, RefGcm(a, kl, n, "extblk"), <<>>), DataEl(a, "ok", full, [Junk EXCEPT !.klen = kl], <<>>) }
F8Cbc(a) == DataEl(a, "ok", 16 + 32, Blk("cbc", "aes", "K", W3C(a).key, 16, 32, 0, Bytes(29, "P"), 3, "p", FALSE, "none"), <<>>)
F8 == UNION { { [fam |-> "gcmid", via |-> "direct", el |-> e, key |-> KeyVal("bytes", W3C(a).key, "K")]
                : e \in {F8Cbc(a)} \cup UNION { GcmTamper(a, n) : n \in {0, 1, 20, 36} } } : a \in GcmIds }

C11Base == F1 \cup F2 \cup F3 \cup F3k \cup F4 \cup F4b \cup F4x \cup F5
C11New == F3m \cup F3v \cup F4oSet      \* round 4 (the new key shapes are part of F3 / F3k)
C11Round5 == F4g \cup F7 \cup F8
\* F6: the lexical form.  Cases of every verdict class - lengths around a well-formed cipher value with every final byte /
\* modified region, every structural variant, EncryptedKey variants (digest method absent / unknown / known, MGF, X509Data
\* absent / matching / other key / hints with and without certificate), nesting and repetition - written in every form.
LexAlgs == {"aes128-cbc", "tripledes-cbc", "aes128-gcm"}
LexCerts == {"absent", "sp", "sp2", "ec256", "is", "is+sp", "is+sp2", "sp2+is", "sn|sp2"}
LexBase == { x \in F1 : x.el.em \in LexAlgs /\ x.el.len \in {0, GoodLen(x.el.em) - 1, GoodLen(x.el.em)}
                        /\ x.el.ct.klen = W3C(x.el.em).key }
           \cup F2
           \cup { x \in F4 \cup F4x : /\ x.el.eks[1].dm \in {NoDm, UnknownDm, Dm("sha1", "w3c"), Dm("sha256", "w3c")}
                                      /\ (x.el.eks[1].cert \in CertNames => x.el.eks[1].dm # Dm("sha1", "w3c"))
                                      /\ x.el.eks[1].cert \in LexCerts
                                      /\ x.el.eks[1].ct.to = "sp" /\ x.key.id = "sp" }
           \cup { x \in F5 : x.el.em = "aes128-cbc" }
           \cup { x \in F4oSet : x.via = "rsa" /\ x.el.ks /\ x.el.eks[1].oaepp = "empty" /\ x.el.eks[1].cert = "sp" }
           \* round 5: identifiers of xenc11:MGF that name nothing, RetrievalMethod URIs, reference graphs
           \cup { x \in F4g : x.via = "rsa" /\ x.el.eks[1].dm = Dm("sha256", "w3c") /\ x.el.eks[1].cert = "sp"
                               /\ x.el.eks[1].mgfid \in {"noattr", "empty", "short", "unknown"} }
           \cup { x \in F7a : x.el.em = "aes128-cbc" /\ x.key = SpKey /\ x.sibs # <<>> /\ x.el.ki[1].uri \in {"plain", "quote", "brackets"} }
           \cup { x \in F7c : x.el.em = "aes128-cbc" /\ x.key = SpKey
                               /\ x.tag \in {"graph=self:at=inline", "graph=cycle2:at=sibling", "graph=chain:ends=rsa"} }
\* every case carries sibs (the EncryptedKey elements behind the element, <<>> in the families without references) and tag
\* (the name of the abstract case inside families ekmgf / keyinfo, "" elsewhere)
Field(x, f, dflt) == IF f \in DOMAIN x THEN x[f] ELSE dflt
WithLex(S, l) == { [fam |-> x.fam, via |-> x.via, el |-> x.el, key |-> x.key, lex |-> l,
                    sibs |-> Field(x, "sibs", <<>>), tag |-> Field(x, "tag", "")] : x \in S }
\* the family of XmlEnc_C11dev.cfg (refutation of Total under DevSeeded5): a sample of the two new dimensions
C11DevSet == WithLex({ x \in F4g : x.via = "ek" /\ x.el.dm = Dm("sha256", "w3c") /\ x.el.cert = "sp" /\ x.el.mgfid \in {"w3c", "noattr", "short", "unknown"} }
                     \cup { x \in F7a : x.el.em = "aes128-cbc" /\ x.key = SpKey /\ x.sibs # <<>> /\ x.el.ki[1].uri \in {"plain", "quote", "brackets"} }
                     \cup { x \in F7c : x.el.em = "aes128-cbc" /\ x.key = SpKey
                                         /\ x.tag \in {"graph=self:at=inline", "graph=cycle2:at=sibling", "graph=chain:ends=rsa"} }
                     \cup { x \in F8 : x.el.ct.body \in {0, 20, 32} }, LexPkg)
C11Set == IF Family = "C11dev" THEN C11DevSet
          ELSE WithLex(C11Base \cup C11New \cup C11Round5, LexPkg) \cup UNION { WithLex(LexBase, l) : l \in LexForms \ {LexPkg} }

IsC10 == Family \in {"C10q", "C10t", "C10dev", "C10dev7"}
\* the document the element handed to Decrypt stands in, as far as it holds EncryptedKey elements: document order
RECURSIVE Pre(_), PreSeq(_)
Pre(e) == <<e>> \o PreSeq(e.eks)
PreSeq(sq) == IF sq = <<>> THEN <<>> ELSE Pre(Head(sq)) \o PreSeq(Tail(sq))
DocEKs(x) == (IF x.el.em \in KTs THEN Pre(x.el) ELSE PreSeq(x.el.eks)) \o PreSeq(x.sibs)
\* C10 families run in the three directions, or only independent implementation -> package
ThreeWayCase(x) == x.fam \in {"base", "enc", "rsakey", "modulus"} \/ (x.fam = "keyval" /\ x.kt = "direct")
\* ... and family "enc" ends behind pkg2ref: it varies the package's encrypter only; with a modulus one octet short there is
\* nothing an independent producer could write
HasRef(x) == x.fam # "enc" /\ x.rsa.mod # "short"

(******************************** variables ********************************)
VARIABLES impl,     \* "w3c" (required design) | "code" (prediction under Dev: the pinned tree) |
                    \* "fixed" (prediction under DevFixed: the tree with the proposed fixes)
          c,        \* the abstract case
          phase,    \* C10: encP -> self -> pkg2ref -> encR -> ref2pkg -> done ; C11: dec -> done
          pc,       \* step of the encrypt / decrypt machine
          frames,   \* stack of elements being decrypted (outermost first)
          kv,       \* key value in the hands of the current frame
          buf,      \* scratch: decoded cipher value / decrypted buffer of the current frame
          ret,      \* result of the frame that just returned: [k |-> none|bytes|error|panic, ...]
          elP, elR, \* C10: element written by the implementation / by the reference
          out       \* outcomes
vars == <<impl, c, phase, pc, frames, kv, buf, ret, elP, elR, out>>

D == CASE impl = "w3c" -> ReqDev [] impl = "code" -> Dev [] impl = "fixed" -> DevFixed
\* who encrypts / decrypts in the current phase
ED == IF phase = "encP" THEN D ELSE DevNone
DD == IF phase = "pkg2ref" THEN DevNone ELSE D

NoRet == [k |-> "none", why |-> "", val |-> Bytes(0, "X"), nondet |-> FALSE]
\* buf also holds the DigestMethod field of the RSA decrypter at work (pubkey.go: e RSA is a copy of the registered value):
\*   dg the digest, dgsrc where it comes from: "configured" (what the decrypter was registered with) | "message" (named by
\*   ds:DigestMethod) | "default" (SHA-1 because the message names none);  v: value class of the decrypted octets
NoBuf == [len |-> 0, last |-> -1, genuine |-> FALSE, id |-> "X", ptlen |-> 0, v |-> "std", dg |-> "none", dgsrc |-> "none"]
NoEl  == DataEl("absent", "nocd", 0, NoCt, <<>>)
NoOut == [k |-> "none", why |-> "", nondet |-> FALSE]
\* the lexical form of the element being decrypted: the package's own output has the package's form
CurLex == IF phase \in {"self", "pkg2ref"} THEN LexPkg ELSE c.lex
\* the frame being decrypted, as the lookups of the decrypting implementation see it
Top == View(DD, CurLex, frames[Len(frames)])

Init == /\ impl \in {"w3c", "code", "fixed"}
        /\ IF IsC10
             THEN /\ c \in C10Set
                  /\ phase = (IF ThreeWayCase(c) THEN "encP" ELSE "encR") /\ pc = "EncKey" /\ frames = <<>>
                  /\ kv = KeyVal("nil", 0, "none")
             ELSE /\ c \in C11Set
                  /\ phase = "dec" /\ pc = "FindMethod" /\ frames = <<c.el>>
                  /\ kv = c.key
        \* no deviation record reads the lexical form (PrefixBound = {} in all of them): the prediction for the pinned
        \* tree is made once per case, in the package's form
        /\ (c.lex # LexPkg => impl # "code")
        \* the families of round 4 are predicted for the tree with the fixes only
        /\ (c.fam \in {"opt", "keyval", "keyvalue", "ekopt", "ekmgf", "keyinfo", "enc", "rsakey", "modulus"} => impl # "code")
        /\ (~IsC10 /\ c.key.t = "rsa" /\ (c.key.shape \in NewShapes \/ c.key.id = "mp3") => impl # "code")
        /\ buf = NoBuf /\ ret = NoRet /\ elP = NoEl /\ elR = NoEl
        /\ out = [self |-> NoOut, pkg2ref |-> NoOut, ref2pkg |-> NoOut, dec |-> NoOut]

(**************************** Encrypt, as coded ****************************)
\* pubkey.go:32-98 RSA.Encrypt : generate a key of BlockCipher.KeySize(), wrap it, describe it.
\* A direct key is the caller's: "a key of the right size" = the W3C size of the algorithm.
\* the independent producer (phases other than encP) has the choice of c.opt; the package writes what pubkey.go:69-85 writes
ByRef == phase # "encP"
\* The package's Encrypt is called on the value c.enc: at every site it reads a field of that value - c.dm = EncDm(c.enc),
\* c.bc = EncBc(c.enc) - unless the implementation captured, at that site, what the constructor was given (CtorCaptured).
\* The independent producer has no constructors: it uses the parameters of the case.
Captured(d, site) == phase = "encP" /\ <<c.enc.ctor, site>> \in d.CtorCaptured
PDm(d, site) == IF Captured(d, site) THEN CtorDm(c.enc.ctor) ELSE c.dm
PBc(d, site) == IF Captured(d, site) THEN CtorBc ELSE c.bc
EncHash(d) == PDm(d, "wrap-digest")
\* rsa-oaep-mgf1p: MGF1 with SHA-1 by definition; xmlenc11: the independent producer wraps with the MGF1 of the case, the
\* package with crypto/rsa EncryptOAEP, whose one hash parameter is the OAEP hash and the MGF1 hash
EncMgf(d) == IF c.kt = "rsa-oaep-mgf1p" THEN (IF d.MgfFollowsDigest THEN EncHash(d) ELSE "sha1")
             ELSE IF ByRef THEN c.mgfd ELSE EncHash(d)
EncEK(d) ==
  LET payload == BytesV(kv.len, "K", kv.shape)
      dmel == PDm(d, "dm-element") IN
  [El(c.kt, "ok", RcptBytes(c),
      IF c.kt = "rsa-1_5" THEN Wrap("pkcs1", "none", "none", RcptId(c), payload)
                          ELSE [Wrap("oaep", EncHash(d), EncMgf(d), RcptId(c), payload)
                                  EXCEPT !.label = IF ByRef /\ c.opt.oaepp = "label" THEN "L" ELSE "none"],
      \* pubkey.go:69-72  if e.DigestMethod != nil: also under rsa-1_5 when the field of a PKCS1v15() value has been assigned
      IF ByRef THEN (IF c.kt = "rsa-1_5" \/ c.opt.dm = "absent" THEN NoDm ELSE Dm(c.dm, d.DigestEmit))
               ELSE (IF dmel = "none" THEN NoDm ELSE Dm(dmel, d.DigestEmit)),
      IF c.kt = "rsa-oaep11" /\ ~d.Oaep11NoMgf /\ ~(ByRef /\ c.opt.mgf = "absent")
        THEN (IF ByRef THEN c.mgfd ELSE PDm(d, "mgf-element")) ELSE "absent",
      IF phase = "encP" THEN "sp" ELSE c.ki, <<>>)
     EXCEPT !.oaepp = IF ByRef THEN c.opt.oaepp ELSE "absent"]
\* the key: the caller's (direct), or drawn by the producer - the package reads RandReader (pubkey.go:44-48), the
\* independent producer's session key has the value class of the case
EncKey ==
  /\ pc = "EncKey"
  /\ kv' = IF c.kt = "direct" THEN KeyShape("bytes", W3C(c.bc).key, "K", c.kv)
           \* pubkey.go:44  make([]byte, e.BlockCipher.KeySize())
           ELSE KeyShape("bytes", KeySize(ED, PBc(ED, "keysize")), "K", IF ByRef THEN c.kv ELSE "std")
  /\ pc' = "EncBlock"
  /\ UNCHANGED <<impl, c, phase, frames, buf, ret, elP, elR, out>>

\* cbc.go:34-83 / gcm.go:33-87
EncResult(d) ==
  LET a == PBc(d, "data-cipher")        \* pubkey.go:98  e.BlockCipher.Encrypt(key, plaintext, nonce)
      w == W3C(a) eks == IF c.kt = "direct" THEN <<>> ELSE <<EncEK(d)>>
      padded == c.plen + PadLen(c.plen, w.block)
      Data(cvlen, ct) == [DataEl(a, "ok", cvlen, ct, eks) EXCEPT !.ks = ByRef /\ c.opt.ks] IN
  \* pubkey.go:73-80  xmlenc11 rsa-oaep states its mask generation function: a digest without MGF1 identifier cannot be
  \* announced, Encrypt refuses (before the key is wrapped)
  IF ~ByRef /\ c.kt = "rsa-oaep11" /\ ~d.Oaep11NoMgf /\ PDm(d, "mgf-element") \notin MgfDigests
    THEN [k |-> "error", why |-> "MgfNotNameable", el |-> NoEl]
  \* pubkey.go:93  keyEncrypter -> rsa.EncryptOAEP (the independent producer: RFC 8017 7.1.1 step 1.b): a session key longer
  \* than k - 2 hLen - 2 octets cannot be wrapped - one that fills the room exactly can
  ELSE IF Oaep(c.kt) /\ LET room == RcptBytes(c) - 2 * HLen(EncHash(d)) - 2 IN kv.len > room \/ (d.OaepExactFitRefused /\ kv.len = room)
    THEN [k |-> "error", why |-> "MessageTooLong", el |-> NoEl]
  ELSE IF kv.len # KeySize(d, a) THEN [k |-> "error", why |-> "KeyLength", el |-> NoEl]
  \* cbc.go:44 / gcm.go:46  block, err := e.cipher(key)
  ELSE IF Refuses(d, a, kv.shape) THEN [k |-> "error", why |-> "CipherKey", el |-> NoEl]
  ELSE IF w.mode = "cbc"
    THEN [k |-> "ok", why |-> "",
          el |-> Data(IvEnc(a) + padded,
                      Blk("cbc", Cipher(d, a), "K", kv.len, IvEnc(a), padded, 0, Bytes(c.plen, "P"),
                          PadLen(c.plen, w.block), "p", TRUE, "none"))]
    ELSE IF c.nonce = "generated" /\ d.GcmNonceShadowed
      THEN [k |-> "panic", why |-> "SealNilNonce", el |-> NoEl]
      ELSE LET body == IF d.GcmPads THEN padded ELSE c.plen
               iv == IF d.GcmNonceNotEmitted THEN 0 ELSE 12 IN
           [k |-> "ok", why |-> "",
            el |-> Data(iv + body + 16,
                        Blk("gcm", "aes", "K", kv.len, iv, body, 16, Bytes(c.plen, "P"), -1,
                            IF d.GcmSealsZeros THEN "zeros" ELSE "p", d.GcmPads, "none"))]

\* the key handed to Decrypt for a C10 case
\* (a key transport: the recipient's key pair; the package is handed the *rsa.PrivateKey value of the case, the
\* independent implementation - phase pkg2ref - holds the same key in its own way)
C10KeyIn(ph) == IF c.kt = "direct" THEN KeyShape("bytes", W3C(c.bc).key, "K", c.kv)
                ELSE KeyShape("rsa", RcptBytes(c), RcptId(c), IF ph = "pkg2ref" THEN "std" ELSE c.rsa.shape)

EncBlock ==
  /\ pc = "EncBlock"
  /\ LET r == EncResult(ED) IN
     IF phase = "encP"
       THEN IF r.k = "ok"
              THEN /\ elP' = r.el /\ phase' = "self" /\ pc' = "FindMethod" /\ frames' = <<r.el>> /\ kv' = C10KeyIn("self")
                   /\ UNCHANGED <<elR, out>>
              ELSE /\ out' = [out EXCEPT !.self = [k |-> r.k, why |-> "Encrypt:" \o r.why, nondet |-> FALSE],
                                         !.pkg2ref = [k |-> r.k, why |-> "Encrypt:" \o r.why, nondet |-> FALSE]]
                   /\ phase' = (IF HasRef(c) THEN "encR" ELSE "done") /\ pc' = (IF HasRef(c) THEN "EncKey" ELSE "done")
                   /\ UNCHANGED <<elP, elR, frames, kv>>
       ELSE /\ elR' = r.el /\ phase' = "ref2pkg" /\ pc' = "FindMethod" /\ frames' = <<r.el>> /\ kv' = C10KeyIn("ref2pkg")
            /\ UNCHANGED <<elP, out>>
  /\ UNCHANGED <<impl, c, buf, ret>>

(**************************** Decrypt, as coded ****************************)
Same == UNCHANGED <<impl, c, phase, elP, elR, out>>
Goto(p) == pc' = p /\ UNCHANGED <<frames, kv, buf, ret>> /\ Same
Fail(kind, why) == /\ ret' = [k |-> kind, why |-> why, val |-> Bytes(0, "X"), nondet |-> FALSE]
                   /\ pc' = "Return" /\ UNCHANGED <<frames, kv, buf>> /\ Same
Yield(val, nd) == /\ ret' = [k |-> "bytes", why |-> "", val |-> val, nondet |-> nd]
                  /\ pc' = "Return" /\ UNCHANGED <<frames, kv, buf>> /\ Same

\* decrypt.go:55-59  ./EncryptionMethod
FindMethod == /\ pc = "FindMethod"
              /\ IF Top.em = "absent" THEN Fail("error", "NoEncryptionMethod") ELSE Goto("Lookup")
\* decrypt.go:60-64  decrypters[algorithm]
\* pubkey.go:200-203  RegisterDecrypter(OAEP()), (OAEP_SHA256()), (PKCS1v15()): the value found carries the DigestMethod
\* it was built with - SHA-256 for both OAEP decrypters, none for PKCS1v15 - and RSA.Decrypt works on a copy of it
Configured(a) == IF a = "rsa-1_5" THEN "none" ELSE "sha256"
Lookup == /\ pc = "Lookup"
          /\ IF Top.em \in {"noattr", "unknown"} \/ ~Registered(DD, Top.em)
               THEN Fail("error", "AlgorithmNotImplemented")
               ELSE IF Top.em \in KTs
                 THEN /\ buf' = [buf EXCEPT !.dg = Configured(Top.em), !.dgsrc = "configured"]
                      /\ pc' = "RsaKeyType" /\ UNCHANGED <<frames, kv, ret>> /\ Same
                 ELSE Goto("Nested")
\* cbc.go:86-92 / gcm.go:91-97  ./KeyInfo/EncryptedKey (first one, wherever it stands among the items of KeyInfo) is
\* decrypted with the caller's key first.  Nothing else in KeyInfo is read at a block-cipher level: a ds:RetrievalMethod
\* is ignored (RetrievalMethod = "ignored"), the key in hand is used.
\* Under RetrievalMethod = "xpath" (no tree): without inline EncryptedKey and with a key that is not a byte string, the
\* first RetrievalMethod is resolved - TrimPrefix(URI, "#") pasted into //EncryptedKey[@Id='...'], searched from the
\* document root in document order - and the element found is decrypted with the same key; the path does not compile
\* when the text holds an apostrophe or an opening bracket (FindElement panics); an element that is already being
\* decrypted with this very key is decrypted again, and again: the recursion has no bound (the stack overflows).
Push(e) == /\ frames' = Append(frames, e) /\ pc' = "FindMethod" /\ UNCHANGED <<kv, buf, ret>> /\ Same
Resolve(idtext, to) ==
  LET want == IF idtext = "to" THEN to ELSE IF idtext = "empty" THEN "empty" ELSE "nobody"
      hits == SelectSeq(DocEKs(c), LAMBDA e : e.id = want) IN
  IF hits = <<>> THEN NoEl ELSE hits[1]
Nested == /\ pc = "Nested"
          /\ LET rms == SelectSeq(KiOf(Top), IsRm) IN
             IF Top.eks # <<>> THEN Push(Top.eks[1])
             ELSE IF DD.RetrievalMethod = "ignored" \/ kv.t = "bytes" \/ rms = <<>> THEN Goto("KeyType")
             ELSE LET u == RmUri(rms[1].uri) t == Resolve(u.idtext, rms[1].to) IN
                  IF u.special # {} THEN Fail("panic", "PathSyntax")
                  ELSE IF t = NoEl THEN Goto("KeyType")
                  ELSE IF \E i \in 1..Len(frames) : frames[i].id = t.id THEN Fail("panic", "UnboundedRecursion")
                  ELSE Push(t)
\* a frame finished: the outermost ends the run, an inner one hands its plaintext to the parent as the key
Return ==
  /\ pc = "Return"
  /\ IF Len(frames) > 1
       THEN /\ frames' = SubSeq(frames, 1, Len(frames) - 1)
            /\ IF ret.k = "bytes"
                 THEN /\ kv' = KeyShape("bytes", ret.val.len, ret.val.id, ret.val.v) /\ pc' = "KeyType"
                      /\ ret' = [NoRet EXCEPT !.nondet = ret.nondet]
                 ELSE /\ pc' = "Return" /\ UNCHANGED <<kv, ret>>
            /\ UNCHANGED <<buf, phase, out, elP, elR>>
       ELSE LET o == IF ret.k = "bytes"
                       THEN [k |-> IF ~IsC10 THEN "plaintext"
                                   ELSE IF ret.val.id = "P" /\ ret.val.len = c.plen THEN "plaintext" ELSE "wrongtext",
                             why |-> "", nondet |-> ret.nondet]
                       ELSE [k |-> ret.k, why |-> ret.why, nondet |-> ret.nondet] IN
            /\ ret' = NoRet /\ buf' = NoBuf
            /\ CASE phase = "self"    -> /\ out' = [out EXCEPT !.self = o] /\ phase' = "pkg2ref" /\ pc' = "FindMethod"
                                         /\ frames' = <<elP>> /\ kv' = C10KeyIn("pkg2ref") /\ UNCHANGED <<elP, elR>>
                 [] phase = "pkg2ref" -> /\ out' = [out EXCEPT !.pkg2ref = o]
                                         /\ phase' = (IF HasRef(c) THEN "encR" ELSE "done") /\ pc' = (IF HasRef(c) THEN "EncKey" ELSE "done")
                                         /\ frames' = <<>> /\ UNCHANGED <<kv, elP, elR>>
                 [] phase = "ref2pkg" -> /\ out' = [out EXCEPT !.ref2pkg = o] /\ phase' = "done" /\ pc' = "done"
                                         /\ frames' = <<>> /\ UNCHANGED <<kv, elP, elR>>
                 [] phase = "dec"     -> /\ out' = [out EXCEPT !.dec = o] /\ phase' = "done" /\ pc' = "done"
                                         /\ frames' = <<>> /\ UNCHANGED <<kv, elP, elR>>
  /\ UNCHANGED <<impl, c>>

\* ---- RSA key transport (pubkey.go:101-129, decrypt.go:80-113)
\* decrypt.go:81-84  key.(*rsa.PrivateKey): only that Go type; (required: and a key that has a modulus and an exponent)
RsaKeyType == /\ pc = "RsaKeyType"
              /\ IF kv.t # "rsa" THEN Fail("error", "KeyType")
                 ELSE IF ~DD.NoKeyCompletenessCheck /\ kv.shape \in Incomplete THEN Fail("error", "IncompleteKey")
                 ELSE Goto("RsaValidate")
\* (no line in the pinned tree nor in the tree with the fixes)  an implementation with ValidatesKey calls
\* rsaKey.Validate() here.  crypto/rsa go1.23 rsa.go Validate: checkPub; for every entry of Primes prime.Cmp(1) - a nil
\* entry is dereferenced; the product of Primes must be N (no primes: the product is 1); d e = 1 mod p-1 for every prime.
\* The required design does not depend on Primes / Precomputed being filled in: it uses N, E, D (or refuses with an error).
RsaValidate == /\ pc = "RsaValidate"
               /\ LET rk == RsaParts(kv.shape) IN
                  IF ~DD.ValidatesKey THEN Goto("RsaCert")
                  ELSE IF rk.primes \in {"presized", "onenil"} THEN Fail("panic", "NilPrimeDereference")
                  ELSE IF rk.primes \in {"nil", "empty", "wrong"} THEN Fail("error", "InvalidKey")
                  ELSE IF rk.d = "wrong" THEN Fail("error", "InvalidKey")
                  ELSE Goto("RsaCert")
\* decrypt.go:98-115  the FIRST ./KeyInfo/X509Data/X509Certificate in document order - whatever stands in front of it
\* or beside it, in whichever X509Data element: PEM-decode (white space is skipped), parse, must be RSA, modulus and
\* exponent equal to the key's.
RsaCert == /\ pc = "RsaCert"
           /\ LET x == IF Sees(DD, CurLex, "X509Certificate") THEN X509(Top.cert).certs ELSE <<>> IN
              IF x = <<>> THEN Goto("RsaIssuerSerial")
              ELSE LET crt == x[1] IN
                   CASE crt.kind = "garbage" -> Fail("error", "InvalidCertificate")
                     [] crt.kind = "ec"      -> Fail("error", "CertificateNotRSA")
                     [] OTHER ->
                        \* rsaKey.N.Cmp(pubKey.N) on a nil key / nil modulus (reachable only with NoKeyCompletenessCheck)
                        IF RsaParts(kv.shape).ptr = "nil" \/ RsaParts(kv.shape).n = "nil" THEN Fail("panic", "NilKeyDereference")
                        \* (in a C10 case the certificate "sp" is the recipient's, whichever key pair that is)
                        ELSE IF (IF IsC10 /\ crt.n = "sp" THEN RcptId(c) ELSE crt.n) # PubN(kv) THEN Fail("error", "CertificateMismatch")      \* modulus clause
                        ELSE IF crt.e # PubE(kv) THEN Fail("error", "CertificateMismatch")      \* exponent clause
                        ELSE Goto("RsaCipherText")
\* decrypt.go:116-118  else if ./KeyInfo/X509Data/X509IssuerSerial: reached only without an X509Certificate; the branch
\* is empty (TODO in the code), X509SubjectName / X509SKI are not looked at: nothing is compared
RsaIssuerSerial == /\ pc = "RsaIssuerSerial"
                   /\ Goto("RsaCipherText")
RsaCipherText == /\ pc = "RsaCipherText"
                 /\ IF Top.cv # "ok" THEN Fail("error", "CipherValue") ELSE Goto("RsaDigest")
DigestKnown(d, dm) == dm.k = "known" /\ (dm.uri = "both" \/ dm.uri \in d.DigestAccept)
\* pubkey.go:119-131  the digest the key is unwrapped with.  ./EncryptionMethod/DigestMethod present: the digest the
\* message names (unknown identifier: error); absent: SHA-1, the W3C default (XML-Enc 5.5.2) - NOT the value the
\* decrypter was configured with (AbsentDigestKeepsConfigured: the configured value is kept when there is one).
\* The lookup is done for every RSA algorithm, also rsa-1_5.
SetDigest(name, src) == /\ buf' = [buf EXCEPT !.dg = name, !.dgsrc = src]
                        /\ pc' = "RsaMgf" /\ UNCHANGED <<frames, kv, ret>> /\ Same
RsaDigest == /\ pc = "RsaDigest"
             /\ IF Top.dm.k = "absent"
                  THEN IF DD.AbsentDigestKeepsConfigured /\ buf.dg # "none" THEN Goto("RsaMgf")
                       ELSE SetDigest("sha1", "default")
                  ELSE IF ~DigestKnown(DD, Top.dm) THEN Fail("error", "DigestNotImplemented")
                  ELSE SetDigest(Top.dm.name, "message")
DecHash(e) == buf.dg
\* pubkey.go:133-143  xmlenc11 rsa-oaep only: ./EncryptionMethod/MGF, default mgf1sha1
\* The identifier is a string before it is a name: an identifier that names no mask generation function (attribute
\* missing, empty, cut short, unknown: Top.mgf = "unnamed") is refused by every design that reads the element.  Where an
\* implementation refuses the identifier it may only report it: MgfErrorSlicesIdentifier cuts the text behind
\* LastIndex('#')+5 out of it - out of range when fewer than four characters stand behind the last '#'.
RsaMgf == /\ pc = "RsaMgf"
          /\ LET named == IF Top.mgf = "absent" THEN "sha1" ELSE Top.mgf
                 refused == /\ Top.em = "rsa-oaep11"
                            /\ \/ DD.Oaep11MgfIsDigest /\ named # DecHash(Top)
                               \/ ~DD.Oaep11NoMgf /\ named = "unnamed" IN
             IF refused
               THEN IF DD.MgfErrorSlicesIdentifier /\ MgfId(Top.mgfid).tail # "4+"
                      THEN Fail("panic", "SliceIdentifier") ELSE Fail("error", "MgfNotImplemented")
               ELSE Goto("RsaUnwrap")
DecMgf(d, e) == IF e.em = "rsa-oaep-mgf1p"
                  THEN (IF d.MgfFollowsDigest THEN DecHash(e) ELSE "sha1")
                  ELSE (IF d.Oaep11NoMgf THEN DecHash(e) ELSE IF e.mgf = "absent" THEN "sha1" ELSE e.mgf)
\* pubkey.go:146 / :176 / :191  rsa.DecryptOAEP / DecryptPKCS1v15 with the caller's key value: crypto/rsa decrypts with
\* D (and the CRT values when present) and verifies the result against E, so every Working shape unwraps and a wrong
\* D fails; it dereferences the key (nil key: panic), checks the modulus (none: error) and the size of the cipher
\* value before it uses D (no D: panic, unless the cipher value was refused first).
RsaUnwrap ==
  /\ pc = "RsaUnwrap"
  /\ LET e == Top w == e.ct
         \* pubkey.go:176 the label handed to rsa.DecryptOAEP: the octets of xenc:OAEPparams (none / empty: the empty label)
         label == IF e.oaepp = "label" /\ ~DD.OaepParamsIgnored THEN "L" ELSE "none"
         ok == /\ w.k = "wrap" /\ w.to = kv.id /\ kv.shape \in Working
               /\ IF e.em = "rsa-1_5" THEN w.scheme = "pkcs1"
                  ELSE w.scheme = "oaep" /\ w.hash = DecHash(e) /\ w.mgf = DecMgf(DD, e) /\ w.label = label
         rk == RsaParts(kv.shape) IN
     CASE rk.ptr = "nil" -> Fail("panic", "NilKeyDereference")
       [] rk.ptr = "ok" /\ rk.n = "nil" -> Fail("error", "RsaDecryption")
       [] rk.ptr = "ok" /\ rk.n = "ok" /\ rk.d = "nil" -> IF w.k = "wrap" /\ w.scheme # "junk" THEN Fail("panic", "NilExponentDereference")
                                   ELSE /\ ret' = [k |-> "error", why |-> "RsaDecryption", val |-> Bytes(0, "X"), nondet |-> TRUE]
                                        /\ pc' = "Return" /\ UNCHANGED <<frames, kv, buf>> /\ Same
       \* a CRT value removed: rsa.go:664 Qinv.Bytes(), :674 Dp.Bytes(), :676 Dq.Bytes() once the size of the cipher value
       \* has been accepted (Dp / Dq: and the cipher value is below N - a junk value of the modulus size may not be)
       [] rk.ptr = "ok" /\ rk.n = "ok" /\ rk.d # "nil" /\ rk.precomp \in {"nodp", "noqinv"} ->
            IF ~DD.UncheckedPrecomputed THEN Fail("error", "RsaDecryption")
            ELSE IF w.k = "wrap" /\ w.scheme = "junk" /\ e.len = 256 /\ rk.precomp = "nodp"
              THEN /\ ret' = [k |-> "panic", why |-> "NilCrtValueDereference", val |-> Bytes(0, "X"), nondet |-> TRUE]
                   /\ pc' = "Return" /\ UNCHANGED <<frames, kv, buf>> /\ Same
              ELSE Fail("panic", "NilCrtValueDereference")
       \* (no tree) a key that was never precomputed is refused before crypto/rsa sees it
       [] rk.ptr = "ok" /\ rk.n = "ok" /\ rk.d # "nil" /\ rk.precomp = "none" /\ DD.UnwrapNeedsPrecomputed -> Fail("error", "RsaDecryption")
       [] OTHER -> IF ok THEN Yield(w.payload, FALSE) ELSE Fail("error", "RsaDecryption")

\* ---- block ciphers (cbc.go:100-130, gcm.go:102-130)
KeyType == /\ pc = "KeyType"
           /\ IF kv.t # "bytes" THEN Fail("error", "KeyType") ELSE Goto("KeyLen")
KeyLen == /\ pc = "KeyLen"
          /\ IF kv.len # KeySize(DD, Top.em) THEN Fail("error", "KeyLength") ELSE Goto("NewCipher")
\* cbc.go:106 / gcm.go:108  block, err := e.cipher(keyBuf): crypto/aes and crypto/des take every key of the right size
NewCipher == /\ pc = "NewCipher"
             /\ IF Refuses(DD, Top.em, kv.shape) THEN Fail("error", "CipherKey") ELSE Goto("Decode")
\* getCiphertext: ./CipherData/CipherValue, base64
Decode == /\ pc = "Decode"
          /\ IF Top.cv # "ok" THEN Fail("error", "CipherValue")
             ELSE IF Mode(DD, Top.em) = "gcm" THEN Goto("GcmSplit") ELSE Goto("LenCheck")
\* cbc.go:111  len(ciphertext) < block.BlockSize()        (required: IV and a positive number of whole blocks)
LenCheck == /\ pc = "LenCheck"
            /\ LET a == Top.em bs == Block(a) iv == IvDec(DD, a) IN
               IF DD.NoAlignCheck
                 THEN IF Top.len < bs THEN Fail("error", "TooShort") ELSE Goto("Split")
                 ELSE IF Top.len < iv + bs \/ (Top.len - iv) % bs # 0 THEN Fail("error", "BadLength") ELSE Goto("Split")
\* cbc.go:115-118  ciphertext[:aes.BlockSize] ; cipher.NewCBCDecrypter panics unless len(iv) = block size
Split == /\ pc = "Split"
         /\ LET a == Top.em iv == IvDec(DD, a) IN
            IF Top.len < iv THEN Fail("panic", "SliceIV")
            ELSE IF iv # Block(a) THEN Fail("panic", "IVLength")
            ELSE Goto("BlockDecrypt")
\* cbc.go:119-120  CryptBlocks panics unless the input is whole blocks
BlockDecrypt ==
  /\ pc = "BlockDecrypt"
  /\ LET a == Top.em iv == IvDec(DD, a) n == Top.len - iv b == Top.ct
         genuine == /\ b.k = "blk" /\ b.made = "cbc" /\ b.cipher = Cipher(DD, a) /\ b.kid = kv.id /\ b.klen = kv.len
                    /\ b.iv = iv /\ b.body = n /\ b.mod = "none" IN
     IF n % Block(a) # 0 THEN Fail("panic", "NotFullBlocks")
     ELSE /\ buf' = [NoBuf EXCEPT !.len = n, !.last = IF genuine THEN b.last ELSE -1, !.genuine = genuine,
                     !.id = IF genuine /\ b.src = "p" THEN b.pt.id ELSE "X", !.ptlen = IF genuine THEN b.pt.len ELSE 0,
                     !.v = IF genuine /\ b.src = "p" THEN b.pt.v ELSE "std"]
          /\ pc' = "Strip" /\ UNCHANGED <<frames, kv, ret>> /\ Same
\* cbc.go:175-187 stripPadding
Strip ==
  /\ pc = "Strip"
  /\ LET L == buf.len p == buf.last bound == IF DD.StripOffByOne THEN L - 1 ELSE L IN
     IF L < 1 THEN Fail("error", "PaddingTooShort")
     ELSE IF ~buf.genuine
       \* garbage plaintext: the final byte is arbitrary, the result is an error or (rarely) wrong bytes
       THEN /\ ret' = [k |-> "error", why |-> "Garbage", val |-> Bytes(0, "X"), nondet |-> TRUE]
            /\ pc' = "Return" /\ UNCHANGED <<frames, kv, buf>> /\ Same
     ELSE IF p > bound THEN Fail("error", "PaddingTooLong")
     ELSE IF p < 1 THEN Fail("error", "PaddingZero")
     ELSE IF ~DD.AcceptOversizePadding /\ p > Block(Top.em) THEN Fail("error", "PaddingOversize")
     ELSE Yield(BytesV(L - p, IF L - p = buf.ptlen THEN buf.id ELSE "X", IF L - p = buf.ptlen THEN buf.v ELSE "std"), ret.nondet)
\* gcm.go:122-123  ciphertext[:NonceSize()], ciphertext[NonceSize():]
GcmSplit == /\ pc = "GcmSplit"
            /\ IF Top.len < 12
                 THEN (IF DD.NoGcmLenCheck THEN Fail("panic", "SliceNonce") ELSE Fail("error", "TooShort"))
                 ELSE Goto("GcmOpen")
\* gcm.go:125  aesgcm.Open
GcmOpen ==
  /\ pc = "GcmOpen"
  /\ LET b == Top.ct
         authentic == /\ b.k = "blk" /\ b.made = "gcm" /\ b.kid = kv.id /\ b.klen = kv.len /\ b.iv = 12
                      /\ b.mod = "none" /\ Top.len = 12 + b.body + 16 IN
     IF authentic
       THEN Yield(BytesV(b.body, IF b.src = "p" /\ ~b.padded THEN b.pt.id ELSE "X", IF b.src = "p" /\ ~b.padded THEN b.pt.v ELSE "std"), ret.nondet)
       ELSE Fail("error", "AuthenticationFailed")

Next == EncKey \/ EncBlock \/ FindMethod \/ Lookup \/ Nested \/ Return \/ RsaKeyType \/ RsaValidate \/ RsaCert \/ RsaIssuerSerial
        \/ RsaCipherText \/ RsaDigest \/ RsaMgf \/ RsaUnwrap \/ KeyType \/ KeyLen \/ NewCipher \/ Decode \/ LenCheck \/ Split \/ BlockDecrypt \/ Strip
        \/ GcmSplit \/ GcmOpen
Spec == Init /\ [][Next]_vars

(************************ Properties (from the statements) *****************)
Done == phase = "done"
Required == impl = "w3c"      \* the run of the required design

\* ---- C10
\* "decrypting what the package encrypted returns the plaintext unchanged ... also decrypts ciphertexts
\*  produced by an independent implementation ... and that implementation decrypts the package's ciphertexts"
\* "Interoperates": what identifies an algorithm, a digest, a key is fixed by the W3C recommendations as namespace
\* name + local name + attribute value; the prefix, the place of the declarations, the order of attributes, white space
\* and comments between child elements are the producer's choice, and so is the key information beside the
\* EncryptedKey.  Hence MustAccept for every case, whatever c.lex and c.ki.
\* The same holds for the OPTIONAL parts of EncryptionMethod: the recommendation gives every one a default, so leaving a
\* part out when the default is meant (DigestMethod: SHA-1, xenc11:MGF: MGF1 with SHA-1, OAEPparams: the empty label,
\* KeySize: implied by the identifier), or writing it, are encodings of the SAME parameters: MustAccept in every such way
\* (c.opt).  "Every key of the right size": the class does not depend on the value of the key (c.kv).
\* Left open (DontCare; the quantifier names the key transports without OAEP label, and what the package offers for xmlenc11
\* rsa-oaep is MGF1 over the DigestMethod's hash): a non-empty OAEP label; xmlenc11 rsa-oaep with another MGF1 digest.
\* "Every ... key-transport algorithm the xmlenc package offers for encryption": the package offers them as VALUES - what a
\* constructor returns, with BlockCipher and DigestMethod as the caller has assigned them.  The combination a call of Encrypt
\* stands for is the one the fields name at that moment (x.bc, x.kt, x.dm), however the value came about (x.enc): MustAccept
\* for every constructor and every assignment.  Left open: xmlenc11 rsa-oaep with RIPEMD-160 - XML-Enc 1.1 has no MGF1
\* identifier for it, the combination cannot be announced and is not among the listed ones (the tree with the fixes refuses
\* to encrypt).
\* "Decrypting what the package encrypted" is said of the recipient's key: the key pair whose certificate Encrypt was given.
\* The package takes that key as an *rsa.PrivateKey VALUE (x.rsa.shape, table RsaParts).  A value that is a complete, working
\* key of the recipient - a modulus, the right private exponent, Precomputed either as Precompute() leaves it or never
\* filled in: crypto/rsa decrypts with each of them (set Working) - is "the key": MustAccept under every key transport,
\* whatever else it holds in Primes / CRTValues.  A value that lacks the modulus or the exponent, has a wrong exponent or a
\* Precomputed with values removed is not a working key: nothing to decrypt with (DontCare here; totality is C11's).
\* "Every key of the right size" of an RSA key transport: the modulus must leave room for the session key.  OAEP leaves
\* k - 2 hLen - 2 octets (RFC 8017 7.1.1): a modulus in which the session key of the block cipher fits EXACTLY is a key of
\* the right size (MustAccept, x.rsa.mod = "fit"); with one octet less the session key cannot be wrapped by anyone: the
\* package must not hand out an element then - Encrypt returns an error, whichever (class MustReject, x.rsa.mod = "short").
C10ClassOf(x) == IF x.rsa.mod = "short" THEN "MustReject"
                 ELSE IF x.opt.oaepp = "label" \/ (x.kt = "rsa-oaep11" /\ (x.mgfd # x.dm \/ x.dm \notin MgfDigests))
                         \/ x.rsa.shape \notin Working THEN "DontCare" ELSE "MustAccept"
C10Class == C10ClassOf(c)
\* families "lex" / "opt" (and "keyval" with a key transport) exercise the direction independent implementation -> package only
ThreeWay == ThreeWayCase(c)
RoundTrip == Done /\ IsC10 /\ Required /\ C10Class = "MustAccept"
               => /\ (HasRef(c) => out.ref2pkg.k = "plaintext")
                  /\ (ThreeWay => out.self.k = "plaintext" /\ out.pkg2ref.k = "plaintext")
\* RoundTrip along the two dimensions of round 7, each on its own (XmlEnc_C10dev7.cfg must refute both)
ShapeRoundTrip == c.fam = "rsakey" => RoundTrip
ExactFitRoundTrip == c.fam = "modulus" => RoundTrip
\* a session key that does not fit the recipient's modulus: Encrypt returns an error, no element leaves the package
RefusesUnwrappable == Done /\ IsC10 /\ Required /\ C10Class = "MustReject" => out.self.k = "error" /\ out.pkg2ref.k = "error" /\ elP = NoEl
\* "the xmlenc package offers": Encrypt is a method of a value; what it encrypts with is what the fields of THAT value say
\* when it is called - no site reads what the constructor was given
FieldsGovern == Required => D.CtorCaptured = {}
\* the element the package writes names the combination its encrypter was configured with (else the case is not an
\* encryption with that combination at all) ...
\* (both are read off the state in which the package's Encrypt has just returned its element)
Encrypted == phase = "self" /\ pc = "FindMethod" /\ Len(frames) = 1
AnnouncesConfigured ==
  Encrypted /\ Required /\ IsC10 =>
    /\ elP.em = c.bc
    /\ c.kt # "direct" =>
         LET ek == elP.eks[1] IN
         /\ ek.em = c.kt /\ ek.ct.payload.len = W3C(c.bc).key
         /\ (IF c.dm = "none" THEN ek.dm.k = "absent" ELSE ek.dm.k = "known" /\ ek.dm.name = c.dm)
         /\ (c.kt = "rsa-oaep11" => ek.mgf = c.dm)
\* ... and the key is wrapped with the parameters the element states
WrapsAsAnnounced ==
  Encrypted /\ Required /\ IsC10 /\ Oaep(c.kt) =>
    LET ek == elP.eks[1] IN
    /\ ek.ct.hash = (IF ek.dm.k = "known" THEN ek.dm.name ELSE "sha1")
    /\ ek.ct.mgf = (IF c.kt = "rsa-oaep-mgf1p" \/ ek.mgf = "absent" THEN "sha1" ELSE ek.mgf)
\* "every key of the right size": the size is the only condition the identifiers put on a key - a cipher constructor of
\* the required design refuses none
EveryKey == Required => D.KeyRefusal = {}
\* "interoperates": a ciphertext says by itself how it was made; the digest a key is unwrapped with is the one the
\* message names or, when it names none, the W3C default - never a setting of the recipient
DigestByMessage == Required /\ pc = "RsaUnwrap" => buf.dgsrc \in {"message", "default"}
\* a consumer that interoperates selects elements by namespace name and local name, never by prefix
PrefixAgnostic == Required => D.PrefixBound = {}
\* every algorithm URI an offered Encrypter writes has a registered Decrypter with the same parameters
EncParams(d, a) == [key |-> KeySize(d, a), cipher |-> Cipher(d, a), iv |-> IF W3C(a).mode = "gcm" THEN (IF d.GcmNonceNotEmitted THEN 0 ELSE 12) ELSE IvEnc(a),
                    pad |-> W3C(a).mode = "cbc" \/ d.GcmPads]
DecParams(d, a) == [key |-> KeySize(d, a), cipher |-> Cipher(d, a), iv |-> IF W3C(a).mode = "gcm" THEN 12 ELSE IvDec(d, a),
                    pad |-> W3C(a).mode = "cbc"]
Closure(d, x) == /\ Registered(d, x.bc) /\ EncParams(d, x.bc) = DecParams(d, x.bc)
                 /\ x.kt # "direct" => /\ Registered(d, x.kt)
                                       /\ (x.kt # "rsa-1_5" => (x.dm = "sha1" \/ d.DigestEmit \in d.DigestAccept))
RegistryClosure == IsC10 /\ Required => Closure(D, c)
\* predicted cipher value length of the data element
CvLen(x) == LET w == W3C(x.bc) IN IF w.mode = "cbc" THEN w.iv + x.plen + PadLen(x.plen, w.block) ELSE 12 + x.plen + 16
CipherValueLength == Done /\ IsC10 /\ Required /\ C10Class = "MustAccept" => (ThreeWay => elP.len = CvLen(c)) /\ (HasRef(c) => elR.len = CvLen(c))

\* ---- C11   (classification per DESIGN 14, evaluated on the element, not on the machine)
RECURSIVE PathOf(_)
\* the elements Decrypt visits: the element, then the first EncryptedKey of every block-cipher level
PathOf(e) == IF e.em \in BCs /\ e.eks # <<>> THEN <<e>> \o PathOf(e.eks[1]) ELSE <<e>>
CPath == PathOf(c.el)
Innermost == CPath[Len(CPath)]
\* the key value a level is decrypted with: the caller's key for the innermost level, the payload of the level below otherwise
LevelKey(i) == IF i = Len(CPath) THEN c.key
               ELSE LET below == CPath[i + 1].ct IN
                    IF below.k = "wrap" THEN KeyVal("bytes", below.payload.len, below.payload.id)
                    ELSE IF below.k = "blk" THEN KeyVal("bytes", below.pt.len, below.pt.id) ELSE KeyVal("nil", 0, "none")
BadAlgorithm(e) == e.em \in {"absent", "noattr", "unknown"}
BadDigest(e) == e.em \in {"rsa-oaep-mgf1p", "rsa-oaep11"} /\ e.dm.k = "unknown"
\* "keys of the wrong type or size": a block cipher needs a byte string of the algorithm's key size, a key transport a
\* value holding an RSA private key.  Such a key in another Go representation than *rsa.PrivateKey (a value, a
\* crypto.Decrypter around it) is a correct key of the recipient: no clause demands it be accepted or refused.  A
\* *rsa.PrivateKey that is nil, empty or lacks / has a wrong private exponent is of the right type: only totality
\* applies (and there is nothing it could decrypt).  The same for what Primes and Precomputed hold (table RsaParts): no
\* clause says which of these parts a key must carry - never a panic, acceptance open.  A byte string of the right size is
\* a key of the right size whatever its octets (table KeyParts).
\* A block-cipher level without inline EncryptedKey whose KeyInfo holds a ds:RetrievalMethod says that its key stands
\* elsewhere: whether the reference is followed is left open by the statement, and with it which key value is "of the
\* wrong type or size" for that level (an RSA key is the right key for an RSA EncryptedKey the reference names).  No
\* clause demands acceptance or refusal there: totality only.
RmOnly(e) == e.em \in BCs /\ e.eks = <<>> /\ SelectSeq(KiOf(e), IsRm) # <<>>
BadKey(e, k) == IF e.em \in BCs THEN ~RmOnly(e) /\ (k.t # "bytes" \/ k.len # W3C(e.em).key)
                ELSE IF e.em \in KTs THEN k.t \notin RsaHolders ELSE FALSE
\* "an RSA-wrapped key whose embedded certificate does not match the supplied private key is rejected": the
\* certificate's public key is the key's public key - same algorithm, same modulus AND same exponent.  With several
\* certificates the statement does not say which one counts: required only when none of them matches.  Text that is
\* not a certificate is not "a certificate that does not match".  "Embedded certificate" is every X509Certificate of
\* the KeyInfo: what else X509Data holds (X509IssuerSerial, X509SubjectName, X509SKI, before or behind it, in the same
\* or in another X509Data element) does not enter.  Hints alone are not a certificate: no clause speaks of them.
\* Nothing here reads c.lex: the class of a case is the class of its element tree, whatever its lexical form.
Matches(crt, k) == crt.kind = "rsa" /\ crt.n = PubN(k) /\ crt.e = PubE(k)
CertMismatch(e, k) == /\ e.em \in KTs /\ k.t \in RsaHolders
                      /\ LET x == X509(e.cert).certs IN
                         /\ \E i \in 1..Len(x) : x[i].kind # "garbage"
                         /\ \A i \in 1..Len(x) : ~Matches(x[i], k)
BadLength(e) == e.em \in BCs \cup GcmIds /\ e.cv = "ok" /\
                LET w == W3C(e.em) IN
                IF w.mode = "cbc" THEN e.len < w.iv + w.block \/ (e.len - w.iv) % w.block # 0
                                  ELSE e.len < w.iv + w.tag
BadPadding(e) == e.em \in CBCs /\ e.cv = "ok" /\ ~BadLength(e) /\ e.ct.k = "blk" /\ e.ct.made = "cbc"
                 /\ (e.ct.last = 0 \/ e.ct.last > e.ct.body)
\* every identifier of GcmIds names AES-GCM, whatever the package registers under it; a cipher value that was not made by
\* AES-GCM sealing (junk, a CBC cipher value) or is not nonce + body + tag of what was sealed is a modified one
GcmModified(e) == e.em \in GcmIds /\ e.cv = "ok" /\ e.ct.k = "blk"
                  /\ (e.ct.made # "gcm" \/ e.ct.mod # "none" \/ e.len # e.ct.iv + e.ct.body + e.ct.tag)
MustRejectLevel(i) == LET e == CPath[i] k == LevelKey(i) IN
  BadAlgorithm(e) \/ BadDigest(e) \/ BadKey(e, k) \/ CertMismatch(e, k) \/ BadLength(e) \/ BadPadding(e) \/ GcmModified(e)
C11MustReject == \E i \in 1..Len(CPath) : MustRejectLevel(i)
\* a well-formed ciphertext with the right key (C10's business; here the control that mutations start from working inputs)
Baseline == /\ ~C11MustReject
            /\ \A i \in 1..Len(CPath) : LET e == CPath[i] IN
                 /\ (RmOnly(e) => LevelKey(i).t = "bytes" /\ LevelKey(i).len = W3C(e.em).key)
                 /\ (e.em \in BCs /\ e.ct.k = "blk" /\ e.ct.made # "junk" => e.ct.kid = LevelKey(i).id)     \* the right key
                 /\ e.mgf # "unnamed"
                 /\ e.cv = "ok" /\ (\A j \in 1..Len(X509(e.cert).certs) : Matches(X509(e.cert).certs[j], c.key))
                 /\ (e.em \in KTs => (c.key.t = "rsa" /\ c.key.shape \in {"std", "noprecomp", "noprimes"}))
                 /\ (e.em \in CBCs => (e.ct.made = "cbc" /\ e.ct.last >= 1 /\ e.ct.last <= W3C(e.em).block))
                 /\ (e.em = "aes128-gcm" => e.ct.made = "gcm")
                 /\ e.em \notin GcmIds \ BCs    \* an AES-GCM identifier nobody must implement: no clause demands acceptance
                 /\ (e.em \in KTs => (e.ct.scheme # "junk" /\ e.ct.to = c.key.id /\ e.dm.k # "unknown"
                                      /\ (e.dm.k = "known" => e.dm.uri \in {"both", "w3c"})))
C11Class == IF C11MustReject THEN "MustReject" ELSE "DontCare"

\* "returns either plaintext or an error - never a panic"
\* A panic is any way of not returning: an out-of-range slice, a panic of a library that was handed attacker-built text
\* (PathSyntax), a recursion without bound (UnboundedRecursion: the Go runtime ends the process).
Total == ~IsC10 /\ Required => out.dec.k # "panic" /\ ret.k # "panic"
\* Total, cause by cause (XmlEnc_C11dev.cfg: each must be refuted under DevSeeded5)
NoIdentifierSlice == ~IsC10 /\ Required => ret.why # "SliceIdentifier"
NoPathPanic == ~IsC10 /\ Required => ret.why # "PathSyntax"
NoUnboundedRecursion == ~IsC10 /\ Required => ret.why # "UnboundedRecursion"
\* "for AES-GCM any modification of the cipher value is rejected" - for every AES-GCM identifier (XmlEnc_C11dev.cfg: must
\* be refuted under GcmAsCbc)
GcmTamperRejected == Done /\ ~IsC10 /\ Required /\ (\E i \in 1..Len(CPath) : GcmModified(CPath[i])) => out.dec.k = "error"
RejectsMalformed == Done /\ ~IsC10 /\ Required /\ C11MustReject => out.dec.k = "error"
BaselineDecrypts == Done /\ ~IsC10 /\ Required /\ Baseline => out.dec.k = "plaintext"

\* ---- internal consistency of the model
TypeOK == /\ impl \in {"w3c", "code", "fixed"}
          /\ phase \in {"encP", "self", "pkg2ref", "encR", "ref2pkg", "dec", "done"}
          /\ ret.k \in {"none", "bytes", "error", "panic"}
          /\ \A f \in {"self", "pkg2ref", "ref2pkg", "dec"} : out[f].k \in {"none", "plaintext", "wrongtext", "error", "panic"}
          /\ Len(frames) <= 4
          \* the combination of a C10 case is the one the fields of its encrypter value name
          /\ (IsC10 => /\ c.rsa.shape \in RsaShapes /\ c.rsa.mod \in {"roomy", "fit", "short"}
                        /\ (c.rsa # StdRsa => c.kt # "direct") /\ (c.rsa.mod # "roomy" => Oaep(c.kt))
                        /\ c.kt = CtorAlg(c.enc.ctor)
                        /\ (c.kt # "direct" => c.bc = EncBc(c.enc) /\ c.dm = EncDm(c.enc))
                        /\ (c.kt = "direct" => c.enc = NoEnc))
          \* KeyInfo as a sequence of items is the eks / cert of the element in some order, plus references and names
          /\ (~IsC10 => \A e \in {c.el} \cup {c.sibs[i] : i \in 1..Len(c.sibs)} :
                e.ki = <<>> \/ /\ SelectSeq(e.ki, LAMBDA it : it.k = "ek") = [i \in 1..Len(e.eks) |-> EkIt(i)]
                               /\ (e.cert = "absent" <=> SelectSeq(e.ki, LAMBDA it : it.k = "x509") = <<>>))
OneOutcome == Done => IF IsC10 THEN /\ (HasRef(c) <=> out.ref2pkg.k # "none")
                                     /\ (ThreeWay <=> out.self.k # "none") /\ (ThreeWay <=> out.pkg2ref.k # "none")
                                ELSE out.dec.k # "none"

(***************************** vector emission *****************************)
EmitC10 == PrintT(<<"VEC", ToJson([prop |-> "C10", model |-> impl, case |-> c, class |-> C10Class,
                                   req |-> IF C10Class = "MustReject" THEN "error" ELSE "plaintext",
                                   rcpt |-> [id |-> RcptId(c), octets |-> RcptBytes(c), parts |-> RsaParts(c.rsa.shape),
                                             working |-> c.rsa.shape \in Working],
                                   cvlen |-> CvLen(c), closure |-> Closure(D, c),
                                   uris |-> [bc |-> Uri(c.bc), kt |-> Uri(c.kt)],
                                   refel |-> elR, pkgel |-> elP, x509 |-> <<X509("absent"), X509(c.ki)>>,
                                   kparts |-> KeyParts(c.bc, c.kv),
                                   pred |-> [self |-> out.self, pkg2ref |-> out.pkg2ref, ref2pkg |-> out.ref2pkg]])>>)
\* tables: the rows of MgfId / RmUri the case uses (the harness checks the strings it writes against them)
RECURSIVE AllEls(_)
AllEls(sq) == IF sq = <<>> THEN {} ELSE {Head(sq)} \cup AllEls(Head(sq).eks) \cup AllEls(Tail(sq))
CaseEls == AllEls(<<c.el>> \o c.sibs)
CaseRms == UNION { { e.ki[i] : i \in { j \in 1..Len(e.ki) : IsRm(e.ki[j]) } } : e \in CaseEls }
EmitC11 == PrintT(<<"VEC", ToJson([prop |-> "C11", model |-> impl, fam |-> c.fam, via |-> c.via, el |-> c.el, key |-> c.key, lex |-> c.lex,
                                   sibs |-> c.sibs, tag |-> c.tag,
                                   \* the case holds references between elements: what follows them may not return
                                   refs |-> CaseRms # {},
                                   mgfids |-> { [c |-> e.mgfid, row |-> MgfId(e.mgfid)] : e \in { x \in CaseEls : x.mgfid \notin {"none", "w3c"} } },
                                   rmuris |-> { [u |-> it.uri, row |-> RmUri(it.uri)] : it \in CaseRms },
                                   class |-> C11Class, baseline |-> Baseline,
                                   rsaparts |-> RsaParts(c.key.shape),
                                   kparts |-> IF c.fam # "keyvalue" THEN <<>>
                                              ELSE KeyParts(c.el.em, IF c.via = "direct" THEN c.key.shape ELSE c.el.eks[1].ct.payload.v),
                                   x509 |-> [i \in 1..Len(CPath) |-> X509(CPath[i].cert)],
                                   why |-> [i \in 1..Len(CPath) |->
                                              LET e == CPath[i] k == LevelKey(i) IN
                                              [alg |-> BadAlgorithm(e), digest |-> BadDigest(e), key |-> BadKey(e, k),
                                               cert |-> CertMismatch(e, k), length |-> BadLength(e),
                                               padding |-> BadPadding(e), gcm |-> GcmModified(e)]],
                                   pred |-> out.dec])>>)
Emit == Done /\ impl # "w3c" => IF IsC10 THEN EmitC10 ELSE EmitC11
=============================================================================
