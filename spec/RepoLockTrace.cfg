INIT Init
NEXT Next
INVARIANTS
  MutualExclusion
  Counts
CONSTRAINT HighWater
POSTCONDITION Accepted
CHECK_DEADLOCK FALSE
