------------------------------ MODULE TimeDur ------------------------------
(***************************************************************************)
(* C15 - the XML text forms of durations, instants and metadata.           *)
(*                                                                         *)
(* Text is a sequence of one-character tokens ("P", "T", "1", ".", ...).   *)
(*                                                                         *)
(* A duration is a decomposed record [neg, h, m, s, f] (sign, hours,       *)
(* minutes 0..59, seconds 0..59, f = the nine fractional digits as a       *)
(* sequence): TLC integers are 32 bit, a nanosecond total is never held.   *)
(* An instant is a civil record [y, mo, d, h, mi, s, ms, sub, off]         *)
(* (sub = nanoseconds inside the millisecond, off = zone offset, minutes). *)
(*                                                                         *)
(* Layer 1 (the code, stage by stage):                                     *)
(*   DMarshal      duration.go  Duration.MarshalText                       *)
(*   DUnmarshal    duration.go  Duration.UnmarshalText: durationRegexp,    *)
(*                 durationTimeRegexp, integer accumulation                *)
(*   IMarshal      time.go      RelaxedTime.MarshalText (Round, UTC,       *)
(*                 layout 2006-01-02T15:04:05.999Z07:00)                   *)
(*   IUnmarshal    time.go      RelaxedTime.UnmarshalText (three layouts   *)
(*                 as time.Parse reads them, Round)                        *)
(*   Gen           metadata.go  one xml.Marshal / xml.Unmarshal generation *)
(*                 of an EntityDescriptor shape (checkEndpointLocation)    *)
(* The spec states the REQUIRED exact arithmetic.  Named deviations of the *)
(* pinned tree from it (found by the harness, not modelled as behaviour):  *)
(*   FloatSeconds     seconds are parsed through float64                   *)
(*   NegateOverflow   d *= -1 on the minimum int64                         *)
(*   EmptyAttrZeroPtr a *Duration pointing at 0 is written as ""           *)
(* Named leniencies of time.Parse that are modelled (class DontCare):      *)
(*   GoLenientHour (one-digit hour), GoCommaFraction ("," for "."),        *)
(*   GoZoneNoRange (zone hh > 23 / mm > 59 accepted).                      *)
(*                                                                         *)
(* Hand-over (section "hand-over"): HOW a value reaches the encoder is one  *)
(* more choice at every marshal / generation action: the entry function    *)
(* (xml.Marshal, MarshalIndent, Encoder.Encode, EncodeElement, json.Marshal *)
(* or a direct MarshalText call) and the reflect path from its argument    *)
(* down to the value (pointer, interface, struct field, slice / array      *)
(* element, map value).  encoding/xml and encoding/json find a type's      *)
(* marshalling method by Go's method-set rule: a value receiver is found   *)
(* for values and pointers, a pointer receiver only on ADDRESSABLE values; *)
(* when it is not found the value is written field by field (time.Time's   *)
(* own RFC 3339 text, integer nanoseconds).  Receiver is the table of the  *)
(* code as it is; the named deviation                                      *)
(*   PointerReceiverMarshaller[type]  a value receiver became a pointer    *)
(*                                    receiver                             *)
(* is FALSE for every type in the registered configurations and TRUE in    *)
(* TimeDur_C15dev.cfg, where TLC must refute the round trip.               *)
(*                                                                         *)
(* Size and shape (section "EntitiesDescriptor trees"): a generated        *)
(* EntitiesDescriptor value is a TREE of groups - a chain of single        *)
(* children, then a fan-out per level, with or without EntityDescriptor    *)
(* leaves.  EntitiesDescriptor.UnmarshalXML keeps a per-decoder counter of *)
(* the elements it is inside of and refuses a document when an element     *)
(* finds the counter at NestingBound (metadata.go: maxEntitiesDescriptor-  *)
(* Depth); a finished element puts the counter back.  The named deviation  *)
(*   CounterCountsElements   the counter is not put back when a nested     *)
(*                           element is done: it counts elements in        *)
(*                           document order instead of nesting depth       *)
(* is FALSE in the registered configurations and TRUE in                   *)
(* TimeDur_C15dev2.cfg, where TLC must refute the fixed point of a WIDE    *)
(* value (1000 or more groups, depth 2 or 3).                              *)
(*                                                                         *)
(* Layer 2, "Properties": written from the property statement only: an     *)
(* independent recogniser (DFA) of the xsd:duration lexical space, the     *)
(* table of documented dateTime forms, RoundMs, and the round-trip /       *)
(* fixed-point invariants.  TLC checks them on every enumerated case and   *)
(* emits each case with the required outcome and its class.                *)
(***************************************************************************)
EXTENDS Integers, Sequences, FiniteSets, TLC, Json

CONSTANTS Tier,                       \* "q" | "t" : size of the enumerated families
          PointerReceiverMarshaller,  \* named deviation: type name -> BOOLEAN
          Families,                   \* the kinds Init enumerates (all of them in the registered configurations)
          NestingBound,               \* how deeply EntitiesDescriptor elements may nest before the parser refuses (metadata.go: 1000)
          CounterCountsElements       \* named deviation: the parser's nesting counter is not restored when a nested element is done

VARIABLES kind,     \* "dur" | "durstr" | "inst" | "inststr" | "md" | "esd" | "spmd" | "idpmd" | "slots"
          vec,      \* the abstract input
          how,      \* the hand-over mode chosen at the marshal / generation action
          pc,       \* "marshal" | "unmarshal" | "gen1" | "gen2" | "done"
          text,     \* stage output: token sequence (slots: one attribute text per slot)
          back      \* stage output: what the text parses to / generations
vars == <<kind, vec, how, pc, text, back>>

----------------------------------------------------------------------------
(* characters and numerals *)

DigitTok == <<"0", "1", "2", "3", "4", "5", "6", "7", "8", "9">>
Digits   == {"0", "1", "2", "3", "4", "5", "6", "7", "8", "9"}
IsDigit(c) == c \in Digits
DVal(c) == CHOOSE n \in 0..9 : DigitTok[n + 1] = c
Tok(n) == DigitTok[n + 1]

RECURSIVE Dec(_)
Dec(n) == IF n < 10 THEN <<Tok(n)>> ELSE Append(Dec(n \div 10), Tok(n % 10))
\* decimal, zero padded to at least w characters
Pad(n, w) == LET s == Dec(n) IN IF Len(s) >= w THEN s ELSE [i \in 1..(w - Len(s)) |-> "0"] \o s

\* first position >= i that is not a digit (Len+1 when none)
RECURSIVE DigEnd(_, _)
DigEnd(t, i) == IF i > Len(t) THEN i ELSE IF IsDigit(t[i]) THEN DigEnd(t, i + 1) ELSE i

\* value of the digits t[i..j-1]; -1 stands for "10^9 or more" (never representable here)
RECURSIVE NumR(_, _, _, _)
NumR(t, i, j, acc) == IF i >= j THEN acc
                      ELSE IF acc >= 100000000 THEN -1
                      ELSE NumR(t, i + 1, j, acc * 10 + DVal(t[i]))
Num(t, i, j) == NumR(t, i, j, 0)

Sub(t, i, j) == IF j <= i THEN <<>> ELSE [k \in 1..(j - i) |-> t[i + k - 1]]     \* t[i..j-1]

----------------------------------------------------------------------------
(* durations: values *)

Zero9 == [i \in 1..9 |-> 0]
Dur(neg, h, m, s, f) == [neg |-> neg, h |-> h, m |-> m, s |-> s, f |-> f]
DurZero == Dur(FALSE, 0, 0, 0, Zero9)
FracOf(n) == [i \in 1..9 |-> (n \div (10 ^ (9 - i))) % 10]         \* n < 10^9 fits 32 bits
FracInt(f) == f[1] * 100000000 + f[2] * 10000000 + f[3] * 1000000 + f[4] * 100000
              + f[5] * 10000 + f[6] * 1000 + f[7] * 100 + f[8] * 10 + f[9]
FracNZ(f) == \E i \in 1..9 : f[i] # 0
MagZero(d) == d.h = 0 /\ d.m = 0 /\ d.s = 0 /\ ~FracNZ(d.f)

\* the int64 nanosecond range: +-(2562047 h 47 m 16.854775807 s), one more on the negative side
InInt64(d) ==
  LET top == IF d.neg THEN 854775808 ELSE 854775807 IN
  \/ d.h < 2562047
  \/ d.h = 2562047 /\ (\/ d.m < 47
                       \/ d.m = 47 /\ (\/ d.s < 16
                                       \/ d.s = 16 /\ FracInt(d.f) <= top))

(* duration.go Duration.MarshalText *)
LastNZ(f) == CHOOSE i \in 1..9 : f[i] # 0 /\ \A j \in (i + 1)..9 : f[j] = 0
TrimFrac(f) == [i \in 1..LastNZ(f) |-> Tok(f[i])]          \* "%09d" with trailing zeros trimmed
DMarshal(d) ==
  IF MagZero(d) THEN <<>>                                   \* d == 0 -> nil
  ELSE (IF d.neg THEN <<"-">> ELSE <<>>) \o <<"P", "T">>
       \o (IF d.h > 0 THEN Append(Dec(d.h), "H") ELSE <<>>)
       \o (IF d.m > 0 THEN Append(Dec(d.m), "M") ELSE <<>>)
       \o (IF d.s > 0 \/ FracNZ(d.f)
             THEN Dec(d.s) \o (IF FracNZ(d.f) THEN <<".">> \o TrimFrac(d.f) ELSE <<>>) \o <<"S">>
             ELSE <<>>)

(* duration.go Duration.UnmarshalText *)
Absent == [p |-> FALSE, a |-> 0, b |-> 0]
\* (?:(\d+)X1)?(?:(\d+)X2)?... from position i: one optional numbered component per
\* designator of ds, in order; returns the position after the last match and the spans
RECURSIVE Comps(_, _, _, _, _)
Comps(t, i, ds, k, got) ==
  IF k > Len(ds) THEN [pos |-> i, got |-> got]
  ELSE LET j == DigEnd(t, i) IN
       IF j > i /\ j <= Len(t) /\ t[j] = ds[k]
         THEN Comps(t, j + 1, ds, k + 1, Append(got, [p |-> TRUE, a |-> i, b |-> j]))
         ELSE Comps(t, i, ds, k + 1, Append(got, Absent))

\* (?:(\d+(?:\.\d+)?)S)? at position i
SecGroup(t, i) ==
  LET j == DigEnd(t, i) IN
  IF j > i /\ j <= Len(t) /\ t[j] = "S"
    THEN [pos |-> j + 1, p |-> TRUE, ia |-> i, ib |-> j, fa |-> 0, fb |-> 0]
  ELSE IF j > i /\ j <= Len(t) /\ t[j] = "."
    THEN LET j2 == DigEnd(t, j + 1) IN
         IF j2 > j + 1 /\ j2 <= Len(t) /\ t[j2] = "S"
           THEN [pos |-> j2 + 1, p |-> TRUE, ia |-> i, ib |-> j, fa |-> j + 1, fb |-> j2]
           ELSE [pos |-> i, p |-> FALSE, ia |-> 0, ib |-> 0, fa |-> 0, fb |-> 0]
  ELSE [pos |-> i, p |-> FALSE, ia |-> 0, ib |-> 0, fa |-> 0, fb |-> 0]

NumOf(t, c) == IF c.p THEN Num(t, c.a, c.b) ELSE 0
\* fraction digits t[a..b-1] as nine digits: padded right, digits beyond the ninth dropped
Frac9(t, a, b) == [i \in 1..9 |-> IF a + i - 1 < b THEN DVal(t[a + i - 1]) ELSE 0]

Err == [ok |-> FALSE, ovf |-> FALSE, d |-> DurZero]
DUnmarshal(t) ==
  IF t = <<>> THEN [ok |-> TRUE, ovf |-> FALSE, d |-> DurZero]        \* text == nil (what Marshal returns for 0)
  ELSE
  LET s0   == IF t[1] = "-" THEN 2 ELSE 1                              \* (-?)
      neg  == t[1] = "-"
  IN IF s0 > Len(t) \/ t[s0] # "P" THEN Err
  ELSE
  LET date == Comps(t, s0 + 1, <<"Y", "M", "D">>, 1, <<>>)            \* durationRegexp
      p    == date.pos
      hasT == p <= Len(t)
  IN IF hasT /\ (t[p] # "T" \/ p = Len(t)) THEN Err                    \* (?:T(.+))?$
  ELSE IF ~hasT /\ ~(\E k \in 1..3 : date.got[k].p) THEN Err           \* strings.Join(match[2:6]) == ""
  ELSE
  LET tm   == IF hasT THEN Comps(t, p + 1, <<"H", "M">>, 1, <<>>)      \* durationTimeRegexp
                      ELSE [pos |-> p, got |-> <<Absent, Absent>>]
      sec  == IF hasT THEN SecGroup(t, tm.pos)
                      ELSE [pos |-> p, p |-> FALSE, ia |-> 0, ib |-> 0, fa |-> 0, fb |-> 0]
  IN IF sec.pos # Len(t) + 1 THEN Err
  ELSE
  \* integer accumulation, with carries (PT90M, PT3600S are in the lexical space)
  LET y  == NumOf(t, date.got[1])    mo == NumOf(t, date.got[2])    dd == NumOf(t, date.got[3])
      hh == NumOf(t, tm.got[1])      mi == NumOf(t, tm.got[2])
      ss == IF sec.p THEN Num(t, sec.ia, sec.ib) ELSE 0
      f  == IF sec.p /\ sec.fb > sec.fa THEN Frac9(t, sec.fa, sec.fb) ELSE Zero9
      big == \/ y < 0 \/ mo < 0 \/ dd < 0 \/ hh < 0 \/ mi < 0 \/ ss < 0
             \/ y > 300 \/ mo > 4000 \/ dd > 110000 \/ hh > 2600000
  IN IF big THEN [ok |-> TRUE, ovf |-> TRUE, d |-> DurZero]
  ELSE
  LET mins  == mi + ss \div 60
      hours == y * 8760 + mo * 720 + dd * 24 + hh + mins \div 60     \* year = 365 d, month = 30 d
      mag   == Dur(FALSE, hours, mins % 60, ss % 60, f)
      v     == IF MagZero(mag) THEN DurZero ELSE [mag EXCEPT !.neg = neg]
  IN IF InInt64(v) THEN [ok |-> TRUE, ovf |-> FALSE, d |-> v]
                   ELSE [ok |-> TRUE, ovf |-> TRUE, d |-> DurZero]

----------------------------------------------------------------------------
(* instants: values *)

Leap(y) == (y % 4 = 0 /\ y % 100 # 0) \/ y % 400 = 0
DaysIn(y, mo) == CASE mo \in {1, 3, 5, 7, 8, 10, 12} -> 31
                   [] mo \in {4, 6, 9, 11} -> 30
                   [] OTHER -> IF Leap(y) THEN 29 ELSE 28

\* days since 0000-03-01 (proleptic Gregorian), and back
DaysFromCivil(y, mo, d) ==
  LET yy  == IF mo <= 2 THEN y - 1 ELSE y
      era == yy \div 400
      yoe == yy - era * 400
      mp  == (mo + 9) % 12
      doy == (153 * mp + 2) \div 5 + d - 1
  IN era * 146097 + yoe * 365 + yoe \div 4 - yoe \div 100 + doy
CivilFromDays(z) ==
  LET era == z \div 146097
      doe == z - era * 146097
      yoe == (doe - doe \div 1460 + doe \div 36524 - doe \div 146096) \div 365
      doy == doe - (365 * yoe + yoe \div 4 - yoe \div 100)
      mp  == (5 * doy + 2) \div 153
      d   == doy - (153 * mp + 2) \div 5 + 1
      mo  == IF mp < 10 THEN mp + 3 ELSE mp - 9
      y   == yoe + era * 400 + (IF mo <= 2 THEN 1 ELSE 0)
  IN [y |-> y, mo |-> mo, d |-> d]

Inst(y, mo, d, h, mi, s, ms, sub, off) ==
  [y |-> y, mo |-> mo, d |-> d, h |-> h, mi |-> mi, s |-> s, ms |-> ms, sub |-> sub, off |-> off]

\* time.Time.Round(time.Millisecond).UTC(): halves round up
RoundUTC(t) ==
  LET msod == ((t.h * 60 + t.mi) * 60 + t.s) * 1000 + t.ms + (IF t.sub >= 500000 THEN 1 ELSE 0)
      utc  == msod - t.off * 60000
      day  == DaysFromCivil(t.y, t.mo, t.d) + utc \div 86400000
      m    == utc % 86400000
      c    == CivilFromDays(day)
  IN [y |-> c.y, mo |-> c.mo, d |-> c.d, h |-> m \div 3600000, mi |-> (m \div 60000) % 60,
      s |-> (m \div 1000) % 60, ms |-> m % 1000]

(* time.go RelaxedTime.MarshalText: Format("2006-01-02T15:04:05.999Z07:00") of the rounded UTC time *)
MsFrac(ms) == IF ms = 0 THEN <<>>
              ELSE IF ms % 100 = 0 THEN <<".", Tok(ms \div 100)>>
              ELSE IF ms % 10 = 0 THEN <<".", Tok(ms \div 100), Tok((ms \div 10) % 10)>>
              ELSE <<".", Tok(ms \div 100), Tok((ms \div 10) % 10), Tok(ms % 10)>>
IFormat(u) == Pad(u.y, 4) \o <<"-">> \o Pad(u.mo, 2) \o <<"-">> \o Pad(u.d, 2) \o <<"T">> \o Pad(u.h, 2)
              \o <<":">> \o Pad(u.mi, 2) \o <<":">> \o Pad(u.s, 2) \o MsFrac(u.ms) \o <<"Z">>
IMarshal(t) == IFormat(RoundUTC(t))

(* time.go RelaxedTime.UnmarshalText: time.Parse with RFC3339, RFC3339Nano, then the zone-less layout *)
IErr == [ok |-> FALSE, t |-> [y |-> 0, mo |-> 0, d |-> 0, h |-> 0, mi |-> 0, s |-> 0, ms |-> 0]]
AllDigits(t, i, n) == i + n - 1 <= Len(t) /\ \A k \in i..(i + n - 1) : IsDigit(t[k])
At(t, i, c) == i <= Len(t) /\ t[i] = c
IUnmarshal(t) ==
  IF t = <<>> THEN [ok |-> TRUE, t |-> [y |-> 1, mo |-> 1, d |-> 1, h |-> 0, mi |-> 0, s |-> 0, ms |-> 0]]   \* len(text) == 0
  ELSE IF ~(AllDigits(t, 1, 4) /\ At(t, 5, "-") /\ AllDigits(t, 6, 2) /\ At(t, 8, "-")
            /\ AllDigits(t, 9, 2) /\ At(t, 11, "T") /\ AllDigits(t, 12, 1)) THEN IErr
  ELSE
  LET hl == IF AllDigits(t, 12, 2) THEN 2 ELSE 1                 \* GoLenientHour: "15" reads one or two digits
      q  == 12 + hl                                              \* position of the first ":"
  IN IF ~(At(t, q, ":") /\ AllDigits(t, q + 1, 2) /\ At(t, q + 3, ":") /\ AllDigits(t, q + 4, 2)) THEN IErr
  ELSE
  LET r    == q + 6                                              \* after the seconds
      hasF == r + 1 <= Len(t) /\ t[r] \in {".", ","} /\ IsDigit(t[r + 1])      \* GoCommaFraction
      fe   == IF hasF THEN DigEnd(t, r + 1) ELSE r
      z    == fe                                                 \* zone designator starts here
      zk   == IF z > Len(t) THEN "none"                          \* third layout
              ELSE IF t[z] = "Z" /\ z = Len(t) THEN "Z"
              ELSE IF t[z] \in {"+", "-"} /\ z + 5 = Len(t) /\ AllDigits(t, z + 1, 2)
                      /\ t[z + 3] = ":" /\ AllDigits(t, z + 4, 2) THEN "num"   \* GoZoneNoRange
              ELSE "bad"
  IN IF zk = "bad" THEN IErr
  ELSE
  LET y  == Num(t, 1, 5)      mo == Num(t, 6, 8)      d == Num(t, 9, 11)
      h  == Num(t, 12, 12 + hl)     mi == Num(t, q + 1, q + 3)     s == Num(t, q + 4, q + 6)
      f  == IF hasF THEN Frac9(t, r + 1, fe) ELSE Zero9
      off == IF zk = "num" THEN (IF t[z] = "-" THEN -1 ELSE 1) * (Num(t, z + 1, z + 3) * 60 + Num(t, z + 4, z + 6))
             ELSE 0
  IN IF mo < 1 \/ mo > 12 \/ d < 1 \/ d > DaysIn(y, mo) \/ h > 23 \/ mi > 59 \/ s > 59 THEN IErr
     ELSE [ok |-> TRUE,
           t  |-> RoundUTC(Inst(y, mo, d, h, mi, s, f[1] * 100 + f[2] * 10 + f[3],
                                f[4] * 100000 + f[5] * 10000 + f[6] * 1000 + f[7] * 100 + f[8] * 10 + f[9], off))]

----------------------------------------------------------------------------
(* hand-over: how a value reaches encoding/xml, encoding/json or MarshalText *)

\* The reflect path from the argument of the entry function down to the value:
\*   "ptr"   pointer indirection    Value.Elem of a pointer: addressable
\*   "iface" interface indirection  Value.Elem of an interface: NOT addressable
\*   "field" field of a struct      addressable iff the struct is
\*   "elem"  element of a slice     always addressable
\*   "arr"   element of an array    addressable iff the array is
\*   "mapv"  value of a map         never addressable (encoding/json only)
\* reflect.ValueOf(x) itself, the start of every path, is not addressable.
RECURSIVE AddrR(_, _, _)
AddrR(p, i, a) == IF i > Len(p) THEN a
                  ELSE AddrR(p, i + 1, CASE p[i] \in {"ptr", "elem"}   -> TRUE
                                         [] p[i] \in {"iface", "mapv"} -> FALSE
                                         [] OTHER                      -> a)
Addressable(p) == AddrR(p, 1, FALSE)

\* a mode: library, entry function, carrier syntax of a text value, path
\*   car: "elem" element content, "attr" attribute, "attro" attribute with omitempty, "str" JSON string,
\*        "raw" the byte slice MarshalText returned
HowRec(n, lib, fn, car, p) == [n |-> n, lib |-> lib, fn |-> fn, car |-> car, path |-> p]
XHow(n, fn, p) == HowRec(n, "xml", fn, "elem", p)
\* struct types (W = an enclosing struct with one field)
StructHows == {
  XHow("marshal:ptr", "Marshal", <<"ptr">>),                       \* xml.Marshal(&v)
  XHow("marshal:val", "Marshal", <<>>),                            \* xml.Marshal(v)
  XHow("marshal:ptrptr", "Marshal", <<"ptr", "ptr">>),             \* p := &v; xml.Marshal(&p)
  XHow("marshal:ptr-iface-val", "Marshal", <<"ptr", "iface">>),    \* var i any = v; xml.Marshal(&i)
  XHow("indent:ptr", "MarshalIndent", <<"ptr">>),
  XHow("indent:val", "MarshalIndent", <<>>),
  XHow("encode:ptr", "Encode", <<"ptr">>),                         \* xml.NewEncoder(w).Encode(&v)
  XHow("encode:val", "Encode", <<>>),
  XHow("encodeelement:ptr", "EncodeElement", <<"ptr">>),
  XHow("encodeelement:val", "EncodeElement", <<>>),
  XHow("field:wrapval", "Marshal", <<"field">>),                   \* xml.Marshal(W{V: v})
  XHow("field:wrapptr", "Marshal", <<"ptr", "field">>),            \* xml.Marshal(&W{V: v})
  XHow("ptrfield:wrapval", "Marshal", <<"field", "ptr">>),         \* xml.Marshal(W{P: &v})
  XHow("slice:wrapval", "Marshal", <<"field", "elem">>),           \* xml.Marshal(W{S: []T{v}})
  XHow("ptrslice:wrapval", "Marshal", <<"field", "elem", "ptr">>), \* xml.Marshal(W{S: []*T{&v}})
  XHow("array:wrapval", "Marshal", <<"field", "arr">>),            \* xml.Marshal(W{A: [1]T{v}})
  XHow("array:wrapptr", "Marshal", <<"ptr", "field", "arr">>),     \* xml.Marshal(&W{A: [1]T{v}})
  XHow("iface:wrapval", "Marshal", <<"field", "iface">>),          \* xml.Marshal(W{I: any(v)})
  XHow("iface:wrapptr", "Marshal", <<"ptr", "field", "iface">>),   \* xml.Marshal(&W{I: any(v)})
  XHow("ifaceptr:wrapval", "Marshal", <<"field", "iface", "ptr">>) \* xml.Marshal(W{I: any(&v)})
}
\* text types (Duration, RelaxedTime)
CallHow == HowRec("call", "call", "MarshalText", "raw", <<"ptr">>) \* x.MarshalText() on a variable: the compiler takes the address
TextHows == {
  CallHow,
  HowRec("xml:elem:val", "xml", "Marshal", "elem", <<>>),                          \* xml.Marshal(x)
  HowRec("xml:elem:ptr", "xml", "Marshal", "elem", <<"ptr">>),                     \* xml.Marshal(&x)
  HowRec("xml:attr:wrapval", "xml", "Marshal", "attr", <<"field">>),               \* xml.Marshal(W{A: x}), A `xml:",attr"`
  HowRec("xml:attr:wrapptr", "xml", "Marshal", "attr", <<"ptr", "field">>),
  HowRec("xml:attrptr:wrapval", "xml", "Marshal", "attr", <<"field", "ptr">>),     \* W{A: &x}
  HowRec("xml:attromit:wrapval", "xml", "Marshal", "attro", <<"field">>),          \* A `xml:",attr,omitempty"`
  HowRec("xml:elem:slice", "xml", "Encode", "elem", <<"field", "elem">>),          \* W{S: []T{x}}
  HowRec("xml:elem:iface", "xml", "MarshalIndent", "elem", <<"ptr", "field", "iface">>),  \* &W{I: any(x)}
  HowRec("json:val", "json", "Marshal", "str", <<>>),                              \* json.Marshal(x)
  HowRec("json:ptr", "json", "Marshal", "str", <<"ptr">>),
  HowRec("json:mapval", "json", "Marshal", "str", <<"mapv">>),                     \* map[string]T{"k": x}
  HowRec("json:slice", "json", "Marshal", "str", <<"elem">>),                      \* []T{x}
  HowRec("json:field:wrapval", "json", "Marshal", "str", <<"field">>),
  HowRec("json:field:wrapptr", "json", "Encode", "str", <<"ptr", "field">>),       \* json.NewEncoder(w).Encode(&W{V: x})
  HowRec("json:iface", "json", "Marshal", "str", <<"elem", "iface">>)              \* []any{x}
}

\* The code as it is: the receiver of each type's marshalling method (MarshalXML, for the two text
\* types MarshalText); "none" = the type has no such method and is written field by field.
\* Unmarshalling always goes through a pointer, so the receiver of Unmarshal* never matters.
\* slot: a field that carries an instant ("inst") or a duration ("dur")
\*   ptr  the field is a pointer (nil = absent);  oe  its tag says omitempty
\*   mvia "relaxed": MarshalXML writes it as RelaxedTime / Duration; "plain": left to encoding/xml
\*   uvia the same for UnmarshalXML
\*   own / rel: the type whose methods carry the field and the path from the root value to it
Slot(n, k, ptr, oe, mvia, uvia, own, rel) ==
  [n |-> n, k |-> k, ptr |-> ptr, oe |-> oe, mvia |-> mvia, uvia |-> uvia, own |-> own, rel |-> rel]
Rx(n, own) == Slot(n, "inst", FALSE, FALSE, "relaxed", "relaxed", own, <<>>)       \* time.Time `xml:",attr"` carried as RelaxedTime
RoleSlots(own) == << Slot("validUntil", "inst", TRUE, TRUE, "plain", "plain", own, <<>>),
                     Slot("cacheDuration", "dur", FALSE, TRUE, "plain", "plain", own, <<>>) >>
EdSlots(rel)  == << Slot("validUntil", "inst", FALSE, TRUE, "relaxed", "relaxed", "EntityDescriptor", rel),
                    Slot("cacheDuration", "dur", FALSE, TRUE, "relaxed", "relaxed", "EntityDescriptor", rel) >>
EsdSlots(rel) == << Slot("validUntil", "inst", TRUE, TRUE, "relaxed", "relaxed", "EntitiesDescriptor", rel),
                    Slot("cacheDuration", "dur", TRUE, TRUE, "relaxed", "relaxed", "EntitiesDescriptor", rel) >>
Ty(recv, uni, slots) == [recv |-> recv, uni |-> uni, slots |-> slots]
TypeTab ==
     "Duration"                :> Ty("value", FALSE, <<>>)                      \* duration.go:16
  @@ "RelaxedTime"             :> Ty("value", FALSE, <<>>)                      \* time.go:12
  @@ "EntityDescriptor"        :> Ty("value", FALSE, EdSlots(<<>>))             \* metadata.go:150
  @@ "EntitiesDescriptor"      :> Ty("value", FALSE, EsdSlots(<<>>))            \* metadata.go:43
  @@ "RoleDescriptor"          :> Ty("none", FALSE, RoleSlots("RoleDescriptor"))
  @@ "IDPSSODescriptor"        :> Ty("none", FALSE, RoleSlots("IDPSSODescriptor"))     \* embeds SSODescriptor, RoleDescriptor
  @@ "SPSSODescriptor"         :> Ty("none", FALSE, RoleSlots("SPSSODescriptor"))
  @@ "AffiliationDescriptor"   :> Ty("none", FALSE,
        << Slot("validUntil", "inst", FALSE, TRUE, "plain", "plain", "AffiliationDescriptor", <<>>),
           Slot("cacheDuration", "dur", FALSE, FALSE, "plain", "plain", "AffiliationDescriptor", <<>>) >>)
  @@ "AuthnRequest"            :> Ty("pointer", FALSE, << Rx("IssueInstant", "AuthnRequest") >>)          \* schema.go
  @@ "LogoutRequest"           :> Ty("pointer", FALSE,
        << Rx("IssueInstant", "LogoutRequest"),
           Slot("NotOnOrAfter", "inst", TRUE, FALSE, "relaxed", "relaxed", "LogoutRequest", <<>>) >>)
  @@ "LogoutResponse"          :> Ty("pointer", FALSE, << Rx("IssueInstant", "LogoutResponse") >>)
  @@ "ArtifactResolve"         :> Ty("pointer", FALSE, << Rx("IssueInstant", "ArtifactResolve") >>)
  @@ "ArtifactResponse"        :> Ty("pointer", FALSE, << Rx("IssueInstant", "ArtifactResponse") >>)
  @@ "Response"                :> Ty("pointer", FALSE, << Rx("IssueInstant", "Response") >>)
  @@ "Assertion"               :> Ty("none", FALSE,                             \* UnmarshalXML only
        << Slot("IssueInstant", "inst", FALSE, FALSE, "plain", "relaxed", "Assertion", <<>>) >>)
  @@ "Conditions"              :> Ty("pointer", FALSE, << Rx("NotBefore", "Conditions"), Rx("NotOnOrAfter", "Conditions") >>)
  @@ "SubjectConfirmationData" :> Ty("pointer", FALSE,                          \* the pair carries NotOnOrAfter only
        << Slot("NotBefore", "inst", FALSE, FALSE, "plain", "plain", "SubjectConfirmationData", <<>>),
           Rx("NotOnOrAfter", "SubjectConfirmationData") >>)
  @@ "AuthnStatement"          :> Ty("pointer", FALSE,
        << Rx("AuthnInstant", "AuthnStatement"),
           Slot("SessionNotOnOrAfter", "inst", TRUE, TRUE, "relaxed", "relaxed", "AuthnStatement", <<>>) >>)
  \* nested values: Response{Assertion *Assertion{Conditions *Conditions, AuthnStatements []AuthnStatement,
  \* Subject *Subject{SubjectConfirmations []{SubjectConfirmationData *}}}}
  @@ "ResponseTree"            :> Ty("pointer", TRUE,
        << Rx("IssueInstant", "Response"),
           Slot("IssueInstant", "inst", FALSE, FALSE, "plain", "relaxed", "Assertion", <<"field", "ptr">>),
           Slot("NotBefore", "inst", FALSE, FALSE, "relaxed", "relaxed", "Conditions", <<"field", "ptr", "field", "ptr">>),
           Slot("AuthnInstant", "inst", FALSE, FALSE, "relaxed", "relaxed", "AuthnStatement", <<"field", "ptr", "field", "elem">>),
           Slot("NotOnOrAfter", "inst", FALSE, FALSE, "relaxed", "relaxed", "SubjectConfirmationData",
                <<"field", "ptr", "field", "ptr", "field", "elem", "field", "ptr">>) >>)
  \* EntitiesDescriptor{EntitiesDescriptors []{EntityDescriptors []}}
  @@ "EntitiesTree"            :> Ty("value", TRUE,
        EsdSlots(<<>>) \o EsdSlots(<<"field", "elem">>) \o EdSlots(<<"field", "elem", "field", "elem">>))
TypeNames == DOMAIN TypeTab
NoDeviation     == [ty \in TypeNames |-> FALSE]
EveryValueRecvDeviates == [ty \in TypeNames |-> TRUE]

Receiver(ty) == IF TypeTab[ty].recv = "value" /\ PointerReceiverMarshaller[ty] THEN "pointer" ELSE TypeTab[ty].recv
\* Go's method-set rule as encoding/xml and encoding/json apply it (marshalValue: val.CanInterface() &&
\* typ.Implements(marshalerType), else val.CanAddr() && PointerTo(typ).Implements(marshalerType))
FoundAt(ty, h, rel) == CASE Receiver(ty) = "value"   -> TRUE
                         [] Receiver(ty) = "pointer" -> Addressable(h.path \o rel)
                         [] OTHER                    -> FALSE
Found(ty, h) == FoundAt(ty, h, <<>>)

(* what time.Time's own MarshalText writes: RFC 3339 with nanoseconds, in the value's own zone *)
Abs(n) == IF n < 0 THEN -n ELSE n
NanoFrac(ms, sub) == LET f == FracOf(ms * 1000000 + sub) IN IF FracNZ(f) THEN <<".">> \o TrimFrac(f) ELSE <<>>
ZoneText(off) == IF off = 0 THEN <<"Z">>
                 ELSE << IF off < 0 THEN "-" ELSE "+" >> \o Pad(Abs(off) \div 60, 2) \o <<":">> \o Pad(Abs(off) % 60, 2)
GoTimeText(t) == Pad(t.y, 4) \o <<"-">> \o Pad(t.mo, 2) \o <<"-">> \o Pad(t.d, 2) \o <<"T">> \o Pad(t.h, 2) \o <<":">>
                 \o Pad(t.mi, 2) \o <<":">> \o Pad(t.s, 2) \o NanoFrac(t.ms, t.sub) \o ZoneText(t.off)
(* what encoding/xml and encoding/json write for a plain time.Duration / int64: strconv.FormatInt of the *)
(* nanosecond count.  The numeral is never computed (32 bit): the token "N" stands for a non-zero one    *)
IntText(d) == IF MagZero(d) THEN <<"0">> ELSE IF d.neg THEN <<"-", "N">> ELSE <<"N">>
(* a struct without exported fields (RelaxedTime written field by field): no text form at all *)
NoText == <<"?">>

(* text types through a carrier *)
DurTextVia(h, d)  == IF Found("Duration", h) THEN DMarshal(d) ELSE IntText(d)
InstTextVia(h, t) == IF Found("RelaxedTime", h) THEN IMarshal(t) ELSE NoText
\* a carrier hands UnmarshalText what the document holds: an attribute a="" and a JSON string "" are empty but
\* not nil slices, which UnmarshalText does not take for 0 (named oddity EmptyTextNotNil); an empty element
\* and the raw call pass nil; an omitempty attribute is not written and the field keeps its zero value
DUnmarshalVia(car, t) == IF t = <<>> /\ car \in {"attr", "str"} THEN Err ELSE DUnmarshal(t)

(* struct types: one attribute text per slot *)
ZeroCivil == [y |-> 1, mo |-> 1, d |-> 1, h |-> 0, mi |-> 0, s |-> 0, ms |-> 0]
InstZ == Inst(1, 1, 1, 0, 0, 0, 0, 0, 0)                     \* Go's zero time.Time
SV(p, t, d) == [p |-> p, t |-> t, d |-> d]                  \* slot value: present, instant, duration
Omitted == [om |-> TRUE, t |-> <<>>]
Txt(t)  == [om |-> FALSE, t |-> t]
SlotText(s, x, found) ==
  IF ~x.p THEN Omitted                                       \* nil pointer: no attribute
  ELSE IF s.k = "inst" THEN Txt(IF found /\ s.mvia = "relaxed" THEN IMarshal(x.t) ELSE GoTimeText(x.t))
  ELSE IF found /\ s.mvia = "relaxed"
         THEN (IF MagZero(x.d) THEN Omitted ELSE Txt(DMarshal(x.d)))     \* Duration + omitempty / the guard of metadata.go:50
  ELSE IF MagZero(x.d) /\ s.oe /\ ~s.ptr THEN Omitted ELSE Txt(IntText(x.d))
SlotBack(s, x, tx) ==
  IF tx.om THEN [ok |-> TRUE, p |-> ~s.ptr, t |-> ZeroCivil, d |-> DurZero]       \* nil pointer / zero value
  ELSE IF s.k = "inst" THEN
         (IF s.uvia = "relaxed" THEN LET r == IUnmarshal(tx.t) IN [ok |-> r.ok, p |-> TRUE, t |-> r.t, d |-> DurZero]
          \* time.Time's own parser (strict RFC 3339) reads what time.Time's MarshalText wrote: the exact instant,
          \* projected to the millisecond for the comparison
          ELSE [ok |-> TRUE, p |-> TRUE, t |-> RoundUTC(x.t), d |-> DurZero])
  ELSE IF s.uvia = "relaxed" THEN LET r == DUnmarshalVia("attr", tx.t) IN
                                  [ok |-> r.ok /\ ~r.ovf, p |-> TRUE, t |-> ZeroCivil, d |-> r.d]
  ELSE [ok |-> TRUE, p |-> TRUE, t |-> ZeroCivil, d |-> x.d]                      \* strconv.ParseInt of FormatInt
SlotVia(s, x, h) == SlotBack(s, x, SlotText(s, x, FoundAt(s.own, h, s.rel)))
SlotsText(ty, vals, h) == [i \in DOMAIN vals |-> LET s == TypeTab[ty].slots[i] IN SlotText(s, vals[i], FoundAt(s.own, h, s.rel))]
SlotsBack(ty, vals, txs) == [i \in DOMAIN vals |-> SlotBack(TypeTab[ty].slots[i], vals[i], txs[i])]

----------------------------------------------------------------------------
(* metadata: EntityDescriptor shapes and one marshal/unmarshal generation *)

KnownBindings == {"post", "redirect", "artifact", "soap", "soapv1"}
Http(l) == l \in {"http", "https", "HTTP"}            \* url.Parse lower-cases the scheme
\* endpoint: ix = IndexedEndpoint (ResponseLocation is a *string), b binding, loc / resp location classes
Ep(ix, b, loc, resp) == [ix |-> ix, b |-> b, loc |-> loc, resp |-> resp]

\* metadata.go Endpoint.UnmarshalXML / IndexedEndpoint.UnmarshalXML with checkEndpointLocation
EpGen(e) ==
  IF e.b \in KnownBindings
    THEN IF Http(e.loc) /\ (e.resp = "absent" \/ Http(e.resp)) THEN [ok |-> TRUE, e |-> e]
         ELSE [ok |-> FALSE, e |-> e]                 \* invalid url scheme / invalid url
    ELSE [ok |-> TRUE, e |-> [e EXCEPT !.loc = "empty", !.resp = "absent"]]   \* location = ""
EpsOk(eps) == \A i \in DOMAIN eps : EpGen(eps[i]).ok
EpsGen(eps) == [i \in DOMAIN eps |-> EpGen(eps[i]).e]

RoundVU(vu) == [z |-> vu.z, ms |-> vu.ms + (IF vu.sub >= 500000 THEN 1 ELSE 0), sub |-> 0]
\* the cacheDuration attribute through one generation (the hand-over decides which marshaller writes it)
CdVia(s, p, cd, h) == SlotVia(s, SV(p, InstZ, cd), h)

\* validUntil: whichever marshaller writes it (RelaxedTime rounded in UTC, or time.Time's own unrounded
\* text), the type's UnmarshalXML reads it as RelaxedTime and rounds: the shape abstraction is the same
Gen(v, h) ==
  LET cd == CdVia(EdSlots(<<>>)[2], TRUE, v.cd, h) IN
  IF ~(EpsOk(v.idp.eps) /\ EpsOk(v.sp.eps)) \/ ~cd.ok THEN [err |-> TRUE, v |-> v]
  ELSE [err |-> FALSE,
        v |-> [v EXCEPT !.vu = RoundVU(v.vu), !.cd = cd.d,
                        !.idp.eps = EpsGen(v.idp.eps), !.sp.eps = EpsGen(v.sp.eps),
                        !.shadow = FALSE]]           \* ShadowedIdPArtifactResolution: never written

(* EntitiesDescriptor trees.  A tree is [chain, fan, leaves]:                                              *)
(*   chain   n >= 1 elements nested in one another, the root first (n = 1: the root alone)             *)
(*   fan     <<f1, ..., fk>>: the last element of the chain has f1 children, each of them f2, ...      *)
(*   leaves  EntityDescriptor children of every deepest group                                          *)
(* The tree is never walked element by element (TLC recursion is bounded and a chain may be a thousand *)
(* deep): the counter an element finds on entry is given in closed form, level by level.               *)
Tree(chain, fan, leaves) == [chain |-> chain, fan |-> fan, leaves |-> leaves]
NoTree == Tree(1, <<>>, 0)
\* number of EntitiesDescriptor elements of the sub-tree below (and including) one element of fan level l
\* (l = 0: the last element of the chain)
RECURSIVE FanSize(_, _)
FanSize(fan, l) == IF l >= Len(fan) THEN 1 ELSE 1 + fan[l + 1] * FanSize(fan, l + 1)
TreeElements(t) == (t.chain - 1) + FanSize(t.fan, 0)
TreeDepth(t)    == t.chain + Len(t.fan)
\* an EntitiesDescriptor value as a whole: the classic shapes have `nested` one-level children and no tree
EsdElements(v) == TreeElements(v.tree) + v.nested
EsdDepth(v)    == IF v.nested > 0 /\ TreeDepth(v.tree) < 2 THEN 2 ELSE TreeDepth(v.tree)

(* metadata.go EntitiesDescriptor.UnmarshalXML: depth := counter[d]; refuse when depth >= bound;       *)
(* counter[d] = depth + 1; decode the children; deferred: put depth back (delete at the outermost).    *)
(* The largest value an element finds on entry:                                                        *)
(*   the code as it is       every element finds the number of its ANCESTORS (each finished sibling    *)
(*                           has put the counter back): the deepest element finds depth - 1;           *)
(*   CounterCountsElements   nothing is put back before the outermost element is done: an element      *)
(*                           finds the number of elements that STARTED before it in document order:    *)
(*                           the last one finds elements - 1.                                          *)
LargestCounterOnEntry(v) == IF CounterCountsElements THEN EsdElements(v) - 1 ELSE EsdDepth(v) - 1
ReparseRefused(v) == LargestCounterOnEntry(v) >= NestingBound
\* xml.Marshal has no such bound: every tree is written
Marshals(v) == TRUE

\* EntitiesDescriptor: optional parts are pointers ("nil" when absent); nested children (slice elements)
\* carry the same cache duration as the root
EsdGen(v, h) ==
  LET root == CdVia(EsdSlots(<<>>)[2], v.cd.p, v.cd.v, h)
      kid  == CdVia(EsdSlots(<<"field", "elem">>)[2], v.cd.p, v.cd.v, h)
  IN IF ~root.ok \/ (v.nested > 0 /\ ~kid.ok) \/ ReparseRefused(v) THEN [err |-> TRUE, v |-> v]
     ELSE [err |-> FALSE,
           v |-> [v EXCEPT !.vu = IF v.vu.p THEN [p |-> TRUE, v |-> RoundVU(v.vu.v)] ELSE v.vu,
                           !.cd = IF root.p THEN [p |-> TRUE, v |-> root.d] ELSE [p |-> FALSE, v |-> DurZero]]]

\* generated SP / IdP metadata always has a non-zero cache duration (DefaultValidDuration when unset)
GeneratedGen(h) == CdVia(EdSlots(<<>>)[2], TRUE, Dur(FALSE, 48, 0, 0, Zero9), h).ok

----------------------------------------------------------------------------
(* the enumerated families *)

Q == Tier = "q"

\* every sub-second pattern with at most two non-zero digits among nine, plus the dense ones
Pat2 == {Zero9} \cup { [Zero9 EXCEPT ![i] = a] : i \in 1..9, a \in 1..9 }
        \cup { [Zero9 EXCEPT ![p[1]] = a, ![p[2]] = b] :
                 p \in { q \in (1..9) \X (1..9) : q[1] < q[2] }, a \in 1..9, b \in 1..9 }
Dense == { FracOf(n) : n \in {999999999, 999999998, 854775807, 854775808, 854775806, 123456789,
                              987654321, 111111111, 1959945, 7839777, 290000001} }
Whole == IF Q THEN { <<0, 0, 0>>, <<0, 0, 1>>, <<0, 0, 59>>, <<0, 59, 59>>, <<1, 0, 0>>, <<2562047, 47, 16>> }
         ELSE { <<0, 0, s>> : s \in 0..59 }
              \cup { <<0, 1, 0>>, <<0, 59, 0>>, <<0, 59, 59>>, <<1, 0, 0>>, <<1, 59, 59>>, <<23, 59, 59>>, <<24, 0, 0>>,
                     <<8760, 0, 0>>, <<2562047, 0, 0>>, <<2562047, 47, 15>>, <<2562047, 47, 16>>, <<2562047, 46, 59>> }
Fracs == Pat2 \cup Dense
\* (the families are enumerated by quantifiers in Init, never built as one big set:
\* TLC sorts explicit sets quadratically)
IsDurVal(d) == InInt64(d) /\ ~(d.neg /\ MagZero(d))

\* duration strings, family T: every presence pattern of the template
\*   sign P nY nM nD T nH nM n[.f]S   (T and the components independently present or absent)
\* lead0carry / lead08: leading zeros in front of several significant digits / of a digit that is no octal digit
\* (xsd:duration numbers are decimal whatever they start with)
NumStyle == {"small", "lead0", "carry", "lead0carry", "lead08"}
N(style, small, carry) == CASE style = "small" -> <<Tok(small)>>
                            [] style = "lead0" -> <<"0", "0", Tok(small)>>
                            [] style = "lead0carry" -> <<"0">> \o carry
                            [] style = "lead08" -> <<"0", "8">>
                            [] OTHER -> carry
FracStyles == { <<>>, <<".", "5">>, <<".", "0", "0", "0", "0", "0", "0", "0", "0", "1">>,
                <<".", "9", "9", "9", "9", "9", "9", "9", "9", "9">>, <<".", "5", "0">>,
                <<".", "1", "2", "3", "4", "5", "6", "7", "8", "9", "1">>, <<".", "2", "9">>,
                \* xsd:duration puts no bound on the number of fraction digits: twenty of them, beyond any machine integer
                <<".">> \o [i \in 1..20 |-> "0"], <<".">> \o [i \in 1..20 |-> "9"],
                <<".", "5">> \o [i \in 1..24 |-> "0"] }
Opt(b, s) == IF b THEN s ELSE <<>>
TemplStr(sg, yP, moP, dP, tP, hP, miP, sP, st, fr) ==
  Opt(sg, <<"-">>) \o <<"P">>
  \o Opt(yP, N(st, 1, <<"2", "9", "2">>) \o <<"Y">>) \o Opt(moP, N(st, 2, <<"1", "3">>) \o <<"M">>)
  \o Opt(dP, N(st, 3, <<"4", "0", "0">>) \o <<"D">>) \o Opt(tP, <<"T">>)
  \o Opt(hP, N(st, 4, <<"2", "5">>) \o <<"H">>) \o Opt(miP, N(st, 5, <<"9", "0">>) \o <<"M">>)
  \o Opt(sP, N(st, 6, <<"3", "6", "0", "0">>) \o fr \o <<"S">>)
DurStrT == { TemplStr(sg, yP, moP, dP, tP, hP, miP, sP, st, fr) :
               sg \in BOOLEAN, yP \in BOOLEAN, moP \in BOOLEAN, dP \in BOOLEAN, tP \in BOOLEAN,
               hP \in BOOLEAN, miP \in BOOLEAN, sP \in BOOLEAN, st \in NumStyle,
               fr \in IF Q THEN { <<>>, <<".", "5">>, <<".", "1", "2", "3", "4", "5", "6", "7", "8", "9", "1">>,
                                   <<".">> \o [i \in 1..20 |-> "9"] } ELSE FracStyles }

\* family S: every sequence of at most SLen lexical items (reject side: wrong order,
\* repeated or missing parts, stray characters)
Items == { <<"-">>, <<"P">>, <<"T">>, <<"1", "Y">>, <<"2", "M">>, <<"3", "D">>, <<"4", "H">>, <<"5", "S">>,
           <<"0", ".", "5", "S">>, <<"7">>, <<".">>, <<"x">>, <<" ">>, <<"+">> }
SLen == IF Q THEN 3 ELSE 4
RECURSIVE Flat(_)
Flat(ss) == IF ss = <<>> THEN <<>> ELSE Head(ss) \o Flat(Tail(ss))
\* family X: extremes and overflow
DurStrX == { <<"P", "T", "2", "5", "6", "2", "0", "4", "7", "H", "4", "7", "M", "1", "6", ".", "8", "5", "4", "7", "7", "5", "8", "0", "7", "S">>,
             <<"-", "P", "T", "2", "5", "6", "2", "0", "4", "7", "H", "4", "7", "M", "1", "6", ".", "8", "5", "4", "7", "7", "5", "8", "0", "8", "S">>,
             <<"P", "T", "2", "5", "6", "2", "0", "4", "7", "H", "4", "7", "M", "1", "6", ".", "8", "5", "4", "7", "7", "5", "8", "0", "8", "S">>,
             <<"P", "T", "9", "2", "2", "3", "3", "7", "2", "0", "3", "7", "S">>,
             <<"P", "T", "9", "9", "9", "9", "9", "9", "9", "9", "9", "S">>,
             <<"P", "T", "9", "9", "9", "9", "9", "9", "9", "9", "9", "9", "9", "H">>,
             <<"P", "2", "9", "3", "Y">>, <<"P", "2", "9", "2", "Y">>, <<"P", "1", "0", "6", "7", "5", "1", "D">>,
             <<"P", "1", "0", "6", "7", "5", "2", "D">>, <<"P", "T", "0", "S">>, <<"-", "P", "T", "0", "S">>,
             <<"P", "0", "Y", "0", "M", "0", "D", "T", "0", "H", "0", "M", "0", ".", "0", "S">>,
             \* near misses of the seconds numeral and of the designators
             <<"P", "T", "1", ".", "S">>, <<"P", "T", ".", "5", "S">>, <<"P", "T", "1", ".", "5", ".", "5", "S">>,
             <<"P", "T", "1", ".", "5", "M">>, <<"P", "T", "1", ".", "5", "H">>, <<"P", "1", ".", "5", "Y">>, <<"P", "1", ".", "5", "D">>,
             <<"P", "T", "1", ",", "5", "S">>, <<"P", "T", "1", "E", "3", "S">>, <<"P", "T", "-", "1", "S">>, <<"P", "-", "1", "Y">>,
             <<"p", "t", "1", "s">>, <<"P", "T", "1", "s">>, <<"P", "1", "Y", "2">>, <<"P", "T", "1", "H", "2">>,
             <<"P", "1", "W">>, <<"P", "T", "1", "S", "T">>, <<"P", "1", "D", "T">>, <<"-", "-", "P", "1", "D">>,
             <<"P", "T", "1", "S", " ">>, <<" ", "P", "T", "1", "S">>, <<"P", "T", " ", "1", "S">> }

\* instants
Dates == { <<1, 1, 1>>, <<1, 12, 31>>, <<1969, 12, 31>>, <<1970, 1, 1>>, <<2023, 12, 31>>, <<2024, 2, 28>>,
           <<2024, 2, 29>>, <<2100, 2, 28>>, <<2000, 2, 29>>, <<9999, 12, 31>> }
Tods  == { <<0, 0, 0>>, <<23, 59, 59>>, <<12, 34, 56>> }
Mss   == IF Q THEN {0, 1, 120, 999} ELSE {0, 1, 10, 100, 120, 500, 998, 999}
Subs  == {0, 1, 499999, 500000, 500001, 999999}
Offs  == IF Q THEN {0, 60, -330, 840} ELSE {0, 1, 60, -60, -330, 345, 840, -720, 1439, -1439}
InstVals == { Inst(dt[1], dt[2], dt[3], td[1], td[2], td[3], ms, sub, off) :
                dt \in Dates, td \in Tods, ms \in Mss, sub \in Subs, off \in Offs }

\* instant strings: one record of lexical fields, concatenated
Fld(y, s1, mo, s2, d, st, h, s3, mi, s4, s, f, z) ==
  [y |-> y, s1 |-> s1, mo |-> mo, s2 |-> s2, d |-> d, st |-> st, h |-> h, s3 |-> s3, mi |-> mi, s4 |-> s4,
   s |-> s, f |-> f, z |-> z]
FText(x) == x.y \o x.s1 \o x.mo \o x.s2 \o x.d \o x.st \o x.h \o x.s3 \o x.mi \o x.s4 \o x.s \o x.f \o x.z
BaseF == Fld(<<"2", "0", "2", "4">>, <<"-">>, <<"0", "3">>, <<"-">>, <<"1", "0">>, <<"T">>, <<"0", "9">>, <<":">>,
             <<"0", "7">>, <<":">>, <<"0", "5">>, <<>>, <<"Z">>)
YearV == { <<"2", "0", "2", "4">>, <<"0", "0", "0", "1">>, <<"9", "9", "9", "9">>, <<"0", "0", "0", "0">>,
           <<"2", "4">>, <<"1", "2", "0", "2", "4">>, <<"2", "0", "2">>, <<"2", "0", "x", "4">>, <<>>, <<"-", "2", "0", "2", "4">>,
           <<"+", "2", "0", "2", "4">> }
SepV  == { <<"-">>, <<"/">>, <<>>, <<":">>, <<".">>, <<"-", "-">> }
MonV  == { <<"0", "1">>, <<"1", "2">>, <<"0", "0">>, <<"1", "3">>, <<"1">>, <<"0", "1", "2">>, <<"x", "1">>, <<>> }
DayV  == { <<"0", "1">>, <<"3", "1">>, <<"0", "0">>, <<"3", "2">>, <<"1">>, <<"0", "1", "0">>, <<"1", "x">>, <<>> }
TeeV  == { <<"T">>, <<"t">>, <<" ">>, <<>>, <<"x">>, <<"T", "T">>, <<"_">> }
HourV == { <<"0", "0">>, <<"2", "3">>, <<"2", "4">>, <<"5">>, <<"2", "5">>, <<"0", "0", "9">>, <<"x", "9">>, <<>>, <<"-", "1">> }
ColV  == { <<":">>, <<>>, <<".">>, <<"-">>, <<":", ":">>, <<" ">> }
MinV  == { <<"0", "0">>, <<"5", "9">>, <<"6", "0">>, <<"5">>, <<"0", "0", "7">>, <<"x", "7">>, <<>> }
SecV  == { <<"0", "0">>, <<"5", "9">>, <<"6", "0">>, <<"6", "1">>, <<"5">>, <<"0", "0", "7">>, <<"7", "x">>, <<>> }
FracV == { <<>>, <<".", "5">>, <<".", "1", "2", "3">>, <<".", "1", "2", "3", "4", "9", "9", "9", "9", "9">>,
           <<".", "1", "2", "3", "5">>, <<".", "9", "9", "9", "5">>, <<".", "0", "0", "0", "0", "0", "0", "0", "0", "0", "1">>,
           <<".", "1", "2", "3", "4", "5", "6", "7", "8", "9", "0", "1", "2">>,
           <<",", "5">>, <<".">>, <<".", ".", "5">>, <<".", "5", ".", "5">>, <<".", "x">>, <<":", "5">>, <<".", "5", "x">> }
ZoneV == { <<>>, <<"Z">>, <<"+", "0", "1", ":", "0", "0">>, <<"-", "0", "5", ":", "3", "0">>, <<"+", "1", "4", ":", "0", "0">>,
           <<"-", "0", "0", ":", "0", "0">>, <<"+", "2", "3", ":", "5", "9">>,
           <<"z">>, <<"+", "2", "4", ":", "0", "0">>, <<"+", "0", "1", ":", "6", "0">>, <<"+", "0", "1", "0", "0">>, <<"+", "0", "1">>,
           <<"Z", "Z">>, <<" ", "Z">>, <<"Z", " ">>, <<"U", "T", "C">>, <<"x">>, <<"Z", "0", "7", ":", "0", "0">>,
           <<"+", "1", ":", "0", "0">>, <<"+", "0", "1", ":", "0">>, <<"0", "1", ":", "0", "0">>, <<"+", "0", "1", ":", "0", "0", "Z">>,
           <<"+", "x", "1", ":", "0", "0">> }
InstFlds ==
     { [BaseF EXCEPT !.y = v] : v \in YearV } \cup { [BaseF EXCEPT !.s1 = v] : v \in SepV }
  \cup { [BaseF EXCEPT !.mo = v] : v \in MonV } \cup { [BaseF EXCEPT !.s2 = v] : v \in SepV }
  \cup { [BaseF EXCEPT !.d = v] : v \in DayV } \cup { [BaseF EXCEPT !.st = v] : v \in TeeV }
  \cup { [BaseF EXCEPT !.h = v] : v \in HourV } \cup { [BaseF EXCEPT !.s3 = v] : v \in ColV }
  \cup { [BaseF EXCEPT !.mi = v] : v \in MinV } \cup { [BaseF EXCEPT !.s4 = v] : v \in ColV }
  \cup { [BaseF EXCEPT !.s = v] : v \in SecV }
  \cup { [BaseF EXCEPT !.f = f, !.z = z] : f \in FracV, z \in ZoneV }
  \* the calendar: month lengths and leap years
  \cup { [BaseF EXCEPT !.y = y, !.mo = mo, !.d = d] :
           y \in { <<"2", "0", "2", "4">>, <<"2", "0", "2", "3">>, <<"2", "1", "0", "0">>, <<"2", "0", "0", "0">> },
           mo \in { <<"0", "1">>, <<"0", "2">>, <<"0", "4">>, <<"1", "1">>, <<"1", "2">> },
           d \in { <<"2", "8">>, <<"2", "9">>, <<"3", "0">>, <<"3", "1">> } }
  \* end-of-day / end-of-year carries on the accept side
  \cup { [BaseF EXCEPT !.y = y, !.mo = <<"1", "2">>, !.d = <<"3", "1">>, !.h = <<"2", "3">>, !.mi = <<"5", "9">>,
                       !.s = <<"5", "9">>, !.f = f, !.z = z] :
           y \in { <<"2", "0", "2", "3">>, <<"9", "9", "9", "8">>, <<"0", "0", "0", "1">> },
           f \in { <<>>, <<".", "9", "9", "9", "5">>, <<".", "9", "9", "9", "4", "9", "9">> },
           z \in { <<>>, <<"Z">>, <<"-", "0", "5", ":", "3", "0">>, <<"+", "1", "4", ":", "0", "0">> } }

\* EntityDescriptor shapes
VUs == { [z |-> TRUE, ms |-> 0, sub |-> 0], [z |-> FALSE, ms |-> 0, sub |-> 0],
         [z |-> FALSE, ms |-> 0, sub |-> 499999], [z |-> FALSE, ms |-> 0, sub |-> 500000] }
CDs == { DurZero, Dur(FALSE, 1, 0, 0, Zero9), Dur(FALSE, 0, 0, 1, FracOf(500000000)),
         Dur(FALSE, 48, 0, 0, Zero9), Dur(FALSE, 0, 0, 0, FracOf(1)), Dur(TRUE, 0, 1, 30, Zero9) }
PlainResp == {"absent", "https", "other"}
IdxResp   == {"absent", "https", "other", "emptyptr"}
LocCls    == {"http", "https", "HTTP", "other", "relative", "empty", "unparsable"}
Bind      == KnownBindings \cup {"unknown"}
AllEps == { Ep(FALSE, b, l, r) : b \in Bind, l \in LocCls, r \in PlainResp }
          \cup { Ep(TRUE, b, l, r) : b \in Bind, l \in LocCls, r \in IdxResp }
FewEps == { Ep(ix, b, l, r) : ix \in BOOLEAN, b \in {"post", "unknown"}, l \in {"https", "other"}, r \in {"absent", "https"} }
Plain(es) == { e \in es : ~e.ix }
Indexed(es) == { e \in es : e.ix }
Role(p, eps) == [p |-> p, eps |-> eps]
Shape(eid, id, vu, cd, keys, org, contact, idp, sp, shadow) ==
  [eid |-> eid, id |-> id, vu |-> vu, cd |-> cd, keys |-> keys, org |-> org, contact |-> contact,
   idp |-> idp, sp |-> sp, shadow |-> shadow]
GoodIdp == Role(TRUE, << Ep(FALSE, "redirect", "https", "absent"), Ep(FALSE, "post", "https", "https") >>)
GoodSp  == Role(TRUE, << Ep(TRUE, "post", "https", "absent"), Ep(TRUE, "artifact", "http", "https") >>)
NoRole  == Role(FALSE, <<>>)
EidCls  == {"url", "xmlspecial", "whitespace", "unicode", "empty"}
KeyCls  == {"none", "signing", "encryption", "both", "unspecified", "multiline"}
\* family E: endpoint table exhaustively (single endpoints), reduced pairs, in a minimal and a full shape
MdShapesE ==
     { Shape("url", FALSE, [z |-> TRUE, ms |-> 0, sub |-> 0], DurZero, "none", FALSE, FALSE, Role(TRUE, <<e>>), NoRole, FALSE) : e \in Plain(AllEps) }
  \cup { Shape("url", TRUE, [z |-> FALSE, ms |-> 0, sub |-> 500000], Dur(FALSE, 1, 0, 0, Zero9), "both", TRUE, TRUE, GoodIdp, Role(TRUE, <<e>>), FALSE) : e \in Indexed(AllEps) }
  \cup { Shape("url", FALSE, [z |-> FALSE, ms |-> 0, sub |-> 0], DurZero, "signing", FALSE, FALSE, Role(TRUE, <<e1, e2>>), NoRole, FALSE) :
           e1 \in Plain(FewEps), e2 \in Plain(FewEps) }
  \cup { Shape("url", FALSE, [z |-> FALSE, ms |-> 0, sub |-> 0], DurZero, "signing", FALSE, FALSE, NoRole, Role(TRUE, <<e1, e2>>), FALSE) :
           e1 \in Indexed(FewEps), e2 \in Indexed(FewEps) }
\* family O: every optional part present or absent
EidO  == IF Q THEN {"url", "xmlspecial"} ELSE EidCls
CdO   == IF Q THEN {DurZero, Dur(FALSE, 0, 0, 1, FracOf(500000000)), Dur(FALSE, 48, 0, 0, Zero9)} ELSE CDs
KeysO == IF Q THEN {"none", "both", "multiline"} ELSE KeyCls

\* EntitiesDescriptor shapes: pointer-valued optional parts
PtrNil == [p |-> FALSE, v |-> 0]
EsdShapes == { [id |-> id, name |-> nm, vu |-> vu, cd |-> cd, nested |-> ne, eds |-> n, tree |-> NoTree] :
                 id \in BOOLEAN, nm \in BOOLEAN,
                 vu \in { [p |-> FALSE, v |-> [z |-> TRUE, ms |-> 0, sub |-> 0]] } \cup { [p |-> TRUE, v |-> x] : x \in VUs },
                 cd \in { [p |-> FALSE, v |-> DurZero] } \cup { [p |-> TRUE, v |-> x] : x \in CDs },
                 ne \in 0..1, n \in 0..2 }
\* size and shape: children per level x depth x leaves.  Widths around the nesting bound (a counter that counts
\* siblings trips there) and two moderate ones for the three-level trees; chains around the bound itself.
\* MaxTreeElements keeps the documents small (a group without content is some sixty bytes).
Widths == {1, 2, 30, 40, NestingBound - 1, NestingBound, NestingBound + 1, NestingBound + 200}
MaxTreeElements == 2 * NestingBound + 500
Fans == {<<>>} \cup { <<a>> : a \in Widths } \cup { <<a, b>> : a \in Widths, b \in Widths }
Chains == {1, 2, NestingBound - 1, NestingBound, NestingBound + 1} \cup (IF Q THEN {} ELSE {3})
EsdTrees == { t \in { Tree(c, f, l) : c \in Chains, f \in Fans, l \in 0..1 } :
                /\ t # NoTree
                /\ TreeElements(t) <= MaxTreeElements
                /\ (t.chain > 3 => Len(t.fan) <= 1 /\ \A i \in DOMAIN t.fan : t.fan[i] <= 2) }   \* deep chains end in a small fan
EsdTreeShapes == { [id |-> FALSE, name |-> TRUE, vu |-> vu, cd |-> cd, nested |-> 0, eds |-> 0, tree |-> t] :
                     vu \in { [p |-> FALSE, v |-> [z |-> TRUE, ms |-> 0, sub |-> 0]] },
                     cd \in { [p |-> FALSE, v |-> DurZero] } \cup (IF Q THEN {} ELSE { [p |-> TRUE, v |-> Dur(FALSE, 1, 0, 0, Zero9)] }),
                     t \in EsdTrees }

\* configurations of the two metadata generators
SpCfgs == { [cert |-> c, sigm |-> sm, slo |-> slo, eid |-> e, valid |-> vd, nidf |-> nf, now |-> nw, inter |-> im] :
              c \in BOOLEAN, sm \in BOOLEAN, slo \in 0..2, e \in BOOLEAN, vd \in {"default", "hours", "frac"},
              nf \in BOOLEAN, nw \in {0, 499999, 500000}, im \in BOOLEAN }
IdpCfgs == { [valid |-> vd, slo |-> slo, now |-> nw] :
              vd \in {"default", "hours", "frac", "ns"}, slo \in BOOLEAN, nw \in {0, 499999, 500000} }

\* hand-over: every mode on a core of each family, one addressable and one non-addressable mode on the rest
\* (the outcome depends on the mode only through FoundAt and the carrier's treatment of the empty text)
IsDurCore(d) == /\ <<d.h, d.m, d.s>> \in {<<0, 0, 0>>, <<0, 0, 1>>, <<1, 0, 0>>, <<2562047, 47, 16>>}
                /\ d.f \in {Zero9, FracOf(500000000), FracOf(1), FracOf(854775807), FracOf(1959945)}
                         \cup (IF Q THEN {} ELSE Dense)
IsInstCore(t) == /\ <<t.y, t.mo, t.d>> \in {<<1, 1, 1>>, <<2024, 2, 29>>, <<9999, 12, 31>>}
                 /\ <<t.h, t.mi, t.s>> \in (IF Q THEN {<<23, 59, 59>>} ELSE Tods)
                 /\ t.ms \in {0, 999} /\ t.sub \in {0, 499999, 500000}
                 /\ t.off \in {0, 840, -330}
IsMdCore(v) == /\ v.eid = "url" /\ v.keys = "both" /\ ~v.org /\ ~v.contact /\ ~v.shadow
               /\ v.idp = GoodIdp /\ (Q => v.sp = GoodSp)
IsEsdCore(v) == ~v.id /\ (Q => v.name) /\ v.tree = NoTree       \* the parser's counter lives in the decoder: no mode reaches it
ReprHows   == { h \in StructHows : h.n \in {"marshal:ptr", "marshal:val"} }
\* ServeMetadata writes MarshalIndent(ptr); samlidp's service handler writes Encode(value)
ServedHows == { h \in StructHows : h.n \in {"indent:ptr", "marshal:ptr", "marshal:val", "indent:val", "encode:val"} }
HowsAt(k, v) ==
  CASE k = "dur"   -> IF IsDurCore(v) THEN TextHows ELSE {CallHow}
    [] k = "inst"  -> IF IsInstCore(v) THEN TextHows ELSE {CallHow}
    [] k = "md"    -> IF IsMdCore(v) THEN StructHows ELSE ReprHows
    [] k = "esd"   -> IF IsEsdCore(v) THEN StructHows ELSE ReprHows
    [] k = "slots" -> StructHows
    [] OTHER       -> ServedHows

\* slots: every struct type of the package that carries an instant or a duration, with small value families
SlotTypes == TypeNames \ {"Duration", "RelaxedTime"}
SlotInsts == { InstZ, Inst(2031, 5, 6, 7, 8, 9, 123, 0, 0), Inst(2031, 5, 6, 7, 8, 9, 123, 456789, 120),
               Inst(2024, 2, 29, 23, 59, 59, 999, 500000, -330), Inst(9999, 12, 31, 23, 59, 59, 998, 499999, 0) }
             \cup (IF Q THEN {} ELSE { Inst(1, 1, 1, 0, 0, 0, 0, 1, 840), Inst(1970, 1, 1, 0, 0, 0, 0, 500001, -720),
                                      Inst(9999, 12, 31, 23, 59, 59, 999, 500000, 0), Inst(2100, 2, 28, 23, 59, 59, 999, 999999, 1439) })
SlotDurs  == CDs \cup (IF Q THEN {} ELSE { Dur(TRUE, 2562047, 47, 16, FracOf(854775808)), Dur(FALSE, 2562047, 47, 16, FracOf(854775807)),
                                          Dur(FALSE, 0, 0, 0, FracOf(1959945)) })
SlotVals(s) == (IF s.ptr THEN {SV(FALSE, InstZ, DurZero)} ELSE {})
               \cup (IF s.k = "inst" THEN { SV(TRUE, t, DurZero) : t \in SlotInsts } ELSE { SV(TRUE, InstZ, d) : d \in SlotDurs })
AnySV == {SV(FALSE, InstZ, DurZero)} \cup { SV(TRUE, t, DurZero) : t \in SlotInsts } \cup { SV(TRUE, InstZ, d) : d \in SlotDurs }
\* tree types: every slot of a kind gets the same value, the pointer slots are nil together
SlotVecs(ty) ==
  LET ss == TypeTab[ty].slots IN
  IF TypeTab[ty].uni
    THEN { [i \in DOMAIN ss |-> IF ss[i].ptr /\ np THEN SV(FALSE, InstZ, DurZero)
                                ELSE IF ss[i].k = "inst" THEN SV(TRUE, a, DurZero) ELSE SV(TRUE, InstZ, b)] :
             a \in SlotInsts, np \in BOOLEAN,
             b \in IF \E i \in DOMAIN ss : ss[i].k = "dur" THEN SlotDurs ELSE {DurZero} }
    ELSE { f \in [DOMAIN ss -> AnySV] : \A i \in DOMAIN ss : f[i] \in SlotVals(ss[i]) }

----------------------------------------------------------------------------
(* the pipeline: one action per stage *)

Fam(k) == k \in Families
AllFamilies == {"dur", "durstr", "inst", "inststr", "md", "esd", "spmd", "idpmd", "slots"}
DevFamilies == {"slots"}                              \* TimeDur_C15dev.cfg
EsdFamily   == {"esd"}                                \* TimeDur_C15dev2.cfg

Init == /\ \/ /\ Fam("dur") /\ kind = "dur" /\ pc = "marshal"
              /\ \E n \in BOOLEAN, w \in Whole, f \in Fracs :
                    vec = Dur(n, w[1], w[2], w[3], f) /\ IsDurVal(vec)
           \/ Fam("inst") /\ kind = "inst"    /\ vec \in InstVals /\ pc = "marshal"
           \/ /\ Fam("durstr") /\ kind = "durstr" /\ pc = "unmarshal"
              /\ \/ vec \in DurStrT \cup DurStrX
                 \/ \E n \in 0..SLen : \E ss \in [1..n -> Items] : vec = Flat(ss)
           \/ Fam("inststr") /\ kind = "inststr" /\ vec \in InstFlds /\ pc = "unmarshal"
           \/ /\ Fam("md") /\ kind = "md" /\ pc = "gen1"
              /\ \/ vec \in MdShapesE
                 \/ \E eid \in EidO, id \in BOOLEAN, vu \in VUs, cd \in CdO, keys \in KeysO, org \in BOOLEAN,
                       contact \in BOOLEAN, idp \in {NoRole, GoodIdp}, sp \in {NoRole, GoodSp}, sh \in BOOLEAN :
                      vec = Shape(eid, id, vu, cd, keys, org, contact, idp, sp, sh) /\ (sh => idp.p)
           \/ Fam("esd") /\ kind = "esd"     /\ vec \in EsdShapes \cup EsdTreeShapes /\ pc = "gen1"
           \/ Fam("spmd") /\ kind = "spmd"    /\ vec \in SpCfgs   /\ pc = "gen1"
           \/ Fam("idpmd") /\ kind = "idpmd"   /\ vec \in IdpCfgs  /\ pc = "gen1"
           \/ /\ Fam("slots") /\ kind = "slots" /\ pc = "marshal"
              /\ \E ty \in SlotTypes : \E vals \in SlotVecs(ty) : vec = [ty |-> ty, vals |-> vals]
        /\ text = IF kind = "durstr" THEN vec ELSE IF kind = "inststr" THEN FText(vec) ELSE <<>>
        /\ back = <<>>
        /\ how = CallHow                              \* the text kinds call UnmarshalText directly

\* the hand-over mode is chosen here
MarshalStage ==
  /\ pc = "marshal"
  /\ \E h \in HowsAt(kind, vec) :
       /\ how' = h
       /\ text' = CASE kind = "dur"  -> DurTextVia(h, vec)
                    [] kind = "inst" -> InstTextVia(h, vec)
                    [] OTHER         -> SlotsText(vec.ty, vec.vals, h)
  /\ pc' = "unmarshal"
  /\ UNCHANGED <<kind, vec, back>>

UnmarshalStage ==
  /\ pc = "unmarshal"
  /\ back' = CASE kind = "dur"    -> DUnmarshalVia(how.car, text)
               [] kind = "durstr" -> DUnmarshal(text)
               [] kind = "slots"  -> SlotsBack(vec.ty, vec.vals, text)
               [] OTHER           -> IUnmarshal(text)
  /\ pc' = "done"
  /\ UNCHANGED <<kind, vec, how, text>>

\* generation 1: value -> document -> value; the hand-over mode is chosen here
Gen1Stage ==
  /\ pc = "gen1"
  /\ \E h \in HowsAt(kind, vec) :
       /\ how' = h
       /\ back' = CASE kind = "md"  -> <<Gen(vec, h)>>
                    [] kind = "esd" -> <<EsdGen(vec, h)>>
                    [] OTHER        -> <<GeneratedGen(h)>>            \* generated metadata: does the document re-parse
       /\ pc' = IF (kind = "md" /\ ~Gen(vec, h).err) \/ (kind = "esd" /\ ~EsdGen(vec, h).err) THEN "gen2" ELSE "done"
  /\ UNCHANGED <<kind, vec, text>>

\* generation 2: the re-parsed value once more through the document form, handed over the same way
Gen2Stage ==
  /\ pc = "gen2"
  /\ back' = IF kind = "md" THEN Append(back, Gen(back[1].v, how)) ELSE Append(back, EsdGen(back[1].v, how))
  /\ pc' = "done"
  /\ UNCHANGED <<kind, vec, how, text>>

Next == MarshalStage \/ UnmarshalStage \/ Gen1Stage \/ Gen2Stage
Spec == Init /\ [][Next]_vars

----------------------------------------------------------------------------
(************************** Properties (statement) *************************)
(* Everything below is written from the property statement and the lexical *)
(* definitions it refers to, not from the stages above.                    *)

Done == pc = "done"

(* "xsd:duration text": the lexical space of XML Schema part 2, 3.2.6.1, as a DFA    *)
(*    -?P(nY)?(nM)?(nD)?(T(nH)?(nM)?(n(.n)?S)?)?   at least one component, and at    *)
(*    least one after a T.  num: 0 no numeral open, 1 integer digits, 2 just after   *)
(*    the point, 3 fraction digits; lvl: how far the designator order has advanced   *)
Q0  == [ph |-> "s0",  lvl |-> 0, num |-> 0, any |-> FALSE]
QB  == [ph |-> "bad", lvl |-> 0, num |-> 0, any |-> FALSE]
QPh(ph) == [ph |-> ph, lvl |-> 0, num |-> 0, any |-> FALSE]
Close(q, l) == [ph |-> q.ph, lvl |-> l, num |-> 0, any |-> TRUE]
DStep(q, c) ==
  CASE q.ph = "s0"  -> IF c = "-" THEN QPh("sgn") ELSE IF c = "P" THEN QPh("date") ELSE QB
    [] q.ph = "sgn" -> IF c = "P" THEN QPh("date") ELSE QB
    [] q.ph = "date" ->
         IF IsDigit(c) THEN [q EXCEPT !.num = 1]
         ELSE IF c = "Y" /\ q.num = 1 /\ q.lvl < 1 THEN Close(q, 1)
         ELSE IF c = "M" /\ q.num = 1 /\ q.lvl < 2 THEN Close(q, 2)
         ELSE IF c = "D" /\ q.num = 1 /\ q.lvl < 3 THEN Close(q, 3)
         ELSE IF c = "T" /\ q.num = 0 THEN QPh("time")
         ELSE QB
    [] q.ph = "time" ->
         IF IsDigit(c) THEN [q EXCEPT !.num = IF q.num \in {0, 1} THEN 1 ELSE 3]
         ELSE IF c = "." /\ q.num = 1 /\ q.lvl < 3 THEN [q EXCEPT !.num = 2]
         ELSE IF c = "H" /\ q.num = 1 /\ q.lvl < 1 THEN Close(q, 1)
         ELSE IF c = "M" /\ q.num = 1 /\ q.lvl < 2 THEN Close(q, 2)
         ELSE IF c = "S" /\ q.num \in {1, 3} /\ q.lvl < 3 THEN Close(q, 3)
         ELSE QB
    [] OTHER -> QB
RECURSIVE DRun(_, _, _)
DRun(q, t, i) == IF i > Len(t) THEN q ELSE DRun(DStep(q, t[i]), t, i + 1)
InXsdDuration(t) == LET q == DRun(Q0, t, 1) IN q.ph \in {"date", "time"} /\ q.num = 0 /\ q.any

RECURSIVE TrimL(_)
TrimL(t) == IF t # <<>> /\ Head(t) = " " THEN TrimL(Tail(t)) ELSE t
RECURSIVE TrimR(_)
TrimR(t) == IF t # <<>> /\ t[Len(t)] = " " THEN TrimR(SubSeq(t, 1, Len(t) - 1)) ELSE t
TrimSp(t) == TrimR(TrimL(t))

\* domain qualifier: the statement speaks about int64 nanosecond durations
Representable(t) == ~DUnmarshal(t).ovf

\* class of a duration string
DClass(t) ==
  IF t = <<>> THEN "DontCare"                                      \* the omitted form of 0, not a lexical form
  ELSE IF InXsdDuration(t) THEN (IF Representable(t) THEN "MustAccept" ELSE "DontCare")
  ELSE IF InXsdDuration(TrimSp(t)) THEN "DontCare"                 \* xsd whiteSpace = collapse
  ELSE "MustReject"
\* the value is demanded only for texts Marshal itself produces (the round-trip clause)
Canon(t) == LET r == DUnmarshal(t) IN r.ok /\ ~r.ovf /\ DMarshal(r.d) = t

\* "every Duration marshals to xsd:duration text that unmarshals to the identical duration"
\* ... however the value is handed to the encoder.  Duration 0 has no xsd:duration text (the library's omitted
\* form); a carrier that cannot omit it (attribute without omitempty, JSON string) promises nothing
DurHowClass == IF MagZero(vec) /\ how.car \in {"attr", "str"} THEN "DontCare" ELSE "MustAccept"
DurRoundTrip == Done /\ kind = "dur" /\ DurHowClass = "MustAccept" => back.ok /\ ~back.ovf /\ back.d = vec
DurTextIsXsd == Done /\ kind = "dur" /\ ~MagZero(vec) => InXsdDuration(text)
\* accept / reject sides, and (design level) the two regexps recognise exactly the lexical space
DurGrammar   == Done /\ kind = "durstr" => /\ (DClass(text) = "MustAccept" => back.ok)
                                           /\ (DClass(text) = "MustReject" => ~back.ok)
DurRegexIsXsd == Done /\ kind = "durstr" /\ text # <<>> => (back.ok <=> InXsdDuration(text))

(* "the same instant rounded to the millisecond in UTC": the nearest millisecond; an exact *)
(* half may go either way                                                                   *)
FloorMs(t) == RoundUTC([t EXCEPT !.sub = 0])
CeilMs(t)  == IF t.sub = 0 THEN FloorMs(t) ELSE RoundUTC([t EXCEPT !.sub = 999999])
Want(t) == IF t.sub < 500000 THEN {FloorMs(t)} ELSE IF t.sub > 500000 THEN {CeilMs(t)} ELSE {FloorMs(t), CeilMs(t)}
\* "all instants in years 1..9999": what has to be written must itself be such an instant
InYears(t) == \A u \in {FloorMs(t), CeilMs(t)} : u.y >= 1 /\ u.y <= 9999
IClass(t) == IF InYears(t) THEN "MustAccept" ELSE "DontCare"

InstRoundTrip == Done /\ kind = "inst" /\ IClass(vec) = "MustAccept" => back.ok /\ back.t \in Want(vec)

(* "the documented lexical forms (RFC 3339 with or without zone or fraction)": field table. *)
(* ok  = the documented form; odd = harmless relaxations the statement does not rule on    *)
(* (ISO 8601 / xsd variants, leap second, zone out of range); bad = not a dateTime          *)
AllDig(s) == \A i \in DOMAIN s : IsDigit(s[i])
NumS(s) == Num(s, 1, Len(s) + 1)
TwoDig(s, lo, hi) == Len(s) = 2 /\ AllDig(s) /\ NumS(s) >= lo /\ NumS(s) <= hi
YTag(s)  == IF Len(s) = 4 /\ AllDig(s) THEN (IF NumS(s) >= 1 THEN "ok" ELSE "odd")
            ELSE IF Len(s) > 4 /\ AllDig(s) THEN "odd" ELSE "bad"
DashTag(s) == IF s = <<"-">> THEN "ok" ELSE "bad"
ColTag(s)  == IF s = <<":">> THEN "ok" ELSE "bad"
MoTag(s) == IF TwoDig(s, 1, 12) THEN "ok" ELSE "bad"
DTag(x)  == IF YTag(x.y) # "bad" /\ MoTag(x.mo) = "ok" /\ Len(x.y) = 4
              THEN (IF TwoDig(x.d, 1, DaysIn(NumS(x.y), NumS(x.mo))) THEN "ok" ELSE "bad")
              ELSE (IF TwoDig(x.d, 1, 31) THEN "ok" ELSE "bad")
TeeTag(s) == IF s = <<"T">> THEN "ok" ELSE IF s \in {<<"t">>, <<" ">>} THEN "odd" ELSE "bad"
HTag(s)  == IF TwoDig(s, 0, 23) THEN "ok"
            ELSE IF s = <<"2", "4">> \/ (Len(s) = 1 /\ AllDig(s)) THEN "odd" ELSE "bad"
MiTag(s) == IF TwoDig(s, 0, 59) THEN "ok" ELSE "bad"
STag(s)  == IF TwoDig(s, 0, 59) THEN "ok" ELSE IF s = <<"6", "0">> THEN "odd" ELSE "bad"
FTag(s)  == IF s = <<>> THEN "ok"
            ELSE IF Len(s) >= 2 /\ AllDig(Tail(s)) THEN (IF s[1] = "." THEN "ok" ELSE IF s[1] = "," THEN "odd" ELSE "bad")
            ELSE "bad"
ZTag(s)  == IF s = <<>> \/ s = <<"Z">> THEN "ok"
            ELSE IF s = <<"z">> THEN "odd"
            ELSE IF Len(s) = 6 /\ s[1] \in {"+", "-"} /\ AllDig(SubSeq(s, 2, 3)) /\ s[4] = ":" /\ AllDig(SubSeq(s, 5, 6))
                   THEN (IF NumS(SubSeq(s, 2, 3)) <= 23 /\ NumS(SubSeq(s, 5, 6)) <= 59 THEN "ok" ELSE "odd")
            ELSE IF s[1] \in {"+", "-"} /\ Len(s) \in {3, 5} /\ AllDig(Tail(s)) THEN "odd"      \* +hh, +hhmm (ISO 8601 basic)
            ELSE "bad"
FTags(x) == << YTag(x.y), DashTag(x.s1), MoTag(x.mo), DashTag(x.s2), DTag(x), TeeTag(x.st), HTag(x.h), ColTag(x.s3),
               MiTag(x.mi), ColTag(x.s4), STag(x.s), FTag(x.f), ZTag(x.z) >>
FClass(x) == LET g == FTags(x) IN
             IF \E i \in DOMAIN g : g[i] = "bad" THEN "MustReject"
             ELSE IF \E i \in DOMAIN g : g[i] = "odd" THEN "DontCare" ELSE "MustAccept"
\* the instant a fully documented form denotes (zone-less = UTC)
FValue(x) ==
  LET f9  == [i \in 1..9 |-> IF i + 1 <= Len(x.f) THEN DVal(x.f[i + 1]) ELSE 0]
      off == IF Len(x.z) = 6 THEN (IF x.z[1] = "-" THEN -1 ELSE 1) * (NumS(SubSeq(x.z, 2, 3)) * 60 + NumS(SubSeq(x.z, 5, 6))) ELSE 0
  IN Inst(NumS(x.y), NumS(x.mo), NumS(x.d), NumS(x.h), NumS(x.mi), NumS(x.s),
          f9[1] * 100 + f9[2] * 10 + f9[3],
          f9[4] * 100000 + f9[5] * 10000 + f9[6] * 1000 + f9[7] * 100 + f9[8] * 10 + f9[9], off)
FWant(x) == IF FClass(x) = "MustAccept" THEN Want(FValue(x)) ELSE {}

InstGrammar == Done /\ kind = "inststr" => /\ (FClass(vec) = "MustAccept" => back.ok /\ back.t \in FWant(vec))
                                            /\ (FClass(vec) = "MustReject" => ~back.ok)

(* "any EntityDescriptor value reaches a fixed point after one marshal/unmarshal generation *)
(* that preserves its entity ID, http(s) endpoints, key descriptors, validity instant and   *)
(* cache duration"                                                                          *)
HttpEp(e) == e.b \in KnownBindings /\ Http(e.loc)
\* the statement promises nothing for endpoints that are not http(s) endpoints of a known binding
\* (they may be blanked, or make the document unreadable) nor for the Go field no XML element maps to
Promised(e) == e.b \in KnownBindings => Http(e.loc) /\ (e.resp = "absent" \/ Http(e.resp))
MdClass(v) == IF (\A i \in DOMAIN v.idp.eps : Promised(v.idp.eps[i])) /\ (\A i \in DOMAIN v.sp.eps : Promised(v.sp.eps[i]))
                 /\ ~v.shadow THEN "MustAccept" ELSE "DontCare"
KeepsEps(a, b) == /\ DOMAIN a = DOMAIN b
                  /\ \A i \in DOMAIN a : HttpEp(a[i]) => b[i] = a[i]
Preserves(v, g) == /\ g.eid = v.eid /\ g.keys = v.keys /\ g.cd = v.cd
                   /\ g.vu.z = v.vu.z /\ g.vu.sub = 0
                   /\ (v.vu.sub < 500000 => g.vu.ms = v.vu.ms) /\ (v.vu.sub > 500000 => g.vu.ms = v.vu.ms + 1)
                   /\ g.vu.ms \in {v.vu.ms, v.vu.ms + 1}
                   /\ KeepsEps(v.idp.eps, g.idp.eps) /\ KeepsEps(v.sp.eps, g.sp.eps)
MdFixedPoint == Done /\ kind = "md" /\ ~back[1].err => ~back[2].err /\ back[2].v = back[1].v
MdPreserves  == Done /\ kind = "md" /\ MdClass(vec) = "MustAccept" => ~back[1].err /\ Preserves(vec, back[1].v)
\* a cache duration that is present and 0 is the same value as an absent one
CdSame(a, b) == IF a.p /\ ~MagZero(a.v) THEN b = a ELSE ~b.p \/ MagZero(b.v)
\* "all generated EntitiesDescriptor values": whatever the number of groups per level and of leaves.  The one
\* bound the statement's library documents is on NESTING (a parser may refuse what is nested deeper than
\* NestingBound; the statement does not say it must): depth is the length of the longest chain of
\* EntitiesDescriptor elements inside one another, counted here from the value's shape, not from the parser
NestingOf(v) == (IF v.nested > 0 /\ v.tree.chain + Len(v.tree.fan) < 2 THEN 2 ELSE v.tree.chain + Len(v.tree.fan))
EsdClass(v) == IF NestingOf(v) <= NestingBound THEN "MustAccept" ELSE "DontCare"
EsdFixedPoint == Done /\ kind = "esd" /\ EsdClass(vec) = "MustAccept" =>
                                          /\ ~back[1].err /\ Len(back) = 2 /\ ~back[2].err /\ back[2].v = back[1].v
                                          /\ CdSame(vec.cd, back[1].v.cd) /\ back[1].v.id = vec.id
                                          /\ back[1].v.tree = vec.tree
\* design level (not in the statement): the guard the counter exists for - nesting beyond the bound is refused
NestingGuardKept == Done /\ kind = "esd" /\ NestingOf(vec) > NestingBound => back[1].err
\* "every metadata document the library generates for an SP or IdP re-parses", however it is handed to the encoder
GeneratedReparses == Done /\ kind \in {"spmd", "idpmd"} => back[1]

(* the round-trip clauses for every struct type that carries an instant or a duration, in every hand-over mode: *)
(* what is generated re-parses, every instant to the same instant rounded to the millisecond (an exactly        *)
(* preserved instant is that instant), every duration to the identical duration, absent parts stay absent       *)
SlotKeeps(s, x, b) ==
  /\ b.ok
  /\ IF s.k = "inst" THEN b.p = x.p /\ (x.p => b.t \in Want(x.t))
     ELSE IF x.p /\ ~MagZero(x.d) THEN b.p /\ b.d = x.d ELSE ~b.p \/ MagZero(b.d)
SlotsClass(v) == IF \A i \in DOMAIN v.vals : TypeTab[v.ty].slots[i].k = "inst" /\ v.vals[i].p => InYears(v.vals[i].t)
                   THEN "MustAccept" ELSE "DontCare"
SlotsRoundTrip == Done /\ kind = "slots" /\ SlotsClass(vec) = "MustAccept" =>
                    \A i \in DOMAIN vec.vals : SlotKeeps(TypeTab[vec.ty].slots[i], vec.vals[i], back[i])

ExactlyOneOutcome == Done /\ kind \in {"dur", "durstr", "inst", "inststr"} => back.ok \in BOOLEAN

\* design level: a pointer at the top of the path does not make the value addressable when an interface follows
ASSUME AddressabilityRule == /\ Addressable(<<"ptr">>) /\ ~Addressable(<<>>) /\ ~Addressable(<<"ptr", "iface">>)
                      /\ Addressable(<<"field", "elem">>) /\ ~Addressable(<<"field", "arr">>) /\ Addressable(<<"ptr", "field", "arr">>)
                      /\ ~Addressable(<<"ptr", "field", "iface">>) /\ Addressable(<<"field", "iface", "ptr">>) /\ ~Addressable(<<"mapv">>)

(***************************** vector emission *****************************)
HowOut == [n |-> how.n, lib |-> how.lib, fn |-> how.fn, car |-> how.car, path |-> how.path, addr |-> Addressable(how.path)]
SlotFound(v) == [i \in DOMAIN v.vals |-> LET sl == TypeTab[v.ty].slots[i] IN FoundAt(sl.own, how, sl.rel)]
VecOut ==
  CASE kind = "dur"     -> [prop |-> "C15", kind |-> kind, how |-> HowOut, found |-> Found("Duration", how), in |-> vec, text |-> text,
                            class |-> DurHowClass, back |-> back]
    [] kind = "durstr"  -> [prop |-> "C15", kind |-> kind, text |-> text, class |-> DClass(text), canon |-> Canon(text), back |-> back]
    [] kind = "inst"    -> [prop |-> "C15", kind |-> kind, how |-> HowOut, found |-> Found("RelaxedTime", how), in |-> vec, text |-> text,
                            class |-> IClass(vec), want |-> Want(vec), back |-> back]
    [] kind = "inststr" -> [prop |-> "C15", kind |-> kind, text |-> text, class |-> FClass(vec), tags |-> FTags(vec), want |-> FWant(vec), back |-> back]
    [] kind = "md"      -> [prop |-> "C15", kind |-> kind, how |-> HowOut, found |-> Found("EntityDescriptor", how), in |-> vec,
                            class |-> MdClass(vec), gens |-> back]
    [] kind = "esd"     -> [prop |-> "C15", kind |-> kind, how |-> HowOut, found |-> Found("EntitiesDescriptor", how), in |-> vec,
                            class |-> EsdClass(vec), depth |-> NestingOf(vec), groups |-> EsdElements(vec), gens |-> back]
    [] kind = "slots"   -> [prop |-> "C15", kind |-> kind, how |-> HowOut, ty |-> vec.ty, recv |-> Receiver(vec.ty), vals |-> vec.vals,
                            slots |-> TypeTab[vec.ty].slots, sfound |-> SlotFound(vec), stext |-> text, class |-> SlotsClass(vec),
                            sback |-> back]
    [] OTHER            -> [prop |-> "C15", kind |-> kind, how |-> HowOut, found |-> Found("EntityDescriptor", how), in |-> vec,
                            class |-> "MustAccept", reparses |-> back[1]]
Emit == Done => PrintT(<<"VEC", ToJson(VecOut)>>)
=============================================================================
