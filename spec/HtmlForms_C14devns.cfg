\* The named deviation ForeignNamespaceUnchecked is on (Endpoint / IndexedEndpoint unmarshalling skips
\* checkEndpointLocation when the element is not in the metadata namespace, although the element is still
\* decoded into the endpoint slice): TLC must REFUTE RejectsHostile (the check breaks when it does not).
\* Only the cases of the other lexical forms are enumerated: with the deviation on, every form whose expanded
\* name is in the metadata namespace behaves as the implementation does, so the counterexample is an element
\* of a foreign namespace / of no namespace.
CONSTANTS
  MaxLen = 1
  Parts = {"meta"}
  Escaper = "html"
  PrefixCheckOnly = FALSE
  ForeignNamespaceUnchecked = TRUE
  Descs = {"SPSSODescriptor"}
  BaseCases = FALSE
  NsSet = {"mdPrefix", "selfPrefix", "ancestorPrefix", "foreignPrefix", "noNs", "undeclared"}
  NsWide = FALSE
  ChecksFirstAttribute = FALSE
  AttrForms = {}
INIT Init
NEXT Next
INVARIANTS
  RejectsHostile
CHECK_DEADLOCK FALSE
