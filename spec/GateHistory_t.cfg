CONSTANTS
  MaxLen = 4
INIT Init
NEXT Next
INVARIANTS
  HistoryFree
  OnlyExactServed
  Emit
CHECK_DEADLOCK FALSE
