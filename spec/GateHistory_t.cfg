CONSTANTS
  MaxLen = 4
INIT Init
NEXT Next
INVARIANTS
  HistoryFree
  Emit
CHECK_DEADLOCK FALSE
