------------------------------ MODULE Totality ------------------------------
(***************************************************************************)
(* C09 - the message-consuming APIs are total: for every document the      *)
(* consumer returns a result or an error, never a panic.                   *)
(*                                                                         *)
(* One step machine per consumer, one action per step of the code, in the  *)
(* code's order, with an explicit action at every place where the code     *)
(* dereferences an OPTIONAL part of the document (a pointer field of       *)
(* schema.go / metadata.go, doc.Root(), an element of a possibly empty     *)
(* slice):                                                                 *)
(*                                                                         *)
(*   service_provider.go  ParseResponse / handleArtifactRequest /          *)
(*       parseResponseHTTP / ParseXMLArtifactResponse /                    *)
(*       parseArtifactResponse / ParseXMLResponse / parseResponse /        *)
(*       decryptElement / parseAssertion / validateAssertion /             *)
(*       validateAudienceRestriction                                       *)
(*   service_provider.go  validateSignature (called for the                *)
(*       ArtifactResponse, the Response, every Assertion and the           *)
(*       LogoutResponse) / getIDPSigningCerts / getCertBasedOnFingerprint /*)
(*       parseCert / fingerprint, then goxmldsig verifyCertificate         *)
(*   service_provider.go  ValidateLogoutResponseRequest / Form / Redirect /*)
(*       validateLogoutResponse                                            *)
(*   identity_provider.go NewIdpAuthnRequest / Validate / getACSEndpoint / *)
(*       ServeSSO / MakeAssertion / MakeAssertionEl / getSPEncryptionCert /*)
(*       PostBinding                                                       *)
(*   samlsp/fetch_metadata.go ParseMetadata / FetchMetadata,               *)
(*       samlidp/util.go getSPMetadata, ServeIDPInitiated,                 *)
(*       xml.Unmarshal into EntityDescriptor, and the SP's use of parsed   *)
(*       IdP metadata (getIDPSigningCerts, Get*BindingLocation)            *)
(*   metadata.go  EntitiesDescriptor.UnmarshalXML: the per-decoder count   *)
(*       of the EntitiesDescriptor elements being unmarshalled, walked     *)
(*       token by token over the nesting shape of the document             *)
(*                                                                         *)
(* The document is a record of optional parts, each present or absent;     *)
(* every VALUE that is present is the valid one (right issuer, fresh       *)
(* instant, trusted signature re-applied after the parts were removed), so *)
(* that validation proceeds as deep as the absent parts allow.  The byte   *)
(* string is a framing class, the artifact resolver a behaviour class.     *)
(* Two more dimensions: how the SP is configured to trust the IdP          *)
(* (metadata certificates, a pinned certificate, a pinned fingerprint)     *)
(* crossed with what the ds:KeyInfo of every signature in the message      *)
(* holds; and the nesting shape x depth of EntitiesDescriptor documents.   *)
(* Two further ones: what an EncryptedAssertion holds (the certificate     *)
(* hint in the KeyInfo of its EncryptedKey, where the EncryptedKey is      *)
(* placed, the key transport and the block cipher), with decryptElement    *)
(* and xmlenc.Decrypt / RSA.Decrypt / validateRSAKeyIfPresent / CBC.Decrypt*)
(* / GCM.Decrypt / getCiphertext as a subroutine of the step machine; and  *)
(* an artifact resolution endpoint that STALLS (accepts, never answers, or *)
(* answers the headers and never the body) crossed with what bounds the    *)
(* back-channel call: the SP's own client timeout, or only the context of  *)
(* the incoming request (deadline, explicit cancellation).                 *)
(* And the life of the BODY of the back-channel answer as                  *)
(* handleArtifactRequest sees it: obtained from Do, the deferred Close     *)
(* registered, read chunk by chunk by io.ReadAll - a Read may fail, or     *)
(* stall, before the first byte, in the middle, or after the last byte in  *)
(* place of the end of the stream - and closed by the deferred function    *)
(* at WHATEVER return of handleArtifactRequest comes (a refusal of the     *)
(* status, of the read, of anything in ParseXMLArtifactResponse below it,  *)
(* or the return of the assertion); that Close may itself fail - after a   *)
(* complete valid body, after a truncated one, after an invalid one.       *)
(*                                                                         *)
(* Named deviations.                                                       *)
(*   Unguarded \subseteq Sites   dereference sites at which the modelled   *)
(*       code has NO guard (it panics when the part is absent).  The       *)
(*       REQUIRED design guards every site: the registered configurations  *)
(*       use {}.  Totality_pinned.cfg names the sites that were unguarded  *)
(*       on the pinned tree; TLC then refutes NoPanic.                     *)
(*   Unwrapped \subseteq Wrappers  functions that return their error       *)
(*       without wrapping it in InvalidResponseError ({} when registered). *)
(*   DepthRestore  what EntitiesDescriptor.UnmarshalXML does with the      *)
(*       per-decoder count when an element is finished: "parent" (the      *)
(*       REQUIRED design: the count of the enclosing element is put back), *)
(*       "wipe" (the entry is deleted: the next sibling counts from zero), *)
(*       "nobound" (no count at all - the pinned tree).  Registered:       *)
(*       "parent"; with the others TLC refutes NoPanic (Totality_wipe.cfg, *)
(*       Totality_pinned.cfg).                                             *)
(*   ContextDropped  handleArtifactRequest builds the back-channel request *)
(*       WITHOUT the context of the incoming request (FALSE when           *)
(*       registered: the request context is passed on).  With TRUE a       *)
(*       stalled endpoint and a client without a timeout of its own leave  *)
(*       nothing that ends the wait: TLC refutes NoHang                    *)
(*       (Totality_ctxdropped.cfg).                                        *)
(*   CloseFailure  what the deferred function of handleArtifactRequest     *)
(*       does with an error of response.Body.Close(): "logged" (the        *)
(*       registered design and the code: it is written to the log, what    *)
(*       the function returns stays what it was), "returned" (when nothing *)
(*       else failed the close failure becomes the returned error - and    *)
(*       the assertion that was being returned stays).  With "returned"    *)
(*       TLC refutes AssertionIffNoError (Totality_closeerr.cfg).          *)
(*                                                                         *)
(* The Properties section is written from the statement of C09 only.       *)
(***************************************************************************)
EXTENDS Integers, Sequences, FiniteSets, TLC, Json

CONSTANTS Tier, Unguarded, Unwrapped, DepthRestore, ContextDropped, CloseFailure

\* dereference sites: <consumer>:<part whose absence reaches it>
Sites == {"RespRootNil",       \* ParseXMLResponse: doc.Root() of a rootless document
          "ArtRootNil",        \* ParseXMLArtifactResponse: doc.Root()
          "PlainRootNil",      \* decryptElement: doc.Root() of the decrypted plaintext
          "RespIssuerNil",     \* parseResponse: response.Issuer.Value
          "ArtIssuerNil",      \* parseArtifactResponse: artifactResponse.Issuer.Value
          "AssnSubjectNil",    \* validateAssertion: assertion.Subject.SubjectConfirmations
          "ConfDataNil",       \* validateAssertion: subjectConfirmation.SubjectConfirmationData.X
          "ConditionsNil",     \* validateAssertion: assertion.Conditions.NotBefore
          "LogoutRootNil",     \* ValidateLogoutResponseForm/Redirect: doc.Root()
          "LogoutIssuerNil",   \* validateLogoutResponse: resp.Issuer.Value
          "AuthnIssuerNil",    \* IdpAuthnRequest.Validate: req.Request.Issuer.Value
          "EncCertIndex",      \* getSPEncryptionCert: X509Certificates[0] of a use="encryption" descriptor
          "AnyCertIndex",      \* getSPEncryptionCert: X509Certificates[0] of a descriptor without use
          "FpCertElNil",       \* getCertBasedOnFingerprint: x509CertEl.Child of a signature without X509Certificate element
          "FpCertChildIndex",  \* getCertBasedOnFingerprint: x509CertEl.Child[0] of an empty X509Certificate element
          "FpCertChildType",   \* getCertBasedOnFingerprint: Child[0].(*etree.CharData) when the child is not text
          "StripKeyInfoNil",   \* validateSignature: sigEl.RemoveChild(keyInfo) of a signature without KeyInfo
          \* decryptElement and xmlenc (the EncryptedAssertion is decrypted BEFORE any signature inside it can be looked at)
          "EncMethodNil",      \* xmlenc.Decrypt: encryptionMethodEl.SelectAttrValue of an EncryptedData / EncryptedKey without EncryptionMethod
          "RSAKeyType",        \* validateRSAKeyIfPresent: key.(*rsa.PrivateKey) when the key in hand is a session key already
          "HintPEMNil",        \* validateRSAKeyIfPresent: certPEM.Bytes when the text of the certificate hint is no PEM body
          "HintCertKeyType",   \* validateRSAKeyIfPresent: cert.PublicKey.(*rsa.PublicKey) when the hint is a well-formed non-RSA certificate
          "CipherValueNil",    \* getCiphertext: ciphertextEl.Text() without CipherData/CipherValue
          "BlockKeyType"}      \* CBC.Decrypt / GCM.Decrypt: key.([]byte) when no EncryptedKey was there to unwrap
\* at these the design's guard means "no constraint, go on" (an absent Issuer is not compared, a
\* descriptor without certificate is passed over); at all others it means "reject"
SkipSites == {"RespIssuerNil", "ArtIssuerNil", "EncCertIndex", "AnyCertIndex", "StripKeyInfoNil"}

Wrappers == {"handleArtifactRequest", "parseResponseHTTP", "ParseXMLArtifactResponse",
             "parseArtifactResponse", "ParseXMLResponse"}

ASSUME Unguarded \subseteq Sites /\ Unwrapped \subseteq Wrappers
ASSUME DepthRestore \in {"parent", "wipe", "nobound"}
ASSUME ContextDropped \in BOOLEAN
ASSUME CloseFailure \in {"logged", "returned"}

\* fired: the dereference sites reached, in order, whose part was absent (where unguarded code panics)
VARIABLES in, pc, sigReq, hasSig, ai, cj, firstFail, accepted, asn, err, verdict, step, fired,
          \* validateSignature as a subroutine: the element it was called for, where it returns to, what it
          \* returned ("ok" | "absent": errSignatureElementNotPresent | "bad": any other error), and the
          \* result parseResponse keeps for the Response until it has looked at the attributes
          vsEl, vsRet, sigRes, respSig,
          \* EntitiesDescriptor.UnmarshalXML: position in the document, the per-decoder count, the `depth`
          \* local of every UnmarshalXML call that is on the stack
          pos, ctr, frames,
          \* handleArtifactRequest: the context the back-channel request carries ("none" before it is built,
          \* "request": that of the incoming request, "background")
          octx,
          \* xmlenc.Decrypt as a subroutine: the type of the key in hand ("rsa": the SP's private key, "bytes": an
          \* unwrapped session key), the elements of the active Decrypt calls (innermost last: "sib" the
          \* EncryptedKey next to EncryptedData, "in" the one inside EncryptedData/KeyInfo, "data" EncryptedData),
          \* what the last call returned
          dkey, dstk, xdRes,
          \* the body of the back-channel answer: "none" (no answer was obtained) | "open" (Do has returned a
          \* response, the deferred Close is registered) | "closed" (the deferred function has run); the
          \* chunks io.ReadAll has read from it; whether a failure of Close was written to the log
          body, rd, clog
sv == <<vsEl, vsRet, sigRes, respSig>>
nv == <<pos, ctr, frames>>
bv == <<body, rd, clog>>
xv == <<octx, dkey, dstk, xdRes, bv>>
vars == <<in, pc, sigReq, hasSig, ai, cj, firstFail, accepted, asn, err, verdict, step, fired, sv, nv, xv>>

----------------------------------------------------------------------------
(* the abstract documents *)

StatusCls == {"absent", "nocode", "ok"}      \* Status element / its StatusCode child
ConfSeqs  == { <<>>, <<"data">>, <<"nodata">>, <<"data", "data">>, <<"data", "nodata">>,
               <<"nodata", "data">>, <<"nodata", "nodata">> }
CondCls   == {"absent", "noaud", "aud"}      \* Conditions element / its AudienceRestriction
EncCls    == {"no", "yes"}

Assn(iss, subj, nid, confs, cond, authn, attr, sig, enc) ==
  [iss |-> iss, subj |-> subj, nameid |-> nid, confs |-> confs, cond |-> cond,
   authn |-> authn, attr |-> attr, sig |-> sig, enc |-> enc]
GoodAssn == Assn(TRUE, TRUE, TRUE, <<"data">>, "aud", TRUE, TRUE, TRUE, "no")

Resp(iss, dest, irt, status, sig, assns) ==
  [iss |-> iss, dest |-> dest, irt |-> irt, status |-> status, sig |-> sig, assns |-> assns]
GoodResp == Resp(TRUE, TRUE, TRUE, "ok", FALSE, <<GoodAssn>>)

Env(sbody, nar, iss, status, sig, irt, inner) ==
  [body |-> sbody, nar |-> nar, iss |-> iss, status |-> status, sig |-> sig, irt |-> irt, inner |-> inner]
GoodEnv == Env(TRUE, 1, TRUE, "ok", FALSE, TRUE, TRUE)

\* framing of the byte string handed to the entry point
FramingCls == {"ok", "empty", "rootless", "notxml", "notb64", "b64garbage", "bomb", "bombvalid",
               "truncdeflate", "unstable", "hugeattr", "deep"}
\* behaviour of the artifact resolution endpoint
ResCls == {"ok", "slow", "connerr", "non200", "empty", "truncated", "readerr", "soapfault",
           "wrongenvelope", "nobody", "twoAR", "garbage",
           "stall",       \* accepts the request and never answers
           "stallbody"}   \* answers the status line and the headers, the body never comes
StallCls == {"stall", "stallbody"}
\* what ends the wait for a stalled endpoint: the SP's own client timeout ("client"), or ONLY the
\* context of the incoming request - its deadline, or an explicit cancellation (the browser went
\* away).  "none": nothing does (every endpoint that is not stalled).
BoundCls  == {"client", "deadline", "cancel"}
\* sp.HTTPClient: nil (http.DefaultClient, no timeout) | a client of the deployment without Timeout |
\* a client with Timeout
ClientCls == {"default", "custom", "timeout"}
\* a stalled endpoint with neither a client timeout nor a context that ends is outside the statement:
\* there is nothing by which the call could return (configuration, not input)
BoundedBy(b, c) == IF b = "client" THEN c = "timeout" ELSE c \in {"default", "custom"}
\* the body of the answer, as io.ReadAll sees it: NChunks chunks, then the end of the stream (a scaled-down
\* walk: a chunk stands for half of the real body, in however many Reads io.ReadAll fetches it).  A Read that fails ("readerr") or never returns
\* ("stallbody") does so at a point: before the first byte | after half of the body | after ALL of it,
\* in place of the end of the stream (a connection that is reset, or goes silent, where the peer
\* should have finished)
NChunks   == 2
RdPtCls   == {"start", "mid", "end"}
RdPt(p)   == CASE p = "start" -> 0 [] p = "mid" -> 1 [] p = "end" -> NChunks
\* what response.Body.Close() returns
CloseCls  == {"ok", "err"}
\* the endpoints from which Do brings a response (and with it a body to close)
NoBodyCls == {"connerr", "stall"}

RespEntries   == {"xml", "post", "artxml", "artifact"}
LogoutEntries == {"form", "redirect", "req-post", "req-get"}
AuthnEntries  == {"validate-get", "validate-post", "sso-get", "sso-post"}
SPMDEntries   == {"parse", "fetch", "unmarshal-sso", "put-sso", "unmarshal-make", "unmarshal-idpinit"}
NestEntries   == {"parse", "fetch", "put-sso", "unmarshal-entities"}
IDPMDEntries  == {"parse-spuse"}

B64Entries     == {"post"} \cup LogoutEntries \cup AuthnEntries
DeflateEntries == {"redirect", "req-get", "validate-get", "sso-get"}

\* what an EncryptedAssertion holds (every EncryptedAssertion of the response alike)
\*   hint   the certificate hint in EncryptedKey/KeyInfo (validateRSAKeyIfPresent looks at the FIRST
\*          X509Data/X509Certificate): none | the SP's own certificate | another RSA certificate | an ECDSA /
\*          Ed25519 certificate | base64 that is no certificate | text that is no PEM body | empty element |
\*          X509Data without certificate | two certificates (own first, ECDSA second; and the other order)
\*   place  EncryptedKey inside EncryptedData/KeyInfo | next to EncryptedData | both
\*   kt     key transport, bc block cipher class
\*   ekp    parts of the EncryptedKey: complete | without EncryptionMethod | without CipherData/CipherValue
HintCls  == {"absent", "own", "otherrsa", "ec", "ed25519", "badder", "notpem", "empty", "nocert", "two", "twoec"}
PlaceCls == {"inside", "sibling", "both"}
KtCls    == {"oaep-mgf1p", "rsa15", "oaep11"}
BcCls    == {"aescbc", "3des", "gcm"}
EkpCls   == {"full", "nomethod", "nocipher"}
EncX(h, p, kt, bc, ekp) == [hint |-> h, place |-> p, kt |-> kt, bc |-> bc, ekp |-> ekp]
GoodEncX == EncX("own", "inside", "oaep-mgf1p", "aescbc", "full")
\* the certificate validateRSAKeyIfPresent looks at
FirstHint(h) == CASE h = "two" -> "own" [] h = "twoec" -> "ec" [] OTHER -> h

RespInX(fam, e, f, r, al, env, resp, t, k, x) ==
  [fam |-> fam, entry |-> e, framing |-> f, res |-> r, allowIdp |-> al, env |-> env, resp |-> resp, trust |-> t, ki |-> k,
   encx |-> x, bound |-> "none", client |-> "custom", rdpt |-> "mid", close |-> "ok"]
RespInT(fam, e, f, r, al, env, resp, t, k) == RespInX(fam, e, f, r, al, env, resp, t, k, GoodEncX)
RespIn(fam, e, f, r, al, env, resp) == RespInT(fam, e, f, r, al, env, resp, "md1", "cert")

Lo(iss, dest, status, sig, ii, irt) == [iss |-> iss, dest |-> dest, status |-> status, sig |-> sig, ii |-> ii, irt |-> irt]
GoodLo == Lo(TRUE, TRUE, "ok", TRUE, TRUE, TRUE)

Rq(iss, nip, dest, acsurl, acsidx, ver, ii, id, pb) ==
  [iss |-> iss, nip |-> nip, dest |-> dest, acsurl |-> acsurl, acsidx |-> acsidx, ver |-> ver, ii |-> ii, id |-> id, pb |-> pb]
GoodRq == Rq(TRUE, TRUE, TRUE, TRUE, FALSE, TRUE, TRUE, TRUE, TRUE)

\* KeyDescriptor: use attribute, how much of KeyInfo/X509Data/X509Certificate there is, EncryptionMethod
UseCls == {"none", "signing", "encryption"}
KiCls  == {"absent", "nodata", "c0", "c1", "c2"}     \* no KeyInfo | KeyInfo without X509Data | X509Data with 0..2 certificates
KD(use, ki, em) == [use |-> use, ki |-> ki, em |-> em]
KDAll   == { KD(u, k, e) : u \in UseCls, k \in KiCls, e \in BOOLEAN }
KDSmall == { KD(u, k, FALSE) : u \in UseCls, k \in {"c0", "c1"} }
NCerts(kd) == CASE kd.ki = "c1" -> 1 [] kd.ki = "c2" -> 2 [] OTHER -> 0

\* SP metadata as registered with the IdP
SPMD(wrap, nsp, acs, attrcs, kds) == [wrap |-> wrap, nsp |-> nsp, acs |-> acs, attrcs |-> attrcs, kds |-> kds]
GoodSPMD == SPMD("entity", 1, 1, "absent", <<>>)
\* IdP metadata as trusted by the SP
IDPMD(wrap, nidp, sso, kds) == [wrap |-> wrap, nidp |-> nidp, sso |-> sso, kds |-> kds]

\* how the SP is configured to trust the IdP (validateSignature :1292-1311; the signer is the trusted key)
\*   md1 / md2   certificates of IDPMetadata: one signing descriptor / several (the signer's is among them)
\*   md0 / mdbad the metadata has no signing certificate / one whose text is not a certificate next to the signer's
\*   pin         IDPCertificate (the metadata carries another certificate)
\*   fp256 / fp512  IDPCertificateFingerprint + IDPCertificateFingerprintAlgorithm (likewise)
TrustCls == {"md1", "md2", "md0", "mdbad", "pin", "fp256", "fp512"}
FpTrust  == {"fp256", "fp512"}
NRoots(t) == IF t = "md2" THEN 2 ELSE 1
\* what ds:Signature/ds:KeyInfo holds (it is outside the digest: the signature value stays valid)
SigKiCls == {"cert",         \* X509Data/X509Certificate with the signer's certificate
             "two",          \* two X509Certificate elements, the signer's first
             "certcomment",  \* the certificate text followed by a comment (two child tokens)
             "empty",        \* <ds:X509Certificate/>
             "ws",           \* X509Certificate with white space only
             "comment",      \* X509Certificate whose only child is a comment
             "nocert",       \* X509Data without X509Certificate
             "nokeyinfo",    \* no KeyInfo
             "rsakv",        \* KeyInfo with KeyValue/RSAKeyValue only
             "garbage",      \* X509Certificate whose text is not a certificate
             "other"}        \* a well-formed certificate of another key
NoCertEl == {"nocert", "nokeyinfo", "rsakv"}             \* no X509Certificate element at all
\* child tokens of the (first) X509Certificate element
NChildren(k) == CASE k = "empty" -> 0 [] k = "certcomment" -> 2 [] OTHER -> 1

\* nesting of EntitiesDescriptor elements.  Shapes: one child per level | a completed empty sibling
\* before the nested one at every level | several completed siblings at the top, then a chain | a
\* completed sibling after the nested one at every level.  Depth classes are relative to the bound
\* of the design and to the depth at which unbounded recursion exhausts the goroutine stack; the
\* model walks scaled-down documents (the harness maps the classes to 999 / 1000 / 1001 / 5000 /
\* several 100 000 levels - the last in a child process).
NestShapes == {"chain", "ladder", "widedeep", "sibafter"}
DepthCls   == {"below", "at", "above", "far", "huge"}
NestBound  == 3      \* maxEntitiesDescriptorDepth
NestStack  == 6      \* UnmarshalXML calls the stack has room for
Levels(d)  == CASE d = "below" -> 2 [] d = "at" -> 3 [] d = "above" -> 4 [] d = "far" -> 6 [] d = "huge" -> 9
Rep(n, q)  == [i \in 1..(n * Len(q)) |-> q[((i - 1) % Len(q)) + 1]]
\* "o" start tag, "c" end tag of an EntitiesDescriptor (each start tag is one UnmarshalXML call)
NestDoc(shape, n) ==
  CASE shape = "chain"    -> Rep(n, <<"o">>) \o Rep(n, <<"c">>)
    [] shape = "ladder"   -> <<"o">> \o Rep(n - 1, <<"o", "c", "o">>) \o Rep(n, <<"c">>)
    [] shape = "widedeep" -> <<"o">> \o Rep(3, <<"o", "c">>) \o Rep(n - 1, <<"o">>) \o Rep(n, <<"c">>)
    [] shape = "sibafter" -> Rep(n, <<"o">>) \o <<"c">> \o Rep(n - 1, <<"o", "c", "c">>)

----------------------------------------------------------------------------
(* input families *)

\* dependent parts are normalised: no Subject => no NameID and no confirmation
AssnParts(P(_)) ==
  \E iss \in BOOLEAN, subj \in BOOLEAN, nid \in BOOLEAN, cf \in ConfSeqs, cond \in CondCls,
     au \in BOOLEAN, at \in BOOLEAN, sg \in BOOLEAN, en \in EncCls :
       /\ (~subj => (~nid /\ cf = <<>>))
       /\ P(Assn(iss, subj, nid, cf, cond, au, at, sg, en))

RespParts(P(_, _, _, _, _)) ==
  \E iss \in BOOLEAN, dest \in BOOLEAN, irt \in BOOLEAN, st \in StatusCls, sg \in BOOLEAN : P(iss, dest, irt, st, sg)

NoSubj == [GoodAssn EXCEPT !.subj = FALSE, !.nameid = FALSE, !.confs = <<>>]
NoCond == [GoodAssn EXCEPT !.cond = "absent"]
NoData == [GoodAssn EXCEPT !.confs = <<"nodata">>]
\* an EncryptedAssertion whose plaintext has no element, or that lacks EncryptedData, CipherData,
\* the EncryptedKey or the EncryptionMethod
BadEncCls == {"rootless", "noencdata", "nocipher", "nokey", "nomethod"}
FewAssnSeqs == { <<>>, <<GoodAssn>>, <<[GoodAssn EXCEPT !.sig = FALSE]>>, <<NoSubj>>, <<[GoodAssn EXCEPT !.enc = "yes"]>>,
                 <<NoSubj, GoodAssn>>, <<GoodAssn, NoCond>>, <<NoData, NoCond>>,
                 <<[NoSubj EXCEPT !.enc = "yes"], GoodAssn>>, <<NoData, [GoodAssn EXCEPT !.enc = "yes"]>> }
               \cup { <<[GoodAssn EXCEPT !.enc = e]>> : e \in BadEncCls }
               \cup { <<GoodAssn, [GoodAssn EXCEPT !.enc = e]>> : e \in BadEncCls }

\* every subset of the assertion's parts, in a response that is otherwise complete
InitAssnFam(entries, allows) ==
  \E e \in entries, al \in allows, rs \in BOOLEAN :
    AssnParts(LAMBDA a : in = RespIn("assn", e, "ok", "ok", al, GoodEnv, [GoodResp EXCEPT !.sig = rs, !.assns = <<a>>]))

\* every subset of the response's parts around a few assertion sequences
InitRespFam(entries) ==
  \E e \in entries, al \in BOOLEAN, as \in FewAssnSeqs :
    RespParts(LAMBDA iss, dest, irt, st, sg : in = RespIn("resp", e, "ok", "ok", al, GoodEnv, Resp(iss, dest, irt, st, sg, as)))

\* the full cross product (thorough)
InitCrossFam ==
  \E al \in BOOLEAN :
    RespParts(LAMBDA iss, dest, irt, st, sg :
      AssnParts(LAMBDA a : in = RespIn("cross", "xml", "ok", "ok", al, GoodEnv, Resp(iss, dest, irt, st, sg, <<a>>))))

\* every subset of the SOAP envelope / ArtifactResponse parts (over HTTP: x whether the body closes
\* cleanly); every resolver behaviour
InitArtFam ==
  \/ \E e \in {"artxml", "artifact"}, body_ \in BOOLEAN, nar \in 0..2, iss \in BOOLEAN, st \in StatusCls,
        sg \in BOOLEAN, irt \in BOOLEAN, inner \in BOOLEAN, ins \in {"resp", "assn", "none"}, cl \in CloseCls :
       /\ (~body_ => nar = 0)
       /\ (cl = "err" => e = "artifact")
       /\ in = [RespIn("art", e, "ok", "ok", FALSE, Env(body_, nar, iss, st, sg, irt, inner),
                       [GoodResp EXCEPT !.sig = (ins = "resp"), !.assns = <<[GoodAssn EXCEPT !.sig = (ins = "assn")]>>])
                 EXCEPT !.close = cl]
  \* every behaviour of the endpoint x whether the body (when there is one) closes cleanly; a Read that
  \* fails does so at every point
  \/ \E r \in ResCls \ StallCls, p \in RdPtCls, cl \in CloseCls :
       /\ (r # "readerr" => p = "mid")
       /\ (r \in NoBodyCls => cl = "ok")
       /\ in = [RespIn("resolver", "artifact", "ok", r, FALSE, GoodEnv, GoodResp) EXCEPT !.rdpt = p, !.close = cl]
  \* a stalled endpoint x what bounds the call x the SP's HTTP client (x the point at which the body goes
  \* silent x whether it closes cleanly afterwards: the body of http.DefaultClient is not the harness's to fail)
  \/ \E r \in StallCls, b \in BoundCls, c \in ClientCls, p \in RdPtCls, cl \in CloseCls :
       /\ BoundedBy(b, c)
       /\ (r = "stall" => p = "mid" /\ cl = "ok")
       /\ (cl = "err" => c # "default")
       /\ in = [RespIn("resolver", "artifact", "ok", r, FALSE, GoodEnv, GoodResp)
                 EXCEPT !.bound = b, !.client = c, !.rdpt = p, !.close = cl]
  \* a body that closes cleanly / whose Close fails around the few assertion sequences (accepted, refused,
  \* several, encrypted)
  \/ \E as \in FewAssnSeqs, rs \in BOOLEAN, cl \in CloseCls :
       in = [RespIn("body", "artifact", "ok", "ok", FALSE, GoodEnv, [GoodResp EXCEPT !.sig = rs, !.assns = as])
             EXCEPT !.close = cl]
\* (thorough) a body whose Close fails x every trust configuration x KeyInfo shape x place of a signature
InitBodyTrustFam ==
  \E t \in TrustCls, k \in SigKiCls, es \in BOOLEAN, rs \in BOOLEAN, as \in BOOLEAN, en \in EncCls :
    in = [RespInT("body", "artifact", "ok", "ok", FALSE, [GoodEnv EXCEPT !.sig = es],
                  [GoodResp EXCEPT !.sig = rs, !.assns = <<[GoodAssn EXCEPT !.sig = as, !.enc = en]>>], t, k)
          EXCEPT !.close = "err"]

Sensible(e, f) == /\ (f \in {"notb64", "b64garbage"} => e \in B64Entries)
                  /\ (f \in {"bomb", "bombvalid", "truncdeflate"} => e \in DeflateEntries)
FrameEntries == RespEntries \cup LogoutEntries \cup AuthnEntries \cup {"parse", "fetch", "put-sso", "unmarshal-sso"}
InitFrameFam ==
  \E e \in FrameEntries, f \in FramingCls :
    /\ Sensible(e, f)
    /\ in = [fam |-> "frame", entry |-> e, framing |-> f, res |-> "ok", allowIdp |-> FALSE, env |-> GoodEnv,
             resp |-> [GoodResp EXCEPT !.sig = TRUE], lo |-> GoodLo, rq |-> GoodRq, md |-> GoodSPMD,
             trust |-> "md1", ki |-> "cert", encx |-> GoodEncX, bound |-> "none", client |-> "custom",
             rdpt |-> "mid", close |-> "ok"]

InitLogoutFam ==
  \E e \in LogoutEntries, iss \in BOOLEAN, dest \in BOOLEAN, st \in StatusCls, sg \in BOOLEAN, ii \in BOOLEAN, irt \in BOOLEAN :
    in = [fam |-> "logout", entry |-> e, framing |-> "ok", lo |-> Lo(iss, dest, st, sg, ii, irt), trust |-> "md1", ki |-> "cert"]

\* every trust configuration x every KeyInfo shape, for every place a signature can be (ArtifactResponse,
\* Response, Assertion - plaintext or encrypted), through every response and logout entry point; the
\* assertion complete or without Conditions (what lies behind the signature is still reached)
InitTrustFam(full) ==
  \/ \E e \in RespEntries, t \in TrustCls, k \in SigKiCls, es \in BOOLEAN, rs \in BOOLEAN, as \in BOOLEAN,
        en \in EncCls, a \in (IF full THEN {GoodAssn, NoCond, NoSubj, NoData} ELSE {GoodAssn, NoCond}) :
       /\ (es => e \in {"artxml", "artifact"})
       /\ in = RespInT("trust", e, "ok", "ok", FALSE, [GoodEnv EXCEPT !.sig = es],
                       [GoodResp EXCEPT !.sig = rs, !.assns = <<[a EXCEPT !.sig = as, !.enc = en]>>], t, k)
  \/ \E e \in LogoutEntries, t \in TrustCls, k \in SigKiCls, sg \in BOOLEAN, iss \in BOOLEAN :
       in = [fam |-> "trust", entry |-> e, framing |-> "ok", lo |-> [GoodLo EXCEPT !.sig = sg, !.iss = iss], trust |-> t, ki |-> k]
\* (thorough) every subset of the Response's parts under every trust configuration x KeyInfo shape
InitTrustRespFam ==
  \E t \in TrustCls, k \in SigKiCls, as \in BOOLEAN :
    RespParts(LAMBDA iss, dest, irt, st, sg :
      in = RespInT("trust", "xml", "ok", "ok", FALSE, GoodEnv, Resp(iss, dest, irt, st, sg, <<[GoodAssn EXCEPT !.sig = as]>>), t, k))

\* what an EncryptedAssertion holds x Response signed or not x Assertion signed or not, through every
\* response entry point (the EncryptedAssertion is decrypted before any signature inside it can be looked
\* at: with an unsigned Response nothing has been verified when the EncryptedKey is read)
\* (quick: every key transport and every block cipher class, not every pair of them)
AlgPairs(full) == IF full THEN KtCls \X BcCls
                  ELSE {<<"oaep-mgf1p", "aescbc">>, <<"rsa15", "3des">>, <<"oaep11", "gcm">>,
                        <<"oaep-mgf1p", "gcm">>, <<"oaep11", "aescbc">>, <<"rsa15", "aescbc">>}
InitEncFam(full) ==
  \/ \E e \in RespEntries, h \in HintCls, p \in PlaceCls, alg \in AlgPairs(full), rs \in BOOLEAN, as \in BOOLEAN,
        a \in (IF full THEN {GoodAssn, NoCond} ELSE {GoodAssn}) :
       LET kt == alg[1] bc == alg[2] IN
       in = RespInX("enc", e, "ok", "ok", FALSE, GoodEnv,
                    [GoodResp EXCEPT !.sig = rs, !.assns = <<[a EXCEPT !.sig = as, !.enc = "yes"]>>], "md1", "cert",
                    EncX(h, p, kt, bc, "full"))
  \* an EncryptedKey that lacks a part
  \/ \E e \in RespEntries, k \in EkpCls \ {"full"}, p \in PlaceCls, rs \in BOOLEAN,
        h \in (IF full THEN HintCls ELSE {"absent", "own", "ec"}), kt \in (IF full THEN KtCls ELSE {"oaep-mgf1p"}) :
       in = RespInX("enc", e, "ok", "ok", FALSE, GoodEnv,
                    [GoodResp EXCEPT !.sig = rs, !.assns = <<[GoodAssn EXCEPT !.enc = "yes"]>>], "md1", "cert",
                    EncX(h, p, kt, "aescbc", k))
  \* an EncryptedData that lacks a part, or whose plaintext has no element, x where the EncryptedKey is
  \/ \E e \in RespEntries, b \in BadEncCls, p \in PlaceCls, h \in {"own", "ec"}, bc \in BcCls :
       in = RespInX("enc", e, "ok", "ok", FALSE, GoodEnv,
                    [GoodResp EXCEPT !.sig = TRUE, !.assns = <<[GoodAssn EXCEPT !.enc = b]>>], "md1", "cert",
                    EncX(h, p, "oaep-mgf1p", bc, "full"))

InitAuthnFam ==
  \E e \in AuthnEntries, iss \in BOOLEAN, nip \in BOOLEAN, dest \in BOOLEAN, au \in BOOLEAN, ai_ \in BOOLEAN,
     ver \in BOOLEAN, ii \in BOOLEAN, id \in BOOLEAN, pb \in BOOLEAN :
    in = [fam |-> "authn", entry |-> e, framing |-> "ok", rq |-> Rq(iss, nip, dest, au, ai_, ver, ii, id, pb), md |-> GoodSPMD]

KDSeqs(full) == { <<>> } \cup { <<k>> : k \in KDAll }
                \cup (IF full THEN { <<k1, k2>> : k1 \in KDAll, k2 \in KDAll }
                              ELSE { <<k1, k2>> : k1 \in KDSmall, k2 \in KDSmall })

InitSPMDFam(full) ==
  \/ \E e \in SPMDEntries, w \in {"entity", "entities"}, acs \in 0..2, ac \in {"absent", "empty", "requested"}, ks \in KDSeqs(full) :
       in = [fam |-> "spmd", entry |-> e, framing |-> "ok", rq |-> GoodRq, md |-> SPMD(w, 1, acs, ac, ks)]
  \* no SPSSODescriptor at all; an EntitiesDescriptor with no entity
  \/ \E e \in SPMDEntries, w \in {"entity", "entities", "entities0", "nested"} :
       in = [fam |-> "spmd", entry |-> e, framing |-> "ok", rq |-> GoodRq, md |-> SPMD(w, IF w = "nested" THEN 1 ELSE 0, 0, "absent", <<>>)]

InitIDPMDFam(full) ==
  \/ \E w \in {"entity", "entities"}, sso \in BOOLEAN, ks \in KDSeqs(full) :
       in = [fam |-> "idpmd", entry |-> "parse-spuse", framing |-> "ok", md |-> IDPMD(w, 1, sso, ks)]
  \/ \E w \in {"entity", "entities", "entities0", "nested"} :
       in = [fam |-> "idpmd", entry |-> "parse-spuse", framing |-> "ok", md |-> IDPMD(w, IF w = "nested" THEN 1 ELSE 0, FALSE, <<>>)]

\* every nesting shape x depth class of EntitiesDescriptor elements through every metadata consumer;
\* an entity with the wanted role is the last child of the outermost element
InitNestFam ==
  \E e \in NestEntries, sh \in NestShapes, d \in DepthCls :
    in = [fam |-> "nest", entry |-> e, framing |-> "ok", shape |-> sh, depth |-> d, rq |-> GoodRq, md |-> GoodSPMD]

InitQ == \/ InitAssnFam({"xml"}, BOOLEAN)
         \/ InitAssnFam({"post", "artxml", "artifact"}, {FALSE})
         \/ InitRespFam(RespEntries)
         \/ InitArtFam \/ InitFrameFam \/ InitLogoutFam \/ InitAuthnFam
         \/ InitSPMDFam(FALSE) \/ InitIDPMDFam(FALSE)
         \/ InitTrustFam(FALSE) \/ InitNestFam \/ InitEncFam(FALSE)
InitT == \/ InitAssnFam(RespEntries, BOOLEAN)
         \/ InitRespFam(RespEntries)
         \/ InitCrossFam
         \/ InitArtFam \/ InitFrameFam \/ InitLogoutFam \/ InitAuthnFam
         \/ InitSPMDFam(TRUE) \/ InitIDPMDFam(TRUE)
         \/ InitTrustFam(TRUE) \/ InitTrustRespFam \/ InitNestFam \/ InitEncFam(TRUE) \/ InitBodyTrustFam

IsResp   == in.entry \in RespEntries
IsLogout == in.entry \in LogoutEntries
IsAuthn  == in.entry \in AuthnEntries
IsSPMD   == in.entry \in SPMDEntries
IsNest   == in.fam = "nest"
IsIDPMD  == in.entry \in IDPMDEntries

Start == CASE in.entry = "artifact" -> "ArtBuild"
           [] in.entry \in {"req-post", "req-get"} -> "LoDispatch"
           [] in.entry \in B64Entries -> "B64"
           [] OTHER -> "XRV"

Init == /\ CASE Tier = "q" -> InitQ [] Tier = "t" -> InitT
        /\ pc = Start
        /\ sigReq = TRUE /\ hasSig = FALSE /\ ai = 1 /\ cj = 1 /\ firstFail = "none" /\ accepted = 0
        /\ asn = "nil" /\ err = "nil" /\ verdict = "none" /\ step = "none" /\ fired = <<>>
        /\ vsEl = "none" /\ vsRet = "none" /\ sigRes = "none" /\ respSig = "none"
        /\ pos = 1 /\ ctr = 0 /\ frames = <<>>
        /\ octx = "none" /\ dkey = "rsa" /\ dstk = <<>> /\ xdRes = "none"
        /\ body = "none" /\ rd = 0 /\ clog = FALSE

----------------------------------------------------------------------------
(* outcomes *)

Keep == UNCHANGED in
GotoF(l) == pc' = l /\ UNCHANGED <<sigReq, hasSig, ai, cj, firstFail, accepted, asn, err, verdict, step, sv, nv, xv>>
Goto(l) == GotoF(l) /\ UNCHANGED fired

\* the wrapper through which an error of the response-parsing code reaches the caller
InnerWrapper == IF in.entry \in {"artxml", "artifact"} THEN "parseArtifactResponse" ELSE "ParseXMLResponse"
ErrKind(w) == IF w = "plain" \/ w \in Unwrapped THEN "plain" ELSE "IRE"

\* where a return of the entry point leads: while the body of the back-channel answer is open the deferred
\* function of handleArtifactRequest runs first (every consumer below it returns THROUGH it)
RetPc == IF body = "open" THEN "ArtDeferClose" ELSE "done"

\* return an error through wrapper w ("plain": the code returns the bare error here)
RejectF(why, w) == /\ pc' = RetPc /\ verdict' = "error" /\ step' = why /\ err' = ErrKind(w) /\ asn' = "nil"
                   /\ UNCHANGED <<sigReq, hasSig, ai, cj, firstFail, accepted, sv, nv, xv>>
Reject(why, w) == RejectF(why, w) /\ UNCHANGED fired
Succeed == /\ pc' = RetPc /\ verdict' = "ok" /\ step' = "none" /\ err' = "nil"
           /\ asn' = IF IsResp THEN "set" ELSE "nil"
           /\ UNCHANGED <<sigReq, hasSig, ai, cj, firstFail, accepted, fired, sv, nv, xv>>
Panic(site) == /\ pc' = "Panic" /\ verdict' = "panic" /\ step' = site
               /\ fired' = Append(fired, site)
               /\ UNCHANGED <<sigReq, hasSig, ai, cj, firstFail, accepted, asn, err, sv, nv, xv>>

\* a dereference of an optional part: unguarded code panics when the part is absent; the
\* design's guard either rejects or (SkipSites) imposes no constraint
Deref(site, absent, w, next) ==
  IF ~absent THEN Goto(next)
  ELSE IF site \in Unguarded THEN Panic(site)
  ELSE /\ fired' = Append(fired, site)
       /\ IF site \in SkipSites THEN GotoF(next) ELSE RejectF(site, w)

\* validateSignature is called for element el; it hands its result to the step ret
CallVS(el, ret) == /\ pc' = "VSFind" /\ vsEl' = el /\ vsRet' = ret /\ sigRes' = "none"
                   /\ UNCHANGED <<sigReq, hasSig, ai, cj, firstFail, accepted, asn, err, verdict, step, fired, respSig, nv, xv>>
ReturnVSF(res) == /\ pc' = vsRet /\ sigRes' = res
                  /\ UNCHANGED <<sigReq, hasSig, ai, cj, firstFail, accepted, asn, err, verdict, step, vsEl, vsRet, respSig, nv, xv>>
ReturnVS(res) == ReturnVSF(res) /\ UNCHANGED fired
\* a dereference inside validateSignature: the design's guard makes validateSignature return an error
\* (SkipSites: go on)
DerefVS(site, absent, next) ==
  IF ~absent THEN Goto(next)
  ELSE IF site \in Unguarded THEN Panic(site)
  ELSE /\ fired' = Append(fired, site)
       /\ IF site \in SkipSites THEN GotoF(next) ELSE ReturnVSF("bad")

----------------------------------------------------------------------------
(* framing: base64, bounded inflate, round-trip validation, parse, root *)

\* the wrapper in force while the bytes are being decoded
OuterWrapper == CASE in.entry = "post" -> "parseResponseHTTP"
                  [] in.entry \in {"artxml", "artifact"} -> "ParseXMLArtifactResponse"
                  [] in.entry = "xml" -> "ParseXMLResponse"
                  [] OTHER -> "plain"

\* the body the resolver hands back, as a framing class of ParseXMLArtifactResponse's input
ResFraming == CASE in.res \in {"ok", "slow"} -> in.framing
                [] in.res = "empty" -> "empty"
                [] in.res \in {"truncated", "garbage"} -> "notxml"
                [] OTHER -> "ok"
EF == IF in.entry = "artifact" THEN ResFraming ELSE in.framing

\* handleArtifactRequest :756  everything that goes wrong here is wrapped
\* :759 MakeArtifactResolveRequest, :765 SoapRequest serialised
ArtBuild == /\ pc = "ArtBuild" /\ Keep /\ Goto("ArtNewReq")
\* :771 the back-channel request is built WITH the context of the incoming request (ctx = req.Context())
ArtNewReq == /\ pc = "ArtNewReq" /\ Keep
             /\ octx' = IF ContextDropped THEN "background" ELSE "request"
             /\ pc' = "ArtClient"
             /\ UNCHANGED <<sigReq, hasSig, ai, cj, firstFail, accepted, asn, err, verdict, step, fired, sv, nv, dkey, dstk, xdRes, bv>>
\* :779 sp.HTTPClient, or http.DefaultClient when it is nil
ArtClient == /\ pc = "ArtClient" /\ Keep /\ Goto("ArtDo")
\* a wait on the endpoint ends when the endpoint answers, when the client's own timer fires, or when the
\* context carried by the back-channel request is done; a stalled endpoint never answers
WaitEnds == \/ in.client = "timeout"
            \/ (octx = "request" /\ in.bound \in {"deadline", "cancel"})
Block(at) == /\ pc' = "Blocked" /\ verdict' = "hang" /\ step' = at
             /\ UNCHANGED <<sigReq, hasSig, ai, cj, firstFail, accepted, asn, err, fired, sv, nv, xv>>
\* :783 httpClient.Do(req): transport errors
ArtDo == /\ pc = "ArtDo" /\ Keep
         /\ CASE in.res = "connerr" -> Reject("Resolve", "handleArtifactRequest")
              [] in.res = "stall" -> (IF WaitEnds THEN Reject("Resolve", "handleArtifactRequest") ELSE Block("ArtDo"))
              [] OTHER -> Goto("ArtDefer")
\* :788 Do has returned a response: its body is open, and the deferred function that closes it is registered
ArtDefer == /\ pc = "ArtDefer" /\ Keep
            /\ body' = "open" /\ pc' = "ArtHTTPStatus"
            /\ UNCHANGED <<sigReq, hasSig, ai, cj, firstFail, accepted, asn, err, verdict, step, fired, sv, nv, octx, dkey, dstk, xdRes, rd, clog>>
\* :793 the status must be 200
ArtHTTPStatus == /\ pc = "ArtHTTPStatus" /\ Keep
                 /\ IF in.res = "non200" THEN Reject("Resolve", "handleArtifactRequest") ELSE Goto("ArtReadAll")
\* :797 io.ReadAll(response.Body), Read by Read: a Read that fails ends it with that error however much
\* came before; a Read that never returns is a wait like the one in Do; the end of the stream ends it well
\* (a body that was cut short by the peer ends like a complete one: what came is handed on)
AtRdPt == rd = RdPt(in.rdpt)
ArtReadAll == /\ pc = "ArtReadAll" /\ Keep
              /\ CASE in.res = "readerr" /\ AtRdPt -> Reject("Resolve", "handleArtifactRequest")
                   [] in.res = "stallbody" /\ AtRdPt ->
                        (IF WaitEnds THEN Reject("Resolve", "handleArtifactRequest") ELSE Block("ArtReadAll"))
                   [] OTHER ->
                        IF rd < NChunks
                          THEN /\ rd' = rd + 1
                               /\ UNCHANGED <<pc, sigReq, hasSig, ai, cj, firstFail, accepted, asn, err, verdict, step, fired,
                                              sv, nv, octx, dkey, dstk, xdRes, body, clog>>
                          ELSE Goto("XRV")
\* :788-792 the deferred function, at whatever return: response.Body.Close(); a failure of it is written
\* to the log and changes NOTHING of what is being returned (the assertion and a nil error after a
\* resolution that succeeded, nil and the error after one that did not)
ArtDeferClose == /\ pc = "ArtDeferClose" /\ Keep
                 /\ body' = "closed" /\ pc' = "done"
                 /\ clog' = (in.close = "err")
                 /\ IF in.close = "err" /\ CloseFailure = "returned" /\ err = "nil"
                      THEN err' = "IRE" /\ verdict' = "error" /\ step' = "BodyClose"
                      ELSE UNCHANGED <<err, verdict, step>>
                 /\ UNCHANGED <<sigReq, hasSig, ai, cj, firstFail, accepted, asn, fired, sv, nv, octx, dkey, dstk, xdRes, rd>>

\* ValidateLogoutResponseRequest :1630  a non-empty query parameter selects the redirect decoder
LoDispatch == /\ pc = "LoDispatch" /\ Keep /\ Goto("B64")
LoPath == IF in.entry \in {"redirect", "req-get"} /\ ~(in.entry = "req-get" /\ in.framing = "empty") THEN "redirect" ELSE "form"

B64 == /\ pc = "B64" /\ Keep
       /\ IF EF = "notb64" THEN Reject("Base64", IF in.entry = "post" THEN "parseResponseHTTP" ELSE "plain")
          ELSE Goto(IF (IsLogout /\ LoPath = "redirect") \/ in.entry \in {"validate-get", "sso-get"} THEN "Inflate"
                    ELSE IF IsAuthn THEN "Validate" ELSE "XRV")
\* flate.go: raw deflate, refused beyond 10 MB
Inflate == /\ pc = "Inflate" /\ Keep
           /\ IF EF \in {"empty", "b64garbage", "bomb", "bombvalid", "truncdeflate"} THEN Reject("Inflate", "plain")
              ELSE Goto(IF IsAuthn THEN "Validate" ELSE "XRV")
\* NewIdpAuthnRequest has returned; Validate starts with the round-trip validator
Validate == /\ pc = "Validate" /\ Keep /\ Goto("XRV")

\* xml-roundtrip-validator (syntax errors and unstable tokens), then the parser
XRV == /\ pc = "XRV" /\ Keep
       /\ IF EF \in {"notxml", "b64garbage", "unstable"} THEN Reject("RoundTrip", OuterWrapper)
          ELSE Goto("Root")
\* doc.Root() / xml.Unmarshal of a document without an element
RootSite == CASE IsLogout -> "LogoutRootNil" [] in.entry \in {"artxml", "artifact"} -> "ArtRootNil" [] OTHER -> "RespRootNil"
Rootless == EF \in {"empty", "rootless"}
AfterRoot == CASE in.entry \in {"artxml", "artifact"} -> "Envelope"
               [] in.entry \in {"xml", "post"} -> "RSig"
               [] IsLogout -> "LoSig"
               [] IsAuthn -> "QUnmarshal"
               [] OTHER -> "MDParse"
Root == /\ pc = "Root" /\ Keep
        /\ IF IsResp \/ IsLogout THEN Deref(RootSite, Rootless, OuterWrapper, AfterRoot)
           \* encoding/xml reports EOF for a document without an element
           ELSE IF Rootless THEN Reject("NoRoot", "plain") ELSE Goto(AfterRoot)

----------------------------------------------------------------------------
(* ParseXMLArtifactResponse :831 / parseArtifactResponse :874 *)

E == in.env
EnvBad == in.entry = "artifact" /\ in.res = "wrongenvelope"
NoBody == ~E.body \/ (in.entry = "artifact" /\ in.res = "nobody")
NAR == IF in.entry = "artifact" /\ in.res = "soapfault" THEN 0
       ELSE IF in.entry = "artifact" /\ in.res = "twoAR" THEN 2 ELSE E.nar

Envelope == /\ pc = "Envelope" /\ Keep
            /\ IF EnvBad THEN Reject("Envelope", "ParseXMLArtifactResponse") ELSE Goto("Body")
Body == /\ pc = "Body" /\ Keep
        /\ IF NoBody THEN Reject("Body", "ParseXMLArtifactResponse") ELSE Goto("ArtResp")
\* exactly one ArtifactResponse
ArtResp == /\ pc = "ArtResp" /\ Keep
           /\ IF NAR # 1 THEN Reject("ArtifactResponse", "ParseXMLArtifactResponse") ELSE Goto("ArtIRT")
ArtIRT == /\ pc = "ArtIRT" /\ Keep
          /\ IF ~E.irt THEN Reject("ArtInResponseTo", "parseArtifactResponse") ELSE Goto("ArtIssuer")
\* :894 guarded: an absent Issuer imposes nothing
ArtIssuer == /\ pc = "ArtIssuer" /\ Keep
             /\ Deref("ArtIssuerNil", ~E.iss, "parseArtifactResponse", "ArtStatus")
\* :898 Status and StatusCode are values: absent ones read as ""
ArtStatus == /\ pc = "ArtStatus" /\ Keep
             /\ IF E.status # "ok" THEN Reject("ArtStatus", "parseArtifactResponse") ELSE Goto("ArtSig")
\* :911 validateSignature(artifactResponseEl)
ArtSig == /\ pc = "ArtSig" /\ Keep /\ CallVS("art", "ArtSigDecide")
\* :912 a valid signature on the ArtifactResponse lifts the requirement from what is inside, an absent
\* one leaves it, any other outcome is an error
ArtSigDecide == /\ pc = "ArtSigDecide" /\ Keep
                /\ IF sigRes = "bad" THEN Reject("ArtSignature", "parseArtifactResponse")
                   ELSE /\ sigReq' = (sigRes = "absent") /\ pc' = "ArtInner"
                        /\ UNCHANGED <<hasSig, ai, cj, firstFail, accepted, asn, err, verdict, step, fired, sv, nv, xv>>
ArtInner == /\ pc = "ArtInner" /\ Keep
            /\ IF ~E.inner THEN Reject("InnerResponse", "parseArtifactResponse") ELSE Goto("RSig")

----------------------------------------------------------------------------
(* parseResponse :988 *)

R == in.resp
\* the assertions in the order the code visits them: encrypted ones first
Enc(s)   == SelectSeq(s, LAMBDA a : a.enc # "no")
Plain(s) == SelectSeq(s, LAMBDA a : a.enc = "no")
Visit == Enc(R.assns) \o Plain(R.assns)
A == Visit[ai]

\* :997 validateSignature(responseEl) unless a signed ArtifactResponse vouches for the content
RSig == /\ pc = "RSig" /\ Keep
        /\ IF sigReq THEN CallVS("resp", "RSigNote") ELSE Goto("RDest")
\* :999 whatever is not "no Signature element" counts as a signature; acting on a failed one is deferred
RSigNote == /\ pc = "RSigNote" /\ Keep
            /\ hasSig' = (sigRes # "absent") /\ respSig' = sigRes /\ pc' = "RDest"
            /\ UNCHANGED <<sigReq, ai, cj, firstFail, accepted, asn, err, verdict, step, fired, vsEl, vsRet, sigRes, nv, xv>>
\* :1010 Destination is mandatory on a signed Response
RDest == /\ pc = "RDest" /\ Keep
         /\ IF hasSig /\ ~R.dest THEN Reject("Destination", InnerWrapper) ELSE Goto("RReqID")
\* :1096 an absent InResponseTo is "" and matches no outstanding ID
RReqID == /\ pc = "RReqID" /\ Keep
          /\ IF ~in.allowIdp /\ ~R.irt THEN Reject("InResponseTo", InnerWrapper) ELSE Goto("RIssuer")
\* :1026 guarded
RIssuer == /\ pc = "RIssuer" /\ Keep
           /\ Deref("RespIssuerNil", ~R.iss, InnerWrapper, "RStatus")
RStatus == /\ pc = "RStatus" /\ Keep
           /\ IF R.status # "ok" THEN Reject("Status", InnerWrapper) ELSE Goto("RSigDecide")
\* :1041 a valid Response signature lifts the requirement from the assertions, a failed one is returned now
RSigDecide == /\ pc = "RSigDecide" /\ Keep
              /\ IF sigReq /\ respSig = "bad" THEN Reject("RespSignature", InnerWrapper)
                 ELSE /\ sigReq' = (sigReq /\ respSig # "ok")
                      /\ pc' = IF Len(Visit) = 0 THEN "Finish" ELSE "ADecrypt"
                      /\ UNCHANGED <<hasSig, ai, cj, firstFail, accepted, asn, err, verdict, step, fired, sv, nv, xv>>

\* an assertion-level failure is remembered; the loop goes on with the next assertion
NextAssn == IF ai + 1 > Len(Visit) THEN "Finish" ELSE "ADecrypt"
FailAssnF(why) == /\ firstFail' = IF firstFail = "none" THEN why ELSE firstFail
                  /\ ai' = ai + 1 /\ cj' = 1 /\ pc' = NextAssn
                  /\ UNCHANGED <<sigReq, hasSig, accepted, asn, err, verdict, step, sv, nv, xv>>
FailAssn(why) == FailAssnF(why) /\ UNCHANGED fired
DerefA(site, absent, next) ==
  IF ~absent THEN Goto(next)
  ELSE IF site \in Unguarded THEN Panic(site)
  ELSE FailAssnF(site) /\ fired' = Append(fired, site)

\* parseEncryptedAssertion :1123 for an EncryptedAssertion, parseAssertion for a plaintext one
\* decryptElement :1137 starts with sp.Key in hand
ADecrypt == /\ pc = "ADecrypt" /\ Keep
            /\ pc' = (IF A.enc = "no" THEN "ASig" ELSE "DEFindData") /\ dkey' = "rsa"
            /\ UNCHANGED <<sigReq, hasSig, ai, cj, firstFail, accepted, asn, err, verdict, step, fired, sv, nv, octx, dstk, xdRes, bv>>

\* ---- decryptElement :1131 (C11 covers malformed ciphertext)
X == in.encx
HasSib   == X.place \in {"sibling", "both"}
HasInner == X.place \in {"inside", "both"} /\ A.enc # "nokey"
Top == dstk[Len(dstk)]
\* xmlenc.Decrypt(key, el) is called for element el
CallXD(el) == /\ pc' = "XDMethod" /\ dstk' = Append(dstk, el) /\ xdRes' = "none"
              /\ UNCHANGED <<sigReq, hasSig, ai, cj, firstFail, accepted, asn, err, verdict, step, fired, sv, nv, octx, dkey, bv>>
\* ... and returns to where it was called: "ok" with the plaintext (a session key when el is an EncryptedKey), or "err"
RetLabel(el) == CASE el = "sib" -> "DESibRet" [] el = "in" -> "BCInnerRet" [] el = "data" -> "DEDataRet"
ReturnXDF(res) == /\ pc' = RetLabel(Top) /\ dstk' = SubSeq(dstk, 1, Len(dstk) - 1) /\ xdRes' = res
                  /\ dkey' = IF res = "ok" /\ Top # "data" THEN "bytes" ELSE dkey
                  /\ UNCHANGED <<sigReq, hasSig, ai, cj, firstFail, accepted, asn, err, verdict, step, sv, nv, octx, bv>>
ReturnXD(res) == ReturnXDF(res) /\ UNCHANGED fired
\* a dereference / type assertion inside xmlenc: the design's guard makes Decrypt return an error
DerefXD(site, absent, next) ==
  IF ~absent THEN Goto(next)
  ELSE IF site \in Unguarded THEN Panic(site)
  ELSE fired' = Append(fired, site) /\ ReturnXDF("err")

\* :1132 exactly one EncryptedData child
DEFindData == /\ pc = "DEFindData" /\ Keep
              /\ IF A.enc = "noencdata" THEN FailAssn("Decrypt") ELSE Goto("DESibKey")
\* :1138 an EncryptedKey next to EncryptedData is unwrapped first, with sp.Key
DESibKey == /\ pc = "DESibKey" /\ Keep
            /\ IF HasSib THEN CallXD("sib") ELSE Goto("DEData")
DESibRet == /\ pc = "DESibRet" /\ Keep
            /\ IF xdRes = "err" THEN FailAssn("Decrypt") ELSE Goto("DEData")
\* :1147 xmlenc.Decrypt(key, encryptedDataEl)
DEData == /\ pc = "DEData" /\ Keep /\ CallXD("data")
DEDataRet == /\ pc = "DEDataRet" /\ Keep
             /\ IF xdRes = "err" THEN FailAssn("Decrypt") ELSE Goto("DEPlainXRV")
\* :1152 round-trip validation, :1157 parse of the plaintext (an Assertion element, or a comment only)
DEPlainXRV == /\ pc = "DEPlainXRV" /\ Keep /\ Goto("DEPlainParse")
DEPlainParse == /\ pc = "DEPlainParse" /\ Keep /\ Goto("DEPlainRoot")
\* :1160 doc.Root() of the plaintext
DEPlainRoot == /\ pc = "DEPlainRoot" /\ Keep
               /\ DerefA("PlainRootNil", A.enc = "rootless", "ASig")

\* ---- xmlenc.Decrypt decrypt.go:56
\* :57 ./EncryptionMethod, :61 its Algorithm
XDMethod == /\ pc = "XDMethod" /\ Keep
            /\ DerefXD("EncMethodNil", IF Top = "data" THEN A.enc = "nomethod" ELSE X.ekp = "nomethod", "XDAlg")
\* :62 the registered decrypter of that algorithm: key transport for an EncryptedKey, block cipher for EncryptedData
XDAlg == /\ pc = "XDAlg" /\ Keep
         /\ Goto(IF Top = "data" THEN "BCInnerKey" ELSE "RKKeyType")

\* ---- RSA.Decrypt pubkey.go:110, validateRSAKeyIfPresent decrypt.go:84
\* :85 key.(*rsa.PrivateKey) - the key in hand is a session key when an EncryptedKey was unwrapped before
RKKeyType == /\ pc = "RKKeyType" /\ Keep
             /\ DerefXD("RSAKeyType", dkey # "rsa", "RKHintFind")
\* :101 ./KeyInfo/X509Data/X509Certificate (the first one); without it nothing is compared
RKHintFind == /\ pc = "RKHintFind" /\ Keep
              /\ Goto(IF X.hint \in {"absent", "nocert"} THEN "RKCipher" ELSE "RKHintPEM")
\* :104 pem.Decode of the text between certificate armour: nil when the text is no PEM body; :105 certPEM.Bytes
RKHintPEM == /\ pc = "RKHintPEM" /\ Keep
             /\ DerefXD("HintPEMNil", X.hint = "notpem", "RKHintParse")
\* :108 x509.ParseCertificate
RKHintParse == /\ pc = "RKHintParse" /\ Keep
               /\ IF X.hint \in {"badder", "empty"} THEN ReturnXD("err") ELSE Goto("RKHintKeyType")
\* :112 cert.PublicKey.(*rsa.PublicKey)
RKHintKeyType == /\ pc = "RKHintKeyType" /\ Keep
                 /\ DerefXD("HintCertKeyType", FirstHint(X.hint) \in {"ec", "ed25519"}, "RKHintMatch")
\* :116 modulus and exponent are those of the key in hand
RKHintMatch == /\ pc = "RKHintMatch" /\ Keep
               /\ IF X.hint = "otherrsa" THEN ReturnXD("err") ELSE Goto("RKCipher")
\* pubkey.go:116 getCiphertext decrypt.go:70: ./CipherData/CipherValue, base64
RKCipher == /\ pc = "RKCipher" /\ Keep
            /\ DerefXD("CipherValueNil", X.ekp = "nocipher", "RKDigest")
\* :122 DigestMethod (absent: SHA-1; a registered one here)
RKDigest == /\ pc = "RKDigest" /\ Keep
            /\ Goto(IF X.kt = "oaep11" THEN "RKMGF" ELSE "RKUnwrap")
\* :137 xmlenc11 rsa-oaep: the MGF must be MGF1 with the digest's hash (it is)
RKMGF == /\ pc = "RKMGF" /\ Keep /\ Goto("RKUnwrap")
\* :147 the key was wrapped for sp.Key
RKUnwrap == /\ pc = "RKUnwrap" /\ Keep /\ ReturnXD("ok")

\* ---- CBC.Decrypt cbc.go:84, GCM.Decrypt gcm.go:91
\* ./KeyInfo/EncryptedKey is unwrapped with the key in hand
BCInnerKey == /\ pc = "BCInnerKey" /\ Keep
              /\ IF HasInner THEN CallXD("in") ELSE Goto("BCKeyType")
BCInnerRet == /\ pc = "BCInnerRet" /\ Keep
              /\ IF xdRes = "err" THEN ReturnXD("err") ELSE Goto("BCKeyType")
\* key.([]byte) - still the SP's private key when there was no EncryptedKey at all
BCKeyType == /\ pc = "BCKeyType" /\ Keep
             /\ DerefXD("BlockKeyType", dkey # "bytes", "BCKeyLen")
\* the session key has the cipher's length (it was made for it)
BCKeyLen == /\ pc = "BCKeyLen" /\ Keep /\ Goto("BCCipher")
\* getCiphertext
BCCipher == /\ pc = "BCCipher" /\ Keep
            /\ DerefXD("CipherValueNil", A.enc = "nocipher", "BCOpen")
\* length checks, decryption, padding (CBC) / authentication (GCM): the ciphertext is genuine
BCOpen == /\ pc = "BCOpen" /\ Keep /\ ReturnXD("ok")
\* parseAssertion :1161
ASig == /\ pc = "ASig" /\ Keep
        /\ IF sigReq THEN CallVS("assn", "ASigDecide") ELSE Goto("AIssuer")
ASigDecide == /\ pc = "ASigDecide" /\ Keep
              /\ IF sigRes # "ok" THEN FailAssn("AssnSignature") ELSE Goto("AIssuer")
\* :1189 Issuer is a value: absent reads as ""
AIssuer == /\ pc = "AIssuer" /\ Keep
           /\ IF ~A.iss THEN FailAssn("AssnIssuer") ELSE Goto("ASubject")
\* :1192 assertion.Subject.SubjectConfirmations
ASubject == /\ pc = "ASubject" /\ Keep
            /\ DerefA("AssnSubjectNil", ~A.subj, "AConf")
\* :1214 / :1223 subjectConfirmation.SubjectConfirmationData.InResponseTo / .Recipient
AConf == /\ pc = "AConf" /\ Keep
         /\ IF cj > Len(A.confs) THEN Goto("AConditions")
            ELSE IF A.confs[cj] = "nodata"
                   THEN DerefA("ConfDataNil", TRUE, "AConf")
                   ELSE /\ cj' = cj + 1
                        /\ UNCHANGED <<pc, sigReq, hasSig, ai, firstFail, accepted, asn, err, verdict, step, fired, sv, nv, xv>>
\* :1230 assertion.Conditions.NotBefore
AConditions == /\ pc = "AConditions" /\ Keep
               /\ DerefA("ConditionsNil", A.cond = "absent", "AAudience")
\* :1251 no restriction, or the restriction names this SP
AAudience == /\ pc = "AAudience" /\ Keep
             /\ accepted' = IF accepted = 0 THEN ai ELSE accepted
             /\ ai' = ai + 1 /\ cj' = 1 /\ pc' = NextAssn
             /\ UNCHANGED <<sigReq, hasSig, firstFail, asn, err, verdict, step, fired, sv, nv, xv>>
Finish == /\ pc = "Finish" /\ Keep
          /\ IF accepted # 0 THEN Succeed
             ELSE Reject(IF firstFail # "none" THEN firstFail ELSE "NoAssertion", InnerWrapper)

----------------------------------------------------------------------------
(* ValidateLogoutResponseForm :1644 / Redirect :1689 / validateLogoutResponse :1736 *)

L == in.lo
\* :1687 / :1737 validateSignature(doc.Root()): anything but success is returned
LoSig == /\ pc = "LoSig" /\ Keep /\ CallVS("lo", "LoSigDecide")
LoSigDecide == /\ pc = "LoSigDecide" /\ Keep
               /\ CASE sigRes = "absent" -> Reject("SigAbsent", "plain")
                    [] sigRes = "bad" -> Reject("Signature", "plain")
                    [] OTHER -> Goto("LoDest")
LoDest == /\ pc = "LoDest" /\ Keep
          /\ IF ~L.dest THEN Reject("Destination", "plain") ELSE Goto("LoTime")
\* an absent IssueInstant is the zero instant
LoTime == /\ pc = "LoTime" /\ Keep
          /\ IF ~L.ii THEN Reject("IssueInstant", "plain") ELSE Goto("LoIssuer")
LoIssuer == /\ pc = "LoIssuer" /\ Keep
            /\ Deref("LogoutIssuerNil", ~L.iss, "plain", "LoStatus")
LoStatus == /\ pc = "LoStatus" /\ Keep
            /\ IF L.status # "ok" THEN Reject("Status", "plain") ELSE Succeed

----------------------------------------------------------------------------
(* validateSignature :1282, getIDPSigningCerts :385, getCertBasedOnFingerprint :428, parseCert :460, *)
(* fingerprint :475; then goxmldsig ValidationContext.Validate / verifyCertificate                    *)

TC == in.trust
K  == in.ki
SigPresent == CASE vsEl = "art" -> E.sig [] vsEl = "resp" -> R.sig [] vsEl = "assn" -> A.sig [] vsEl = "lo" -> L.sig

\* :1283 findChild(el, ds, "Signature")
VSFind == /\ pc = "VSFind" /\ Keep
          /\ IF ~SigPresent THEN ReturnVS("absent") ELSE Goto("VSTrust")
\* :1292 / :1298 / :1304 exactly one of the three ways of finding the trusted certificates applies
VSTrust == /\ pc = "VSTrust" /\ Keep
           /\ Goto(CASE TC \in FpTrust -> "FpFind" [] TC = "pin" -> "PinCert" [] OTHER -> "MdCerts")
\* getIDPSigningCerts ranges over the descriptors and their certificates (nothing is indexed): :403 none
\* found, :414 / :419 every one must decode and parse (the idpmd family has the descriptor shapes)
MdCerts == /\ pc = "MdCerts" /\ Keep
           /\ IF TC \in {"md0", "mdbad"} THEN ReturnVS("bad") ELSE Goto("VSStrip")
\* :1305 parseCert(*sp.IDPCertificate), a good certificate
PinCert == /\ pc = "PinCert" /\ Keep /\ Goto("VSStrip")
\* :429 el.FindElement("./Signature/KeyInfo/X509Data/X509Certificate") - nil without such an element
FpFind == /\ pc = "FpFind" /\ Keep
          /\ DerefVS("FpCertElNil", K \in NoCertEl, "FpChild")
\* :433 exactly one child token is wanted; :437 indexes Child[0]
FpChild == /\ pc = "FpChild" /\ Keep
           /\ IF NChildren(K) > 1 THEN ReturnVS("bad")
              ELSE DerefVS("FpCertChildIndex", NChildren(K) = 0, "FpType")
\* :437 Child[0].(*etree.CharData)
FpType == /\ pc = "FpType" /\ Keep
          /\ DerefVS("FpCertChildType", K = "comment", "FpParse")
\* :442 parseCert: white space removed, base64, x509
FpParse == /\ pc = "FpParse" /\ Keep
           /\ IF K \in {"ws", "garbage"} THEN ReturnVS("bad") ELSE Goto("FpMatch")
\* :447 fingerprint with a known algorithm, :452 compared with the pinned one
FpMatch == /\ pc = "FpMatch" /\ Keep
           /\ IF K = "other" THEN ReturnVS("bad") ELSE Goto("VSStrip")
\* :1335 without an X509Certificate element the KeyInfo is removed so that the trusted certificate is used
VSStrip == /\ pc = "VSStrip" /\ Keep
           /\ IF K \in NoCertEl THEN DerefVS("StripKeyInfoNil", K = "nokeyinfo", "DsigKey") ELSE Goto("DsigKey")
\* goxmldsig verifyCertificate: without KeyInfo the only root is used (several: error); with KeyInfo the
\* first X509Certificate must have text, decode, parse and be one of the roots
DsigKey == /\ pc = "DsigKey" /\ Keep
           /\ IF K \in NoCertEl THEN (IF NRoots(TC) = 1 THEN Goto("DsigVerify") ELSE ReturnVS("bad"))
              ELSE IF K \in {"empty", "comment", "ws", "garbage", "other"} THEN ReturnVS("bad")
              ELSE Goto("DsigVerify")
\* the signature value is the trusted signer's over this element
DsigVerify == /\ pc = "DsigVerify" /\ Keep /\ ReturnVS("ok")

----------------------------------------------------------------------------
(* IdpAuthnRequest.Validate :396, getACSEndpoint :466, ServeSSO :228,      *)
(* MakeAssertion :563, MakeAssertionEl :859, getSPEncryptionCert :985      *)

Q == in.rq
M == in.md
IsSSO == in.entry \in {"sso-get", "sso-post", "unmarshal-sso", "put-sso", "unmarshal-make", "unmarshal-idpinit"}

QUnmarshal == /\ pc = "QUnmarshal" /\ Keep /\ Goto("QTime")
\* Destination is checked only when present (and is the SSO URL here)
QTime == /\ pc = "QTime" /\ Keep
         /\ IF ~Q.ii THEN Reject("IssueInstant", "plain") ELSE Goto("QVersion")
QVersion == /\ pc = "QVersion" /\ Keep
            /\ IF ~Q.ver THEN Reject("Version", "plain") ELSE Goto("QIssuer")
\* :446 req.Request.Issuer.Value
QIssuer == /\ pc = "QIssuer" /\ Keep
           /\ Deref("AuthnIssuerNil", ~Q.iss, "plain", "QACS")
\* :466 by index, by URL, else a default; every loop ranges over the registered descriptors
Selectable == M.nsp >= 1 /\ M.acs >= 1
QACS == /\ pc = "QACS" /\ Keep
        /\ IF ~Selectable THEN Reject("NoACS", "plain")
           ELSE IF IsSSO THEN Goto("MakeAssertion") ELSE Succeed
\* :563 ranges over AttributeConsumingServices (none: an empty one is used); NameIDPolicy is not consulted
MakeAssertion == /\ pc = "MakeAssertion" /\ Keep /\ Goto("EncCertUse")
\* :987 first descriptor with use="encryption": X509Certificates[0]
FirstEnc == { i \in DOMAIN M.kds : M.kds[i].use = "encryption" /\ \A h \in 1..(i - 1) : M.kds[h].use # "encryption" }
EncCertUse == /\ pc = "EncCertUse" /\ Keep
              /\ Deref("EncCertIndex", \E i \in FirstEnc : NCerts(M.kds[i]) = 0, "plain", "EncCertAny")
\* :997 guarded by a length test
EncCertAny == /\ pc = "EncCertAny" /\ Keep
              /\ Deref("AnyCertIndex", \E i \in DOMAIN M.kds : M.kds[i].use = "none" /\ NCerts(M.kds[i]) = 0, "plain", "Respond")
\* sign, encrypt when a certificate was found, build the form
Respond == /\ pc = "Respond" /\ Keep /\ Succeed

----------------------------------------------------------------------------
(* metadata parsers and the use of what they return *)

\* ParseMetadata / getSPMetadata look for an entity with the wanted role inside an EntitiesDescriptor
Wrapped == M.wrap # "entity"
HasRole == IF IsIDPMD THEN M.nidp >= 1 ELSE M.nsp >= 1
\* a nested EntitiesDescriptor is not searched
Findable == M.wrap = "entities" /\ HasRole
MDParse == /\ pc = "MDParse" /\ Keep
           /\ CASE IsNest ->
                     \* the root is an EntitiesDescriptor: xml.Unmarshal into EntitiesDescriptor
                     Goto("NestTok")
                [] in.entry \in {"parse", "fetch"} ->
                     \* samlsp.ParseMetadata on SP metadata: an EntityDescriptor is returned as it is; inside an
                     \* EntitiesDescriptor it wants an IDPSSODescriptor
                     IF Wrapped THEN Reject("NoEntity", "plain") ELSE Succeed
                [] in.entry = "put-sso" ->
                     IF Wrapped /\ ~Findable THEN Reject("NoEntity", "plain") ELSE Goto("MDLookup")
                [] in.entry \in {"unmarshal-sso", "unmarshal-make", "unmarshal-idpinit"} ->
                     \* xml.Unmarshal into EntityDescriptor refuses another root element
                     IF Wrapped THEN Reject("WrongRoot", "plain") ELSE Goto("MDLookup")
                [] in.entry = "parse-spuse" ->
                     IF Wrapped /\ ~Findable THEN Reject("NoEntity", "plain") ELSE Goto("SPUse")
\* EntitiesDescriptor.UnmarshalXML metadata.go:80, once per start tag, d.DecodeElement inside it
NDoc == NestDoc(in.shape, Levels(in.depth))
Fatal(why) == /\ pc' = "Panic" /\ verdict' = "fatal" /\ step' = why
              /\ UNCHANGED <<sigReq, hasSig, ai, cj, firstFail, accepted, asn, err, fired, sv, nv, xv>>
\* :81 depth := the decoder's count; :85 refuse beyond the bound; :87 count + 1; the call goes on the stack
NestOpen == /\ pc = "NestTok" /\ pos <= Len(NDoc) /\ NDoc[pos] = "o" /\ Keep
            /\ IF DepthRestore # "nobound" /\ ctr >= NestBound THEN Reject("TooDeep", "plain")
               ELSE IF Len(frames) + 1 > NestStack THEN Fatal("StackExhausted")
               ELSE /\ ctr' = ctr + 1 /\ frames' = Append(frames, ctr) /\ pos' = pos + 1
                    /\ UNCHANGED <<pc, sigReq, hasSig, ai, cj, firstFail, accepted, asn, err, verdict, step, fired, sv, xv>>
\* :88 the deferred clean-up when the element is finished
NestClose == /\ pc = "NestTok" /\ pos <= Len(NDoc) /\ NDoc[pos] = "c" /\ Keep
             /\ ctr' = IF DepthRestore = "wipe" THEN 0 ELSE frames[Len(frames)]
             /\ frames' = SubSeq(frames, 1, Len(frames) - 1) /\ pos' = pos + 1
             /\ UNCHANGED <<pc, sigReq, hasSig, ai, cj, firstFail, accepted, asn, err, verdict, step, fired, sv, xv>>
\* the document is unmarshalled; the entity with the wanted role is a child of the outermost element
NestEnd == /\ pc = "NestTok" /\ pos > Len(NDoc) /\ Keep
           /\ IF in.entry = "put-sso" THEN Goto("MDLookup") ELSE Succeed

\* the metadata is registered; a valid AuthnRequest arrives
MDLookup == /\ pc = "MDLookup" /\ Keep /\ Goto("QACS")

\* the SP trusts the parsed IdP metadata: requests are made (Get*BindingLocation range over the
\* descriptors - nothing is indexed), then a validly signed response is parsed: getIDPSigningCerts
\* :379 ranges over the certificates of the descriptors with use "signing" or none
SigningKDs == { i \in DOMAIN M.kds : M.kds[i].use \in {"none", "signing"} }
SPUse == /\ pc = "SPUse" /\ Keep /\ Goto("SPTrust")
SPTrust == /\ pc = "SPTrust" /\ Keep
           /\ IF M.nidp >= 1 /\ \E i \in SigningKDs : NCerts(M.kds[i]) >= 1 THEN Succeed
              ELSE Reject("NoSigningCert", "plain")

----------------------------------------------------------------------------
Terminated == pc \in {"done", "Panic", "Blocked"} /\ UNCHANGED vars

Next == \/ ArtBuild \/ ArtNewReq \/ ArtClient \/ ArtDo \/ ArtDefer \/ ArtHTTPStatus \/ ArtReadAll \/ ArtDeferClose
        \/ DEFindData \/ DESibKey \/ DESibRet \/ DEData \/ DEDataRet \/ DEPlainXRV \/ DEPlainParse \/ DEPlainRoot
        \/ XDMethod \/ XDAlg \/ RKKeyType \/ RKHintFind \/ RKHintPEM \/ RKHintParse \/ RKHintKeyType \/ RKHintMatch
        \/ RKCipher \/ RKDigest \/ RKMGF \/ RKUnwrap
        \/ BCInnerKey \/ BCInnerRet \/ BCKeyType \/ BCKeyLen \/ BCCipher \/ BCOpen
        \/ LoDispatch \/ B64 \/ Inflate \/ Validate \/ XRV \/ Root
        \/ Envelope \/ Body \/ ArtResp \/ ArtIRT \/ ArtIssuer \/ ArtStatus \/ ArtSig \/ ArtSigDecide \/ ArtInner
        \/ RSig \/ RSigNote \/ RDest \/ RReqID \/ RIssuer \/ RStatus \/ RSigDecide
        \/ ADecrypt \/ ASig \/ ASigDecide \/ AIssuer \/ ASubject \/ AConf \/ AConditions \/ AAudience \/ Finish
        \/ LoSig \/ LoSigDecide \/ LoDest \/ LoTime \/ LoIssuer \/ LoStatus
        \/ VSFind \/ VSTrust \/ MdCerts \/ PinCert \/ FpFind \/ FpChild \/ FpType \/ FpParse \/ FpMatch
        \/ VSStrip \/ DsigKey \/ DsigVerify
        \/ QUnmarshal \/ QTime \/ QVersion \/ QIssuer \/ QACS \/ MakeAssertion \/ EncCertUse \/ EncCertAny \/ Respond
        \/ MDParse \/ NestOpen \/ NestClose \/ NestEnd \/ MDLookup \/ SPUse \/ SPTrust
        \/ Terminated
Spec == Init /\ [][Next]_vars

----------------------------------------------------------------------------
(* Properties - from the statement of C09 *)

Done == pc = "done"

\* "it never panics": no behaviour reaches the sink of panics and fatal runtime errors (a recursion
\* that the input can make as deep as it likes ends there).  ("never hangs": every state other
\* than a terminal one has a successor - TLC's deadlock check, which stays switched on.)
NoPanic == pc # "Panic"

\* "never ... hangs": no behaviour reaches the state in which the call waits for something that never
\* comes (an endpoint that does not answer, with nothing else left that could end the wait)
NoHang == pc # "Blocked"

\* "returns normally with either a result or an error"
ResultOrError == Done => verdict \in {"ok", "error"} /\ (verdict = "error" <=> err # "nil")

\* "Response-parsing failures are reported as InvalidResponseError ... the assertion is nil exactly
\* when the error is non-nil, and the same holds when artifact resolution over HTTP fails or
\* returns garbage" - the three response-parsing entry points, all four ways of reaching them.  Done is
\* the return of the ENTRY POINT: for ParseResponse with an artifact that is after the deferred function
\* of handleArtifactRequest has closed the body of the back-channel answer, whatever that Close returned
AssertionIffNoError == Done /\ IsResp => (asn = "nil" <=> err # "nil")
ErrorShape == Done /\ IsResp /\ err # "nil" => err = "IRE"

\* "deflated inputs are refused beyond 10 MB inflated"
BombRefused == Done /\ in.framing \in {"bomb", "bombvalid"} => verdict = "error"

\* the statement fixes the verdict only for the inflate bound; everything else is an
\* obligation to return (class Total), whatever the verdict
Class == IF in.framing \in {"bomb", "bombvalid"} THEN "MustReject" ELSE "Total"

\* model sanity (not from the statement): the body is read only while it is open, an entry point
\* never returns with it open, the log holds a close failure only when there was one
BodyLife == /\ body \in {"none", "open", "closed"} /\ rd \in 0..NChunks
            /\ (body = "none" => rd = 0 /\ ~clog)
            /\ (Done => body # "open")
            /\ (clog => body = "closed" /\ in.close = "err")

Emit == Done => PrintT(<<"VEC", ToJson([prop |-> "C09", in |-> in, class |-> Class,
                                        pred |-> [verdict |-> verdict, step |-> step, err |-> err,
                                                  fired |-> fired, body |-> body, clog |-> clog]])>>)
=============================================================================
