------------------------------ MODULE Totality ------------------------------
(***************************************************************************)
(* C09 - the message-consuming APIs are total: for every document the      *)
(* consumer returns a result or an error, never a panic.                   *)
(*                                                                         *)
(* One step machine per consumer, one action per step of the code, in the  *)
(* code's order, with an explicit action at every place where the code     *)
(* dereferences an OPTIONAL part of the document (a pointer field of       *)
(* schema.go / metadata.go, doc.Root(), an element of a possibly empty     *)
(* slice):                                                                 *)
(*                                                                         *)
(*   service_provider.go  ParseResponse / handleArtifactRequest /          *)
(*       parseResponseHTTP / ParseXMLArtifactResponse /                    *)
(*       parseArtifactResponse / ParseXMLResponse / parseResponse /        *)
(*       decryptElement / parseAssertion / validateAssertion /             *)
(*       validateAudienceRestriction                                       *)
(*   service_provider.go  ValidateLogoutResponseRequest / Form / Redirect /*)
(*       validateLogoutResponse                                            *)
(*   identity_provider.go NewIdpAuthnRequest / Validate / getACSEndpoint / *)
(*       ServeSSO / MakeAssertion / MakeAssertionEl / getSPEncryptionCert /*)
(*       PostBinding                                                       *)
(*   samlsp/fetch_metadata.go ParseMetadata / FetchMetadata,               *)
(*       samlidp/util.go getSPMetadata, ServeIDPInitiated,                 *)
(*       xml.Unmarshal into EntityDescriptor, and the SP's use of parsed   *)
(*       IdP metadata (getIDPSigningCerts, Get*BindingLocation)            *)
(*                                                                         *)
(* The document is a record of optional parts, each present or absent;     *)
(* every VALUE that is present is the valid one (right issuer, fresh       *)
(* instant, trusted signature re-applied after the parts were removed), so *)
(* that validation proceeds as deep as the absent parts allow.  The byte   *)
(* string is a framing class, the artifact resolver a behaviour class.     *)
(*                                                                         *)
(* Named deviations.                                                       *)
(*   Unguarded \subseteq Sites   dereference sites at which the modelled   *)
(*       code has NO guard (it panics when the part is absent).  The       *)
(*       REQUIRED design guards every site: the registered configurations  *)
(*       use {}.  Totality_pinned.cfg names the sites that were unguarded  *)
(*       on the pinned tree; TLC then refutes NoPanic.                     *)
(*   Unwrapped \subseteq Wrappers  functions that return their error       *)
(*       without wrapping it in InvalidResponseError ({} when registered). *)
(*                                                                         *)
(* The Properties section is written from the statement of C09 only.       *)
(***************************************************************************)
EXTENDS Integers, Sequences, FiniteSets, TLC, Json

CONSTANTS Tier, Unguarded, Unwrapped

\* dereference sites: <consumer>:<part whose absence reaches it>
Sites == {"RespRootNil",       \* ParseXMLResponse: doc.Root() of a rootless document
          "ArtRootNil",        \* ParseXMLArtifactResponse: doc.Root()
          "PlainRootNil",      \* decryptElement: doc.Root() of the decrypted plaintext
          "RespIssuerNil",     \* parseResponse: response.Issuer.Value
          "ArtIssuerNil",      \* parseArtifactResponse: artifactResponse.Issuer.Value
          "AssnSubjectNil",    \* validateAssertion: assertion.Subject.SubjectConfirmations
          "ConfDataNil",       \* validateAssertion: subjectConfirmation.SubjectConfirmationData.X
          "ConditionsNil",     \* validateAssertion: assertion.Conditions.NotBefore
          "LogoutRootNil",     \* ValidateLogoutResponseForm/Redirect: doc.Root()
          "LogoutIssuerNil",   \* validateLogoutResponse: resp.Issuer.Value
          "AuthnIssuerNil",    \* IdpAuthnRequest.Validate: req.Request.Issuer.Value
          "EncCertIndex",      \* getSPEncryptionCert: X509Certificates[0] of a use="encryption" descriptor
          "AnyCertIndex"}      \* getSPEncryptionCert: X509Certificates[0] of a descriptor without use
\* at these the design's guard means "no constraint, go on" (an absent Issuer is not compared, a
\* descriptor without certificate is passed over); at all others it means "reject"
SkipSites == {"RespIssuerNil", "ArtIssuerNil", "EncCertIndex", "AnyCertIndex"}

Wrappers == {"handleArtifactRequest", "parseResponseHTTP", "ParseXMLArtifactResponse",
             "parseArtifactResponse", "ParseXMLResponse"}

ASSUME Unguarded \subseteq Sites /\ Unwrapped \subseteq Wrappers

\* fired: the dereference sites reached, in order, whose part was absent (where unguarded code panics)
VARIABLES in, pc, sigReq, hasSig, ai, cj, firstFail, accepted, asn, err, verdict, step, fired
vars == <<in, pc, sigReq, hasSig, ai, cj, firstFail, accepted, asn, err, verdict, step, fired>>

----------------------------------------------------------------------------
(* the abstract documents *)

StatusCls == {"absent", "nocode", "ok"}      \* Status element / its StatusCode child
ConfSeqs  == { <<>>, <<"data">>, <<"nodata">>, <<"data", "data">>, <<"data", "nodata">>,
               <<"nodata", "data">>, <<"nodata", "nodata">> }
CondCls   == {"absent", "noaud", "aud"}      \* Conditions element / its AudienceRestriction
EncCls    == {"no", "yes"}

Assn(iss, subj, nid, confs, cond, authn, attr, sig, enc) ==
  [iss |-> iss, subj |-> subj, nameid |-> nid, confs |-> confs, cond |-> cond,
   authn |-> authn, attr |-> attr, sig |-> sig, enc |-> enc]
GoodAssn == Assn(TRUE, TRUE, TRUE, <<"data">>, "aud", TRUE, TRUE, TRUE, "no")

Resp(iss, dest, irt, status, sig, assns) ==
  [iss |-> iss, dest |-> dest, irt |-> irt, status |-> status, sig |-> sig, assns |-> assns]
GoodResp == Resp(TRUE, TRUE, TRUE, "ok", FALSE, <<GoodAssn>>)

Env(body, nar, iss, status, sig, irt, inner) ==
  [body |-> body, nar |-> nar, iss |-> iss, status |-> status, sig |-> sig, irt |-> irt, inner |-> inner]
GoodEnv == Env(TRUE, 1, TRUE, "ok", FALSE, TRUE, TRUE)

\* framing of the byte string handed to the entry point
FramingCls == {"ok", "empty", "rootless", "notxml", "notb64", "b64garbage", "bomb", "bombvalid",
               "truncdeflate", "unstable", "hugeattr", "deep"}
\* behaviour of the artifact resolution endpoint
ResCls == {"ok", "slow", "connerr", "non200", "empty", "truncated", "readerr", "soapfault",
           "wrongenvelope", "nobody", "twoAR", "garbage"}

RespEntries   == {"xml", "post", "artxml", "artifact"}
LogoutEntries == {"form", "redirect", "req-post", "req-get"}
AuthnEntries  == {"validate-get", "validate-post", "sso-get", "sso-post"}
SPMDEntries   == {"parse", "fetch", "unmarshal-sso", "put-sso", "unmarshal-make", "unmarshal-idpinit"}
IDPMDEntries  == {"parse-spuse"}

B64Entries     == {"post"} \cup LogoutEntries \cup AuthnEntries
DeflateEntries == {"redirect", "req-get", "validate-get", "sso-get"}

RespIn(fam, e, f, r, al, env, resp) ==
  [fam |-> fam, entry |-> e, framing |-> f, res |-> r, allowIdp |-> al, env |-> env, resp |-> resp]

Lo(iss, dest, status, sig, ii, irt) == [iss |-> iss, dest |-> dest, status |-> status, sig |-> sig, ii |-> ii, irt |-> irt]
GoodLo == Lo(TRUE, TRUE, "ok", TRUE, TRUE, TRUE)

Rq(iss, nip, dest, acsurl, acsidx, ver, ii, id, pb) ==
  [iss |-> iss, nip |-> nip, dest |-> dest, acsurl |-> acsurl, acsidx |-> acsidx, ver |-> ver, ii |-> ii, id |-> id, pb |-> pb]
GoodRq == Rq(TRUE, TRUE, TRUE, TRUE, FALSE, TRUE, TRUE, TRUE, TRUE)

\* KeyDescriptor: use attribute, how much of KeyInfo/X509Data/X509Certificate there is, EncryptionMethod
UseCls == {"none", "signing", "encryption"}
KiCls  == {"absent", "nodata", "c0", "c1", "c2"}     \* no KeyInfo | KeyInfo without X509Data | X509Data with 0..2 certificates
KD(use, ki, em) == [use |-> use, ki |-> ki, em |-> em]
KDAll   == { KD(u, k, e) : u \in UseCls, k \in KiCls, e \in BOOLEAN }
KDSmall == { KD(u, k, FALSE) : u \in UseCls, k \in {"c0", "c1"} }
NCerts(kd) == CASE kd.ki = "c1" -> 1 [] kd.ki = "c2" -> 2 [] OTHER -> 0

\* SP metadata as registered with the IdP
SPMD(wrap, nsp, acs, attrcs, kds) == [wrap |-> wrap, nsp |-> nsp, acs |-> acs, attrcs |-> attrcs, kds |-> kds]
GoodSPMD == SPMD("entity", 1, 1, "absent", <<>>)
\* IdP metadata as trusted by the SP
IDPMD(wrap, nidp, sso, kds) == [wrap |-> wrap, nidp |-> nidp, sso |-> sso, kds |-> kds]

----------------------------------------------------------------------------
(* input families *)

\* dependent parts are normalised: no Subject => no NameID and no confirmation
AssnParts(P(_)) ==
  \E iss \in BOOLEAN, subj \in BOOLEAN, nid \in BOOLEAN, cf \in ConfSeqs, cond \in CondCls,
     au \in BOOLEAN, at \in BOOLEAN, sg \in BOOLEAN, en \in EncCls :
       /\ (~subj => (~nid /\ cf = <<>>))
       /\ P(Assn(iss, subj, nid, cf, cond, au, at, sg, en))

RespParts(P(_, _, _, _, _)) ==
  \E iss \in BOOLEAN, dest \in BOOLEAN, irt \in BOOLEAN, st \in StatusCls, sg \in BOOLEAN : P(iss, dest, irt, st, sg)

NoSubj == [GoodAssn EXCEPT !.subj = FALSE, !.nameid = FALSE, !.confs = <<>>]
NoCond == [GoodAssn EXCEPT !.cond = "absent"]
NoData == [GoodAssn EXCEPT !.confs = <<"nodata">>]
\* an EncryptedAssertion whose plaintext has no element, or that lacks EncryptedData, CipherData,
\* the EncryptedKey or the EncryptionMethod
BadEncCls == {"rootless", "noencdata", "nocipher", "nokey", "nomethod"}
FewAssnSeqs == { <<>>, <<GoodAssn>>, <<[GoodAssn EXCEPT !.sig = FALSE]>>, <<NoSubj>>, <<[GoodAssn EXCEPT !.enc = "yes"]>>,
                 <<NoSubj, GoodAssn>>, <<GoodAssn, NoCond>>, <<NoData, NoCond>>,
                 <<[NoSubj EXCEPT !.enc = "yes"], GoodAssn>>, <<NoData, [GoodAssn EXCEPT !.enc = "yes"]>> }
               \cup { <<[GoodAssn EXCEPT !.enc = e]>> : e \in BadEncCls }
               \cup { <<GoodAssn, [GoodAssn EXCEPT !.enc = e]>> : e \in BadEncCls }

\* every subset of the assertion's parts, in a response that is otherwise complete
InitAssnFam(entries, allows) ==
  \E e \in entries, al \in allows, rs \in BOOLEAN :
    AssnParts(LAMBDA a : in = RespIn("assn", e, "ok", "ok", al, GoodEnv, [GoodResp EXCEPT !.sig = rs, !.assns = <<a>>]))

\* every subset of the response's parts around a few assertion sequences
InitRespFam(entries) ==
  \E e \in entries, al \in BOOLEAN, as \in FewAssnSeqs :
    RespParts(LAMBDA iss, dest, irt, st, sg : in = RespIn("resp", e, "ok", "ok", al, GoodEnv, Resp(iss, dest, irt, st, sg, as)))

\* the full cross product (thorough)
InitCrossFam ==
  \E al \in BOOLEAN :
    RespParts(LAMBDA iss, dest, irt, st, sg :
      AssnParts(LAMBDA a : in = RespIn("cross", "xml", "ok", "ok", al, GoodEnv, Resp(iss, dest, irt, st, sg, <<a>>))))

\* every subset of the SOAP envelope / ArtifactResponse parts; every resolver behaviour
InitArtFam ==
  \/ \E e \in {"artxml", "artifact"}, body \in BOOLEAN, nar \in 0..2, iss \in BOOLEAN, st \in StatusCls,
        sg \in BOOLEAN, irt \in BOOLEAN, inner \in BOOLEAN, ins \in {"resp", "assn", "none"} :
       /\ (~body => nar = 0)
       /\ in = RespIn("art", e, "ok", "ok", FALSE, Env(body, nar, iss, st, sg, irt, inner),
                      [GoodResp EXCEPT !.sig = (ins = "resp"), !.assns = <<[GoodAssn EXCEPT !.sig = (ins = "assn")]>>])
  \/ \E r \in ResCls :
       in = RespIn("resolver", "artifact", "ok", r, FALSE, GoodEnv, GoodResp)

Sensible(e, f) == /\ (f \in {"notb64", "b64garbage"} => e \in B64Entries)
                  /\ (f \in {"bomb", "bombvalid", "truncdeflate"} => e \in DeflateEntries)
FrameEntries == RespEntries \cup LogoutEntries \cup AuthnEntries \cup {"parse", "fetch", "put-sso", "unmarshal-sso"}
InitFrameFam ==
  \E e \in FrameEntries, f \in FramingCls :
    /\ Sensible(e, f)
    /\ in = [fam |-> "frame", entry |-> e, framing |-> f, res |-> "ok", allowIdp |-> FALSE, env |-> GoodEnv,
             resp |-> [GoodResp EXCEPT !.sig = TRUE], lo |-> GoodLo, rq |-> GoodRq, md |-> GoodSPMD]

InitLogoutFam ==
  \E e \in LogoutEntries, iss \in BOOLEAN, dest \in BOOLEAN, st \in StatusCls, sg \in BOOLEAN, ii \in BOOLEAN, irt \in BOOLEAN :
    in = [fam |-> "logout", entry |-> e, framing |-> "ok", lo |-> Lo(iss, dest, st, sg, ii, irt)]

InitAuthnFam ==
  \E e \in AuthnEntries, iss \in BOOLEAN, nip \in BOOLEAN, dest \in BOOLEAN, au \in BOOLEAN, ai_ \in BOOLEAN,
     ver \in BOOLEAN, ii \in BOOLEAN, id \in BOOLEAN, pb \in BOOLEAN :
    in = [fam |-> "authn", entry |-> e, framing |-> "ok", rq |-> Rq(iss, nip, dest, au, ai_, ver, ii, id, pb), md |-> GoodSPMD]

KDSeqs(full) == { <<>> } \cup { <<k>> : k \in KDAll }
                \cup (IF full THEN { <<k1, k2>> : k1 \in KDAll, k2 \in KDAll }
                              ELSE { <<k1, k2>> : k1 \in KDSmall, k2 \in KDSmall })

InitSPMDFam(full) ==
  \/ \E e \in SPMDEntries, w \in {"entity", "entities"}, acs \in 0..2, ac \in {"absent", "empty", "requested"}, ks \in KDSeqs(full) :
       in = [fam |-> "spmd", entry |-> e, framing |-> "ok", rq |-> GoodRq, md |-> SPMD(w, 1, acs, ac, ks)]
  \* no SPSSODescriptor at all; an EntitiesDescriptor with no entity
  \/ \E e \in SPMDEntries, w \in {"entity", "entities", "entities0", "nested"} :
       in = [fam |-> "spmd", entry |-> e, framing |-> "ok", rq |-> GoodRq, md |-> SPMD(w, IF w = "nested" THEN 1 ELSE 0, 0, "absent", <<>>)]

InitIDPMDFam(full) ==
  \/ \E w \in {"entity", "entities"}, sso \in BOOLEAN, ks \in KDSeqs(full) :
       in = [fam |-> "idpmd", entry |-> "parse-spuse", framing |-> "ok", md |-> IDPMD(w, 1, sso, ks)]
  \/ \E w \in {"entity", "entities", "entities0", "nested"} :
       in = [fam |-> "idpmd", entry |-> "parse-spuse", framing |-> "ok", md |-> IDPMD(w, IF w = "nested" THEN 1 ELSE 0, FALSE, <<>>)]

InitQ == \/ InitAssnFam({"xml"}, BOOLEAN)
         \/ InitAssnFam({"post", "artxml", "artifact"}, {FALSE})
         \/ InitRespFam(RespEntries)
         \/ InitArtFam \/ InitFrameFam \/ InitLogoutFam \/ InitAuthnFam
         \/ InitSPMDFam(FALSE) \/ InitIDPMDFam(FALSE)
InitT == \/ InitAssnFam(RespEntries, BOOLEAN)
         \/ InitRespFam(RespEntries)
         \/ InitCrossFam
         \/ InitArtFam \/ InitFrameFam \/ InitLogoutFam \/ InitAuthnFam
         \/ InitSPMDFam(TRUE) \/ InitIDPMDFam(TRUE)

IsResp   == in.entry \in RespEntries
IsLogout == in.entry \in LogoutEntries
IsAuthn  == in.entry \in AuthnEntries
IsSPMD   == in.entry \in SPMDEntries
IsIDPMD  == in.entry \in IDPMDEntries

Start == CASE in.entry = "artifact" -> "Resolve"
           [] in.entry \in {"req-post", "req-get"} -> "LoDispatch"
           [] in.entry \in B64Entries -> "B64"
           [] OTHER -> "XRV"

Init == /\ CASE Tier = "q" -> InitQ [] Tier = "t" -> InitT
        /\ pc = Start
        /\ sigReq = TRUE /\ hasSig = FALSE /\ ai = 1 /\ cj = 1 /\ firstFail = "none" /\ accepted = 0
        /\ asn = "nil" /\ err = "nil" /\ verdict = "none" /\ step = "none" /\ fired = <<>>

----------------------------------------------------------------------------
(* outcomes *)

Keep == UNCHANGED in
GotoF(l) == pc' = l /\ UNCHANGED <<sigReq, hasSig, ai, cj, firstFail, accepted, asn, err, verdict, step>>
Goto(l) == GotoF(l) /\ UNCHANGED fired

\* the wrapper through which an error of the response-parsing code reaches the caller
InnerWrapper == IF in.entry \in {"artxml", "artifact"} THEN "parseArtifactResponse" ELSE "ParseXMLResponse"
ErrKind(w) == IF w = "plain" \/ w \in Unwrapped THEN "plain" ELSE "IRE"

\* return an error through wrapper w ("plain": the code returns the bare error here)
RejectF(why, w) == /\ pc' = "done" /\ verdict' = "error" /\ step' = why /\ err' = ErrKind(w) /\ asn' = "nil"
                   /\ UNCHANGED <<sigReq, hasSig, ai, cj, firstFail, accepted>>
Reject(why, w) == RejectF(why, w) /\ UNCHANGED fired
Succeed == /\ pc' = "done" /\ verdict' = "ok" /\ step' = "none" /\ err' = "nil"
           /\ asn' = IF IsResp THEN "set" ELSE "nil"
           /\ UNCHANGED <<sigReq, hasSig, ai, cj, firstFail, accepted, fired>>
Panic(site) == /\ pc' = "Panic" /\ verdict' = "panic" /\ step' = site
               /\ fired' = Append(fired, site)
               /\ UNCHANGED <<sigReq, hasSig, ai, cj, firstFail, accepted, asn, err>>

\* a dereference of an optional part: unguarded code panics when the part is absent; the
\* design's guard either rejects or (SkipSites) imposes no constraint
Deref(site, absent, w, next) ==
  IF ~absent THEN Goto(next)
  ELSE IF site \in Unguarded THEN Panic(site)
  ELSE /\ fired' = Append(fired, site)
       /\ IF site \in SkipSites THEN GotoF(next) ELSE RejectF(site, w)

----------------------------------------------------------------------------
(* framing: base64, bounded inflate, round-trip validation, parse, root *)

\* the wrapper in force while the bytes are being decoded
OuterWrapper == CASE in.entry = "post" -> "parseResponseHTTP"
                  [] in.entry \in {"artxml", "artifact"} -> "ParseXMLArtifactResponse"
                  [] in.entry = "xml" -> "ParseXMLResponse"
                  [] OTHER -> "plain"

\* the body the resolver hands back, as a framing class of ParseXMLArtifactResponse's input
ResFraming == CASE in.res \in {"ok", "slow"} -> in.framing
                [] in.res = "empty" -> "empty"
                [] in.res \in {"truncated", "garbage"} -> "notxml"
                [] OTHER -> "ok"
EF == IF in.entry = "artifact" THEN ResFraming ELSE in.framing

\* handleArtifactRequest :750  transport errors, status, body read errors - all wrapped
Resolve == /\ pc = "Resolve" /\ Keep
           /\ IF in.res \in {"connerr", "non200", "readerr"} THEN Reject("Resolve", "handleArtifactRequest")
              ELSE Goto("XRV")

\* ValidateLogoutResponseRequest :1630  a non-empty query parameter selects the redirect decoder
LoDispatch == /\ pc = "LoDispatch" /\ Keep /\ Goto("B64")
LoPath == IF in.entry \in {"redirect", "req-get"} /\ ~(in.entry = "req-get" /\ in.framing = "empty") THEN "redirect" ELSE "form"

B64 == /\ pc = "B64" /\ Keep
       /\ IF EF = "notb64" THEN Reject("Base64", IF in.entry = "post" THEN "parseResponseHTTP" ELSE "plain")
          ELSE Goto(IF (IsLogout /\ LoPath = "redirect") \/ in.entry \in {"validate-get", "sso-get"} THEN "Inflate"
                    ELSE IF IsAuthn THEN "Validate" ELSE "XRV")
\* flate.go: raw deflate, refused beyond 10 MB
Inflate == /\ pc = "Inflate" /\ Keep
           /\ IF EF \in {"empty", "b64garbage", "bomb", "bombvalid", "truncdeflate"} THEN Reject("Inflate", "plain")
              ELSE Goto(IF IsAuthn THEN "Validate" ELSE "XRV")
\* NewIdpAuthnRequest has returned; Validate starts with the round-trip validator
Validate == /\ pc = "Validate" /\ Keep /\ Goto("XRV")

\* xml-roundtrip-validator (syntax errors and unstable tokens), then the parser
XRV == /\ pc = "XRV" /\ Keep
       /\ IF EF \in {"notxml", "b64garbage", "unstable"} THEN Reject("RoundTrip", OuterWrapper)
          ELSE Goto("Root")
\* doc.Root() / xml.Unmarshal of a document without an element
RootSite == CASE IsLogout -> "LogoutRootNil" [] in.entry \in {"artxml", "artifact"} -> "ArtRootNil" [] OTHER -> "RespRootNil"
Rootless == EF \in {"empty", "rootless"}
AfterRoot == CASE in.entry \in {"artxml", "artifact"} -> "Envelope"
               [] in.entry \in {"xml", "post"} -> "RSig"
               [] IsLogout -> "LoSig"
               [] IsAuthn -> "QUnmarshal"
               [] OTHER -> "MDParse"
Root == /\ pc = "Root" /\ Keep
        /\ IF IsResp \/ IsLogout THEN Deref(RootSite, Rootless, OuterWrapper, AfterRoot)
           \* encoding/xml reports EOF for a document without an element
           ELSE IF Rootless THEN Reject("NoRoot", "plain") ELSE Goto(AfterRoot)

----------------------------------------------------------------------------
(* ParseXMLArtifactResponse :831 / parseArtifactResponse :874 *)

E == in.env
EnvBad == in.entry = "artifact" /\ in.res = "wrongenvelope"
NoBody == ~E.body \/ (in.entry = "artifact" /\ in.res = "nobody")
NAR == IF in.entry = "artifact" /\ in.res = "soapfault" THEN 0
       ELSE IF in.entry = "artifact" /\ in.res = "twoAR" THEN 2 ELSE E.nar

Envelope == /\ pc = "Envelope" /\ Keep
            /\ IF EnvBad THEN Reject("Envelope", "ParseXMLArtifactResponse") ELSE Goto("Body")
Body == /\ pc = "Body" /\ Keep
        /\ IF NoBody THEN Reject("Body", "ParseXMLArtifactResponse") ELSE Goto("ArtResp")
\* exactly one ArtifactResponse
ArtResp == /\ pc = "ArtResp" /\ Keep
           /\ IF NAR # 1 THEN Reject("ArtifactResponse", "ParseXMLArtifactResponse") ELSE Goto("ArtIRT")
ArtIRT == /\ pc = "ArtIRT" /\ Keep
          /\ IF ~E.irt THEN Reject("ArtInResponseTo", "parseArtifactResponse") ELSE Goto("ArtIssuer")
\* :894 guarded: an absent Issuer imposes nothing
ArtIssuer == /\ pc = "ArtIssuer" /\ Keep
             /\ Deref("ArtIssuerNil", ~E.iss, "parseArtifactResponse", "ArtStatus")
\* :898 Status and StatusCode are values: absent ones read as ""
ArtStatus == /\ pc = "ArtStatus" /\ Keep
             /\ IF E.status # "ok" THEN Reject("ArtStatus", "parseArtifactResponse") ELSE Goto("ArtSig")
\* :904 a valid signature on the ArtifactResponse lifts the requirement from what is inside
ArtSig == /\ pc = "ArtSig" /\ Keep
          /\ sigReq' = ~E.sig /\ pc' = "ArtInner"
          /\ UNCHANGED <<hasSig, ai, cj, firstFail, accepted, asn, err, verdict, step, fired>>
ArtInner == /\ pc = "ArtInner" /\ Keep
            /\ IF ~E.inner THEN Reject("InnerResponse", "parseArtifactResponse") ELSE Goto("RSig")

----------------------------------------------------------------------------
(* parseResponse :988 *)

R == in.resp
\* the assertions in the order the code visits them: encrypted ones first
Enc(s)   == SelectSeq(s, LAMBDA a : a.enc # "no")
Plain(s) == SelectSeq(s, LAMBDA a : a.enc = "no")
Visit == Enc(R.assns) \o Plain(R.assns)
A == Visit[ai]

RSig == /\ pc = "RSig" /\ Keep
        /\ hasSig' = (sigReq /\ R.sig) /\ pc' = "RDest"
        /\ UNCHANGED <<sigReq, ai, cj, firstFail, accepted, asn, err, verdict, step, fired>>
\* :1010 Destination is mandatory on a signed Response
RDest == /\ pc = "RDest" /\ Keep
         /\ IF hasSig /\ ~R.dest THEN Reject("Destination", InnerWrapper) ELSE Goto("RReqID")
\* :1096 an absent InResponseTo is "" and matches no outstanding ID
RReqID == /\ pc = "RReqID" /\ Keep
          /\ IF ~in.allowIdp /\ ~R.irt THEN Reject("InResponseTo", InnerWrapper) ELSE Goto("RIssuer")
\* :1026 guarded
RIssuer == /\ pc = "RIssuer" /\ Keep
           /\ Deref("RespIssuerNil", ~R.iss, InnerWrapper, "RStatus")
RStatus == /\ pc = "RStatus" /\ Keep
           /\ IF R.status # "ok" THEN Reject("Status", InnerWrapper) ELSE Goto("RSigDecide")
RSigDecide == /\ pc = "RSigDecide" /\ Keep
              /\ sigReq' = (sigReq /\ ~R.sig)
              /\ pc' = IF Len(Visit) = 0 THEN "Finish" ELSE "ADecrypt"
              /\ UNCHANGED <<hasSig, ai, cj, firstFail, accepted, asn, err, verdict, step, fired>>

\* an assertion-level failure is remembered; the loop goes on with the next assertion
NextAssn == IF ai + 1 > Len(Visit) THEN "Finish" ELSE "ADecrypt"
FailAssnF(why) == /\ firstFail' = IF firstFail = "none" THEN why ELSE firstFail
                  /\ ai' = ai + 1 /\ cj' = 1 /\ pc' = NextAssn
                  /\ UNCHANGED <<sigReq, hasSig, accepted, asn, err, verdict, step>>
FailAssn(why) == FailAssnF(why) /\ UNCHANGED fired
DerefA(site, absent, next) ==
  IF ~absent THEN Goto(next)
  ELSE IF site \in Unguarded THEN Panic(site)
  ELSE FailAssnF(site) /\ fired' = Append(fired, site)

\* decryptElement :1125-1157 doc.Root() of the plaintext (an Assertion element, or a comment only;
\* C11 covers malformed ciphertext)
ADecrypt == /\ pc = "ADecrypt" /\ Keep
            /\ IF A.enc \in BadEncCls \ {"rootless"} THEN FailAssn("Decrypt")
               ELSE DerefA("PlainRootNil", A.enc = "rootless", "ASig")
\* parseAssertion :1161
ASig == /\ pc = "ASig" /\ Keep
        /\ IF sigReq /\ ~A.sig THEN FailAssn("AssnSignature") ELSE Goto("AIssuer")
\* :1189 Issuer is a value: absent reads as ""
AIssuer == /\ pc = "AIssuer" /\ Keep
           /\ IF ~A.iss THEN FailAssn("AssnIssuer") ELSE Goto("ASubject")
\* :1192 assertion.Subject.SubjectConfirmations
ASubject == /\ pc = "ASubject" /\ Keep
            /\ DerefA("AssnSubjectNil", ~A.subj, "AConf")
\* :1214 / :1223 subjectConfirmation.SubjectConfirmationData.InResponseTo / .Recipient
AConf == /\ pc = "AConf" /\ Keep
         /\ IF cj > Len(A.confs) THEN Goto("AConditions")
            ELSE IF A.confs[cj] = "nodata"
                   THEN DerefA("ConfDataNil", TRUE, "AConf")
                   ELSE /\ cj' = cj + 1
                        /\ UNCHANGED <<pc, sigReq, hasSig, ai, firstFail, accepted, asn, err, verdict, step, fired>>
\* :1230 assertion.Conditions.NotBefore
AConditions == /\ pc = "AConditions" /\ Keep
               /\ DerefA("ConditionsNil", A.cond = "absent", "AAudience")
\* :1251 no restriction, or the restriction names this SP
AAudience == /\ pc = "AAudience" /\ Keep
             /\ accepted' = IF accepted = 0 THEN ai ELSE accepted
             /\ ai' = ai + 1 /\ cj' = 1 /\ pc' = NextAssn
             /\ UNCHANGED <<sigReq, hasSig, firstFail, asn, err, verdict, step, fired>>
Finish == /\ pc = "Finish" /\ Keep
          /\ IF accepted # 0 THEN Succeed
             ELSE Reject(IF firstFail # "none" THEN firstFail ELSE "NoAssertion", InnerWrapper)

----------------------------------------------------------------------------
(* ValidateLogoutResponseForm :1644 / Redirect :1689 / validateLogoutResponse :1736 *)

L == in.lo
LoSig == /\ pc = "LoSig" /\ Keep
         /\ IF ~L.sig THEN Reject("SigAbsent", "plain") ELSE Goto("LoDest")
LoDest == /\ pc = "LoDest" /\ Keep
          /\ IF ~L.dest THEN Reject("Destination", "plain") ELSE Goto("LoTime")
\* an absent IssueInstant is the zero instant
LoTime == /\ pc = "LoTime" /\ Keep
          /\ IF ~L.ii THEN Reject("IssueInstant", "plain") ELSE Goto("LoIssuer")
LoIssuer == /\ pc = "LoIssuer" /\ Keep
            /\ Deref("LogoutIssuerNil", ~L.iss, "plain", "LoStatus")
LoStatus == /\ pc = "LoStatus" /\ Keep
            /\ IF L.status # "ok" THEN Reject("Status", "plain") ELSE Succeed

----------------------------------------------------------------------------
(* IdpAuthnRequest.Validate :396, getACSEndpoint :466, ServeSSO :228,      *)
(* MakeAssertion :563, MakeAssertionEl :859, getSPEncryptionCert :985      *)

Q == in.rq
M == in.md
IsSSO == in.entry \in {"sso-get", "sso-post", "unmarshal-sso", "put-sso", "unmarshal-make", "unmarshal-idpinit"}

QUnmarshal == /\ pc = "QUnmarshal" /\ Keep /\ Goto("QTime")
\* Destination is checked only when present (and is the SSO URL here)
QTime == /\ pc = "QTime" /\ Keep
         /\ IF ~Q.ii THEN Reject("IssueInstant", "plain") ELSE Goto("QVersion")
QVersion == /\ pc = "QVersion" /\ Keep
            /\ IF ~Q.ver THEN Reject("Version", "plain") ELSE Goto("QIssuer")
\* :446 req.Request.Issuer.Value
QIssuer == /\ pc = "QIssuer" /\ Keep
           /\ Deref("AuthnIssuerNil", ~Q.iss, "plain", "QACS")
\* :466 by index, by URL, else a default; every loop ranges over the registered descriptors
Selectable == M.nsp >= 1 /\ M.acs >= 1
QACS == /\ pc = "QACS" /\ Keep
        /\ IF ~Selectable THEN Reject("NoACS", "plain")
           ELSE IF IsSSO THEN Goto("MakeAssertion") ELSE Succeed
\* :563 ranges over AttributeConsumingServices (none: an empty one is used); NameIDPolicy is not consulted
MakeAssertion == /\ pc = "MakeAssertion" /\ Keep /\ Goto("EncCertUse")
\* :987 first descriptor with use="encryption": X509Certificates[0]
FirstEnc == { i \in DOMAIN M.kds : M.kds[i].use = "encryption" /\ \A h \in 1..(i - 1) : M.kds[h].use # "encryption" }
EncCertUse == /\ pc = "EncCertUse" /\ Keep
              /\ Deref("EncCertIndex", \E i \in FirstEnc : NCerts(M.kds[i]) = 0, "plain", "EncCertAny")
\* :997 guarded by a length test
EncCertAny == /\ pc = "EncCertAny" /\ Keep
              /\ Deref("AnyCertIndex", \E i \in DOMAIN M.kds : M.kds[i].use = "none" /\ NCerts(M.kds[i]) = 0, "plain", "Respond")
\* sign, encrypt when a certificate was found, build the form
Respond == /\ pc = "Respond" /\ Keep /\ Succeed

----------------------------------------------------------------------------
(* metadata parsers and the use of what they return *)

\* ParseMetadata / getSPMetadata look for an entity with the wanted role inside an EntitiesDescriptor
Wrapped == M.wrap # "entity"
HasRole == IF IsIDPMD THEN M.nidp >= 1 ELSE M.nsp >= 1
\* a nested EntitiesDescriptor is not searched
Findable == M.wrap = "entities" /\ HasRole
MDParse == /\ pc = "MDParse" /\ Keep
           /\ CASE in.entry \in {"parse", "fetch"} ->
                     \* samlsp.ParseMetadata on SP metadata: an EntityDescriptor is returned as it is; inside an
                     \* EntitiesDescriptor it wants an IDPSSODescriptor
                     IF Wrapped THEN Reject("NoEntity", "plain") ELSE Succeed
                [] in.entry = "put-sso" ->
                     IF Wrapped /\ ~Findable THEN Reject("NoEntity", "plain") ELSE Goto("MDLookup")
                [] in.entry \in {"unmarshal-sso", "unmarshal-make", "unmarshal-idpinit"} ->
                     \* xml.Unmarshal into EntityDescriptor refuses another root element
                     IF Wrapped THEN Reject("WrongRoot", "plain") ELSE Goto("MDLookup")
                [] in.entry = "parse-spuse" ->
                     IF Wrapped /\ ~Findable THEN Reject("NoEntity", "plain") ELSE Goto("SPUse")
\* the metadata is registered; a valid AuthnRequest arrives
MDLookup == /\ pc = "MDLookup" /\ Keep /\ Goto("QACS")

\* the SP trusts the parsed IdP metadata: requests are made (Get*BindingLocation range over the
\* descriptors - nothing is indexed), then a validly signed response is parsed: getIDPSigningCerts
\* :379 ranges over the certificates of the descriptors with use "signing" or none
SigningKDs == { i \in DOMAIN M.kds : M.kds[i].use \in {"none", "signing"} }
SPUse == /\ pc = "SPUse" /\ Keep /\ Goto("SPTrust")
SPTrust == /\ pc = "SPTrust" /\ Keep
           /\ IF M.nidp >= 1 /\ \E i \in SigningKDs : NCerts(M.kds[i]) >= 1 THEN Succeed
              ELSE Reject("NoSigningCert", "plain")

----------------------------------------------------------------------------
Terminated == pc \in {"done", "Panic"} /\ UNCHANGED vars

Next == \/ Resolve \/ LoDispatch \/ B64 \/ Inflate \/ Validate \/ XRV \/ Root
        \/ Envelope \/ Body \/ ArtResp \/ ArtIRT \/ ArtIssuer \/ ArtStatus \/ ArtSig \/ ArtInner
        \/ RSig \/ RDest \/ RReqID \/ RIssuer \/ RStatus \/ RSigDecide
        \/ ADecrypt \/ ASig \/ AIssuer \/ ASubject \/ AConf \/ AConditions \/ AAudience \/ Finish
        \/ LoSig \/ LoDest \/ LoTime \/ LoIssuer \/ LoStatus
        \/ QUnmarshal \/ QTime \/ QVersion \/ QIssuer \/ QACS \/ MakeAssertion \/ EncCertUse \/ EncCertAny \/ Respond
        \/ MDParse \/ MDLookup \/ SPUse \/ SPTrust
        \/ Terminated
Spec == Init /\ [][Next]_vars

----------------------------------------------------------------------------
(* Properties - from the statement of C09 *)

Done == pc = "done"

\* "it never panics": no behaviour reaches the panic sink.  ("never hangs": every state other
\* than a terminal one has a successor - TLC's deadlock check, which stays switched on.)
NoPanic == pc # "Panic"

\* "returns normally with either a result or an error"
ResultOrError == Done => verdict \in {"ok", "error"} /\ (verdict = "error" <=> err # "nil")

\* "Response-parsing failures are reported as InvalidResponseError ... the assertion is nil exactly
\* when the error is non-nil, and the same holds when artifact resolution over HTTP fails or
\* returns garbage" - the three response-parsing entry points, all four ways of reaching them
AssertionIffNoError == Done /\ IsResp => (asn = "nil" <=> err # "nil")
ErrorShape == Done /\ IsResp /\ err # "nil" => err = "IRE"

\* "deflated inputs are refused beyond 10 MB inflated"
BombRefused == Done /\ in.framing \in {"bomb", "bombvalid"} => verdict = "error"

\* the statement fixes the verdict only for the inflate bound; everything else is an
\* obligation to return (class Total), whatever the verdict
Class == IF in.framing \in {"bomb", "bombvalid"} THEN "MustReject" ELSE "Total"

Emit == Done => PrintT(<<"VEC", ToJson([prop |-> "C09", in |-> in, class |-> Class,
                                        pred |-> [verdict |-> verdict, step |-> step, err |-> err,
                                                  fired |-> fired]])>>)
=============================================================================
