---------------------------- MODULE RepoLockTrace ----------------------------
(***************************************************************************)
(* C20, reverse direction, on executions nobody wrote for this framework:  *)
(* the repository's OWN samlidp test suite is run with the `verif` build   *)
(* tag and a recorder installed in samlidp.VerifHook; every lock operation *)
(* and guarded map access of the server and the in-memory store becomes    *)
(* one line {g, ev, res, m} (goroutine, event, resource, mutex), in the    *)
(* order the hook was entered (acquisitions are announced after the lock   *)
(* is held, releases before it is given up - so the recorded order is a    *)
(* legal order of the real lock history).                                  *)
(*                                                                         *)
(* The specification is Go's sync.RWMutex as the code relies on it: one    *)
(* writer or any number of readers; a goroutine that asks for a lock it    *)
(* already holds (in either mode) can deadlock (RLock under RLock too:     *)
(* a writer queued in between blocks the second RLock for ever); a guarded *)
(* map is read only under its mutex (any mode) and written only under the  *)
(* write lock; at the end of the run every mutex is free.  A line is       *)
(* consumed only if its action is enabled: the trace is accepted iff every *)
(* line is consumed and the final state is free (harness phase             *)
(* repo-suite-lock-trace).                                                 *)
(***************************************************************************)
EXTENDS Integers, Sequences, FiniteSets, TLC, Json

Trace == ndJsonDeserialize("repolocks.ndjson")

Gs == { Trace[i].g : i \in DOMAIN Trace }
Ms == { Trace[i].m : i \in DOMAIN Trace }

VARIABLES l,   \* next line
          w,   \* mutex -> goroutine holding the write lock, 0 if none
          r    \* mutex -> goroutine -> read locks held
vars == <<l, w, r>>

Init == /\ TLCSet(1, 0) /\ l = 1
        /\ w = [m \in Ms |-> 0]
        /\ r = [m \in Ms |-> [g \in Gs |-> 0]]

E == Trace[l]
Holds(g, m)  == w[m] = g \/ r[m][g] > 0
NoReaders(m) == \A g \in Gs : r[m][g] = 0
Consume == l' = l + 1

Request ==
  /\ E.ev \in {"lock-req", "rlock-req"}
  /\ ~Holds(E.g, E.m)                      \* asking again for a mutex one holds: self-deadlock
  /\ Consume /\ UNCHANGED <<w, r>>
LockAcq ==
  /\ E.ev = "lock-acq"
  /\ w[E.m] = 0 /\ NoReaders(E.m)
  /\ w' = [w EXCEPT ![E.m] = E.g] /\ Consume /\ UNCHANGED r
RLockAcq ==
  /\ E.ev = "rlock-acq"
  /\ w[E.m] = 0
  /\ r' = [r EXCEPT ![E.m][E.g] = @ + 1] /\ Consume /\ UNCHANGED w
Unlock ==
  /\ E.ev = "unlock"
  /\ w[E.m] = E.g
  /\ w' = [w EXCEPT ![E.m] = 0] /\ Consume /\ UNCHANGED r
RUnlock ==
  /\ E.ev = "runlock"
  /\ r[E.m][E.g] > 0
  /\ r' = [r EXCEPT ![E.m][E.g] = @ - 1] /\ Consume /\ UNCHANGED w
Read ==
  /\ E.ev \in {"read", "read-end"}
  /\ Holds(E.g, E.m)
  /\ Consume /\ UNCHANGED <<w, r>>
Write ==
  /\ E.ev \in {"write", "write-end"}
  /\ w[E.m] = E.g
  /\ Consume /\ UNCHANGED <<w, r>>
\* after the last line: nothing is held any more
End ==
  /\ l = Len(Trace) + 1
  /\ \A m \in Ms : w[m] = 0 /\ NoReaders(m)
  /\ Consume /\ UNCHANGED <<w, r>>

Next == \/ l <= Len(Trace) /\ (Request \/ LockAcq \/ RLockAcq \/ Unlock \/ RUnlock \/ Read \/ Write)
        \/ End
Spec == Init /\ [][Next]_vars

\* invariants of every reached state (redundant with the guards; they name what the guards protect)
MutualExclusion == \A m \in Ms : w[m] # 0 => NoReaders(m)
Counts          == \A m \in Ms, g \in Gs : r[m][g] >= 0

HighWater == TLCSet(1, IF TLCGet(1) < l THEN l ELSE TLCGet(1))
Accepted  == /\ PrintT(<<"TRACES", Len(Trace)>>) /\ PrintT(<<"CONSUMED", TLCGet(1) - 1>>)
             /\ TLCGet(1) = Len(Trace) + 2
=============================================================================
